(* Binary/BinTree_proofs.v — C12 at tree level: the update of Binary/BinTree.v keeps the
   canonical shape, refines a map model (set / delete / delete_subtrie with refusals), canonical
   trees are determined by their lookup function, [bbuild] builds the canonical tree of a binding
   list, hence the root hash is a function of the contents alone. *)
From Coq Require Import List NArith ZArith Bool Arith Lia ZifyBool.
From Coq.Init Require Import Byte.
From PyTrie.Base Require Import Bytes Bytes_proofs Result.
From PyTrie.Binary Require Import BinEnc BinEnc_proofs BinTree.
Import ListNotations.
Local Open Scope nat_scope.

(* ------------------------------------------------------------------ *)
(* definitions *)

Definition is_bprefix (a b : bits) : Prop := exists r, b = a ++ r.

Definition is_tkv (t : bt) : bool := match t with TKV _ _ => true | _ => false end.

(* the shape invariant: leaves carry non-empty values, a kv node has a non-empty path and its
   child is not a kv node *)
Fixpoint bcanon (t : bt) : bool :=
  match t with
  | TLeafB v => match v with [] => false | _ => true end
  | TKV p c => match p with [] => false | _ => true end && negb (is_tkv c) && bcanon c
  | TBranchB l r => bcanon l && bcanon r
  end.
Definition ocanon (t : option bt) : bool := match t with Some t => bcanon t | None => true end.

(* k is a proper prefix or a proper extension of a stored key *)
Definition bconflict (t : bt) (k : bits) : Prop :=
  exists s, btget t s <> None /\ s <> k /\ (is_bprefix s k \/ is_bprefix k s).
Definition oconflict (t : option bt) (k : bits) : Prop :=
  exists s, obtget t s <> None /\ s <> k /\ (is_bprefix s k \/ is_bprefix k s).

(* ------------------------------------------------------------------ *)
(* bit strings *)

Lemma bits_eqb_refl a : bits_eqb a a = true.
Proof. apply bits_eqb_eq. reflexivity. Qed.

Lemma bits_eqb_neq a b : bits_eqb a b = false <-> a <> b.
Proof.
  split.
  - intros H E. apply bits_eqb_eq in E. congruence.
  - intro H. destruct (bits_eqb a b) eqn:E; [|reflexivity]. apply bits_eqb_eq in E. contradiction.
Qed.

Lemma bstarts_iff q p : bstarts q p = true <-> is_bprefix p q.
Proof.
  unfold bstarts, is_bprefix. split.
  - intro H. apply bits_eqb_eq in H. exists (skipn (length p) q).
    rewrite <- H at 1. symmetry. apply firstn_skipn.
  - intros [r ->]. rewrite firstn_app_exact. apply bits_eqb_refl.
Qed.

Lemma bstarts_app p r : bstarts (p ++ r) p = true.
Proof. apply bstarts_iff. exists r. reflexivity. Qed.

Lemma bstarts_nil q : bstarts q [] = true.
Proof. reflexivity. Qed.

Lemma bstarts_false q p : bstarts q p = false <-> ~ is_bprefix p q.
Proof.
  split.
  - intros H E. apply bstarts_iff in E. congruence.
  - intro H. destruct (bstarts q p) eqn:E; [|reflexivity]. apply bstarts_iff in E. contradiction.
Qed.

Lemma bstarts_app_app p a b : bstarts (p ++ a) (p ++ b) = bstarts a b.
Proof.
  destruct (bstarts a b) eqn:E.
  - apply bstarts_iff in E as [r ->]. apply bstarts_iff. exists r. apply app_assoc.
  - apply bstarts_false. intros [r Hr]. rewrite <- app_assoc in Hr. apply app_inv_head in Hr.
    apply bstarts_false in E. apply E. exists r. exact Hr.
Qed.

Lemma bits_eqb_app_app p a b : bits_eqb (p ++ a) (p ++ b) = bits_eqb a b.
Proof.
  destruct (bits_eqb a b) eqn:E.
  - apply bits_eqb_eq in E as ->. apply bits_eqb_refl.
  - apply bits_eqb_neq. intro H. apply app_inv_head in H. apply bits_eqb_neq in E. contradiction.
Qed.

Lemma bstarts_prefix_trans q a b : bstarts q (a ++ b) = true -> bstarts q a = true.
Proof.
  intro H. apply bstarts_iff in H as [r ->]. apply bstarts_iff. exists (b ++ r). symmetry. apply app_assoc.
Qed.

Lemma skipn_app_app {A} (p a : list A) n : skipn (length p + n) (p ++ a) = skipn n a.
Proof. induction p as [|x p IH]; [reflexivity|exact IH]. Qed.

Lemma is_bprefix_refl a : is_bprefix a a.
Proof. exists []. symmetry. apply app_nil_r. Qed.

Lemma is_bprefix_app p a b : is_bprefix (p ++ a) (p ++ b) <-> is_bprefix a b.
Proof.
  split; intros [r Hr].
  - rewrite <- app_assoc in Hr. apply app_inv_head in Hr. exists r. exact Hr.
  - exists r. rewrite Hr. apply app_assoc.
Qed.

(* two prefixes of the same string are comparable *)
Lemma is_bprefix_comparable a b q : is_bprefix a q -> is_bprefix b q -> is_bprefix a b \/ is_bprefix b a.
Proof.
  revert b q. induction a as [|x a IH]; intros b q [ra Ha] [rb Hb].
  - left. exists b. reflexivity.
  - destruct b as [|y b].
    + right. exists (x :: a). reflexivity.
    + subst q. cbn [app] in Hb. injection Hb as Hxy Hb. subst y.
      destruct (IH b (a ++ ra)) as [[r Hr]|[r Hr]].
      * exists ra. reflexivity.
      * exists rb. exact Hb.
      * left. exists r. cbn [app]. rewrite Hr. reflexivity.
      * right. exists r. cbn [app]. rewrite Hr. reflexivity.
Qed.

Lemma is_bprefix_length a b : is_bprefix a b -> length a <= length b.
Proof. intros [r ->]. rewrite app_length. lia. Qed.

Lemma is_bprefix_antisym a b : is_bprefix a b -> is_bprefix b a -> a = b.
Proof.
  intros [r Hr] Hb. apply is_bprefix_length in Hb. subst b. rewrite app_length in Hb.
  destruct r as [|x r]; [symmetry; apply app_nil_r|cbn [length] in Hb; lia].
Qed.

(* ------------------------------------------------------------------ *)
(* lookup *)

Definition tkv0 (p : bits) (c : bt) : bt := match p with [] => c | _ => TKV p c end.
Definition tkvm (p : bits) (s : bt) : bt := match s with TKV sl sr => TKV (p ++ sl) sr | _ => TKV p s end.

Lemma btget_TKV p c q : p <> [] ->
  btget (TKV p c) q = if bstarts q p then btget c (skipn (length p) q) else None.
Proof.
  intro Hp. destruct q as [|x q]; [|reflexivity].
  cbn [btget]. unfold bstarts. rewrite firstn_nil. destruct p as [|y p]; [contradiction|reflexivity].
Qed.

Lemma btget_tkv0 p c q : btget (tkv0 p c) q = if bstarts q p then btget c (skipn (length p) q) else None.
Proof.
  destruct p as [|y p]; [reflexivity|]. apply btget_TKV. discriminate.
Qed.

Lemma tkv0_TKV p c : p <> [] -> TKV p c = tkv0 p c.
Proof. destruct p; [contradiction|reflexivity]. Qed.

Lemma btget_tkv0_app a b c y : btget (tkv0 (a ++ b) c) (a ++ y) = btget (tkv0 b c) y.
Proof.
  rewrite !btget_tkv0, bstarts_app_app, app_length, skipn_app_app. reflexivity.
Qed.

Lemma btget_TKV_app p c r : p <> [] -> btget (TKV p c) (p ++ r) = btget c r.
Proof. intro Hp. rewrite btget_TKV, bstarts_app, skipn_app_exact by exact Hp. reflexivity. Qed.

Lemma btget_TKV_some p c q : p <> [] -> btget (TKV p c) q <> None ->
  exists r, q = p ++ r /\ btget c r <> None.
Proof.
  intros Hp H. rewrite btget_TKV in H by exact Hp. destruct (bstarts q p) eqn:E; [|contradiction].
  apply bstarts_iff in E as [r ->]. rewrite skipn_app_exact in H. exists r. split; [reflexivity|exact H].
Qed.

Lemma btget_tkv0_leaf k v q : btget (tkv0 k (TLeafB v)) q = if bits_eqb q k then Some v else None.
Proof.
  rewrite btget_tkv0. destruct (bstarts q k) eqn:E.
  - apply bstarts_iff in E as [r ->]. rewrite skipn_app_exact.
    destruct r as [|x r].
    + rewrite app_nil_r, bits_eqb_refl. reflexivity.
    + cbn [btget]. symmetry. replace (bits_eqb (k ++ x :: r) k) with false; [reflexivity|].
      symmetry. apply bits_eqb_neq. intro H. rewrite <- (app_nil_r k) in H at 2.
      apply app_inv_head in H. discriminate H.
  - replace (bits_eqb q k) with false; [reflexivity|]. symmetry. apply bits_eqb_neq. intros ->.
    apply bstarts_false in E. apply E. apply is_bprefix_refl.
Qed.

Lemma bcanon_TKV p c : bcanon (TKV p c) = true -> p <> [] /\ is_tkv c = false /\ bcanon c = true.
Proof.
  cbn [bcanon]. intro H. apply andb_true_iff in H as [H H3]. apply andb_true_iff in H as [H1 H2].
  split; [|split].
  - intros ->. discriminate H1.
  - destruct (is_tkv c); [discriminate H2|reflexivity].
  - exact H3.
Qed.

Lemma bcanon_TKV_intro p c : p <> [] -> is_tkv c = false -> bcanon c = true -> bcanon (TKV p c) = true.
Proof.
  intros Hp H1 H2. cbn [bcanon]. rewrite H1, H2. destruct p; [contradiction|reflexivity].
Qed.

Lemma bcanon_branch l r : bcanon (TBranchB l r) = true -> bcanon l = true /\ bcanon r = true.
Proof. cbn [bcanon]. intro H. apply andb_true_iff in H. exact H. Qed.

Lemma tkv0_canon p s : is_tkv s = false -> bcanon s = true -> bcanon (tkv0 p s) = true.
Proof.
  intros H1 H2. destruct p as [|x p]; [exact H2|]. apply bcanon_TKV_intro; [discriminate|exact H1|exact H2].
Qed.

Lemma tkvm_canon p s : p <> [] -> bcanon s = true -> bcanon (tkvm p s) = true.
Proof.
  intros Hp Hs. destruct s as [v|sl sr|l r]; cbn [tkvm].
  - apply bcanon_TKV_intro; [exact Hp|reflexivity|exact Hs].
  - apply bcanon_TKV in Hs as [H1 [H2 H3]]. apply bcanon_TKV_intro; [|exact H2|exact H3].
    intro H. apply app_eq_nil in H as [H _]. contradiction.
  - apply bcanon_TKV_intro; [exact Hp|reflexivity|exact Hs].
Qed.

Lemma tkvm_get p s q : p <> [] -> bcanon s = true -> btget (tkvm p s) q = btget (TKV p s) q.
Proof.
  intros Hp Hs. destruct s as [v|sl sr|l r]; cbn [tkvm]; try reflexivity.
  apply bcanon_TKV in Hs as [H1 _].
  assert (Hpl : p ++ sl <> []) by (intro H; apply app_eq_nil in H as [H _]; contradiction).
  rewrite (btget_TKV (p ++ sl)) by exact Hpl. rewrite (btget_TKV p) by exact Hp.
  destruct (bstarts q p) eqn:E.
  - apply bstarts_iff in E as [r ->]. rewrite bstarts_app_app, skipn_app_exact, app_length, skipn_app_app.
    rewrite btget_TKV by exact H1. reflexivity.
  - destruct (bstarts q (p ++ sl)) eqn:E2; [|reflexivity].
    apply bstarts_prefix_trans in E2. congruence.
Qed.

Lemma bt_nonempty t : bcanon t = true -> exists s, btget t s <> None.
Proof.
  induction t as [v|p c IHc|l IHl r IHr]; intro H.
  - exists []. discriminate.
  - apply bcanon_TKV in H as [Hp [_ Hc]]. destruct (IHc Hc) as [s Hs].
    exists (p ++ s). rewrite btget_TKV_app by exact Hp. exact Hs.
  - apply bcanon_branch in H as [Hl _]. destruct (IHl Hl) as [s Hs]. exists (false :: s). exact Hs.
Qed.

(* stored keys are prefix free *)
Lemma bt_prefix_free t : bcanon t = true -> forall a b,
  btget t a <> None -> btget t b <> None -> is_bprefix a b -> a = b.
Proof.
  induction t as [v|p c IHc|l IHl r IHr]; intros H a b Ha Hb Hab.
  - destruct a as [|x a]; [|exfalso; apply Ha; reflexivity].
    destruct b as [|y b]; [reflexivity|exfalso; apply Hb; reflexivity].
  - apply bcanon_TKV in H as [Hp [_ Hc]].
    apply btget_TKV_some in Ha as [ra [-> Ha]]; [|exact Hp].
    apply btget_TKV_some in Hb as [rb [-> Hb]]; [|exact Hp].
    apply (proj1 (is_bprefix_app p ra rb)) in Hab. f_equal. exact (IHc Hc ra rb Ha Hb Hab).
  - apply bcanon_branch in H as [Hl Hr].
    destruct a as [|x a]; [exfalso; apply Ha; reflexivity|].
    destruct b as [|y b]; [exfalso; apply Hb; reflexivity|].
    destruct Hab as [rr Hrr]. cbn [app] in Hrr. injection Hrr as Hxy Hrr. subst y.
    cbn [btget] in Ha, Hb. f_equal.
    destruct x; [apply IHr|apply IHl]; try assumption; exists rr; exact Hrr.
Qed.

(* ------------------------------------------------------------------ *)
(* bcommon_len *)

Lemma bcommon_len_firstn p k : bcommon_len p (firstn (length p) k) = bcommon_len p k.
Proof.
  revert k. induction p as [|x p IH]; intros [|y k]; cbn [length firstn bcommon_len]; try reflexivity.
  destruct (Bool.eqb x y); [rewrite IH|]; reflexivity.
Qed.

Lemma bcommon_len_split p : forall k, exists cp p' k',
   p = cp ++ p' /\ k = cp ++ k' /\ bcommon_len p k = length cp /\
   (p' = [] \/ k' = [] \/ exists x p2 k2, p' = x :: p2 /\ k' = negb x :: k2).
Proof.
  induction p as [|x p IH]; intros k.
  - exists [], [], k. split; [reflexivity|]. split; [reflexivity|]. split; [reflexivity|]. left; reflexivity.
  - destruct k as [|y k].
    + exists [], (x :: p), []. split; [reflexivity|]. split; [reflexivity|]. split; [reflexivity|].
      right; left; reflexivity.
    + cbn [bcommon_len]. destruct (Bool.eqb x y) eqn:E.
      * apply Bool.eqb_prop in E. subst y. destruct (IH k) as [cp [p' [k' [H1 [H2 [H3 H4]]]]]].
        exists (x :: cp), p', k'. cbn [app length]. rewrite <- H1, <- H2, H3.
        split; [reflexivity|]. split; [reflexivity|]. split; [reflexivity|]. exact H4.
      * exists [], (x :: p), (y :: k). split; [reflexivity|]. split; [reflexivity|]. split; [reflexivity|].
        right; right. exists x, p, k. split; [reflexivity|].
        destruct x, y; try discriminate E; reflexivity.
Qed.

Lemma bcommon_len_diff cp x p2 k2 : bcommon_len (cp ++ x :: p2) (cp ++ negb x :: k2) = length cp.
Proof.
  induction cp as [|y cp IH]; cbn [app bcommon_len length].
  - destruct x; reflexivity.
  - rewrite Bool.eqb_reflx, IH. reflexivity.
Qed.

Lemma bcommon_len_app_l k r : bcommon_len (k ++ r) k = length k.
Proof.
  induction k as [|y k IH]; cbn [app bcommon_len length].
  - destruct r; reflexivity.
  - rewrite Bool.eqb_reflx, IH. reflexivity.
Qed.

(* ------------------------------------------------------------------ *)
(* one-step unfoldings of btset *)

Lemma btset_TKV_starts p c k' v ds : p <> [] ->
  btset (TKV p c) (p ++ k') v ds =
  match btset c k' v ds with
  | Err e => Err e
  | Ok None => Ok None
  | Ok (Some s) => Ok (Some (tkvm p s))
  end.
Proof.
  intro Hp.
  assert (Hk : p ++ k' <> []) by (intro H; apply app_eq_nil in H as [H _]; contradiction).
  destruct (p ++ k') as [|k0 ks] eqn:Ek; [contradiction|].
  cbn [btset]. rewrite <- Ek.
  replace (Nat.ltb (length (p ++ k')) (length p)) with false
    by (symmetry; apply Nat.ltb_ge; rewrite app_length; lia).
  rewrite andb_false_r. cbn [andb]. rewrite bstarts_app, skipn_app_exact.
  destruct (btset c k' v ds) as [[[v1|sl sr|l r]|]|e]; reflexivity.
Qed.

Lemma btset_branch l r b k' v ds :
  btset (TBranchB l r) (b :: k') v ds =
  match btset (if b then r else l) k' v ds with
  | Err e => Err e
  | Ok (Some s) => Ok (Some (if b then TBranchB l s else TBranchB s r))
  | Ok None => Ok (Some (tkvm [negb b] (if b then l else r)))
  end.
Proof.
  cbn [btset]. destruct b; destruct (btset _ k' v ds) as [[s|]|e]; reflexivity.
Qed.

Lemma btset_TKV_cut p c k v ds : k <> [] ->
  (ds && Nat.ltb (length k) (length p) && bits_eqb k (firstn (length k) p))%bool = true ->
  btset (TKV p c) k v ds = Ok None.
Proof.
  intros Hk H. destruct k as [|k0 ks]; [contradiction|]. cbn [btset]. rewrite H. reflexivity.
Qed.

Lemma btset_TKV_nostart_del p c k ds : k <> [] -> bstarts k p = false ->
  (ds && Nat.ltb (length k) (length p) && bits_eqb k (firstn (length k) p))%bool = false ->
  btset (TKV p c) k [] ds = Ok (Some (TKV p c)).
Proof.
  intros Hk Hs H. destruct k as [|k0 ks]; [contradiction|]. cbn [btset]. rewrite H, Hs. reflexivity.
Qed.

Lemma btset_TKV_prefix k r c v0 vs : k <> [] -> r <> [] ->
  btset (TKV (k ++ r) c) k (v0 :: vs) false = Err ENodeOverride.
Proof.
  intros Hk Hr.
  assert (Hs : bstarts k (k ++ r) = false).
  { apply bstarts_false. intro H. apply is_bprefix_length in H. rewrite app_length in H.
    destruct r; [contradiction|cbn [length] in H; lia]. }
  assert (Hc : bcommon_len (k ++ r) (firstn (length (k ++ r)) k) = length k)
    by (rewrite bcommon_len_firstn; apply bcommon_len_app_l).
  destruct k as [|k0 ks]; [contradiction|]. cbn [btset andb]. rewrite Hs, Hc.
  replace (Nat.eqb (length (k0 :: ks)) (length (k0 :: ks) + 1)) with false by (symmetry; apply Nat.eqb_neq; lia).
  rewrite Nat.leb_refl. reflexivity.
Qed.

Lemma skipn_middle {A} (cp : list A) y r : skipn (length cp + 1) (cp ++ y :: r) = r.
Proof. rewrite skipn_app_app. reflexivity. Qed.

Lemma btset_TKV_split cp x p2 k2 c v0 vs :
  btset (TKV (cp ++ x :: p2) c) (cp ++ negb x :: k2) (v0 :: vs) false =
  Ok (Some (tkv0 cp (if negb x then TBranchB (tkv0 p2 c) (tkv0 k2 (TLeafB (v0 :: vs)))
                     else TBranchB (tkv0 k2 (TLeafB (v0 :: vs))) (tkv0 p2 c)))).
Proof.
  remember (cp ++ x :: p2) as p eqn:Ep. remember (cp ++ negb x :: k2) as k eqn:Ek.
  assert (Hns : bstarts k p = false).
  { apply bstarts_false. intros [r Hr]. rewrite Ek, Ep in Hr. rewrite <- app_assoc in Hr. apply app_inv_head in Hr.
    cbn [app] in Hr. injection Hr as Hx _. destruct x; discriminate Hx. }
  assert (Hcpl : bcommon_len p (firstn (length p) k) = length cp)
    by (rewrite bcommon_len_firstn, Ep, Ek; apply bcommon_len_diff).
  assert (Hlk : length k = length cp + 1 + length k2) by (rewrite Ek, app_length; cbn [length]; lia).
  assert (Hlp : length p = length cp + 1 + length p2) by (rewrite Ep, app_length; cbn [length]; lia).
  assert (Hsk : skipn (length cp + 1) k = k2) by (rewrite Ek; apply skipn_middle).
  assert (Hsp : skipn (length cp + 1) p = p2) by (rewrite Ep; apply skipn_middle).
  assert (Hnth : nth (length cp) k false = negb x) by (rewrite Ek; apply nth_middle).
  assert (Hfp : firstn (length cp) p = cp) by (rewrite Ep; apply firstn_app_exact).
  clear Ep Ek.
  destruct k as [|k0 ks]; [cbn [length] in Hlk; lia|].
  cbn [btset andb]. remember (k0 :: ks) as k eqn:Ek. clear Ek k0 ks.
  rewrite Hns, Hcpl, Hsk, Hsp, Hnth.
  replace (Nat.leb (length k) (length cp)) with false by (symmetry; apply Nat.leb_gt; lia).
  rewrite andb_false_r.
  replace (if Nat.eqb (length k) (length cp + 1) then TLeafB (v0 :: vs) else TKV k2 (TLeafB (v0 :: vs)))
    with (tkv0 k2 (TLeafB (v0 :: vs))).
  2:{ destruct k2 as [|z k2]; cbn [tkv0 length] in *.
      - replace (Nat.eqb (length k) (length cp + 1)) with true by (symmetry; apply Nat.eqb_eq; lia). reflexivity.
      - replace (Nat.eqb (length k) (length cp + 1)) with false by (symmetry; apply Nat.eqb_neq; lia). reflexivity. }
  replace (if Nat.eqb (length p) (length cp + 1) then c else TKV p2 c) with (tkv0 p2 c).
  2:{ destruct p2 as [|z p2]; cbn [tkv0 length] in *.
      - replace (Nat.eqb (length p) (length cp + 1)) with true by (symmetry; apply Nat.eqb_eq; lia). reflexivity.
      - replace (Nat.eqb (length p) (length cp + 1)) with false by (symmetry; apply Nat.eqb_neq; lia). reflexivity. }
  destruct cp as [|c0 cp]; [reflexivity|].
  rewrite Hfp. reflexivity.
Qed.

(* ------------------------------------------------------------------ *)
(* the map-level effect of one call *)

Definition bspec (k : bits) (v : bytes) (ds : bool) (f : bits -> option bytes) (q : bits) : option bytes :=
  if ds then (if bstarts q k then None else f q)
  else if bits_eqb q k then (match v with [] => None | _ => Some v end) else f q.

(* what is known when the call is refused *)
Definition berr (k : bits) (v : bytes) (ds : bool) (t : bt) : Prop :=
  (v = [] -> btget t k = None) /\
  (ds = true -> forall q, bstarts q k = true -> btget t q = None) /\
  (v <> [] -> bconflict t k).

Lemma bspec_ext k v ds f g q : f q = g q -> bspec k v ds f q = bspec k v ds g q.
Proof. intro H. unfold bspec. rewrite H. reflexivity. Qed.

Lemma bspec_app p k v ds f q : bspec (p ++ k) v ds f (p ++ q) = bspec k v ds (fun x => f (p ++ x)) q.
Proof. unfold bspec. rewrite bstarts_app_app, bits_eqb_app_app. reflexivity. Qed.

Lemma bspec_nostart p k v ds f q : bstarts q p = false -> bspec (p ++ k) v ds f q = f q.
Proof.
  intro H. unfold bspec.
  replace (bstarts q (p ++ k)) with false.
  2:{ symmetry. destruct (bstarts q (p ++ k)) eqn:E; [|reflexivity]. apply bstarts_prefix_trans in E. congruence. }
  replace (bits_eqb q (p ++ k)) with false.
  2:{ symmetry. apply bits_eqb_neq. intros ->. rewrite bstarts_app in H. discriminate H. }
  destruct ds; reflexivity.
Qed.

Lemma tkv_bspec p c k' v ds (g : bits -> option bytes) q : p <> [] ->
  (forall q', g q' = bspec k' v ds (btget c) q') ->
  bspec (p ++ k') v ds (btget (TKV p c)) q = if bstarts q p then g (skipn (length p) q) else None.
Proof.
  intros Hp Hg. destruct (bstarts q p) eqn:E.
  - apply bstarts_iff in E as [r ->]. rewrite skipn_app_exact, bspec_app, Hg.
    apply bspec_ext. apply btget_TKV_app. exact Hp.
  - rewrite bspec_nostart by exact E. rewrite btget_TKV, E by exact Hp. reflexivity.
Qed.

Lemma split_canon cp x p2 k2 c v : v <> [] -> is_tkv c = false -> bcanon c = true ->
  bcanon (tkv0 cp (if negb x then TBranchB (tkv0 p2 c) (tkv0 k2 (TLeafB v))
                   else TBranchB (tkv0 k2 (TLeafB v)) (tkv0 p2 c))) = true.
Proof.
  intros Hv H1 H2.
  assert (Ha : bcanon (tkv0 p2 c) = true) by (apply tkv0_canon; assumption).
  assert (Hb : bcanon (tkv0 k2 (TLeafB v)) = true).
  { apply tkv0_canon; [reflexivity|]. destruct v; [contradiction|reflexivity]. }
  apply tkv0_canon; destruct x; cbn [negb is_tkv bcanon]; rewrite ?Ha, ?Hb; reflexivity.
Qed.

Lemma split_get cp x p2 k2 c v q : v <> [] ->
  btget (tkv0 cp (if negb x then TBranchB (tkv0 p2 c) (tkv0 k2 (TLeafB v))
                  else TBranchB (tkv0 k2 (TLeafB v)) (tkv0 p2 c))) q =
  bspec (cp ++ negb x :: k2) v false (btget (TKV (cp ++ x :: p2) c)) q.
Proof.
  intro Hv.
  rewrite (tkv0_TKV (cp ++ x :: p2)) by (intro H; apply app_eq_nil in H as [_ H]; discriminate H).
  rewrite btget_tkv0.
  destruct (bstarts q cp) eqn:E.
  - apply bstarts_iff in E as [q1 ->]. rewrite skipn_app_exact, bspec_app.
    change (negb x :: k2) with ([negb x] ++ k2).
    destruct q1 as [|y q2].
    + rewrite bspec_nostart by reflexivity. rewrite btget_tkv0_app. destruct x; reflexivity.
    + destruct (Bool.eqb y x) eqn:Eyx.
      * apply Bool.eqb_prop in Eyx. subst y.
        rewrite bspec_nostart by (destruct x; reflexivity).
        rewrite btget_tkv0_app.
        change (x :: p2) with ([x] ++ p2). change (x :: q2) with ([x] ++ q2). rewrite btget_tkv0_app.
        destruct x; reflexivity.
      * assert (Hy : y = negb x) by (destruct x, y; try discriminate Eyx; reflexivity). subst y.
        change (negb x :: q2) with ([negb x] ++ q2). rewrite bspec_app.
        transitivity (btget (tkv0 k2 (TLeafB v)) q2); [destruct x; reflexivity|].
        rewrite btget_tkv0_leaf. unfold bspec.
        destruct (bits_eqb q2 k2); [destruct v; [contradiction|reflexivity]|].
        rewrite btget_tkv0_app, btget_tkv0.
        replace (bstarts ([negb x] ++ q2) (x :: p2)) with false; [reflexivity|].
        unfold bstarts. cbn [length firstn app bits_eqb]. destruct x; reflexivity.
  - rewrite bspec_nostart by exact E. rewrite btget_tkv0.
    replace (bstarts q (cp ++ x :: p2)) with false; [reflexivity|].
    symmetry. destruct (bstarts q (cp ++ x :: p2)) eqn:E2; [|reflexivity].
    apply bstarts_prefix_trans in E2. congruence.
Qed.

(* ------------------------------------------------------------------ *)
(* the general one-call specification (all three entry points) *)

Lemma btset_spec v ds (Hds : ds = true -> v = []) : forall t k, bcanon t = true ->
  match btset t k v ds with
  | Ok t' => ocanon t' = true /\ (forall q, obtget t' q = bspec k v ds (btget t) q)
  | Err e => e = ENodeOverride /\ berr k v ds t
  end.
Proof.
  induction t as [w|p c IHc|l IHl r IHr]; intros k Hc.
  - (* leaf *)
    destruct k as [|k0 ks]; cbn [btset].
    + destruct ds.
      * split; [reflexivity|]. intro q. reflexivity.
      * destruct v as [|b0 vs].
        -- split; [reflexivity|]. intro q. destruct q; reflexivity.
        -- split; [reflexivity|]. intro q. destruct q; reflexivity.
    + split; [reflexivity|]. split; [|split].
      * intros _. reflexivity.
      * intros _ q Hq. destruct q as [|y q]; [discriminate Hq|reflexivity].
      * intros _. exists []. split; [discriminate|]. split; [discriminate|].
        left. exists (k0 :: ks). reflexivity.
  - (* kv *)
    pose proof Hc as Hct.
    apply bcanon_TKV in Hc as [Hp [Hnk Hcc]].
    destruct k as [|k0 ks].
    + cbn [btset]. destruct ds.
      * split; [reflexivity|]. intro q. reflexivity.
      * split; [reflexivity|]. split; [|split].
        -- intros _. reflexivity.
        -- intro H; discriminate H.
        -- intros _. destruct (bt_nonempty (TKV p c) Hct) as [s Hs].
           exists s. split; [exact Hs|]. split.
           ++ intros ->. apply Hs. reflexivity.
           ++ right. exists s. reflexivity.
    + remember (k0 :: ks) as k eqn:Ek. assert (Hk : k <> []) by (subst k; discriminate). clear Ek k0 ks.
      destruct (bstarts k p) eqn:Es.
      * (* the key continues below the path *)
        apply bstarts_iff in Es as [k' ->]. rewrite btset_TKV_starts by exact Hp.
        specialize (IHc k' Hcc). destruct (btset c k' v ds) as [[s|]|e].
        -- destruct IHc as [Hs Hg]. cbn [ocanon obtget] in Hs, Hg. split.
           ++ cbn [ocanon]. apply tkvm_canon; assumption.
           ++ intro q. cbn [obtget]. rewrite tkvm_get by assumption.
              rewrite (tkv_bspec p c k' v ds (btget s) q Hp Hg). apply btget_TKV. exact Hp.
        -- destruct IHc as [_ Hg]. cbn [obtget] in Hg. split; [reflexivity|].
           intro q. cbn [obtget]. rewrite (tkv_bspec p c k' v ds (fun _ => None) q Hp Hg).
           destruct (bstarts q p); reflexivity.
        -- destruct IHc as [He [H1 [H2 H3]]]. split; [exact He|]. split; [|split].
           ++ intro Hv. rewrite btget_TKV_app by exact Hp. apply H1. exact Hv.
           ++ intros Hd q Hq. apply bstarts_iff in Hq as [rr ->].
              rewrite <- app_assoc, btget_TKV_app by exact Hp. apply H2; [exact Hd|apply bstarts_app].
           ++ intro Hv. destruct (H3 Hv) as [s [Hs1 [Hs2 Hs3]]]. exists (p ++ s).
              split; [rewrite btget_TKV_app by exact Hp; exact Hs1|]. split.
              ** intro H. apply app_inv_head in H. contradiction.
              ** destruct Hs3 as [Hs3|Hs3]; [left|right]; apply is_bprefix_app; exact Hs3.
      * destruct (ds && Nat.ltb (length k) (length p) && bits_eqb k (firstn (length k) p))%bool eqn:Ec1.
        -- (* delete_subtrie cuts the whole node *)
           rewrite btset_TKV_cut by assumption.
           apply andb_true_iff in Ec1 as [Ec1 Ec3]. apply andb_true_iff in Ec1 as [Ed Ec2]. subst ds.
           apply bits_eqb_eq in Ec3.
           split; [reflexivity|]. intro q. cbn [obtget]. unfold bspec.
           destruct (bstarts q k) eqn:Eq; [reflexivity|]. rewrite btget_TKV by exact Hp.
           destruct (bstarts q p) eqn:Eqp; [|reflexivity]. exfalso.
           rewrite <- (firstn_skipn (length k) p), <- Ec3 in Eqp.
           apply bstarts_prefix_trans in Eqp. congruence.
        -- destruct v as [|v0 vs].
           ++ (* nothing to delete *)
              rewrite btset_TKV_nostart_del by assumption.
              split; [exact Hct|]. intro q. cbn [obtget]. unfold bspec. destruct ds.
              ** destruct (bstarts q k) eqn:Eq; [|reflexivity]. rewrite btget_TKV by exact Hp.
                 destruct (bstarts q p) eqn:Eqp; [|reflexivity]. exfalso.
                 apply bstarts_iff in Eq. apply bstarts_iff in Eqp.
                 destruct (is_bprefix_comparable k p q Eq Eqp) as [Hkp|Hpk].
                 --- cbn [andb] in Ec1. destruct Hkp as [rr ->].
                     rewrite firstn_app_exact, bits_eqb_refl, andb_true_r in Ec1.
                     apply Nat.ltb_ge in Ec1. rewrite app_length in Ec1.
                     destruct rr as [|z rr]; [|cbn [length] in Ec1; lia].
                     rewrite app_nil_r in Es. apply bstarts_false in Es. apply Es. apply is_bprefix_refl.
                 --- apply bstarts_iff in Hpk. congruence.
              ** destruct (bits_eqb q k) eqn:Eq; [|reflexivity]. apply bits_eqb_eq in Eq. subst q.
                 rewrite btget_TKV, Es by exact Hp. reflexivity.
           ++ destruct ds; [discriminate (Hds eq_refl)|].
              destruct (bcommon_len_split p k) as [cp [p' [k' [E1 [E2 [_ E3]]]]]].
              destruct E3 as [E3|[E3|[x [p2 [k2 [E3 E4]]]]]].
              ** subst p'. rewrite app_nil_r in E1. subst cp k. rewrite bstarts_app in Es. discriminate Es.
              ** (* k is a proper prefix of the path *)
                 subst k'. rewrite app_nil_r in E2. subst cp p.
                 assert (Hp' : p' <> []).
                 { intros ->. rewrite app_nil_r in Es. apply bstarts_false in Es. apply Es. apply is_bprefix_refl. }
                 rewrite btset_TKV_prefix by assumption. split; [reflexivity|]. split; [|split].
                 --- intro H; discriminate H.
                 --- intro H; discriminate H.
                 --- intros _. destruct (bt_nonempty _ Hct) as [s Hs]. exists s. split; [exact Hs|].
                     apply btget_TKV_some in Hs as [rr [-> Hrr]]; [|exact Hp]. split.
                     +++ intro H. apply (f_equal (@length bool)) in H. rewrite !app_length in H.
                         destruct p'; [contradiction|cbn [length] in H; lia].
                     +++ right. exists (p' ++ rr). symmetry. apply app_assoc.
              ** (* the path is split *)
                 subst p' k' p k. rewrite btset_TKV_split. split.
                 --- cbn [ocanon]. apply split_canon; [discriminate|assumption|assumption].
                 --- intro q. cbn [obtget]. apply split_get. discriminate.
  - (* branch *)
    pose proof Hc as Hct.
    apply bcanon_branch in Hc as [Hl Hr].
    destruct k as [|b k'].
    + cbn [btset]. destruct ds.
      * split; [reflexivity|]. intro q. reflexivity.
      * split; [reflexivity|]. split; [|split].
        -- intros _. reflexivity.
        -- intro H; discriminate H.
        -- intros _. destruct (bt_nonempty _ Hct) as [s Hs].
           exists s. split; [exact Hs|]. split.
           ++ intros ->. apply Hs. reflexivity.
           ++ right. exists s. reflexivity.
    + rewrite btset_branch.
      assert (IH : match btset (if b then r else l) k' v ds with
                   | Ok t' => ocanon t' = true /\ (forall q, obtget t' q = bspec k' v ds (btget (if b then r else l)) q)
                   | Err e => e = ENodeOverride /\ berr k' v ds (if b then r else l)
                   end) by (destruct b; [apply IHr|apply IHl]; assumption).
      assert (Hsub : bcanon (if b then r else l) = true) by (destruct b; assumption).
      assert (Hoth : bcanon (if b then l else r) = true) by (destruct b; assumption).
      change (b :: k') with ([b] ++ k').
      destruct (btset (if b then r else l) k' v ds) as [[s|]|e].
      * destruct IH as [Hs Hg]. cbn [ocanon obtget] in Hs, Hg. split.
        -- cbn [ocanon]. destruct b; cbn [bcanon]; rewrite Hs, ?Hl, ?Hr; reflexivity.
        -- intro q. cbn [obtget]. destruct q as [|y q'].
           ++ rewrite bspec_nostart by reflexivity. destruct b; reflexivity.
           ++ destruct (Bool.eqb y b) eqn:Eyb.
              ** apply Bool.eqb_prop in Eyb. subst y. change (b :: q') with ([b] ++ q'). rewrite bspec_app.
                 transitivity (btget s q'); [destruct b; reflexivity|]. rewrite Hg.
                 apply bspec_ext. destruct b; reflexivity.
              ** rewrite bspec_nostart by (destruct y, b; try discriminate Eyb; reflexivity).
                 destruct y, b; try discriminate Eyb; reflexivity.
      * destruct IH as [_ Hg]. cbn [obtget] in Hg. split.
        -- cbn [ocanon]. apply tkvm_canon; [discriminate|exact Hoth].
        -- intro q. cbn [obtget]. rewrite tkvm_get by (try discriminate; exact Hoth).
           destruct q as [|y q'].
           ++ rewrite bspec_nostart by reflexivity. destruct b; reflexivity.
           ++ destruct (Bool.eqb y b) eqn:Eyb.
              ** apply Bool.eqb_prop in Eyb. subst y. change (b :: q') with ([b] ++ q'). rewrite bspec_app.
                 transitivity (@None bytes); [destruct b; reflexivity|]. rewrite (Hg q').
                 apply bspec_ext. destruct b; reflexivity.
              ** rewrite bspec_nostart by (destruct y, b; try discriminate Eyb; reflexivity).
                 destruct y, b; try discriminate Eyb; reflexivity.
      * destruct IH as [He [H1 [H2 H3]]]. split; [exact He|]. split; [|split].
        -- intro Hv. cbn [app btget]. apply H1. exact Hv.
        -- intros Hd q Hq. destruct q as [|y q']; [reflexivity|].
           apply bstarts_iff in Hq as [rr Hrr]. cbn [app] in Hrr. injection Hrr as Hy Hq. subst y q'.
           cbn [btget]. apply H2; [exact Hd|apply bstarts_app].
        -- intro Hv. destruct (H3 Hv) as [s [Hs1 [Hs2 Hs3]]]. exists (b :: s).
           split; [exact Hs1|]. split.
           ++ intro H. cbn [app] in H. injection H as H. contradiction.
           ++ destruct Hs3 as [[rr Hrr]|[rr Hrr]]; [left|right]; exists rr; cbn [app]; rewrite Hrr; reflexivity.
Qed.

(* ------------------------------------------------------------------ *)
(* 1. set of a non-empty value (no side condition on k is needed at tree level) *)

Lemma bspec_set k v f q : v <> [] -> bspec k v false f q = if bits_eqb q k then Some v else f q.
Proof. intro Hv. unfold bspec. destruct v; [contradiction|reflexivity]. Qed.

Theorem btset_set t k v : bcanon t = true -> v <> [] ->
  (bconflict t k -> btset t k v false = Err ENodeOverride) /\
  (~ bconflict t k ->
   exists t', btset t k v false = Ok (Some t') /\ bcanon t' = true /\
              forall q, btget t' q = if bits_eqb q k then Some v else btget t q).
Proof.
  intros Hc Hv.
  pose proof (btset_spec v false (fun H => False_ind _ (diff_false_true H)) t k Hc) as H.
  destruct (btset t k v false) as [[t'|]|e].
  - destruct H as [Hs Hg]. cbn [ocanon obtget] in Hs, Hg. split.
    + intros [s [Hs1 [Hs2 Hs3]]]. exfalso. apply Hs2.
      assert (Hk : btget t' k <> None) by (rewrite Hg, bspec_set, bits_eqb_refl by exact Hv; discriminate).
      assert (Hs' : btget t' s <> None).
      { rewrite Hg, bspec_set by exact Hv. apply bits_eqb_neq in Hs2. rewrite Hs2. exact Hs1. }
      destruct Hs3 as [Hs3|Hs3].
      * apply (bt_prefix_free t' Hs s k Hs' Hk Hs3).
      * symmetry. apply (bt_prefix_free t' Hs k s Hk Hs' Hs3).
    + intros _. exists t'. split; [reflexivity|]. split; [exact Hs|].
      intro q. rewrite Hg. apply bspec_set. exact Hv.
  - exfalso. destruct H as [_ Hg]. specialize (Hg k). rewrite bspec_set, bits_eqb_refl in Hg by exact Hv.
    discriminate Hg.
  - destruct H as [He [_ [_ H3]]]. subst e. split; [reflexivity|].
    intro Hn. exfalso. apply Hn. apply H3. exact Hv.
Qed.

(* 2. delete *)
Theorem btset_delete t k : bcanon t = true ->
  match btset t k [] false with
  | Ok t' => ocanon t' = true /\ forall q, obtget t' q = if bits_eqb q k then None else btget t q
  | Err e => e = ENodeOverride /\ btget t k = None
  end.
Proof.
  intro Hc.
  pose proof (btset_spec [] false (fun _ => eq_refl) t k Hc) as H.
  destruct (btset t k [] false) as [t'|e].
  - exact H.
  - destruct H as [He [H1 _]]. split; [exact He|]. apply H1. reflexivity.
Qed.

(* 3. delete_subtrie: a refusal happens only when nothing starts with p *)
Theorem btset_delete_subtrie t p : bcanon t = true ->
  match btset t p [] true with
  | Ok t' => ocanon t' = true /\ forall q, obtget t' q = if bstarts q p then None else btget t q
  | Err e => e = ENodeOverride /\ forall q, bstarts q p = true -> btget t q = None
  end.
Proof.
  intro Hc.
  pose proof (btset_spec [] true (fun _ => eq_refl) t p Hc) as H.
  destruct (btset t p [] true) as [t'|e].
  - exact H.
  - destruct H as [He [_ [H2 _]]]. split; [exact He|]. apply H2. reflexivity.
Qed.

(* ------------------------------------------------------------------ *)
(* 4. lifting to the API level *)

Definition bop_key (o : btop) : bits := match o with BTSet k _ | BTDel k | BTDelSub k => k end.

Lemma obtset_spec v ds (Hds : ds = true -> v = []) t k : ocanon t = true -> k <> [] ->
  match obtset t k v ds with
  | Ok t' => ocanon t' = true /\ (forall q, obtget t' q = bspec k v ds (obtget t) q)
  | Err e => e = ENodeOverride /\ exists t0, t = Some t0 /\ berr k v ds t0
  end.
Proof.
  intros Hc Hk. destruct t as [t0|]; cbn [obtset].
  - pose proof (btset_spec v ds Hds t0 k Hc) as H. destruct (btset t0 k v ds) as [t'|e]; [exact H|].
    destruct H as [He Hb]. split; [exact He|]. exists t0. split; [reflexivity|exact Hb].
  - destruct v as [|v0 vs].
    + split; [reflexivity|]. intro q. unfold bspec. cbn [obtget].
      destruct ds; [destruct (bstarts q k)|destruct (bits_eqb q k)]; reflexivity.
    + destruct ds; [discriminate (Hds eq_refl)|]. destruct k as [|k0 ks]; [contradiction|]. split.
      * reflexivity.
      * intro q. cbn [obtget]. rewrite (tkv0_TKV (k0 :: ks)) by discriminate.
        rewrite btget_tkv0_leaf. reflexivity.
Qed.

Theorem btapply_canon t o : ocanon t = true -> bop_key o <> [] -> ocanon (btapply t o) = true.
Proof.
  intros Hc Hk. unfold btapply. destruct o as [k v|k|k]; cbn [bop_key] in Hk.
  - assert (Hds : false = true -> v = []) by (intro H; discriminate H).
    pose proof (obtset_spec v false Hds t k Hc Hk) as H.
    destruct (obtset t k v false) as [t'|e]; [apply H|exact Hc].
  - pose proof (obtset_spec [] false (fun _ => eq_refl) t k Hc Hk) as H.
    destruct (obtset t k [] false) as [t'|e]; [apply H|exact Hc].
  - pose proof (obtset_spec [] true (fun _ => eq_refl) t k Hc Hk) as H.
    destruct (obtset t k [] true) as [t'|e]; [apply H|exact Hc].
Qed.

(* any call that raises leaves the trie unchanged (by definition of the API wrapper) *)
Lemma btapply_refused t o e :
  match o with
  | BTSet k v => obtset t k v false
  | BTDel k => obtset t k [] false
  | BTDelSub k => obtset t k [] true
  end = Err e -> btapply t o = t.
Proof. intro H. unfold btapply. rewrite H. reflexivity. Qed.

Theorem btapply_set t k v : ocanon t = true -> k <> [] -> v <> [] ->
  (oconflict t k -> obtset t k v false = Err ENodeOverride /\ btapply t (BTSet k v) = t) /\
  (~ oconflict t k ->
   exists t', obtset t k v false = Ok (Some t') /\ btapply t (BTSet k v) = Some t' /\
   forall q, btget t' q = if bits_eqb q k then Some v else obtget t q).
Proof.
  intros Hc Hk Hv. unfold btapply. destruct t as [t0|].
  - cbn [obtset obtget]. destruct (btset_set t0 k v Hc Hv) as [H1 H2]. split.
    + intro Hcf. rewrite (H1 Hcf). split; reflexivity.
    + intro Hn. destruct (H2 Hn) as [t' [E [_ Hg]]]. exists t'. rewrite E.
      split; [reflexivity|]. split; [reflexivity|exact Hg].
  - split.
    + intros [s [Hs _]]. exfalso. apply Hs. reflexivity.
    + intros _. cbn [obtset obtget]. destruct v as [|v0 vs]; [contradiction|].
      destruct k as [|k0 ks]; [contradiction|]. eexists. split; [reflexivity|]. split; [reflexivity|].
      intro q. rewrite (tkv0_TKV (k0 :: ks)) by discriminate. apply btget_tkv0_leaf.
Qed.

(* deleting: whether or not the call is refused, the result is the map with k removed *)
Theorem btapply_del t k : ocanon t = true -> k <> [] ->
  forall q, obtget (btapply t (BTDel k)) q = if bits_eqb q k then None else obtget t q.
Proof.
  intros Hc Hk q. unfold btapply.
  pose proof (obtset_spec [] false (fun _ => eq_refl) t k Hc Hk) as H.
  destruct (obtset t k [] false) as [t'|e].
  - destruct H as [_ Hg]. apply Hg.
  - destruct H as [_ [t0 [-> [H1 _]]]]. cbn [obtget].
    destruct (bits_eqb q k) eqn:E; [|reflexivity]. apply bits_eqb_eq in E. subst q. apply H1. reflexivity.
Qed.

Theorem btapply_del_refused t k e : ocanon t = true -> k <> [] ->
  obtset t k [] false = Err e -> e = ENodeOverride /\ obtget t k = None.
Proof.
  intros Hc Hk E.
  pose proof (obtset_spec [] false (fun _ => eq_refl) t k Hc Hk) as H. rewrite E in H.
  destruct H as [He [t0 [-> [H1 _]]]]. split; [exact He|]. apply H1. reflexivity.
Qed.

Theorem btapply_delsub t p : ocanon t = true -> p <> [] ->
  forall q, obtget (btapply t (BTDelSub p)) q = if bstarts q p then None else obtget t q.
Proof.
  intros Hc Hk q. unfold btapply.
  pose proof (obtset_spec [] true (fun _ => eq_refl) t p Hc Hk) as H.
  destruct (obtset t p [] true) as [t'|e].
  - destruct H as [_ Hg]. apply Hg.
  - destruct H as [_ [t0 [-> [_ [H2 _]]]]]. cbn [obtget].
    destruct (bstarts q p) eqn:E; [|reflexivity]. apply H2; [reflexivity|exact E].
Qed.

Theorem btapply_delsub_refused t p e : ocanon t = true -> p <> [] ->
  obtset t p [] true = Err e -> e = ENodeOverride /\ forall q, bstarts q p = true -> obtget t q = None.
Proof.
  intros Hc Hk E.
  pose proof (obtset_spec [] true (fun _ => eq_refl) t p Hc Hk) as H. rewrite E in H.
  destruct H as [He [t0 [-> [_ [H2 _]]]]]. split; [exact He|]. apply H2. reflexivity.
Qed.

Definition bops_ok (ops : list btop) : Prop := Forall (fun o => bop_key o <> []) ops.

Lemma fold_btapply_canon ops : bops_ok ops -> forall t, ocanon t = true -> ocanon (fold_left btapply ops t) = true.
Proof.
  induction ops as [|o ops IH]; intros Hk t Hc; [exact Hc|].
  cbn [fold_left]. apply IH.
  - exact (Forall_inv_tail Hk).
  - apply btapply_canon; [exact Hc|exact (Forall_inv Hk)].
Qed.

Theorem btrun_canon ops : bops_ok ops -> ocanon (btrun ops) = true.
Proof. intro Hk. unfold btrun. apply fold_btapply_canon; [exact Hk|reflexivity]. Qed.

(* the reference map model: an association list *)
Fixpoint mget (m : bbindings) (q : bits) : option bytes :=
  match m with
  | [] => None
  | e :: m' => if bits_eqb q (fst e) then Some (snd e) else mget m' q
  end.
Definition mremove (k : bits) (m : bbindings) : bbindings :=
  filter (fun e : bits * bytes => negb (bits_eqb (fst e) k)) m.
Definition mremove_sub (p : bits) (m : bbindings) : bbindings :=
  filter (fun e : bits * bytes => negb (bstarts (fst e) p)) m.
(* k is a proper prefix or a proper extension of a stored key *)
Definition mconflict (m : bbindings) (k : bits) : bool :=
  existsb (fun e : bits * bytes => negb (bits_eqb (fst e) k) && (bstarts k (fst e) || bstarts (fst e) k)) m.
Definition mstep (m : bbindings) (o : btop) : bbindings :=
  match o with
  | BTSet k [] => mremove k m
  | BTSet k v => if mconflict m k then m else (k, v) :: mremove k m
  | BTDel k => mremove k m
  | BTDelSub p => mremove_sub p m
  end.
Definition mrun (ops : list btop) : bbindings := fold_left mstep ops [].

Lemma mget_filter (P : bits -> bool) m q :
  mget (filter (fun e : bits * bytes => P (fst e)) m) q = if P q then mget m q else None.
Proof.
  induction m as [|e m IH]; cbn [filter mget].
  - destruct (P q); reflexivity.
  - destruct (P (fst e)) eqn:Ek; cbn [mget]; rewrite IH.
    + destruct (bits_eqb q (fst e)) eqn:E; [|reflexivity].
      apply bits_eqb_eq in E. subst q. rewrite Ek. reflexivity.
    + destruct (bits_eqb q (fst e)) eqn:E; [|reflexivity].
      apply bits_eqb_eq in E. subst q. rewrite Ek. reflexivity.
Qed.

Lemma mget_remove k m q : mget (mremove k m) q = if bits_eqb q k then None else mget m q.
Proof.
  unfold mremove. rewrite (mget_filter (fun s => negb (bits_eqb s k))). destruct (bits_eqb q k); reflexivity.
Qed.

Lemma mget_remove_sub p m q : mget (mremove_sub p m) q = if bstarts q p then None else mget m q.
Proof.
  unfold mremove_sub. rewrite (mget_filter (fun s => negb (bstarts s p))). destruct (bstarts q p); reflexivity.
Qed.

Lemma mget_some_iff m s : mget m s <> None <-> exists e, In e m /\ fst e = s.
Proof.
  induction m as [|e m IH]; cbn [mget In].
  - split; [intro H; contradiction|intros [e [[] _]]].
  - destruct (bits_eqb s (fst e)) eqn:E.
    + apply bits_eqb_eq in E. split; [|discriminate]. intros _. exists e. split; [left; reflexivity|congruence].
    + apply bits_eqb_neq in E. rewrite IH. split; intros [e' [H1 H2]].
      * exists e'. split; [right; exact H1|exact H2].
      * destruct H1 as [H1|H1]; [subst e'; congruence|]. exists e'. split; assumption.
Qed.

Lemma mconflict_iff m k :
  mconflict m k = true <-> exists s, mget m s <> None /\ s <> k /\ (is_bprefix s k \/ is_bprefix k s).
Proof.
  unfold mconflict. rewrite existsb_exists. split.
  - intros [e [Hin H]]. apply andb_true_iff in H as [H1 H2]. exists (fst e). split; [|split].
    + apply mget_some_iff. exists e. split; [exact Hin|reflexivity].
    + apply bits_eqb_neq. destruct (bits_eqb (fst e) k); [discriminate H1|reflexivity].
    + apply orb_true_iff in H2 as [H2|H2]; apply bstarts_iff in H2; [left|right]; exact H2.
  - intros [s [H1 [H2 H3]]]. apply mget_some_iff in H1 as [e [Hin He]]. subst s. exists e. split; [exact Hin|].
    apply andb_true_iff. split.
    + apply bits_eqb_neq in H2. rewrite H2. reflexivity.
    + apply orb_true_iff. destruct H3 as [H3|H3]; apply bstarts_iff in H3; [left|right]; exact H3.
Qed.

Theorem btapply_model t m o : ocanon t = true -> bop_key o <> [] ->
  (forall q, obtget t q = mget m q) ->
  forall q, obtget (btapply t o) q = mget (mstep m o) q.
Proof.
  intros Hc Hk Hm.
  assert (Hdel : forall k, k <> [] -> forall q, obtget (btapply t (BTDel k)) q = mget (mremove k m) q).
  { intros k Hk' q. rewrite btapply_del, mget_remove, Hm by assumption. reflexivity. }
  destruct o as [k v|k|p]; cbn [bop_key] in Hk.
  - destruct v as [|v0 vs]; [exact (Hdel k Hk)|]. cbn [mstep]. intro q.
    destruct (btapply_set t k (v0 :: vs) Hc Hk) as [H1 H2]; [discriminate|].
    assert (Hiff : oconflict t k <-> mconflict m k = true).
    { rewrite mconflict_iff. unfold oconflict. split; intros [s Hs]; exists s; rewrite Hm in *; exact Hs. }
    destruct (mconflict m k) eqn:Ec.
    + destruct (H1 (proj2 Hiff eq_refl)) as [_ ->]. apply Hm.
    + destruct H2 as [t' [_ [-> Hg]]].
      * intro H. apply Hiff in H. discriminate H.
      * cbn [obtget mget fst snd]. rewrite Hg, mget_remove, Hm. destruct (bits_eqb q k); reflexivity.
  - exact (Hdel k Hk).
  - intro q. cbn [mstep]. rewrite btapply_delsub, mget_remove_sub, Hm by assumption. reflexivity.
Qed.

(* every history of set / delete / delete_subtrie on non-empty keys matches the map model *)
Theorem btrun_model ops : bops_ok ops -> forall q, obtget (btrun ops) q = mget (mrun ops) q.
Proof.
  intro Hk. unfold btrun, mrun.
  assert (G : forall t m, ocanon t = true -> (forall q, obtget t q = mget m q) ->
              forall q, obtget (fold_left btapply ops t) q = mget (fold_left mstep ops m) q).
  { induction ops as [|o ops IH]; intros t m Hc Hm; [exact Hm|].
    cbn [fold_left]. apply IH.
    - exact (Forall_inv_tail Hk).
    - apply btapply_canon; [exact Hc|exact (Forall_inv Hk)].
    - apply btapply_model; [exact Hc|exact (Forall_inv Hk)|exact Hm]. }
  apply G; [reflexivity|]. intro q. reflexivity.
Qed.

(* ------------------------------------------------------------------ *)
(* 6. contents *)

Lemma btcontents_iff t : bcanon t = true -> forall k v, In (k, v) (btcontents t) <-> btget t k = Some v.
Proof.
  induction t as [w|p c IHc|l IHl r IHr]; intros Hc k v.
  - cbn [btcontents In]. split.
    + intros [H|[]]. injection H as <- <-. reflexivity.
    + intro H. destruct k as [|k0 ks]; [|discriminate H]. cbn [btget] in H. injection H as <-. left. reflexivity.
  - apply bcanon_TKV in Hc as [Hp [_ Hcc]]. cbn [btcontents]. rewrite in_map_iff, btget_TKV by exact Hp. split.
    + intros [[k' v'] [H Hin]]. cbn [fst snd] in H. injection H as <- <-.
      rewrite bstarts_app, skipn_app_exact. apply IHc; assumption.
    + intro H. destruct (bstarts k p) eqn:E; [|discriminate H].
      apply bstarts_iff in E as [rr ->]. rewrite skipn_app_exact in H.
      exists (rr, v). split; [reflexivity|]. apply IHc; assumption.
  - apply bcanon_branch in Hc as [Hl Hr]. cbn [btcontents]. rewrite in_app_iff, !in_map_iff. split.
    + intros [[[k' v'] [H Hin]]|[[k' v'] [H Hin]]]; cbn [fst snd] in H; injection H as <- <-; cbn [btget].
      * apply IHl; assumption.
      * apply IHr; assumption.
    + intro H. destruct k as [|[|] k']; [discriminate H| |]; cbn [btget] in H.
      * right. exists (k', v). split; [reflexivity|]. apply IHr; assumption.
      * left. exists (k', v). split; [reflexivity|]. apply IHl; assumption.
Qed.

Lemma btget_val_nonempty t : bcanon t = true -> forall k v, btget t k = Some v -> v <> [].
Proof.
  induction t as [w|p c IHc|l IHl r IHr]; intros Hc k v H.
  - destruct k as [|k0 ks]; [|discriminate H]. cbn [btget] in H. injection H as <-.
    cbn [bcanon] in Hc. intros ->. discriminate Hc.
  - apply bcanon_TKV in Hc as [Hp [_ Hcc]]. rewrite btget_TKV in H by exact Hp.
    destruct (bstarts k p); [|discriminate H]. exact (IHc Hcc _ _ H).
  - apply bcanon_branch in Hc as [Hl Hr]. destruct k as [|[|] k']; [discriminate H| |]; cbn [btget] in H.
    + exact (IHr Hr _ _ H).
    + exact (IHl Hl _ _ H).
Qed.

(* ------------------------------------------------------------------ *)
(* 5a. canonical trees are determined by their lookup function *)

Lemma tkv_first_bit x r c y s : btget (TKV (x :: r) c) (y :: s) <> None -> y = x.
Proof.
  cbn [btget length firstn bits_eqb]. destruct (Bool.eqb y x) eqn:E.
  - intros _. apply Bool.eqb_prop. exact E.
  - cbn [andb]. intro H. contradiction.
Qed.

Lemma branch_vs_tkv l r x p c : bcanon (TBranchB l r) = true ->
  (forall q, btget (TBranchB l r) q = btget (TKV (x :: p) c) q) -> False.
Proof.
  intros Hc H. apply bcanon_branch in Hc as [Hl Hr].
  destruct (bt_nonempty l Hl) as [s0 H0]. destruct (bt_nonempty r Hr) as [s1 H1].
  assert (E0 : false = x) by (apply (tkv_first_bit x p c false s0); rewrite <- H; exact H0).
  assert (E1 : true = x) by (apply (tkv_first_bit x p c true s1); rewrite <- H; exact H1).
  congruence.
Qed.

Lemma tkv_path_ext p r c c' : bcanon (TKV p c) = true -> bcanon (TKV (p ++ r) c') = true ->
  (forall q, btget (TKV p c) q = btget (TKV (p ++ r) c') q) -> r = [].
Proof.
  intros Ha Hb H. destruct r as [|x r]; [reflexivity|]. exfalso.
  apply bcanon_TKV in Ha as [Hp [Hnk Hc]].
  assert (Hc' : forall q, btget c q = btget (TKV (x :: r) c') q).
  { intro q. rewrite <- (btget_TKV_app p c q Hp), H.
    rewrite (tkv0_TKV (p ++ x :: r)) by (intro E; apply app_eq_nil in E as [_ E]; discriminate E).
    rewrite btget_tkv0_app. reflexivity. }
  destruct c as [w|p1 c1|l1 r1].
  - specialize (Hc' []). discriminate Hc'.
  - discriminate Hnk.
  - exact (branch_vs_tkv l1 r1 x r c' Hc Hc').
Qed.

Theorem bcanon_unique a : forall b, bcanon a = true -> bcanon b = true ->
  (forall q, btget a q = btget b q) -> a = b.
Proof.
  induction a as [w|p c IHc|l IHl r IHr]; intros b Ha Hb H.
  - destruct b as [w'|p' c'|l' r'].
    + specialize (H []). cbn [btget] in H. injection H as ->. reflexivity.
    + specialize (H []). discriminate H.
    + specialize (H []). discriminate H.
  - destruct b as [w'|p' c'|l' r'].
    + specialize (H []). discriminate H.
    + assert (Hpp : p = p').
      { pose proof Ha as Ha'. pose proof Hb as Hb'.
        apply bcanon_TKV in Ha' as [Hp [_ Hc]]. apply bcanon_TKV in Hb' as [Hp' _].
        destruct (bt_nonempty c Hc) as [s Hs].
        assert (Hs' : btget (TKV p' c') (p ++ s) <> None) by (rewrite <- H, btget_TKV_app by exact Hp; exact Hs).
        apply btget_TKV_some in Hs' as [s' [Hs' _]]; [|exact Hp'].
        destruct (is_bprefix_comparable p p' (p ++ s)) as [[rr Hrr]|[rr Hrr]].
        - exists s. reflexivity.
        - exists s'. exact Hs'.
        - subst p'. rewrite (tkv_path_ext p rr c c' Ha Hb H). symmetry. apply app_nil_r.
        - subst p. rewrite (tkv_path_ext p' rr c' c Hb Ha (fun q => eq_sym (H q))). apply app_nil_r. }
      subst p'. f_equal.
      apply bcanon_TKV in Ha as [Hp [_ Hc]]. apply bcanon_TKV in Hb as [_ [_ Hc']].
      apply IHc; [exact Hc|exact Hc'|]. intro q.
      rewrite <- (btget_TKV_app p c q Hp), <- (btget_TKV_app p c' q Hp). apply H.
    + exfalso. apply bcanon_TKV in Ha as [Hp _]. destruct p as [|x p]; [contradiction|].
      exact (branch_vs_tkv l' r' x p c Hb (fun q => eq_sym (H q))).
  - destruct b as [w'|p' c'|l' r'].
    + specialize (H []). discriminate H.
    + exfalso. apply bcanon_TKV in Hb as [Hp _]. destruct p' as [|x p']; [contradiction|].
      exact (branch_vs_tkv l r x p' c' Ha H).
    + apply bcanon_branch in Ha as [Hl Hr]. apply bcanon_branch in Hb as [Hl' Hr'].
      f_equal.
      * apply IHl; [exact Hl|exact Hl'|]. intro q. exact (H (false :: q)).
      * apply IHr; [exact Hr|exact Hr'|]. intro q. exact (H (true :: q)).
Qed.

Theorem ocanon_unique a b : ocanon a = true -> ocanon b = true ->
  (forall q, obtget a q = obtget b q) -> a = b.
Proof.
  intros Ha Hb H. destruct a as [a|], b as [b|]; cbn [ocanon obtget] in *.
  - f_equal. apply bcanon_unique; assumption.
  - exfalso. destruct (bt_nonempty a Ha) as [s Hs]. apply Hs. apply H.
  - exfalso. destruct (bt_nonempty b Hb) as [s Hs]. apply Hs. symmetry. apply H.
  - reflexivity.
Qed.

(* ------------------------------------------------------------------ *)
(* 5b. the canonical construction *)

(* side conditions on a binding list: no key is a prefix of the key of another entry (in
   particular the keys are pairwise distinct), and the values are non-empty *)
Definition bkeys_unrelated (e1 e2 : bits * bytes) : Prop :=
  ~ is_bprefix (fst e1) (fst e2) /\ ~ is_bprefix (fst e2) (fst e1).
Definition bkeys_prefix_free (J : bbindings) : Prop := ForallOrdPairs bkeys_unrelated J.
Definition bvals_nonempty (J : bbindings) : Prop := Forall (fun e : bits * bytes => snd e <> []) J.

Lemma FOP_map {A B} (R : A -> A -> Prop) (R' : B -> B -> Prop) (f : A -> B) l :
  (forall a b, In a l -> In b l -> R a b -> R' (f a) (f b)) ->
  ForallOrdPairs R l -> ForallOrdPairs R' (map f l).
Proof.
  intros Hf H. induction H as [|a l Ha Hl IH]; cbn [map]; constructor.
  - apply Forall_forall. intros y Hy. apply in_map_iff in Hy as [b [<- Hb]].
    apply Hf; [left; reflexivity|right; exact Hb|]. rewrite Forall_forall in Ha. apply Ha. exact Hb.
  - apply IH. intros a' b' Ha' Hb'. apply Hf; right; assumption.
Qed.

Lemma FOP_app {A} (R : A -> A -> Prop) (l1 l2 : list A) :
  ForallOrdPairs R l1 -> ForallOrdPairs R l2 -> (forall a b, In a l1 -> In b l2 -> R a b) ->
  ForallOrdPairs R (l1 ++ l2).
Proof.
  intros H1 H2 H. induction H1 as [|a l Ha Hl IH]; cbn [app]; [exact H2|]. constructor.
  - apply Forall_app. split; [exact Ha|]. apply Forall_forall. intros b Hb. apply H; [left; reflexivity|exact Hb].
  - apply IH. intros a' b' Ha' Hb'. apply H; [right; exact Ha'|exact Hb'].
Qed.

Definition blcp_step (acc : bits) (e : bits * bytes) : bits := blcp acc (fst e).

Lemma bcommon_cons k v J : bcommon ((k, v) :: J) = fold_left blcp_step J k.
Proof. reflexivity. Qed.

Lemma blcp_app c a b : blcp (c ++ a) (c ++ b) = c ++ blcp a b.
Proof.
  induction c as [|x c IH]; cbn [app blcp]; [reflexivity|]. rewrite Bool.eqb_reflx, IH. reflexivity.
Qed.

Lemma fold_blcp_app c J : forall k,
  fold_left blcp_step (map (fun e : bits * bytes => (c ++ fst e, snd e)) J) (c ++ k) = c ++ fold_left blcp_step J k.
Proof.
  induction J as [|e J IH]; intro k; cbn [map fold_left]; [reflexivity|].
  unfold blcp_step at 2. cbn [fst]. rewrite blcp_app, IH. reflexivity.
Qed.

Lemma bcommon_app c J : J <> [] ->
  bcommon (map (fun e : bits * bytes => (c ++ fst e, snd e)) J) = c ++ bcommon J.
Proof.
  intro H. destruct J as [|[k v] J]; [contradiction|]. cbn [map fst snd]. rewrite !bcommon_cons.
  apply fold_blcp_app.
Qed.

Lemma is_bprefix_trans a b c : is_bprefix a b -> is_bprefix b c -> is_bprefix a c.
Proof. intros [r1 ->] [r2 ->]. exists (r1 ++ r2). symmetry. apply app_assoc. Qed.

Lemma blcp_prefix a : forall b, is_bprefix (blcp a b) a /\ is_bprefix (blcp a b) b.
Proof.
  induction a as [|x a IH]; intros [|y b]; cbn [blcp];
    try (split; eexists; reflexivity).
  destruct (Bool.eqb x y) eqn:E.
  - apply Bool.eqb_prop in E. subst y. destruct (IH b) as [[r1 H1] [r2 H2]]. split.
    + exists r1. cbn [app]. rewrite <- H1. reflexivity.
    + exists r2. cbn [app]. rewrite <- H2. reflexivity.
  - split; eexists; reflexivity.
Qed.

Lemma fold_blcp_prefix J : forall k,
  is_bprefix (fold_left blcp_step J k) k /\ forall e, In e J -> is_bprefix (fold_left blcp_step J k) (fst e).
Proof.
  induction J as [|e J IH]; intro k; cbn [fold_left].
  - split; [apply is_bprefix_refl|intros e []].
  - destruct (IH (blcp_step k e)) as [H1 H2]. destruct (blcp_prefix k (fst e)) as [P1 P2]. split.
    + exact (is_bprefix_trans _ _ _ H1 P1).
    + intros e' [<-|Hin]; [exact (is_bprefix_trans _ _ _ H1 P2)|exact (H2 e' Hin)].
Qed.

Lemma bcommon_prefix J e : In e J -> is_bprefix (bcommon J) (fst e).
Proof.
  destruct J as [|[k v] J]; [intros []|]. rewrite bcommon_cons.
  destruct (fold_blcp_prefix J k) as [H1 H2]. intros [<-|Hin]; [exact H1|exact (H2 e Hin)].
Qed.

Lemma bstrip_unstrip J : J = map (fun e : bits * bytes => (bcommon J ++ fst e, snd e)) (bstrip (length (bcommon J)) J).
Proof.
  unfold bstrip. rewrite map_map. rewrite <- (map_id J) at 1. apply map_ext_in.
  intros [k v] Hin. cbn [fst snd]. destruct (bcommon_prefix J (k, v) Hin) as [r Hr]. cbn [fst] in Hr.
  rewrite Hr at 2. rewrite skipn_app_exact. rewrite <- Hr. reflexivity.
Qed.

Lemma bcommon_bstrip J : J <> [] -> bcommon (bstrip (length (bcommon J)) J) = [].
Proof.
  intro HJ. pose proof (bstrip_unstrip J) as H. apply (f_equal bcommon) in H.
  rewrite bcommon_app in H.
  - rewrite <- (app_nil_r (bcommon J)) in H at 1. apply app_inv_head in H. symmetry. exact H.
  - destruct J; [contradiction|discriminate].
Qed.

Lemma In_bstrip J q v : In (q, v) (bstrip (length (bcommon J)) J) <-> In (bcommon J ++ q, v) J.
Proof.
  unfold bstrip. rewrite in_map_iff. split.
  - intros [[k w] [H Hin]]. cbn [fst snd] in H. injection H as <- <-.
    destruct (bcommon_prefix J (k, w) Hin) as [r Hr]. cbn [fst] in Hr.
    rewrite Hr at 1. rewrite skipn_app_exact, <- Hr. exact Hin.
  - intro Hin. exists (bcommon J ++ q, v). cbn [fst snd]. rewrite skipn_app_exact. split; [reflexivity|exact Hin].
Qed.

Lemma In_bbelow J b q v : In (q, v) (bbelow J b) <-> In (b :: q, v) J.
Proof.
  unfold bbelow. rewrite in_flat_map. split.
  - intros [[k w] [Hin H]]. cbn [fst snd] in H. destruct k as [|x k']; [destruct H|].
    destruct (Bool.eqb x b) eqn:E; [|destruct H]. apply Bool.eqb_prop in E. subst x.
    destruct H as [H|[]]. injection H as <- <-. exact Hin.
  - intro Hin. exists (b :: q, v). split; [exact Hin|]. cbn [fst snd]. rewrite Bool.eqb_reflx. left. reflexivity.
Qed.

Lemma fold_blcp_first x J : forall a,
  (forall e, In e J -> exists r, fst e = x :: r) -> exists r, fold_left blcp_step J (x :: a) = x :: r.
Proof.
  induction J as [|e J IH]; intros a H; cbn [fold_left].
  - exists a. reflexivity.
  - destruct (H e (or_introl eq_refl)) as [r Hr]. change (blcp_step (x :: a) e) with (blcp (x :: a) (fst e)). rewrite Hr. cbn [blcp].
    rewrite Bool.eqb_reflx. apply IH. intros e' He'. apply H. right. exact He'.
Qed.

Lemma bcommon_first x J : J <> [] -> (forall e, In e J -> exists r, fst e = x :: r) -> exists r, bcommon J = x :: r.
Proof.
  intros HJ H. destruct J as [|[k v] J]; [contradiction|]. rewrite bcommon_cons.
  destruct (H (k, v) (or_introl eq_refl)) as [r Hr]. cbn [fst] in Hr. subst k.
  apply fold_blcp_first. intros e He. apply H. right. exact He.
Qed.

Lemma bbelow_nonempty J b : J <> [] -> (forall e, In e J -> fst e <> []) -> bcommon J = [] -> bbelow J b <> [].
Proof.
  intros HJ Hne Hc Hb.
  destruct (bcommon_first (negb b) J HJ) as [r Hr]; [|congruence].
  intros [k v] Hin. pose proof (Hne _ Hin) as Hk. cbn [fst] in *. destruct k as [|x k']; [contradiction|].
  destruct (Bool.eqb x b) eqn:E.
  - apply Bool.eqb_prop in E. subst x. exfalso.
    assert (Hi : In (k', v) (bbelow J b)) by (apply In_bbelow; exact Hin). rewrite Hb in Hi. destruct Hi.
  - exists k'. destruct x, b; try discriminate E; reflexivity.
Qed.

Definition bbody (f : nat) (J : bbindings) : option bt :=
  match bcommon J with
  | [] =>
      match bbuild f (bbelow J false), bbuild f (bbelow J true) with
      | Some l, Some r => Some (TBranchB l r)
      | _, _ => None
      end
  | cp =>
      match bbuild f (bstrip (length cp) J) with
      | Some c => Some (TKV cp c)
      | None => None
      end
  end.

Lemma bbuild_S f J : J <> [] -> (forall v, J <> [([], v)]) -> bbuild (S f) J = bbody f J.
Proof.
  intros H1 H2. destruct J as [|[[|k0 ks] v] [|e J']]; try reflexivity.
  - contradiction.
  - exfalso. apply (H2 v). reflexivity.
Qed.

Lemma bkeys_nonempty J : bkeys_prefix_free J -> (forall v, J <> [([], v)]) ->
  forall e, In e J -> fst e <> [].
Proof.
  intros Hpf Hns e Hin He.
  destruct J as [|e1 J']; [destruct Hin|].
  inversion Hpf as [|a l Ha Hl]; subst.
  rewrite Forall_forall in Ha.
  destruct Hin as [<-|Hin].
  - destruct J' as [|e2 J''].
    + destruct e1 as [k v]. cbn [fst] in He. subst k. apply (Hns v). reflexivity.
    + destruct (Ha e2 (or_introl eq_refl)) as [H _]. apply H. rewrite He. exists (fst e2). reflexivity.
  - destruct (Ha e Hin) as [_ H]. apply H. rewrite He. exists (fst e1). reflexivity.
Qed.

Lemma bpf_bbelow J b : bkeys_prefix_free J -> bkeys_prefix_free (bbelow J b).
Proof.
  intro H. induction H as [|[k v] J Ha Hl IH]; [constructor|].
  change (bbelow ((k, v) :: J) b) with
    ((match k with x :: k' => if Bool.eqb x b then [(k', v)] else [] | [] => [] end) ++ bbelow J b).
  destruct k as [|x k']; [exact IH|]. destruct (Bool.eqb x b) eqn:E; [|exact IH].
  apply Bool.eqb_prop in E. subst x. cbn [app]. constructor; [|exact IH].
  apply Forall_forall. intros [q w] Hq. apply In_bbelow in Hq.
  rewrite Forall_forall in Ha. destruct (Ha _ Hq) as [H1 H2]. unfold bkeys_unrelated in *. cbn [fst] in *.
  split; intro Hp; [apply H1|apply H2]; apply (is_bprefix_app [b]); exact Hp.
Qed.

Lemma bpf_bstrip J : bkeys_prefix_free J -> bkeys_prefix_free (bstrip (length (bcommon J)) J).
Proof.
  intro H. unfold bstrip. apply (FOP_map bkeys_unrelated); [|exact H].
  intros [k1 v1] [k2 v2] H1 H2 [R1 R2]. unfold bkeys_unrelated in *. cbn [fst snd] in *.
  destruct (bcommon_prefix J _ H1) as [r1 E1]. destruct (bcommon_prefix J _ H2) as [r2 E2]. cbn [fst] in E1, E2.
  rewrite E1 in R1, R2 |- *. rewrite E2 in R1, R2 |- *. rewrite !skipn_app_exact.
  split; intro Hp; [apply R1|apply R2]; apply is_bprefix_app; exact Hp.
Qed.

Lemma bbuild_ok : forall fuel J, J <> [] -> bkeys_prefix_free J -> bvals_nonempty J ->
  (forall e, In e J -> length (fst e) < fuel) ->
  exists t, bbuild fuel J = Some t /\ bcanon t = true /\
            (forall q v, btget t q = Some v <-> In (q, v) J) /\
            (bcommon J = [] -> is_tkv t = false).
Proof.
  induction fuel as [|f IH]; intros J HJ Hpf Hv Hlen.
  - exfalso. destruct J as [|e J]; [contradiction|]. specialize (Hlen e (or_introl eq_refl)). lia.
  - assert (Hcase : (exists v, J = [([], v)]) \/ (forall v, J <> [([], v)])).
    { destruct J as [|[[|k0 ks] v] [|e J']];
        try (right; intros v' H'; discriminate H'). left. exists v. reflexivity. }
    destruct Hcase as [[v ->]|Hns].
    + exists (TLeafB v). split; [reflexivity|]. split.
      * inversion Hv as [|a l Ha Hl]; subst. cbn [snd] in Ha. cbn [bcanon]. destruct v; [contradiction|reflexivity].
      * split; [|reflexivity]. intros q w. cbn [In]. split.
        -- intro H. destruct q as [|q0 qs]; [|discriminate H]. cbn [btget] in H. injection H as <-. left. reflexivity.
        -- intros [H|[]]. injection H as <- <-. reflexivity.
    + rewrite bbuild_S by assumption. unfold bbody.
      pose proof (bkeys_nonempty J Hpf Hns) as Hne.
      destruct (bcommon J) as [|c0 cs] eqn:Ecp.
      * (* branch *)
        assert (Hsub : forall b, exists t, bbuild f (bbelow J b) = Some t /\ bcanon t = true /\
                         (forall q v, btget t q = Some v <-> In (q, v) (bbelow J b))).
        { intro b. destruct (IH (bbelow J b)) as [t [H1 [H2 [H3 _]]]].
          - apply bbelow_nonempty; assumption.
          - apply bpf_bbelow. exact Hpf.
          - apply Forall_forall. intros [q w] Hq. apply In_bbelow in Hq.
            unfold bvals_nonempty in Hv. rewrite Forall_forall in Hv. exact (Hv _ Hq).
          - intros [q w] Hq. apply In_bbelow in Hq. specialize (Hlen _ Hq). cbn [fst length] in *. lia.
          - exists t. split; [exact H1|]. split; assumption. }
        destruct (Hsub false) as [l [El [Hl Gl]]]. destruct (Hsub true) as [r [Er [Hr Gr]]].
        rewrite El, Er. exists (TBranchB l r). split; [reflexivity|]. split.
        -- cbn [bcanon]. rewrite Hl, Hr. reflexivity.
        -- split; [|reflexivity]. intros q v. destruct q as [|[|] q'].
           ++ split; [intro H; discriminate H|]. intro Hin. exfalso. exact (Hne _ Hin eq_refl).
           ++ cbn [btget]. rewrite Gr. apply In_bbelow.
           ++ cbn [btget]. rewrite Gl. apply In_bbelow.
      * (* kv node over the common prefix *)
        rewrite <- Ecp.
        assert (Hcp : bcommon J <> []) by (rewrite Ecp; discriminate).
        destruct (IH (bstrip (length (bcommon J)) J)) as [c [H1 [H2 [H3 H4]]]].
        -- destruct J; [contradiction|discriminate].
        -- apply bpf_bstrip. exact Hpf.
        -- apply Forall_forall. intros [q w] Hq. apply In_bstrip in Hq.
           unfold bvals_nonempty in Hv. rewrite Forall_forall in Hv. exact (Hv _ Hq).
        -- intros [q w] Hq. apply In_bstrip in Hq. specialize (Hlen _ Hq). cbn [fst] in *.
           rewrite app_length in Hlen. destruct (bcommon J); [contradiction|cbn [length] in Hlen; lia].
        -- rewrite H1. exists (TKV (bcommon J) c). split; [reflexivity|]. split.
           ++ apply bcanon_TKV_intro; [exact Hcp|apply H4; apply bcommon_bstrip; exact HJ|exact H2].
           ++ split; [|intro H; congruence]. intros q v. rewrite btget_TKV by exact Hcp.
              destruct (bstarts q (bcommon J)) eqn:E.
              ** apply bstarts_iff in E as [rr ->]. rewrite skipn_app_exact, H3. apply In_bstrip.
              ** split; [intro H; discriminate H|]. intro Hin. exfalso.
                 apply bstarts_false in E. apply E. exact (bcommon_prefix J _ Hin).
Qed.

Lemma fold_max_ge J : forall m,
  m <= fold_left (fun m (e : bits * bytes) => Nat.max m (length (fst e))) J m /\
  forall e, In e J -> length (fst e) <= fold_left (fun m (e : bits * bytes) => Nat.max m (length (fst e))) J m.
Proof.
  induction J as [|e J IH]; intro m; cbn [fold_left].
  - split; [lia|intros e []].
  - destruct (IH (Nat.max m (length (fst e)))) as [H1 H2]. split; [lia|].
    intros e' [<-|Hin]; [lia|exact (H2 e' Hin)].
Qed.

Theorem bbuild_spec J : J <> [] -> bkeys_prefix_free J -> bvals_nonempty J ->
  exists t, btree_of J = Some t /\ bcanon t = true /\ forall q v, btget t q = Some v <-> In (q, v) J.
Proof.
  intros HJ Hpf Hv. destruct (bbuild_ok (bfuel_of J) J HJ Hpf Hv) as [t [H1 [H2 [H3 _]]]].
  - intros e He. unfold bfuel_of. destruct (fold_max_ge J 0) as [_ H]. specialize (H e He). lia.
  - exists t. split; [exact H1|]. split; assumption.
Qed.

Lemma btree_of_nil : btree_of [] = None.
Proof. reflexivity. Qed.

(* ------------------------------------------------------------------ *)
(* the contents of a canonical tree satisfy the side conditions of the construction *)

Lemma btcontents_prefix_free t : bkeys_prefix_free (btcontents t).
Proof.
  induction t as [w|p c IHc|l IHl r IHr]; cbn [btcontents].
  - constructor; constructor.
  - apply (FOP_map bkeys_unrelated); [|exact IHc].
    intros a b _ _ [R1 R2]. split; cbn [fst]; intro Hp; [apply R1|apply R2]; apply (proj1 (is_bprefix_app p _ _)) in Hp; exact Hp.
  - apply FOP_app.
    + apply (FOP_map bkeys_unrelated); [|exact IHl].
      intros a b _ _ [R1 R2]. split; cbn [fst]; intro Hp; [apply R1|apply R2];
        apply (proj1 (is_bprefix_app [false] _ _)) in Hp; exact Hp.
    + apply (FOP_map bkeys_unrelated); [|exact IHr].
      intros a b _ _ [R1 R2]. split; cbn [fst]; intro Hp; [apply R1|apply R2];
        apply (proj1 (is_bprefix_app [true] _ _)) in Hp; exact Hp.
    + intros a b Ha Hb. apply in_map_iff in Ha as [a' [<- _]]. apply in_map_iff in Hb as [b' [<- _]].
      split; cbn [fst]; intros [rr Hrr]; cbn [app] in Hrr; discriminate Hrr.
Qed.

Lemma btcontents_vals t : bcanon t = true -> bvals_nonempty (btcontents t).
Proof.
  intro Hc. apply Forall_forall. intros [k v] Hin. cbn [snd].
  apply (btget_val_nonempty t Hc k v). apply btcontents_iff; assumption.
Qed.

Lemma option_ext (a b : option bytes) : (forall v, a = Some v <-> b = Some v) -> a = b.
Proof.
  intro H. destruct a as [x|].
  - symmetry. apply H. reflexivity.
  - destruct b as [y|]; [|reflexivity]. apply H. reflexivity.
Qed.

(* the canonical construction rebuilds any canonical trie from any listing of its contents *)
Theorem btree_of_unique t J : ocanon t = true -> bkeys_prefix_free J -> bvals_nonempty J ->
  (forall q v, In (q, v) J <-> obtget t q = Some v) -> btree_of J = t.
Proof.
  intros Hc Hpf Hv HJ. destruct J as [|e J'].
  - rewrite btree_of_nil. apply ocanon_unique; [reflexivity|exact Hc|].
    intro q. cbn [obtget]. destruct (obtget t q) as [v|] eqn:E; [|reflexivity].
    apply HJ in E. destruct E.
  - destruct (bbuild_spec (e :: J')) as [t2 [E [H2 G2]]]; [discriminate|exact Hpf|exact Hv|].
    rewrite E. apply ocanon_unique; [exact H2|exact Hc|].
    intro q. cbn [obtget]. apply option_ext. intro v. rewrite G2. apply HJ.
Qed.

Theorem btree_of_contents t : bcanon t = true -> btree_of (btcontents t) = Some t.
Proof.
  intro Hc. apply btree_of_unique.
  - exact Hc.
  - apply btcontents_prefix_free.
  - apply btcontents_vals. exact Hc.
  - intros q v. apply btcontents_iff. exact Hc.
Qed.

Lemma obtree_of_contents t : ocanon t = true -> btree_of (obtcontents t) = t.
Proof.
  destruct t as [t|]; intro Hc; [apply btree_of_contents; exact Hc|reflexivity].
Qed.

(* ------------------------------------------------------------------ *)
(* C12 at tree level *)

Theorem C12_canonical_T ops : bops_ok ops -> btrun ops = btree_of (obtcontents (btrun ops)).
Proof. intro Hk. symmetry. apply obtree_of_contents. apply btrun_canon. exact Hk. Qed.

Corollary C12_root_T (H : bytes -> bytes) ops : bops_ok ops ->
  broot H (btrun ops) = bin_root H (obtcontents (btrun ops)).
Proof. intro Hk. unfold bin_root. rewrite <- C12_canonical_T by exact Hk. reflexivity. Qed.

(* the root is the canonical root of ANY listing of the current contents *)
Theorem C12_root_of_bindings (H : bytes -> bytes) ops J : bops_ok ops ->
  bkeys_prefix_free J -> bvals_nonempty J ->
  (forall q v, In (q, v) J <-> obtget (btrun ops) q = Some v) ->
  broot H (btrun ops) = bin_root H J.
Proof.
  intros Hk Hpf Hv HJ. unfold bin_root.
  rewrite (btree_of_unique (btrun ops) J (btrun_canon ops Hk) Hpf Hv HJ). reflexivity.
Qed.

Corollary C12_history_independent_T (H : bytes -> bytes) ops1 ops2 : bops_ok ops1 -> bops_ok ops2 ->
  (forall q, obtget (btrun ops1) q = obtget (btrun ops2) q) ->
  broot H (btrun ops1) = broot H (btrun ops2).
Proof.
  intros H1 H2 Hq. rewrite (ocanon_unique (btrun ops1) (btrun ops2)); [reflexivity| | |exact Hq];
    apply btrun_canon; assumption.
Qed.

Corollary C12_empty_T (H : bytes -> bytes) ops : bops_ok ops ->
  (forall q, obtget (btrun ops) q = None) -> broot H (btrun ops) = H [].
Proof.
  intros Hk Hq. rewrite (ocanon_unique (btrun ops) None); [reflexivity| |reflexivity|exact Hq].
  apply btrun_canon. exact Hk.
Qed.

(* the stored keys of every reachable trie are prefix free and the stored values are non-empty *)
Corollary btrun_prefix_free ops : bops_ok ops -> forall a b,
  obtget (btrun ops) a <> None -> obtget (btrun ops) b <> None -> is_bprefix a b -> a = b.
Proof.
  intros Hk a b. pose proof (btrun_canon ops Hk) as Hc. destruct (btrun ops) as [t|]; cbn [obtget ocanon] in *.
  - apply bt_prefix_free. exact Hc.
  - intro H. contradiction.
Qed.

Corollary btrun_values_nonempty ops : bops_ok ops -> forall k v, obtget (btrun ops) k = Some v -> v <> [].
Proof.
  intros Hk k v. pose proof (btrun_canon ops Hk) as Hc. destruct (btrun ops) as [t|]; cbn [obtget ocanon] in *.
  - apply btget_val_nonempty. exact Hc.
  - intro H. discriminate H.
Qed.

(* the empty key is never stored, so the root is never a leaf *)
Lemma btapply_no_empty_key t o : ocanon t = true -> bop_key o <> [] ->
  obtget t [] = None -> obtget (btapply t o) [] = None.
Proof.
  intros Hc Hk H0.
  assert (Hdel : forall k, k <> [] -> obtget (btapply t (BTDel k)) [] = None).
  { intros k Hk'. rewrite btapply_del by assumption. destruct (bits_eqb [] k); [reflexivity|exact H0]. }
  destruct o as [k v|k|p]; cbn [bop_key] in Hk.
  - destruct v as [|v0 vs]; [exact (Hdel k Hk)|].
    unfold btapply. destruct (obtset t k (v0 :: vs) false) as [t'|e] eqn:E; [|exact H0].
    destruct (btapply_set t k (v0 :: vs) Hc Hk) as [H1 H2]; [discriminate|].
    assert (Hn : ~ oconflict t k).
    { intro Hcf. destruct (H1 Hcf) as [E' _]. rewrite E in E'. discriminate E'. }
    destruct (H2 Hn) as [t2 [E2 [_ Hg]]]. rewrite E in E2. injection E2 as ->. cbn [obtget].
    rewrite Hg. destruct k as [|k0 ks]; [contradiction|]. exact H0.
  - exact (Hdel k Hk).
  - rewrite btapply_delsub by assumption. destruct (bstarts [] p); [reflexivity|exact H0].
Qed.

Corollary btrun_no_empty_key ops : bops_ok ops -> obtget (btrun ops) [] = None.
Proof.
  intro Hk. unfold btrun.
  assert (G : forall t, ocanon t = true -> obtget t [] = None -> obtget (fold_left btapply ops t) [] = None).
  { induction ops as [|o ops IH]; intros t Hc H0; [exact H0|]. cbn [fold_left]. apply IH.
    - exact (Forall_inv_tail Hk).
    - apply btapply_canon; [exact Hc|exact (Forall_inv Hk)].
    - apply btapply_no_empty_key; [exact Hc|exact (Forall_inv Hk)|exact H0]. }
  apply G; reflexivity.
Qed.

Corollary btrun_not_leaf ops v : bops_ok ops -> btrun ops <> Some (TLeafB v).
Proof.
  intros Hk E. pose proof (btrun_no_empty_key ops Hk) as H. rewrite E in H. discriminate H.
Qed.

(* ------------------------------------------------------------------ *)
(* the quirks of the update, on concrete tries (keys over {0,1}, values one byte) *)
Definition ex_v : bytes := [x01].
Definition ex_t1 : option bt := btrun [BTSet [false; true; true; false] ex_v].           (* {0110} *)
Definition ex_t2 : option bt := btrun [BTSet [false; false] ex_v; BTSet [false; true] ex_v]. (* {00, 01} *)

(* deleting an absent key that is a proper prefix of a stored key: silently ignored when the key
   ends inside a kv path ... *)
Example ex_del_prefix_inside_path : obtset ex_t1 [false; true] [] false = Ok ex_t1.
Proof. vm_compute. reflexivity. Qed.
(* ... but refused when it ends exactly at a node boundary *)
Example ex_del_prefix_at_node : obtset ex_t2 [false] [] false = Err ENodeOverride.
Proof. vm_compute. reflexivity. Qed.
(* deleting (or delete_subtrie of) a proper extension of a stored key is refused *)
Example ex_del_extension : obtset ex_t1 [false; true; true; false; true] [] false = Err ENodeOverride.
Proof. vm_compute. reflexivity. Qed.
Example ex_delsub_extension : obtset ex_t1 [false; true; true; false; true] [] true = Err ENodeOverride.
Proof. vm_compute. reflexivity. Qed.
(* deleting an absent key that diverges from the stored keys is ignored *)
Example ex_del_diverging : obtset ex_t1 [false; false] [] false = Ok ex_t1.
Proof. vm_compute. reflexivity. Qed.
(* delete_subtrie in the middle of a kv path removes the whole node *)
Example ex_delsub_inside_path : obtset ex_t1 [false; true] [] true = Ok None.
Proof. vm_compute. reflexivity. Qed.
(* set under a proper prefix / extension of a stored key is refused *)
Example ex_set_prefix : obtset ex_t1 [false; true] ex_v false = Err ENodeOverride.
Proof. vm_compute. reflexivity. Qed.
Example ex_set_extension : obtset ex_t1 [false; true; true; false; false] ex_v false = Err ENodeOverride.
Proof. vm_compute. reflexivity. Qed.
(* deleting one of two siblings merges the kv paths *)
Example ex_del_compress : obtset ex_t2 [false; false] [] false = Ok (Some (TKV [false; true] (TLeafB ex_v))).
Proof. vm_compute. reflexivity. Qed.

Print Assumptions btset_set.
Print Assumptions btrun_no_empty_key.
Print Assumptions btrun_not_leaf.
Print Assumptions btset_delete.
Print Assumptions btset_delete_subtrie.
Print Assumptions btapply_canon.
Print Assumptions btapply_set.
Print Assumptions btapply_del.
Print Assumptions btapply_del_refused.
Print Assumptions btapply_delsub.
Print Assumptions btapply_delsub_refused.
Print Assumptions btrun_canon.
Print Assumptions btrun_model.
Print Assumptions btcontents_iff.
Print Assumptions bcanon_unique.
Print Assumptions ocanon_unique.
Print Assumptions bbuild_spec.
Print Assumptions btree_of_unique.
Print Assumptions btree_of_contents.
Print Assumptions C12_canonical_T.
Print Assumptions C12_root_T.
Print Assumptions C12_root_of_bindings.
Print Assumptions C12_history_independent_T.
Print Assumptions C12_empty_T.
Print Assumptions btrun_prefix_free.
Print Assumptions btrun_values_nonempty.
