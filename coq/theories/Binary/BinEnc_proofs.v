(* Binary/BinEnc_proofs.v — round-trip facts about the bit-string codec and the
   binary-trie node encodings of Binary/BinEnc.v. *)
From Coq Require Import List NArith ZArith Bool Arith Lia ZifyBool ZifyNat.
From Coq.Init Require Import Byte.
From PyTrie.Base Require Import Bytes Bytes_proofs Result.
From PyTrie.Binary Require Import BinEnc.
Import ListNotations.

Ltac Zify.zify_post_hook ::= Z.to_euclidean_division_equations.

(* ------------------------------------------------------------------ *)
(* list helpers *)

Lemma firstn_app_exact {A} (a b : list A) : firstn (length a) (a ++ b) = a.
Proof.
  induction a as [|x a IH]; cbn [length firstn app].
  - destruct b; reflexivity.
  - rewrite IH. reflexivity.
Qed.

Lemma skipn_app_exact {A} (a b : list A) : skipn (length a) (a ++ b) = b.
Proof.
  induction a as [|x a IH]; cbn [length skipn app].
  - reflexivity.
  - exact IH.
Qed.

Lemma app_inj_length {A} (a b c d : list A) :
  length a = length b -> a ++ c = b ++ d -> a = b /\ c = d.
Proof.
  revert b. induction a as [|x a IH]; intros [|y b] Hl H; cbn [length app] in *; try discriminate.
  - split; [reflexivity|exact H].
  - injection H as -> H. injection Hl as Hl. destruct (IH b Hl H) as [-> ->]. split; reflexivity.
Qed.

(* ------------------------------------------------------------------ *)
(* bit strings *)

Lemma bits_eqb_eq a b : bits_eqb a b = true <-> a = b.
Proof.
  revert b. induction a as [|x a IH]; intros [|y b]; cbn [bits_eqb]; split; intro H;
    try reflexivity; try discriminate.
  - apply andb_true_iff in H as [H1 H2]. apply Bool.eqb_prop in H1. apply IH in H2. congruence.
  - injection H as -> ->. rewrite Bool.eqb_reflx. apply IH. reflexivity.
Qed.

Lemma byte_bits_roundtrip x : n2b (bits_to_N (byte_to_bits x)) = x.
Proof. destruct x; vm_compute; reflexivity. Qed.

Lemma bits_byte_roundtrip b0 b1 b2 b3 b4 b5 b6 b7 :
  byte_to_bits (n2b (bits_to_N [b0; b1; b2; b3; b4; b5; b6; b7])) = [b0; b1; b2; b3; b4; b5; b6; b7].
Proof. destruct b0, b1, b2, b3, b4, b5, b6, b7; vm_compute; reflexivity. Qed.

Lemma byte_to_bits_length x : length (byte_to_bits x) = 8%nat.
Proof. reflexivity. Qed.

Lemma encode_to_bin_length b : length (encode_to_bin b) = (8 * length b)%nat.
Proof.
  induction b as [|x b IH]; cbn [encode_to_bin length].
  - reflexivity.
  - rewrite app_length, byte_to_bits_length, IH. lia.
Qed.

Lemma encode_to_bin_app a b : encode_to_bin (a ++ b) = encode_to_bin a ++ encode_to_bin b.
Proof.
  induction a as [|x a IH]; cbn [encode_to_bin app].
  - reflexivity.
  - rewrite IH, app_assoc. reflexivity.
Qed.

Lemma decode_aux_byte f x r :
  decode_from_bin_aux (S f) (byte_to_bits x ++ r) = n2b (bits_to_N (byte_to_bits x)) :: decode_from_bin_aux f r.
Proof. reflexivity. Qed.

Lemma decode_aux_encode b : forall f, (length b < f)%nat -> decode_from_bin_aux f (encode_to_bin b) = b.
Proof.
  induction b as [|x b IH]; intros f Hf.
  - destruct f; reflexivity.
  - destruct f as [|f]; [cbn [length] in Hf; lia|].
    cbn [encode_to_bin]. rewrite decode_aux_byte, byte_bits_roundtrip.
    rewrite IH; [reflexivity|]. cbn [length] in Hf. lia.
Qed.

Theorem decode_encode_bin b : decode_from_bin (encode_to_bin b) = b.
Proof.
  unfold decode_from_bin. apply decode_aux_encode. rewrite encode_to_bin_length. lia.
Qed.

Lemma encode_to_bin_inj a b : encode_to_bin a = encode_to_bin b -> a = b.
Proof.
  intro H. rewrite <- (decode_encode_bin a), <- (decode_encode_bin b), H. reflexivity.
Qed.

Lemma encode_decode_aux k : forall f l, length l = (8 * k)%nat -> (k < f)%nat ->
  encode_to_bin (decode_from_bin_aux f l) = l.
Proof.
  induction k as [|k IH]; intros f l Hl Hf.
  - destruct l as [|x l]; [|cbn [length] in Hl; lia]. destruct f; reflexivity.
  - destruct f as [|f]; [lia|].
    destruct l as [|b0 [|b1 [|b2 [|b3 [|b4 [|b5 [|b6 [|b7 r]]]]]]]]; cbn [length] in Hl; try lia.
    cbn [decode_from_bin_aux firstn skipn encode_to_bin].
    rewrite bits_byte_roundtrip. cbn [app].
    rewrite IH; [reflexivity|lia|lia].
Qed.

Theorem encode_decode_bin l : Nat.modulo (length l) 8 = 0%nat -> encode_to_bin (decode_from_bin l) = l.
Proof.
  intro H. unfold decode_from_bin. apply (encode_decode_aux (length l / 8)); lia.
Qed.

(* ------------------------------------------------------------------ *)
(* key paths *)

Definition dk_bits (p : bits) : result bits :=
  match p with
  | [] => Err EIndexError
  | b0 :: _ =>
      let p' := if b0 then skipn 4 p else p in
      if negb (bits_eqb (firstn 2 p') PREFIX_00) then Err EAssertion
      else
        rbind (two_bits_index (firstn 2 (skipn 2 p')))
              (fun padded_len => Ok (skipn (4 + Nat.modulo (4 - padded_len) 4) p'))
  end.

Lemma dk_eq path : decode_to_bin_keypath path = dk_bits (encode_to_bin path).
Proof. reflexivity. Qed.

Lemma two_bits_length r : length (two_bits r) = 2%nat.
Proof. destruct r as [|[|[|r]]]; reflexivity. Qed.

Theorem keypath_roundtrip l : decode_to_bin_keypath (encode_from_bin_keypath l) = Ok l.
Proof.
  rewrite dk_eq. unfold encode_from_bin_keypath. cbv zeta.
  assert (Hr : (length l mod 4 < 4)%nat) by (apply Nat.mod_upper_bound; lia).
  remember (length l mod 4)%nat as r eqn:Er.
  remember ((4 - r) mod 4)%nat as pad eqn:Epad.
  destruct (Nat.eqb_spec (length (repeat false pad ++ l) mod 8) 4) as [E|E];
    rewrite app_length, repeat_length in E.
  - rewrite encode_decode_bin.
    + destruct r as [|[|[|[|r]]]]; [| | | |lia]; subst pad; reflexivity.
    + rewrite !app_length, repeat_length, two_bits_length. cbn [PREFIX_00 length]. lia.
  - rewrite encode_decode_bin.
    + destruct r as [|[|[|[|r]]]]; [| | | |lia]; subst pad; reflexivity.
    + rewrite !app_length, repeat_length, two_bits_length. cbn [PREFIX_100000 length]. lia.
Qed.

Corollary keypath_inj a b : encode_from_bin_keypath a = encode_from_bin_keypath b -> a = b.
Proof.
  intro H. pose proof (keypath_roundtrip a) as Ha. rewrite H, keypath_roundtrip in Ha.
  injection Ha as Ha. symmetry. exact Ha.
Qed.

Lemma keypath_nonempty l : encode_from_bin_keypath l <> [].
Proof.
  intro H. pose proof (keypath_roundtrip l) as Hl. rewrite H in Hl. discriminate Hl.
Qed.

Lemma two_bits_index_err x e : two_bits_index x = Err e -> e = EValueError.
Proof.
  destruct x as [|[|] [|[|] [|z x]]]; cbn [two_bits_index]; intro H;
    try discriminate H; injection H as <-; reflexivity.
Qed.

Lemma decode_keypath_err x e : decode_to_bin_keypath x = Err e -> e <> EInvalidNode.
Proof.
  rewrite dk_eq. unfold dk_bits.
  destruct (encode_to_bin x) as [|b0 p].
  - intro H. injection H as <-. intro H; inversion H.
  - cbv zeta.
    destruct (negb (bits_eqb _ PREFIX_00)).
    + intro H. injection H as <-. intro H; inversion H.
    + destruct (two_bits_index _) as [k|e'] eqn:E2; cbn [rbind]; intro H; [discriminate H|].
      injection H as <-. apply two_bits_index_err in E2. subst e'. intro H; inversion H.
Qed.

(* ------------------------------------------------------------------ *)
(* nodes *)

Definition encode_bnode (n : bnode) : result bytes :=
  match n with BKV p c => encode_kv_node p c | BBranch l r => encode_branch_node l r | BLeaf v => encode_leaf_node v end.

Lemma parse_node_x00 rest : (32 < length rest)%nat ->
  parse_node (x00 :: rest) =
  rbind (decode_to_bin_keypath (firstn (length rest - 32) rest))
        (fun p => Ok (BKV p (skipn (length rest - 32) rest))).
Proof.
  intro H. unfold parse_node. change (b2n x00) with 0%N. cbv zeta. cbn [N.eqb].
  destruct (Nat.leb_spec (length (x00 :: rest)) 33) as [E|E]; [cbn [length] in E; lia|].
  reflexivity.
Qed.

Lemma parse_node_x01 rest : length rest = 64%nat ->
  parse_node (x01 :: rest) = Ok (BBranch (firstn 32 rest) (skipn 32 rest)).
Proof.
  intro H. unfold parse_node. change (b2n x01) with 1%N. cbv zeta. cbn [N.eqb Pos.eqb].
  destruct (Nat.eqb_spec (length (x01 :: rest)) 65) as [E|E]; [|cbn [length] in E; lia].
  reflexivity.
Qed.

Lemma parse_node_x02 rest : rest <> [] -> parse_node (x02 :: rest) = Ok (BLeaf rest).
Proof.
  intro H. destruct rest as [|r0 rest]; [contradiction|]. reflexivity.
Qed.

Theorem parse_encode_kv p h : p <> [] -> length h = 32%nat ->
   exists b, encode_kv_node p h = Ok b /\ parse_node b = Ok (BKV p h).
Proof.
  intros Hp Hh. exists (x00 :: encode_from_bin_keypath p ++ h). split.
  - unfold encode_kv_node. destruct p as [|p0 p]; [contradiction|]. rewrite Hh. reflexivity.
  - pose proof (keypath_nonempty p) as Hne.
    pose proof (keypath_roundtrip p) as Hrt.
    remember (encode_from_bin_keypath p) as kp eqn:Ekp. clear Ekp.
    rewrite parse_node_x00.
    + rewrite app_length, Hh.
      replace (length kp + 32 - 32)%nat with (length kp) by lia.
      rewrite firstn_app_exact, skipn_app_exact, Hrt. reflexivity.
    + rewrite app_length, Hh. destruct kp as [|k0 kp]; [contradiction|]. cbn [length]. lia.
Qed.

Theorem parse_encode_branch l r : length l = 32%nat -> length r = 32%nat ->
   exists b, encode_branch_node l r = Ok b /\ parse_node b = Ok (BBranch l r).
Proof.
  intros Hl Hr. exists (x01 :: l ++ r). split.
  - unfold encode_branch_node. rewrite Hl, Hr. reflexivity.
  - rewrite parse_node_x01 by (rewrite app_length; lia).
    replace (firstn 32 (l ++ r)) with l by (rewrite <- Hl; symmetry; apply firstn_app_exact).
    replace (skipn 32 (l ++ r)) with r by (rewrite <- Hl; symmetry; apply skipn_app_exact).
    reflexivity.
Qed.

Theorem parse_encode_leaf v : v <> [] -> exists b, encode_leaf_node v = Ok b /\ parse_node b = Ok (BLeaf v).
Proof.
  intro Hv. exists (x02 :: v). split.
  - destruct v as [|v0 v]; [contradiction|]. reflexivity.
  - apply parse_node_x02. exact Hv.
Qed.

Theorem parse_node_invalid b :
   parse_node b = Err EInvalidNode <->
   match b with
   | [] => True
   | t :: rest =>
       let n := b2n t in
       (n = 1%N /\ length b <> 65%nat) \/ (n = 0%N /\ (length b <= 33)%nat) \/ (n = 2%N /\ rest = []) \/ (2 < n)%N
   end.
Proof.
  destruct b as [|t rest]; [split; [trivial|reflexivity]|].
  unfold parse_node. cbv zeta. set (n := b2n t).
  destruct (N.eqb_spec n 1) as [E1|E1].
  { destruct (Nat.eqb_spec (length (t :: rest)) 65) as [E|E]; cbn [negb]; split.
    - intro H; discriminate H.
    - intros [[_ H]|[[H _]|[[H _]|H]]]; lia.
    - intros _. left. split; assumption.
    - reflexivity. }
  destruct (N.eqb_spec n 0) as [E0|E0].
  { destruct (Nat.leb_spec (length (t :: rest)) 33) as [E|E]; split.
    - intros _. right; left. split; assumption.
    - reflexivity.
    - intro H. exfalso.
      destruct (decode_to_bin_keypath _) as [p|e] eqn:Ed; cbn [rbind] in H; [discriminate H|].
      injection H as ->. apply decode_keypath_err in Ed. apply Ed. reflexivity.
    - intros [[H _]|[[_ H]|[[H _]|H]]]; lia. }
  destruct (N.eqb_spec n 2) as [E2|E2].
  { destruct rest as [|r0 rest]; split.
    - intros _. right; right; left. split; [assumption|reflexivity].
    - reflexivity.
    - intro H; discriminate H.
    - intros [[H _]|[[H _]|[[_ H]|H]]]; try lia; discriminate H. }
  split; [intros _; right; right; right; lia|reflexivity].
Qed.

Lemma encode_bnode_parse n b : encode_bnode n = Ok b -> parse_node b = Ok n.
Proof.
  destruct n as [p c|l r|v]; cbn [encode_bnode]; intro H.
  - assert (Hp : p <> []) by (intros ->; cbn in H; discriminate H).
    assert (Hc : length c = 32%nat).
    { destruct p as [|p0 p]; [contradiction|]. unfold encode_kv_node in H.
      destruct (Nat.eqb_spec (length c) 32) as [E|E]; [exact E|cbn [negb] in H; discriminate H]. }
    destruct (parse_encode_kv p c Hp Hc) as [b' [H1 H2]].
    rewrite H in H1. injection H1 as <-. exact H2.
  - unfold encode_branch_node in H.
    destruct (Nat.eqb_spec (length l) 32) as [El|El]; cbn [negb] in H; [|discriminate H].
    destruct (Nat.eqb_spec (length r) 32) as [Er|Er]; cbn [negb] in H; [|discriminate H].
    destruct (parse_encode_branch l r El Er) as [b' [H1 H2]].
    unfold encode_branch_node in H1. rewrite El, Er in H1. cbn [Nat.eqb negb] in H1.
    rewrite H in H1. injection H1 as <-. exact H2.
  - assert (Hv : v <> []) by (intros ->; cbn in H; discriminate H).
    destruct (parse_encode_leaf v Hv) as [b' [H1 H2]].
    rewrite H in H1. injection H1 as <-. exact H2.
Qed.

Theorem encode_injective n1 n2 b : encode_bnode n1 = Ok b -> encode_bnode n2 = Ok b -> n1 = n2.
Proof.
  intros H1 H2. apply encode_bnode_parse in H1. apply encode_bnode_parse in H2.
  rewrite H1 in H2. injection H2 as H2. exact H2.
Qed.

Print Assumptions bits_eqb_eq.
Print Assumptions encode_to_bin_length.
Print Assumptions encode_to_bin_app.
Print Assumptions encode_to_bin_inj.
Print Assumptions decode_encode_bin.
Print Assumptions encode_decode_bin.
Print Assumptions keypath_roundtrip.
Print Assumptions keypath_inj.
Print Assumptions keypath_nonempty.
Print Assumptions parse_encode_kv.
Print Assumptions parse_encode_branch.
Print Assumptions parse_encode_leaf.
Print Assumptions parse_node_invalid.
Print Assumptions encode_injective.
