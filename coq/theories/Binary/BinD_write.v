(* Binary/BinD_write.v — C12 at database level: the writes of Binary/BinD.v (_bset, bin_set,
   bin_delete, bin_delete_subtrie) against the tree-level model of Binary/BinTree.v.
   [H] is an arbitrary function with 32-byte output, NEVER assumed injective: collision freedom is
   an explicit premise [cf] on a finite, executable list of node encodings (the encodings already in
   the store, the encodings the call writes — [btw], a mirror of [btset] — and the empty string). *)
From Coq Require Import List NArith ZArith Bool Arith Lia ZifyBool.
From Coq.Init Require Import Byte.
From PyTrie.Base Require Import Bytes Bytes_proofs Result AMap AMap_proofs.
From PyTrie.Binary Require Import BinEnc BinEnc_proofs BinTree BinTree_proofs BinD BinD_proofs.
Import ListNotations.
Local Open Scope nat_scope.

(* ------------------------------------------------------------------ *)
(* definitions *)

(* the trees whose top node [_bset] writes (in order), including the intermediate nodes that are
   written and then merged into a longer kv node; mirror of [btset] *)
Fixpoint btw (t : bt) (k : bits) (v : bytes) (ds : bool) {struct t} : list bt :=
  match t with
  | TLeafB _ =>
      match k with
      | _ :: _ => []
      | [] => if ds then [] else match v with [] => [] | _ => [TLeafB v] end
      end
  | TKV p c =>
      match k with
      | [] => []
      | _ =>
          if (ds && Nat.ltb (length k) (length p) && bits_eqb k (firstn (length k) p))%bool then []
          else if bstarts k p then
            btw c (skipn (length p) k) v ds ++
            match btset c (skipn (length p) k) v ds with
            | Ok (Some s) => [tkvm p s]
            | _ => []
            end
          else
            let cpl := bcommon_len p (firstn (length p) k) in
            match v with
            | [] => []
            | _ =>
                if ds then []
                else if (negb (Nat.eqb (length k) (cpl + 1)) && Nat.leb (length k) cpl)%bool then []
                else
                  let valnode := if Nat.eqb (length k) (cpl + 1) then TLeafB v
                                 else TKV (skipn (cpl + 1) k) (TLeafB v) in
                  let oldnode := if Nat.eqb (length p) (cpl + 1) then c else TKV (skipn (cpl + 1) p) c in
                  let newsub := if nth cpl k false then TBranchB oldnode valnode else TBranchB valnode oldnode in
                  [TLeafB v; valnode] ++
                  (if Nat.eqb (length p) (cpl + 1) then [] else [oldnode]) ++
                  [newsub] ++
                  match cpl with O => [] | _ => [TKV (firstn cpl p) newsub] end
            end
      end
  | TBranchB l r =>
      match k with
      | [] => []
      | b :: k' =>
          btw (if b then r else l) k' v ds ++
          match btset (if b then r else l) k' v ds with
          | Err _ => []
          | Ok (Some s) => [if b then TBranchB l s else TBranchB s r]
          | Ok None => [tkvm [negb b] (if b then l else r)]
          end
      end
  end.

Definition obtw (t : option bt) (k : bits) (v : bytes) (ds : bool) : list bt :=
  match t with
  | Some t => btw t k v ds
  | None => match v with
            | [] => []
            | _ => TLeafB v :: match k with [] => [] | _ => [TKV k (TLeafB v)] end
            end
  end.

Definition opw (t : option bt) (o : btop) : list bt :=
  match o with
  | BTSet k v => obtw t k v false
  | BTDel k => obtw t k [] false
  | BTDelSub k => obtw t k [] true
  end.

(* all trees whose top node is written along a history *)
Fixpoint hist_trees (t : option bt) (ops : list btop) : list bt :=
  match ops with
  | [] => []
  | o :: ops' => opw t o ++ hist_trees (btapply t o) ops'
  end.

(* the node encodings written along a history from the empty trie, and the empty string
   (whose hash is the blank root) *)
Definition hist_bodies (H : bytes -> bytes) (ops : list btop) : list bytes :=
  map (benc H) (hist_trees None ops) ++ [[]].

Definition ovalid (t : option bt) : bool := match t with Some t => bvalid t | None => true end.
Definition orepr (H : bytes -> bytes) (db : bdb) (t : option bt) : Prop :=
  match t with Some t => brepr H db t | None => True end.

(* every entry of db is an entry of db' *)
Definition grows (db db' : bdb) : Prop := forall x b, aget db x = Some b -> aget db' x = Some b.

(* database-level operations on byte keys and their tree-level image *)
Inductive dop := DSet (k v : bytes) | DDel (k : bytes) | DDelSub (k : bytes).
Definition dop_key (o : dop) : bytes := match o with DSet k _ | DDel k | DDelSub k => k end.
Definition top_of (o : dop) : btop :=
  match o with
  | DSet k v => BTSet (encode_to_bin k) v
  | DDel k => BTDel (encode_to_bin k)
  | DDelSub k => BTDelSub (encode_to_bin k)
  end.
Definition dops_ok (ops : list dop) : Prop := Forall (fun o => dop_key o <> []) ops.

Lemma grows_refl db : grows db db.
Proof. intros x b Hx. exact Hx. Qed.

Lemma grows_trans a b c : grows a b -> grows b c -> grows a c.
Proof. intros Hab Hbc x n Hx. apply Hbc, Hab, Hx. Qed.

Lemma ocanon_ovalid t : ocanon t = true -> ovalid t = true.
Proof. destruct t as [t|]; [apply bcanon_bvalid|reflexivity]. Qed.

Lemma bvalid_tkvm p s : p <> [] -> bvalid s = true -> bvalid (tkvm p s) = true.
Proof.
  intros Hp Hs. destruct s as [w|sl sr|l r]; cbn [tkvm bvalid] in *.
  - rewrite Hs. destruct p; [contradiction|reflexivity].
  - apply andb_true_iff in Hs as [_ Hs]. rewrite Hs.
    destruct (p ++ sl) eqn:E; [|reflexivity]. apply app_eq_nil in E as [E _]. contradiction.
  - rewrite Hs. destruct p; [contradiction|reflexivity].
Qed.

(* the common prefix of p and k is shorter than p unless k starts with p *)
Lemma bcommon_len_le p : forall k, bcommon_len p k <= length p.
Proof.
  induction p as [|x p IH]; intros k; [reflexivity|]. destruct k as [|y k]; cbn [bcommon_len length]; [lia|].
  destruct (Bool.eqb x y); [|lia]. specialize (IH k). lia.
Qed.

Lemma bcommon_len_full p : forall k, bcommon_len p k = length p -> bstarts k p = true.
Proof.
  induction p as [|x p IH]; intros k E; [apply bstarts_nil|].
  destruct k as [|y k]; cbn [bcommon_len length] in E; [discriminate E|].
  destruct (Bool.eqb x y) eqn:Exy; [|discriminate E]. injection E as E.
  apply eqb_prop in Exy. subst y.
  unfold bstarts. cbn [length firstn bits_eqb]. rewrite Bool.eqb_reflx. apply (IH k E).
Qed.

Lemma bcommon_len_lt p k : bstarts k p = false -> bcommon_len p (firstn (length p) k) < length p.
Proof.
  intro Hs. rewrite bcommon_len_firstn. pose proof (bcommon_len_le p k) as Hle.
  destruct (Nat.eq_dec (bcommon_len p k) (length p)) as [E|E]; [|lia].
  rewrite (bcommon_len_full p k E) in Hs. discriminate Hs.
Qed.

Lemma skipn_nonnil {A} n (l : list A) : n < length l -> skipn n l <> [].
Proof. intros Hn E. apply (f_equal (@length A)) in E. rewrite skipn_length in E. cbn [length] in E. lia. Qed.

Lemma firstn_nonnil {A} n (l : list A) : n <> 0 -> l <> [] -> firstn n l <> [].
Proof. intros Hn Hl. destruct n; [contradiction|]. destruct l; [contradiction|]. discriminate. Qed.

(* ------------------------------------------------------------------ *)
Section WithHash.
  Variable H : bytes -> bytes.
  Variable BH : bytes.
  Hypothesis H_len : forall x, length (H x) = 32.
  Hypothesis BH_def : BH = H [].

  Notation benc := (benc H).
  Notation bhash := (bhash H).
  Notation bnode_of := (bnode_of H).
  Notation brepr := (brepr H).
  Notation orepr := (orepr H).
  Notation broot := (broot H).
  Notation no_blank_collision := (no_blank_collision H BH).
  Notation cf := (cf H).
  Notation ca := (ca H).
  Notation _bset := (_bset H BH).
  Notation hs := (hs H BH).

  (* ================================================================ *)
  (* 1. the store only grows, by content-addressed entries, whatever the outcome *)

  Definition ao_rel (db db' : bdb) : Prop :=
    (forall x b, aget db x = Some b -> aget db' x = Some b \/ exists b', aget db' x = Some b' /\ x = H b') /\
    (forall x b, aget db' x = Some b -> aget db x = Some b \/ x = H b).

  Lemma ao_rel_refl db : ao_rel db db.
  Proof. split; intros x b Hx; left; exact Hx. Qed.

  Lemma ao_rel_trans a b c : ao_rel a b -> ao_rel b c -> ao_rel a c.
  Proof.
    intros [A1 A2] [B1 B2]. split.
    - intros x n Hx. destruct (A1 x n Hx) as [Hb|[n' [Hb Hn']]].
      + exact (B1 x n Hb).
      + destruct (B1 x n' Hb) as [Hc|Hc]; [|right; exact Hc]. right. exists n'. split; assumption.
    - intros x n Hx. destruct (B2 x n Hx) as [Hb|Hb]; [|right; exact Hb]. exact (A2 x n Hb).
  Qed.

  Definition ao {A} (m : BinD.W A) : Prop := forall db r db', m db = (r, db') -> ao_rel db db'.

  Lemma ao_ret {A} (a : A) : ao (wret a).
  Proof. intros db r db' E. injection E as _ <-. apply ao_rel_refl. Qed.

  Lemma ao_fail {A} e : ao (@wfail A e).
  Proof. intros db r db' E. injection E as _ <-. apply ao_rel_refl. Qed.

  Lemma ao_read h : ao (wread h).
  Proof. intros db r db' E. injection E as _ <-. apply ao_rel_refl. Qed.

  Lemma ao_bind {A B} (m : BinD.W A) (f : A -> BinD.W B) : ao m -> (forall a, ao (f a)) -> ao (wbind m f).
  Proof.
    intros Hm Hf db r db' E. unfold wbind in E. destruct (m db) as [[a|e] db1] eqn:Em.
    - apply (ao_rel_trans db db1 db'); [exact (Hm _ _ _ Em)|exact (Hf a _ _ _ E)].
    - injection E as _ <-. exact (Hm _ _ _ Em).
  Qed.

  Lemma ao_hs r : ao (hs r).
  Proof.
    intros db r' db' E. unfold BinD.hs, hash_and_save in E. destruct r as [node|e].
    - destruct (validate_is_bin_node BH node) as [u|e]; cbn [rbind] in E.
      + injection E as _ <-. split; intros x b Hx.
        * rewrite aget_aset. destruct (bytes_eqb x (H node)) eqn:Ex; [|left; exact Hx].
          apply bytes_eqb_eq in Ex. right. exists node. split; [reflexivity|exact Ex].
        * rewrite aget_aset in Hx. destruct (bytes_eqb x (H node)) eqn:Ex; [|left; exact Hx].
          apply bytes_eqb_eq in Ex. injection Hx as <-. right. exact Ex.
      + injection E as _ <-. apply ao_rel_refl.
    - injection E as _ <-. apply ao_rel_refl.
  Qed.

  Ltac ao_tac IH :=
    repeat first
      [ apply ao_ret | apply ao_fail | apply ao_hs | apply ao_read | apply IH
      | apply ao_bind; [|intro]
      | progress cbv zeta
      | match goal with |- ao (match ?x with _ => _ end) => destruct x end ].

  Lemma bset_ao fuel : forall h k v ds, ao (_bset fuel h k v ds).
  Proof.
    induction fuel as [|f IH]; intros h k v ds; cbn [BinD._bset]; [apply ao_fail|].
    ao_tac IH.
  Qed.

  Theorem bset_append_only fuel h k v ds db r db' : _bset fuel h k v ds db = (r, db') ->
    (forall x b, aget db x = Some b -> aget db' x = Some b \/ exists b', aget db' x = Some b' /\ x = H b') /\
    (forall x b, aget db' x = Some b -> aget db x = Some b \/ x = H b).
  Proof. intro E. exact (bset_ao fuel h k v ds db r db' E). Qed.

  (* a content-addressed store stays content addressed *)
  Corollary bset_ca fuel h k v ds db r db' : ca db -> _bset fuel h k v ds db = (r, db') -> ca db'.
  Proof.
    intros Hca E x b Hx. destruct (bset_append_only _ _ _ _ _ _ _ _ E) as [_ A2].
    destruct (A2 x b Hx) as [Hd|Hd]; [exact (Hca x b Hd)|symmetry; exact Hd].
  Qed.

  (* ================================================================ *)
  (* 2. the core refinement *)

  Lemma enc_leaf v : v <> [] -> encode_leaf_node v = Ok (benc (TLeafB v)).
  Proof. intro Hv. destruct v; [contradiction|reflexivity]. Qed.

  Lemma enc_kv p c : p <> [] -> encode_kv_node p (bhash c) = Ok (benc (TKV p c)).
  Proof.
    intro Hp. unfold encode_kv_node. rewrite (bhash_len H H_len). destruct p; [contradiction|reflexivity].
  Qed.

  Lemma enc_branch l r : encode_branch_node (bhash l) (bhash r) = Ok (benc (TBranchB l r)).
  Proof. unfold encode_branch_node. rewrite !(bhash_len H H_len). reflexivity. Qed.

  Lemma benc_nonnil s : benc s <> [].
  Proof. destruct s; discriminate. Qed.

  Lemma blank_is_blank : is_blank_hash BH BH = true.
  Proof. unfold is_blank_hash. apply bytes_eqb_refl. Qed.

  Lemma brepr_grows db db' t : grows db db' -> brepr db t -> brepr db' t.
  Proof.
    intros Hg Hr. apply (brepr_iff H). intros s Hs. apply Hg. exact (proj1 (brepr_iff H db t) Hr s Hs).
  Qed.

  Lemma brepr_top db t : brepr db t -> aget db (bhash t) = Some (benc t).
  Proof. intro Hr. destruct t; apply Hr. Qed.

  Lemma wread_bind {A} (g : bnode -> BinD.W A) db s : aget db (bhash s) = Some (benc s) -> bvalid s = true ->
    wbind (wread (bhash s)) g db = g (bnode_of s) db.
  Proof.
    intros Hs Hv. unfold wbind, wread, db_read. rewrite Hs. rewrite (parse_benc H H_len s Hv). reflexivity.
  Qed.

  (* database-level operations *)
  Definition dstep (tr : btrie) (o : dop) : result unit * btrie :=
    match o with
    | DSet k v => bin_set H BH tr k v
    | DDel k => bin_delete H BH tr k
    | DDelSub k => bin_delete_subtrie H BH tr k
    end.
  Definition dapply (tr : btrie) (o : dop) : btrie := snd (dstep tr o).
  Definition drun (ops : list dop) : btrie := fold_left dapply ops (mkBtrie [] BH).

  (* the tree-level outcome of an operation ([btapply] keeps the tree when it is an error) *)
  Definition top_res (t : option bt) (o : btop) : result (option bt) :=
    match o with
    | BTSet k v => obtset t k v false
    | BTDel k => obtset t k [] false
    | BTDelSub k => obtset t k [] true
    end.

  Lemma btapply_res t o : btapply t o = match top_res t o with Ok t' => t' | Err _ => t end.
  Proof. destruct o; reflexivity. Qed.

  Section Core.
    Variable Sb : list bytes.
    Hypothesis S_cf : cf Sb.
    Hypothesis S_nil : In [] Sb.

    (* the invariant of the store: content addressed, all bodies in the collision-free set *)
    Definition okdb (db : bdb) : Prop := ca db /\ incl (map snd db) Sb.

    Lemma in_S_nonblank n : In n Sb -> n <> [] -> H n <> BH.
    Proof. intros Hn Hne E. apply Hne. apply S_cf; [exact Hn|exact S_nil|]. rewrite E. exact BH_def. Qed.

    Lemma okdb_nonblank db s : okdb db -> aget db (bhash s) = Some (benc s) -> bhash s <> BH.
    Proof.
      intros [_ Hi] Hs. rewrite (bhash_benc H). apply in_S_nonblank; [|apply benc_nonnil].
      apply Hi. exact (aget_In_snd _ _ _ Hs).
    Qed.

    Lemma okdb_nbc db t : okdb db -> brepr db t -> no_blank_collision t.
    Proof.
      intros Hok Hr s Hs. apply (okdb_nonblank db s Hok). exact (proj1 (brepr_iff H db t) Hr s Hs).
    Qed.

    Lemma okdb_notblank db t : okdb db -> brepr db t -> is_blank_hash BH (bhash t) = false.
    Proof. intros Hok Hr. apply not_blank. apply (okdb_nonblank db t Hok). apply brepr_top, Hr. Qed.

    (* one write *)
    Lemma okdb_aset db n : okdb db -> In n Sb -> okdb (aset db (H n) n) /\ grows db (aset db (H n) n).
    Proof.
      intros [Hca Hi] Hn. split; [split|].
      - intros x b Hx. rewrite aget_aset in Hx. destruct (bytes_eqb x (H n)) eqn:Ex.
        + apply bytes_eqb_eq in Ex. injection Hx as <-. symmetry. exact Ex.
        + exact (Hca x b Hx).
      - intros b Hb. apply In_snd_aset in Hb as [->|Hb]; [exact Hn|exact (Hi b Hb)].
      - intros x b Hx. rewrite aget_aset. destruct (bytes_eqb x (H n)) eqn:Ex; [|exact Hx].
        apply bytes_eqb_eq in Ex. f_equal. apply S_cf; [exact Hn|apply Hi; exact (aget_In_snd _ _ _ Hx)|].
        rewrite (Hca x b Hx). symmetry. exact Ex.
    Qed.

    (* weakest-precondition style predicate on the outcome (result, store) of a W action run from db *)
    Definition wpr {A} (x : result A * bdb) (db : bdb) (Q : result A -> bdb -> Prop) : Prop :=
      okdb (snd x) /\ grows db (snd x) /\ Q (fst x) (snd x).

    Lemma wpr_ret {A} (a : A) db (Q : result A -> bdb -> Prop) : okdb db -> Q (Ok a) db -> wpr (wret a db) db Q.
    Proof. intros Hok HQ. split; [exact Hok|]. split; [apply grows_refl|exact HQ]. Qed.

    Lemma wpr_fail {A} e db (Q : result A -> bdb -> Prop) : okdb db -> Q (Err e) db -> wpr (wfail e db) db Q.
    Proof. intros Hok HQ. split; [exact Hok|]. split; [apply grows_refl|exact HQ]. Qed.

    Lemma wpr_bind {A B} (m : BinD.W A) (f : A -> BinD.W B) db (Q : result B -> bdb -> Prop) :
      wpr (m db) db (fun r db1 => match r with Ok a => wpr (f a db1) db1 Q | Err e => Q (Err e) db1 end) ->
      wpr (wbind m f db) db Q.
    Proof.
      unfold wbind. destruct (m db) as [[a|e] db1]; intros [Hok [Hg HQ]]; cbn [fst snd] in *.
      - destruct HQ as [Hok' [Hg' HQ']]. split; [exact Hok'|]. split; [|exact HQ'].
        exact (grows_trans _ _ _ Hg Hg').
      - split; [exact Hok|]. split; [exact Hg|exact HQ].
    Qed.

    Lemma wpr_conseq {A} (x : result A * bdb) db (Q Q' : result A -> bdb -> Prop) :
      (forall r db', okdb db' -> grows db db' -> Q r db' -> Q' r db') -> wpr x db Q -> wpr x db Q'.
    Proof.
      intros HQ [Hok [Hg Hq]]. split; [exact Hok|]. split; [exact Hg|]. apply HQ; assumption.
    Qed.

    Lemma wpr_hs_err e db (Q : result bytes -> bdb -> Prop) : okdb db -> Q (Err e) db -> wpr (hs (Err e) db) db Q.
    Proof. intros Hok HQ. split; [exact Hok|]. split; [apply grows_refl|exact HQ]. Qed.

    Lemma wpr_hs s db (Q : result bytes -> bdb -> Prop) : okdb db -> In (benc s) Sb ->
      (forall db', okdb db' -> grows db db' -> aget db' (bhash s) = Some (benc s) -> Q (Ok (bhash s)) db') ->
      wpr (hs (Ok (benc s)) db) db Q.
    Proof.
      intros Hok Hin HQ. unfold BinD.hs, hash_and_save. rewrite (validate_benc H BH s). cbn [rbind].
      destruct (okdb_aset db (benc s) Hok Hin) as [Hok' Hg]. rewrite <- (bhash_benc H s).
      split; [|split]; cbn [fst snd].
      - rewrite (bhash_benc H s). exact Hok'.
      - rewrite (bhash_benc H s). exact Hg.
      - apply HQ.
        + rewrite (bhash_benc H s). exact Hok'.
        + rewrite (bhash_benc H s). exact Hg.
        + rewrite aget_aset, bytes_eqb_refl. reflexivity.
    Qed.

    (* what a run of _bset must deliver, given the tree-level outcome R *)
    Definition post (R : result (option bt)) (r : result bytes) (db' : bdb) : Prop :=
      match R with
      | Err e => r = Err e
      | Ok None => r = Ok BH
      | Ok (Some t') => r = Ok (bhash t') /\ brepr db' t' /\ bvalid t' = true
      end.

    (* writing one node whose children are represented *)
    Lemma wpr_write_leaf v db : okdb db -> v <> [] -> In (benc (TLeafB v)) Sb ->
      wpr (hs (encode_leaf_node v) db) db (post (Ok (Some (TLeafB v)))).
    Proof.
      intros Hok Hv Hin. rewrite (enc_leaf v Hv). apply wpr_hs; [exact Hok|exact Hin|].
      intros db' _ _ Hg. split; [reflexivity|]. split; [split; [exact Hg|exact I]|].
      cbn [bvalid]. destruct v; [contradiction|reflexivity].
    Qed.

    Lemma wpr_write_kv p c db : okdb db -> p <> [] -> brepr db c -> bvalid c = true -> In (benc (TKV p c)) Sb ->
      wpr (hs (encode_kv_node p (bhash c)) db) db (post (Ok (Some (TKV p c)))).
    Proof.
      intros Hok Hp Hr Hv Hin. rewrite (enc_kv p c Hp). apply wpr_hs; [exact Hok|exact Hin|].
      intros db' _ Hgr Hg. split; [reflexivity|]. split; [split; [exact Hg|exact (brepr_grows _ _ _ Hgr Hr)]|].
      cbn [bvalid]. rewrite Hv. destruct p; [contradiction|reflexivity].
    Qed.

    Lemma wpr_write_branch l r db : okdb db -> brepr db l -> brepr db r -> bvalid l = true -> bvalid r = true ->
      In (benc (TBranchB l r)) Sb ->
      wpr (hs (encode_branch_node (bhash l) (bhash r)) db) db (post (Ok (Some (TBranchB l r)))).
    Proof.
      intros Hok Hl Hr Hvl Hvr Hin. rewrite (enc_branch l r). apply wpr_hs; [exact Hok|exact Hin|].
      intros db' _ Hgr Hg. split; [reflexivity|]. split.
      - split; [exact Hg|]. split; [exact (brepr_grows _ _ _ Hgr Hl)|exact (brepr_grows _ _ _ Hgr Hr)].
      - cbn [bvalid]. rewrite Hvl, Hvr. reflexivity.
    Qed.

    (* re-reading a node and writing the merged kv node *)
    Lemma wpr_write_tkvm p s db : okdb db -> p <> [] -> brepr db s -> bvalid s = true -> In (benc (tkvm p s)) Sb ->
      wpr (match bnode_of s with
           | BKV sl sr => hs (encode_kv_node (p ++ sl) sr)
           | _ => hs (encode_kv_node p (bhash s))
           end db) db (post (Ok (Some (tkvm p s)))).
    Proof.
      intros Hok Hp Hr Hv Hin. destruct s as [w|sl sr|l r]; cbn [BinD_proofs.bnode_of tkvm] in *.
      - apply wpr_write_kv; assumption.
      - apply bvalid_TKV in Hv as [_ Hv]. apply wpr_write_kv; try assumption.
        + intro E. apply app_eq_nil in E as [E _]. contradiction.
        + apply Hr.
      - apply wpr_write_kv; assumption.
    Qed.

    (* the tail of the kv-split case: old node, branch, optional kv node above *)
    Lemma split_tail p c k cpl vn db : okdb db -> bvalid c = true -> brepr db c -> bvalid vn = true -> brepr db vn ->
      cpl < length p ->
      let oldnode := if Nat.eqb (length p) (cpl + 1) then c else TKV (skipn (cpl + 1) p) c in
      let newsub := if nth cpl k false then TBranchB oldnode vn else TBranchB vn oldnode in
      (forall s, In s ((if Nat.eqb (length p) (cpl + 1) then [] else [oldnode]) ++ [newsub] ++
                       match cpl with O => [] | _ => [TKV (firstn cpl p) newsub] end) -> In (benc s) Sb) ->
      wpr (wbind (if Nat.eqb (length p) (cpl + 1) then wret (bhash c)
                  else hs (encode_kv_node (skipn (cpl + 1) p) (bhash c)))
             (fun oldh =>
                wbind (if nth cpl k false then hs (encode_branch_node oldh (bhash vn))
                       else hs (encode_branch_node (bhash vn) oldh))
                  (fun newh => match cpl with
                               | O => wret newh
                               | _ => hs (encode_kv_node (firstn cpl p) newh)
                               end)) db) db
          (post (match cpl with O => Ok (Some newsub) | _ => Ok (Some (TKV (firstn cpl p) newsub)) end)).
    Proof.
      intros Hok Hvc Hrc Hvv Hrv Hcpl oldnode newsub Hw.
      assert (Hold : wpr ((if Nat.eqb (length p) (cpl + 1) then wret (bhash c)
                           else hs (encode_kv_node (skipn (cpl + 1) p) (bhash c))) db) db
                         (post (Ok (Some oldnode)))).
      { unfold oldnode. destruct (Nat.eqb (length p) (cpl + 1)) eqn:E.
        - apply wpr_ret; [exact Hok|]. split; [reflexivity|]. split; assumption.
        - apply wpr_write_kv; try assumption.
          + apply skipn_nonnil. apply Nat.eqb_neq in E. lia.
          + apply Hw. unfold oldnode. rewrite ?E. left. reflexivity. }
      apply wpr_bind. apply (wpr_conseq _ _ (post (Ok (Some oldnode)))); [|exact Hold].
      intros r1 db1 Hok1 Hg1 [-> [Hro Hvo]]. cbv beta match.
      assert (Hnew : wpr ((if nth cpl k false then hs (encode_branch_node (bhash oldnode) (bhash vn))
                           else hs (encode_branch_node (bhash vn) (bhash oldnode))) db1) db1
                         (post (Ok (Some newsub)))).
      { assert (Hin : In (benc newsub) Sb).
        { apply Hw. apply in_or_app. right. left. reflexivity. }
        pose proof (brepr_grows _ _ _ Hg1 Hrv) as Hrv1.
        unfold newsub in *. destruct (nth cpl k false); apply wpr_write_branch; assumption. }
      apply wpr_bind. apply (wpr_conseq _ _ (post (Ok (Some newsub)))); [|exact Hnew].
      intros r2 db2 Hok2 Hg2 [-> [Hrn Hvn]]. cbv beta match.
      destruct cpl as [|n].
      - apply wpr_ret; [exact Hok2|]. split; [reflexivity|]. split; assumption.
      - apply wpr_write_kv; try assumption.
        + apply firstn_nonnil; [discriminate|]. destruct p; [cbn [length] in Hcpl; lia|discriminate].
        + apply Hw. apply in_or_app. right. right. left. reflexivity.
    Qed.

    Lemma bset_core v ds : forall t k fuel db, bvalid t = true -> brepr db t -> okdb db -> length k < fuel ->
      (forall s, In s (btw t k v ds) -> In (benc s) Sb) ->
      wpr (_bset fuel (bhash t) k v ds db) db (post (btset t k v ds)).
    Proof.
      induction t as [w|p c IHc|l IHl r IHr]; intros k fuel db Hv Hr Hok Hf Hw;
        (destruct fuel as [|f]; [lia|]);
        pose proof (brepr_top _ _ Hr) as Hst;
        cbn [BinD._bset]; rewrite (okdb_notblank db _ Hok Hr);
        rewrite (wread_bind _ db _ Hst Hv); cbn [BinD_proofs.bnode_of].
      - (* leaf *)
        cbn [btset btw] in Hw |- *. destruct k as [|x k].
        + destruct ds.
          * apply wpr_ret; [exact Hok|reflexivity].
          * destruct v as [|v0 vs].
            -- apply wpr_ret; [exact Hok|reflexivity].
            -- apply wpr_write_leaf; [exact Hok|discriminate|]. apply Hw. left. reflexivity.
        + apply wpr_fail; [exact Hok|reflexivity].
      - (* kv *)
        pose proof Hv as Hv'. apply bvalid_TKV in Hv' as [Hp Hvc].
        assert (Hrc : brepr db c) by apply Hr.
        destruct k as [|x k0].
        + cbn [btset]. destruct ds.
          * apply wpr_ret; [exact Hok|reflexivity].
          * apply wpr_fail; [exact Hok|reflexivity].
        + cbn [btset btw] in Hw |- *.
          remember (x :: k0) as k eqn:Ek.
          assert (Hk : k <> []) by (subst k; discriminate).
          destruct (ds && (length k <? length p) && bits_eqb k (firstn (length k) p))%bool eqn:Ecut.
          * apply wpr_ret; [exact Hok|reflexivity].
          * change (starts_with k p) with (bstarts k p).
            destruct (bstarts k p) eqn:Est.
            -- (* descend *)
               set (k' := skipn (length p) k) in *.
               assert (Hf' : length k' < f).
               { pose proof (skipn_length_lt (length p) k Hk (length_nonzero p Hp)) as Hl. fold k' in Hl. lia. }
               apply wpr_bind. apply (wpr_conseq _ _ (post (btset c k' v ds))).
               2:{ apply IHc; try assumption. intros s Hs. apply Hw, in_or_app. left. exact Hs. }
               intros r1 db1 Hok1 Hg1 Hpost.
               destruct (btset c k' v ds) as [[s|]|e] eqn:Ec; cbn [post] in Hpost.
               ++ destruct Hpost as [-> [Hrs Hvs]]. cbv beta match.
                  rewrite (okdb_notblank db1 s Hok1 Hrs).
                  rewrite (wread_bind _ db1 s (brepr_top _ _ Hrs) Hvs).
                  assert (Hin : In (benc (tkvm p s)) Sb).
                  { apply Hw, in_or_app. right. left. reflexivity. }
                  pose proof (wpr_write_tkvm p s db1 Hok1 Hp Hrs Hvs Hin) as HW.
                  destruct s; exact HW.
               ++ subst r1. cbv beta match. rewrite blank_is_blank. apply wpr_ret; [exact Hok1|reflexivity].
               ++ subst r1. cbv beta match. reflexivity.
            -- (* the key leaves the path *)
               change common_len with bcommon_len.
               remember (bcommon_len p (firstn (length p) k)) as cpl eqn:Ecpl.
               pose proof (bcommon_len_lt p k Est) as Hcpl. rewrite <- Ecpl in Hcpl.
               destruct v as [|v0 vs].
               { apply wpr_ret; [exact Hok|]. split; [reflexivity|]. split; assumption. }
               remember (v0 :: vs) as v1 eqn:Ev1.
               assert (Hv1 : v1 <> []) by (subst v1; discriminate).
               destruct ds.
               { apply wpr_ret; [exact Hok|]. split; [reflexivity|]. split; assumption. }
               destruct (length k =? cpl + 1) eqn:E1; cbv beta match delta [negb andb] in Hw |- *.
               ++ (* the new value sits right below the branch *)
                  apply wpr_bind. apply (wpr_conseq _ _ (post (Ok (Some (TLeafB v1))))).
                  2:{ apply wpr_write_leaf; [exact Hok|exact Hv1|]. apply Hw. left. reflexivity. }
                  intros r1 db1 Hok1 Hg1 [-> [Hrv Hvv]]. cbv beta match.
                  apply (split_tail p c k cpl (TLeafB v1) db1); try assumption.
                  ** exact (brepr_grows _ _ _ Hg1 Hrc).
                  ** intros s Hs. apply Hw. right. right. exact Hs.
               ++ destruct (length k <=? cpl) eqn:E2; cbv beta match in Hw |- *.
                  ** apply wpr_bind. apply wpr_fail; [exact Hok|reflexivity].
                  ** apply wpr_bind. apply wpr_bind.
                     apply (wpr_conseq _ _ (post (Ok (Some (TLeafB v1))))).
                     2:{ apply wpr_write_leaf; [exact Hok|exact Hv1|]. apply Hw. left. reflexivity. }
                     intros r1 db1 Hok1 Hg1 [-> [Hrv Hvv]]. cbv beta match.
                     apply (wpr_conseq _ _ (post (Ok (Some (TKV (skipn (cpl + 1) k) (TLeafB v1)))))).
                     2:{ apply wpr_write_kv; try assumption.
                         - apply skipn_nonnil. apply Nat.eqb_neq in E1. apply Nat.leb_gt in E2. lia.
                         - apply Hw. right. left. reflexivity. }
                     intros r2 db2 Hok2 Hg2 [-> [Hrv2 Hvv2]]. cbv beta match.
                     apply (split_tail p c k cpl (TKV (skipn (cpl + 1) k) (TLeafB v1)) db2); try assumption.
                     --- exact (brepr_grows _ _ _ Hg2 (brepr_grows _ _ _ Hg1 Hrc)).
                     --- intros s Hs. apply Hw. right. right. exact Hs.
      - (* branch *)
        pose proof Hv as Hv'. apply bvalid_branch in Hv' as [Hvl Hvr].
        assert (Hrl : brepr db l) by apply Hr. assert (Hrr : brepr db r) by apply Hr.
        destruct k as [|b k'].
        + cbn [btset]. destruct ds.
          * apply wpr_ret; [exact Hok|reflexivity].
          * apply wpr_fail; [exact Hok|reflexivity].
        + cbn [length] in Hf. destruct b; cbn [btset btw negb] in Hw |- *.
          * (* into the right child *)
            apply wpr_bind. apply (wpr_conseq _ _ (post (btset r k' v ds))).
            2:{ apply IHr; try assumption; [lia|]. intros s Hs. apply Hw, in_or_app. left. exact Hs. }
            intros r1 db1 Hok1 Hg1 Hpost.
            pose proof (brepr_grows _ _ _ Hg1 Hrl) as Hrl1.
            destruct (btset r k' v ds) as [[s|]|e] eqn:Ec; cbn [post] in Hpost.
            -- destruct Hpost as [-> [Hrs Hvs]]. cbv beta match zeta.
               rewrite (okdb_notblank db1 l Hok1 Hrl1), (okdb_notblank db1 s Hok1 Hrs).
               cbv beta match delta [orb].
               apply wpr_write_branch; try assumption. apply Hw, in_or_app. right. left. reflexivity.
            -- subst r1. cbv beta match zeta.
               rewrite (okdb_notblank db1 l Hok1 Hrl1), blank_is_blank.
               cbv beta match delta [orb negb].
               rewrite (wread_bind _ db1 l (brepr_top _ _ Hrl1) Hvl).
               assert (Hin : In (benc (tkvm [false] l)) Sb).
               { apply Hw, in_or_app. right. left. reflexivity. }
               pose proof (wpr_write_tkvm [false] l db1 Hok1 ltac:(discriminate) Hrl1 Hvl Hin) as HW.
               destruct l; exact HW.
            -- subst r1. cbv beta match. reflexivity.
          * (* into the left child *)
            apply wpr_bind. apply (wpr_conseq _ _ (post (btset l k' v ds))).
            2:{ apply IHl; try assumption; [lia|]. intros s Hs. apply Hw, in_or_app. left. exact Hs. }
            intros r1 db1 Hok1 Hg1 Hpost.
            pose proof (brepr_grows _ _ _ Hg1 Hrr) as Hrr1.
            destruct (btset l k' v ds) as [[s|]|e] eqn:Ec; cbn [post] in Hpost.
            -- destruct Hpost as [-> [Hrs Hvs]]. cbv beta match zeta.
               rewrite (okdb_notblank db1 r Hok1 Hrr1), (okdb_notblank db1 s Hok1 Hrs).
               cbv beta match delta [orb].
               apply wpr_write_branch; try assumption. apply Hw, in_or_app. right. left. reflexivity.
            -- subst r1. cbv beta match zeta.
               rewrite (okdb_notblank db1 r Hok1 Hrr1), blank_is_blank.
               cbv beta match delta [orb negb].
               rewrite (wread_bind _ db1 r (brepr_top _ _ Hrr1) Hvr).
               assert (Hin : In (benc (tkvm [true] r)) Sb).
               { apply Hw, in_or_app. right. left. reflexivity. }
               pose proof (wpr_write_tkvm [true] r db1 Hok1 ltac:(discriminate) Hrr1 Hvr Hin) as HW.
               destruct r; exact HW.
            -- subst r1. cbv beta match. reflexivity.
    Qed.

    (* the same from an optional tree (blank root for the empty trie) *)
    Lemma obset_core v ds ot k fuel db : ovalid ot = true -> orepr db ot -> okdb db -> length k < fuel ->
      (forall s, In s (obtw ot k v ds) -> In (benc s) Sb) ->
      wpr (_bset fuel (broot ot) k v ds db) db (post (obtset ot k v ds)).
    Proof.
      intros Hv Hr Hok Hf Hw. destruct ot as [t|]; cbn [BinTree.broot obtset obtw ovalid BinD_write.orepr] in *.
      - apply bset_core; assumption.
      - rewrite <- BH_def. destruct fuel as [|f]; [lia|]. cbn [BinD._bset]. rewrite blank_is_blank.
        destruct v as [|v0 vs].
        + apply wpr_ret; [exact Hok|reflexivity].
        + remember (v0 :: vs) as v1 eqn:Ev1.
          assert (Hv1 : v1 <> []) by (subst v1; discriminate).
          assert (Hm : forall (A : Type) (a b : A), match v1 with [] => a | _ :: _ => b end = b).
          { intros A a b. subst v1. reflexivity. }
          rewrite ?Hm in Hw |- *. clear Hm.
          apply wpr_bind. apply (wpr_conseq _ _ (post (Ok (Some (TLeafB v1))))).
          2:{ apply wpr_write_leaf; [exact Hok|exact Hv1|]. apply Hw. left. reflexivity. }
          intros r1 db1 Hok1 Hg1 [-> [Hrv Hvv]]. cbv beta match.
          destruct k as [|x k0].
          * cbn [encode_kv_node]. apply wpr_hs_err; [exact Hok1|reflexivity].
          * remember (x :: k0) as k eqn:Ek.
            assert (Hk : k <> []) by (subst k; discriminate).
            assert (Hm : forall (A : Type) (a b : A), match k with [] => a | _ :: _ => b end = b).
            { intros A a b. subst k. reflexivity. }
            rewrite ?Hm in Hw |- *. clear Hm.
            apply wpr_write_kv; try assumption. apply Hw. right. left. reflexivity.
    Qed.

    (* reads from a represented tree *)
    Lemma oget_core db ot key : okdb db -> orepr db ot -> ovalid ot = true ->
      bin_get BH (mkBtrie db (broot ot)) key = Ok (obtget ot (encode_to_bin key)).
    Proof.
      intros Hok Hr Hv. destruct ot as [t|]; cbn [BinTree.broot obtget ovalid BinD_write.orepr] in *.
      - apply (C13_bin_get H BH H_len); [exact Hr|exact Hv|exact (okdb_nbc db t Hok Hr)].
      - rewrite <- BH_def. unfold bin_get, bfuel. cbn [b_db b_root _bget]. rewrite blank_is_blank. reflexivity.
    Qed.

    (* API level *)
    Lemma bin_update_core ot db key v ds : ovalid ot = true -> orepr db ot -> okdb db ->
      (forall s, In s (obtw ot (encode_to_bin key) v ds) -> In (benc s) Sb) ->
      let R := obtset ot (encode_to_bin key) v ds in
      let ot' := match R with Ok t' => t' | Err _ => ot end in
      let out := bin_update H BH (mkBtrie db (broot ot)) key v ds in
      fst out = match R with Ok _ => Ok tt | Err e => Err e end /\
      b_root (snd out) = broot ot' /\ okdb (b_db (snd out)) /\ grows db (b_db (snd out)) /\
      orepr (b_db (snd out)) ot' /\ ovalid ot' = true.
    Proof.
      intros Hv Hr Hok Hw R ot' out. unfold out, bin_update. cbn [b_db b_root].
      assert (Hf : length (encode_to_bin key) < bfuel key).
      { rewrite encode_to_bin_length. unfold bfuel. lia. }
      destruct (obset_core v ds ot (encode_to_bin key) (bfuel key) db Hv Hr Hok Hf Hw) as [Hok' [Hg HQ]].
      fold R in HQ. unfold ot'. clear ot' out.
      destruct (_bset (bfuel key) (broot ot) (encode_to_bin key) v ds db) as [r db'].
      cbn [fst snd] in *. destruct R as [[t'|]|e]; cbn [post] in HQ.
      - destruct HQ as [-> [Hr' Hv']]. cbn [fst snd b_db b_root BinTree.broot].
        refine (conj eq_refl (conj eq_refl (conj Hok' (conj Hg (conj Hr' Hv'))))).
      - subst r. cbn [fst snd b_db b_root BinTree.broot].
        refine (conj eq_refl (conj BH_def (conj Hok' (conj Hg (conj I eq_refl))))).
      - subst r. cbn [fst snd b_db b_root].
        refine (conj eq_refl (conj eq_refl (conj Hok' (conj Hg (conj _ Hv))))).
        destruct ot as [t|]; [|exact I]. exact (brepr_grows _ _ _ Hg Hr).
    Qed.

    Lemma dstep_core ot db o : ovalid ot = true -> orepr db ot -> okdb db ->
      (forall s, In s (opw ot (top_of o)) -> In (benc s) Sb) ->
      let out := dstep (mkBtrie db (broot ot)) o in
      let ot' := btapply ot (top_of o) in
      fst out = match top_res ot (top_of o) with Ok _ => Ok tt | Err e => Err e end /\
      b_root (snd out) = broot ot' /\ okdb (b_db (snd out)) /\ grows db (b_db (snd out)) /\
      orepr (b_db (snd out)) ot' /\ ovalid ot' = true.
    Proof.
      intros Hv Hr Hok Hw out ot'. unfold ot'. rewrite btapply_res. unfold out.
      destruct o as [k v|k|k]; cbn [dstep top_of top_res opw] in *.
      - exact (bin_update_core ot db k v false Hv Hr Hok Hw).
      - exact (bin_update_core ot db k [] false Hv Hr Hok Hw).
      - exact (bin_update_core ot db k [] true Hv Hr Hok Hw).
    Qed.

    Lemma drun_core ops : forall ot db, ovalid ot = true -> orepr db ot -> okdb db ->
      (forall s, In s (hist_trees ot (map top_of ops)) -> In (benc s) Sb) ->
      let tr' := fold_left dapply ops (mkBtrie db (broot ot)) in
      let ot' := fold_left btapply (map top_of ops) ot in
      b_root tr' = broot ot' /\ okdb (b_db tr') /\ grows db (b_db tr') /\ orepr (b_db tr') ot' /\
      ovalid ot' = true.
    Proof.
      induction ops as [|o ops IH]; intros ot db Hv Hr Hok Hw; cbn [fold_left map hist_trees] in *.
      - refine (conj eq_refl (conj Hok (conj (grows_refl db) (conj Hr Hv)))).
      - destruct (dstep_core ot db o Hv Hr Hok) as [_ [Hroot [Hok1 [Hg1 [Hr1 Hv1]]]]].
        { intros s Hs. apply Hw, in_or_app. left. exact Hs. }
        change (snd (dstep (mkBtrie db (broot ot)) o)) with (dapply (mkBtrie db (broot ot)) o) in *.
        remember (dapply (mkBtrie db (broot ot)) o) as tr1 eqn:Etr. clear Etr.
        destruct tr1 as [db1 root1]. cbn [b_db b_root] in *. subst root1.
        destruct (IH (btapply ot (top_of o)) db1 Hv1 Hr1 Hok1) as [Hroot2 [Hok2 [Hg2 [Hr2 Hv2]]]].
        { intros s Hs. apply Hw, in_or_app. right. exact Hs. }
        refine (conj Hroot2 (conj Hok2 (conj (grows_trans _ _ _ Hg1 Hg2) (conj Hr2 Hv2)))).
    Qed.
  End Core.

  (* ---------------- the statements with an explicit collision-freeness premise ---------------- *)
  (* the encodings in the store, the encodings of the nodes the call writes, the empty string *)
  Definition wbodies (db : bdb) (ts : list bt) : list bytes := map snd db ++ map benc ts ++ [[]].

  Lemma wbodies_nil db ts : In [] (wbodies db ts).
  Proof. unfold wbodies. apply in_or_app. right. apply in_or_app. right. left. reflexivity. Qed.

  Lemma wbodies_okdb db ts : ca db -> okdb (wbodies db ts) db.
  Proof. intro Hca. split; [exact Hca|]. unfold wbodies. apply incl_appl, incl_refl. Qed.

  Lemma wbodies_in db ts s : In s ts -> In (benc s) (wbodies db ts).
  Proof.
    intro Hs. unfold wbodies. apply in_or_app. right. apply in_or_app. left. apply in_map. exact Hs.
  Qed.

  Lemma _bset_refines : forall t k v ds fuel db, brepr db t -> bvalid t = true -> (length k < fuel)%nat ->
    ca db -> cf (wbodies db (btw t k v ds)) ->
    exists db', grows db db' /\ ca db' /\ incl (map snd db') (wbodies db (btw t k v ds)) /\
      match btset t k v ds with
      | Err e => _bset fuel (bhash t) k v ds db = (Err e, db')
      | Ok None => _bset fuel (bhash t) k v ds db = (Ok BH, db')
      | Ok (Some t') => _bset fuel (bhash t) k v ds db = (Ok (bhash t'), db') /\
                        brepr db' t' /\ bvalid t' = true /\ no_blank_collision t'
      end.
  Proof.
    intros t k v ds fuel db Hr Hv Hf Hca Hcf.
    set (Sb := wbodies db (btw t k v ds)) in *.
    pose proof (wbodies_nil db (btw t k v ds)) as Hnil. fold Sb in Hnil.
    pose proof (wbodies_okdb db (btw t k v ds) Hca) as Hok. fold Sb in Hok.
    destruct (bset_core Sb Hcf Hnil v ds t k fuel db Hv Hr Hok Hf) as [Hok' [Hg HQ]].
    { intros s Hs. apply wbodies_in. exact Hs. }
    destruct (_bset fuel (bhash t) k v ds db) as [r db']. cbn [fst snd] in *.
    exists db'. split; [exact Hg|]. split; [apply Hok'|]. split; [apply Hok'|].
    destruct (btset t k v ds) as [[t'|]|e]; cbn [post] in HQ.
    - destruct HQ as [-> [Hr' Hv']]. split; [reflexivity|]. split; [exact Hr'|]. split; [exact Hv'|].
      exact (okdb_nbc Sb Hcf Hnil db' t' Hok' Hr').
    - subst r. reflexivity.
    - subst r. reflexivity.
  Qed.

  (* the same with the canonical-shape invariant of the API (ds is only used with an empty value) *)
  Corollary _bset_refines_canon t k v ds fuel db : brepr db t -> bcanon t = true -> (ds = true -> v = []) ->
    (length k < fuel)%nat -> ca db -> cf (wbodies db (btw t k v ds)) ->
    exists db', grows db db' /\ ca db' /\ incl (map snd db') (wbodies db (btw t k v ds)) /\
      match btset t k v ds with
      | Err e => _bset fuel (bhash t) k v ds db = (Err e, db') /\ e = ENodeOverride
      | Ok None => _bset fuel (bhash t) k v ds db = (Ok BH, db')
      | Ok (Some t') => _bset fuel (bhash t) k v ds db = (Ok (bhash t'), db') /\
                        brepr db' t' /\ bcanon t' = true /\ no_blank_collision t'
      end.
  Proof.
    intros Hr Hc Hds Hf Hca Hcf.
    destruct (_bset_refines t k v ds fuel db Hr (bcanon_bvalid t Hc) Hf Hca Hcf) as [db' [Hg [Hca' [Hi HQ]]]].
    exists db'. split; [exact Hg|]. split; [exact Hca'|]. split; [exact Hi|].
    pose proof (btset_spec v ds Hds t k Hc) as Hs.
    destruct (btset t k v ds) as [[t'|]|e].
    - destruct HQ as [E [Hr' [_ Hn]]]. split; [exact E|]. split; [exact Hr'|]. split; [apply Hs|exact Hn].
    - exact HQ.
    - split; [exact HQ|apply Hs].
  Qed.

  (* ================================================================ *)
  (* 3. API level *)

  Theorem bin_op_refines ot db o : ovalid ot = true -> orepr db ot -> ca db ->
    cf (wbodies db (opw ot (top_of o))) ->
    let out := dstep (mkBtrie db (broot ot)) o in
    let ot' := btapply ot (top_of o) in
    (* the outcome is the tree-level one, the root is the root of the new tree *)
    fst out = match top_res ot (top_of o) with Ok _ => Ok tt | Err e => Err e end /\
    b_root (snd out) = broot ot' /\
    (* a raising call leaves the root and the tree unchanged *)
    (forall e, fst out = Err e -> ot' = ot /\ b_root (snd out) = broot ot) /\
    (* the store: old entries persist, content addressed, only the announced bodies were added *)
    grows db (b_db (snd out)) /\ ca (b_db (snd out)) /\
    incl (map snd (b_db (snd out))) (wbodies db (opw ot (top_of o))) /\
    (* it represents the new tree (and still the old one) *)
    orepr (b_db (snd out)) ot' /\ orepr (b_db (snd out)) ot /\ ovalid ot' = true /\
    (* reads from the new root and from the old root *)
    (forall key, bin_get BH (snd out) key = Ok (obtget ot' (encode_to_bin key))) /\
    (forall key, bin_get BH (mkBtrie (b_db (snd out)) (broot ot)) key = Ok (obtget ot (encode_to_bin key))).
  Proof.
    intros Hv Hr Hca Hcf out ot'.
    set (Sb := wbodies db (opw ot (top_of o))) in *.
    pose proof (wbodies_nil db (opw ot (top_of o))) as Hnil. fold Sb in Hnil.
    pose proof (wbodies_okdb db (opw ot (top_of o)) Hca) as Hok. fold Sb in Hok.
    destruct (dstep_core Sb Hcf Hnil ot db o Hv Hr Hok) as [Hres [Hroot [Hok' [Hg [Hr' Hv']]]]].
    { intros s Hs. apply wbodies_in. exact Hs. }
    fold out in Hres, Hroot, Hok', Hg, Hr'. fold ot' in Hroot, Hr', Hv'.
    assert (Hro : orepr (b_db (snd out)) ot).
    { destruct ot as [t|]; [|exact I]. exact (brepr_grows _ _ _ Hg Hr). }
    split; [exact Hres|]. split; [exact Hroot|]. split.
    { intros e He. rewrite Hres in He. unfold ot' in *. rewrite btapply_res in *.
      destruct (top_res ot (top_of o)) as [t'|e']; [discriminate He|]. split; [reflexivity|exact Hroot]. }
    split; [exact Hg|]. split; [apply Hok'|]. split; [apply Hok'|].
    split; [exact Hr'|]. split; [exact Hro|]. split; [exact Hv'|]. split.
    - intro key. destruct (snd out) as [db' root']. cbn [b_db b_root] in *. subst root'.
      exact (oget_core Sb Hcf Hnil db' ot' key Hok' Hr' Hv').
    - intro key. exact (oget_core Sb Hcf Hnil _ ot key Hok' Hro Hv).
  Qed.

  (* bin_update itself, for an arbitrary (value, delete_subtrie) pair *)
  Theorem bin_update_refines ot db key v ds : ovalid ot = true -> orepr db ot -> ca db ->
    cf (wbodies db (obtw ot (encode_to_bin key) v ds)) ->
    let R := obtset ot (encode_to_bin key) v ds in
    let ot' := match R with Ok t' => t' | Err _ => ot end in
    let out := bin_update H BH (mkBtrie db (broot ot)) key v ds in
    fst out = match R with Ok _ => Ok tt | Err e => Err e end /\
    b_root (snd out) = broot ot' /\
    grows db (b_db (snd out)) /\ ca (b_db (snd out)) /\
    incl (map snd (b_db (snd out))) (wbodies db (obtw ot (encode_to_bin key) v ds)) /\
    orepr (b_db (snd out)) ot' /\ ovalid ot' = true.
  Proof.
    intros Hv Hr Hca Hcf R ot' out.
    set (Sb := wbodies db (obtw ot (encode_to_bin key) v ds)) in *.
    pose proof (wbodies_nil db (obtw ot (encode_to_bin key) v ds)) as Hnil. fold Sb in Hnil.
    pose proof (wbodies_okdb db (obtw ot (encode_to_bin key) v ds) Hca) as Hok. fold Sb in Hok.
    destruct (bin_update_core Sb Hcf Hnil ot db key v ds Hv Hr Hok) as [Hres [Hroot [Hok' [Hg [Hr' Hv']]]]].
    { intros s Hs. apply wbodies_in. exact Hs. }
    refine (conj Hres (conj Hroot (conj Hg (conj (proj1 Hok') (conj (proj2 Hok') (conj Hr' Hv')))))).
  Qed.

  (* ================================================================ *)
  (* 4. histories *)

  Lemma hist_trees_app a : forall t b,
    hist_trees t (a ++ b) = hist_trees t a ++ hist_trees (fold_left btapply a t) b.
  Proof.
    induction a as [|o a IH]; intros t b; cbn [app hist_trees fold_left]; [reflexivity|].
    rewrite IH, app_assoc. reflexivity.
  Qed.

  Lemma encode_to_bin_nonnil key : key <> [] -> encode_to_bin key <> [].
  Proof.
    intros Hk E. apply (f_equal (@length bool)) in E. rewrite encode_to_bin_length in E.
    destruct key; [contradiction|]. cbn [length] in E. lia.
  Qed.

  Lemma dops_bops_ok ops : dops_ok ops -> bops_ok (map top_of ops).
  Proof.
    intro Hk. unfold bops_ok. apply Forall_map. apply (Forall_impl _ (P := fun o => dop_key o <> [])); [|exact Hk].
    intros o Ho. destruct o; cbn [top_of bop_key dop_key] in *; apply encode_to_bin_nonnil; exact Ho.
  Qed.

  Lemma bin_exists_get tr key r : bin_get BH tr key = Ok r ->
    bin_exists BH tr key = Ok (match r with Some _ => true | None => false end).
  Proof. intro E. unfold bin_exists. rewrite E. reflexivity. Qed.

  (* C12 at database level.  From the empty trie on an empty store, after any history of
     set / delete / delete_subtrie, if H has no collision among the node encodings written along
     the history (and the empty string):
     - the root is the root of the tree-level model, i.e. (non-empty keys) the hash of the canonical
       encoding of the contents;
     - the store represents that tree and get / exists answer as the map model;
     - every earlier root is still readable from the final store, with the answers it gave then. *)
  Theorem C12_D_history ops : cf (hist_bodies H (map top_of ops)) ->
    let T := btrun (map top_of ops) in
    let final := drun ops in
    b_root final = broot T /\ orepr (b_db final) T /\ ovalid T = true /\ ca (b_db final) /\
    incl (map snd (b_db final)) (hist_bodies H (map top_of ops)) /\
    (forall key, bin_get BH final key = Ok (obtget T (encode_to_bin key))) /\
    (forall key, bin_exists BH final key =
                 Ok (match obtget T (encode_to_bin key) with Some _ => true | None => false end)) /\
    (dops_ok ops -> ocanon T = true /\ b_root final = bin_root H (obtcontents T)) /\
    (forall n, let Tn := btrun (map top_of (firstn n ops)) in
               let trn := drun (firstn n ops) in
               b_root trn = broot Tn /\ grows (b_db trn) (b_db final) /\ orepr (b_db final) Tn /\
               forall key, bin_get BH (mkBtrie (b_db final) (b_root trn)) key
                           = Ok (obtget Tn (encode_to_bin key))).
  Proof.
    intros Hcf T final.
    set (Sb := hist_bodies H (map top_of ops)) in *.
    assert (Hnil : In [] Sb) by (unfold Sb, hist_bodies; apply in_or_app; right; left; reflexivity).
    assert (Hok0 : okdb Sb []).
    { split; [intros h n Hg; discriminate Hg|intros n []]. }
    assert (E0 : mkBtrie [] BH = mkBtrie [] (broot None)).
    { cbn [BinTree.broot]. rewrite <- BH_def. reflexivity. }
    assert (Hw : forall s, In s (hist_trees None (map top_of ops)) -> In (benc s) Sb).
    { intros s Hs. unfold Sb, hist_bodies. apply in_or_app. left. apply in_map. exact Hs. }
    destruct (drun_core Sb Hcf Hnil ops None [] eq_refl I Hok0 Hw) as [Hroot [Hok [_ [Hr Hv]]]].
    rewrite <- E0 in Hroot, Hok, Hr. fold (drun ops) in Hroot, Hok, Hr. fold final in Hroot, Hok, Hr.
    fold (btrun (map top_of ops)) in Hroot, Hr, Hv. fold T in Hroot, Hr, Hv.
    assert (Hget : forall key, bin_get BH final key = Ok (obtget T (encode_to_bin key))).
    { intro key. pose proof (oget_core Sb Hcf Hnil (b_db final) T key Hok Hr Hv) as Hg.
      rewrite <- Hroot in Hg. destruct final as [dbf rootf]. exact Hg. }
    split; [exact Hroot|]. split; [exact Hr|]. split; [exact Hv|]. split; [apply Hok|]. split; [apply Hok|].
    split; [exact Hget|]. split; [intro key; apply bin_exists_get, Hget|]. split.
    { intro Hk. apply dops_bops_ok in Hk. split; [exact (btrun_canon _ Hk)|].
      rewrite Hroot. exact (C12_root_T H _ Hk). }
    intros n Tn trn.
    assert (Eops : map top_of ops = map top_of (firstn n ops) ++ map top_of (skipn n ops)).
    { rewrite <- map_app, firstn_skipn. reflexivity. }
    assert (Hw1 : forall s, In s (hist_trees None (map top_of (firstn n ops))) -> In (benc s) Sb).
    { intros s Hs. apply Hw. rewrite Eops, hist_trees_app. apply in_or_app. left. exact Hs. }
    destruct (drun_core Sb Hcf Hnil (firstn n ops) None [] eq_refl I Hok0 Hw1) as [Hroot1 [Hok1 [_ [Hr1 Hv1]]]].
    rewrite <- E0 in Hroot1, Hok1, Hr1. fold (drun (firstn n ops)) in Hroot1, Hok1, Hr1.
    fold trn in Hroot1, Hok1, Hr1.
    fold (btrun (map top_of (firstn n ops))) in Hroot1, Hr1, Hv1. fold Tn in Hroot1, Hr1, Hv1.
    assert (Hw2 : forall s, In s (hist_trees Tn (map top_of (skipn n ops))) -> In (benc s) Sb).
    { intros s Hs. apply Hw. rewrite Eops, hist_trees_app. apply in_or_app. right. exact Hs. }
    destruct (drun_core Sb Hcf Hnil (skipn n ops) Tn (b_db trn) Hv1 Hr1 Hok1 Hw2) as [_ [_ [Hg2 _]]].
    assert (Efin : fold_left dapply (skipn n ops) (mkBtrie (b_db trn) (broot Tn)) = final).
    { rewrite <- Hroot1. unfold final, drun.
      transitivity (fold_left dapply (firstn n ops ++ skipn n ops) (mkBtrie [] BH));
        [|rewrite firstn_skipn; reflexivity].
      rewrite fold_left_app. fold (drun (firstn n ops)). fold trn. destruct trn as [dbn rootn]. reflexivity. }
    rewrite Efin in Hg2.
    assert (Hrn : orepr (b_db final) Tn).
    { destruct Tn as [tn|]; [|exact I]. exact (brepr_grows _ _ _ Hg2 Hr1). }
    split; [exact Hroot1|]. split; [exact Hg2|]. split; [exact Hrn|].
    intro key. rewrite Hroot1. exact (oget_core Sb Hcf Hnil (b_db final) Tn key Hok Hrn Hv1).
  Qed.

  (* ... and the map model of BinTree_proofs (an association list updated by set / remove /
     remove-by-prefix, refused calls ignored) *)
  Corollary C12_D_map_model ops : dops_ok ops -> cf (hist_bodies H (map top_of ops)) ->
    forall key, bin_get BH (drun ops) key = Ok (mget (mrun (map top_of ops)) (encode_to_bin key)) /\
                bin_exists BH (drun ops) key =
                Ok (match mget (mrun (map top_of ops)) (encode_to_bin key) with Some _ => true | None => false end).
  Proof.
    intros Hk Hcf key.
    destruct (C12_D_history ops Hcf) as [_ [_ [_ [_ [_ [Hget [Hex _]]]]]]].
    rewrite Hget, Hex. rewrite (btrun_model _ (dops_bops_ok ops Hk)). split; reflexivity.
  Qed.

  Lemma hist_bodies_prefix a b : incl (hist_bodies H a) (hist_bodies H (a ++ b)).
  Proof.
    unfold hist_bodies. rewrite hist_trees_app, map_app. intros n Hn. apply in_app_or in Hn as [Hn|Hn].
    - apply in_or_app. left. apply in_or_app. left. exact Hn.
    - apply in_or_app. right. exact Hn.
  Qed.

  (* a raising call in a history: the step leaves the tree, the root and every answer unchanged *)
  Theorem C12_D_raise ops o e : cf (hist_bodies H (map top_of (ops ++ [o]))) ->
    fst (dstep (drun ops) o) = Err e ->
    btrun (map top_of (ops ++ [o])) = btrun (map top_of ops) /\
    b_root (drun (ops ++ [o])) = b_root (drun ops) /\
    forall key, bin_get BH (drun (ops ++ [o])) key = bin_get BH (drun ops) key.
  Proof.
    intros Hcf He.
    set (Sb := hist_bodies H (map top_of (ops ++ [o]))) in *.
    assert (Hnil : In [] Sb) by (unfold Sb, hist_bodies; apply in_or_app; right; left; reflexivity).
    assert (Hinc : incl (hist_bodies H (map top_of ops)) Sb).
    { unfold Sb. rewrite map_app. apply hist_bodies_prefix. }
    pose proof (cf_incl H _ _ Hinc Hcf) as Hcf0.
    destruct (C12_D_history ops Hcf0) as [Hroot0 [Hr0 [Hv0 [Hca0 [Hi0 [Hget0 _]]]]]].
    destruct (C12_D_history (ops ++ [o]) Hcf) as [Hroot [_ [_ [_ [_ [Hget _]]]]]].
    assert (Et : btrun (map top_of (ops ++ [o])) = btrun (map top_of ops)).
    { rewrite map_app. unfold btrun. rewrite fold_left_app. cbn [map fold_left].
      fold (btrun (map top_of ops)).
      assert (Hok1 : okdb Sb (b_db (drun ops))).
      { split; [exact Hca0|]. intros n Hn. apply Hinc, Hi0, Hn. }
      destruct (dstep_core Sb Hcf Hnil (btrun (map top_of ops)) (b_db (drun ops)) o Hv0 Hr0 Hok1) as [Hres _].
      { intros s Hs. unfold Sb, hist_bodies. apply in_or_app. left. apply in_map.
        rewrite map_app, hist_trees_app. apply in_or_app. right. cbn [map hist_trees]. rewrite app_nil_r.
        exact Hs. }
      rewrite <- Hroot0 in Hres.
      assert (Etr : mkBtrie (b_db (drun ops)) (b_root (drun ops)) = drun ops) by (destruct (drun ops); reflexivity).
      rewrite Etr, He in Hres. rewrite btapply_res.
      destruct (top_res (btrun (map top_of ops)) (top_of o)) as [t'|e']; [discriminate Hres|reflexivity]. }
    split; [exact Et|]. split.
    - rewrite Hroot, Hroot0, Et. reflexivity.
    - intro key. rewrite Hget, Hget0, Et. reflexivity.
  Qed.
End WithHash.

(* ------------------------------------------------------------------ *)
(* a boolean checker for the collision-freeness premise (closed instances): each hash is
   computed once *)
Definition cf_b (H : bytes -> bytes) (l : list bytes) : bool :=
  let hl := map (fun x => (x, H x)) l in
  forallb (fun a : bytes * bytes =>
             forallb (fun b : bytes * bytes =>
                        implb (bytes_eqb (snd a) (snd b)) (bytes_eqb (fst a) (fst b))) hl) hl.

Lemma cf_b_sound H l : cf_b H l = true -> cf H l.
Proof.
  intros Hb x y Hx Hy E. unfold cf_b in Hb. rewrite forallb_forall in Hb.
  specialize (Hb (x, H x) (in_map (fun x => (x, H x)) l x Hx)). rewrite forallb_forall in Hb.
  specialize (Hb (y, H y) (in_map (fun x => (x, H x)) l y Hy)). cbn [fst snd] in Hb.
  rewrite E, bytes_eqb_refl in Hb. cbn [implb] in Hb. apply bytes_eqb_eq. exact Hb.
Qed.

(* ------------------------------------------------------------------ *)
(* Keccak-256 instance: the premise of C12_D_history is satisfiable, and its conclusion on a
   concrete history with overwrites, a refused set, a delete, a delete_subtrie and emptying *)
From PyTrie.Base Require Import Keccak Keccak_proofs.
Local Open Scope nat_scope.

Lemma KBH_def : KBH = Kh [].
Proof. vm_compute. reflexivity. Qed.

Definition exw_ops : list dop :=
  [DSet [x00] [x01]; DSet [x80] [x02]; DSet [xc0] [x03]; DSet [x80] [x04] (* overwrite *);
   DSet [x80; x00] [x05] (* refused: 0x80 is a key *); DDel [x80]; DDel [x40] (* absent *);
   DSet [xc1] [x06]; DDelSub [x00; x01] (* refused: runs past the leaf of 0x00 *);
   DDelSub [xc0] (* removes 0xc0, keeps 0xc1 *); DDel [x00]; DDel [xc1] (* empty again *)].

Example C12_D_example_cf : cf Kh (hist_bodies Kh (map top_of exw_ops)).
Proof. apply cf_b_sound. vm_compute. reflexivity. Qed.

Example C12_D_example :
  let T := btrun (map top_of exw_ops) in
  let final := drun Kh KBH exw_ops in
  b_root final = bin_root Kh (obtcontents T) /\
  (forall key, bin_get KBH final key = Ok (obtget T (encode_to_bin key))) /\
  forall n key, bin_get KBH (mkBtrie (b_db final) (b_root (drun Kh KBH (firstn n exw_ops)))) key
                = Ok (obtget (btrun (map top_of (firstn n exw_ops))) (encode_to_bin key)).
Proof.
  intros T final.
  destruct (C12_D_history Kh KBH keccak256_length KBH_def exw_ops C12_D_example_cf)
    as [_ [_ [_ [_ [_ [Hget [_ [Hcanon Hold]]]]]]]].
  split; [|split].
  - apply Hcanon. unfold dops_ok, exw_ops. repeat constructor; discriminate.
  - exact Hget.
  - intros n key. apply (Hold n).
Qed.

(* the same facts by direct computation, independently of the theorems *)
Example C12_D_example_computed :
  length (hist_bodies Kh (map top_of exw_ops)) = 28 /\
  map (fun n => bytes_eqb (b_root (drun Kh KBH (firstn n exw_ops)))
                          (broot Kh (btrun (map top_of (firstn n exw_ops))))) (seq 0 13)
  = repeat true 13 /\
  map (fun o => match fst (dstep Kh KBH (drun Kh KBH (firstn (fst o) exw_ops)) (snd o)) with
                | Ok _ => true | Err _ => false end)
      (combine (seq 0 12) exw_ops)
  = [true; true; true; true; false; true; true; true; false; true; true; true] /\
  b_root (drun Kh KBH exw_ops) = KBH /\
  bin_get KBH (mkBtrie (b_db (drun Kh KBH exw_ops)) (b_root (drun Kh KBH (firstn 4 exw_ops)))) [x80] = Ok (Some [x04]).
Proof. c13_conjs. Qed.

(* ------------------------------------------------------------------ *)
(* Why the premise must cover the INTERMEDIATE nodes ([btw]) and not only the nodes of the result
   tree: deleting the left leaf under  kv[0] -> branch(leaf 1, leaf 2)  first writes the kv node
   X = kv[1] -> leaf 2  and then merges it into  kv[01] -> leaf 2.  X is not a node of the result.
   With a hash function that is Keccak-256 except that X collides with (leaf 2), the write of X
   replaces the entry of (leaf 2): the hash function is collision free on the old store, the nodes
   of the result tree and the empty string, the root returned is the right one, but the store no
   longer represents the result tree and the surviving key cannot be read. *)
Definition cx_t : bt := TKV [false] (TBranchB (TLeafB [x01]) (TLeafB [x02])).
Definition cx_X : bytes := Eval vm_compute in benc Kh (TKV [true] (TLeafB [x02])).
Definition cx_H (x : bytes) : bytes := if bytes_eqb x cx_X then Kh [x02; x02] else Kh x.
Definition cx_db : bdb := Eval vm_compute in store_of_bt cx_H cx_t.
Definition cx_t' : bt := TKV [false; true] (TLeafB [x02]).
Definition cx_out : result bytes * bdb :=
  Eval vm_compute in _bset cx_H KBH 10 (bhash cx_H cx_t) [false; false] [] false cx_db.

Example intermediate_bodies_needed :
  cx_out = _bset cx_H KBH 10 (bhash cx_H cx_t) [false; false] [] false cx_db /\
  brepr_b cx_H cx_db cx_t = true /\ bcanon cx_t = true /\ no_blank_b cx_H KBH cx_t = true /\
  btset cx_t [false; false] [] false = Ok (Some cx_t') /\
  cf_b cx_H (map snd cx_db ++ map (benc cx_H) (bsubs cx_t') ++ [[]]) = true /\
  fst cx_out = Ok (bhash cx_H cx_t') /\
  brepr_b cx_H (snd cx_out) cx_t' = false /\
  _bget KBH 10 (snd cx_out) (bhash cx_H cx_t') [false; true] = Ok None /\
  btget cx_t' [false; true] = Some [x02] /\
  (* the premise of _bset_refines fails, as it must *)
  cf_b cx_H (wbodies cx_H cx_db (btw cx_t [false; false] [] false)) = false.
Proof. c13_conjs. Qed.

Print Assumptions bset_append_only.
Print Assumptions _bset_refines.
Print Assumptions _bset_refines_canon.
Print Assumptions bin_op_refines.
Print Assumptions bin_update_refines.
Print Assumptions C12_D_history.
Print Assumptions C12_D_raise.
Print Assumptions C12_D_map_model.
Print Assumptions C12_D_example.
Print Assumptions C12_D_example_computed.
Print Assumptions intermediate_bodies_needed.
