(* Binary/BinTree.v — tree-level model of BinaryTrie (children are sub-trees), the
   top-down canonical construction [bbuild] from the bindings alone, and the root hash
   of a tree.  Definitions only. *)
From Coq Require Import List NArith ZArith Bool.
From Coq.Init Require Import Byte.
From PyTrie.Base Require Import Bytes Result AMap.
From PyTrie.Binary Require Import BinEnc.
Import ListNotations.

Inductive bt :=
| TLeafB (v : bytes)
| TKV (path : bits) (child : bt)
| TBranchB (l r : bt).

Definition bbindings := list (bits * bytes).

(* ---------------- lookup ---------------- *)
Fixpoint btget (t : bt) (k : bits) : option bytes :=
  match t with
  | TLeafB v => match k with [] => Some v | _ => None end
  | TKV p c =>
      match k with
      | [] => None
      | _ => if bits_eqb (firstn (length p) k) p then btget c (skipn (length p) k) else None
      end
  | TBranchB l r =>
      match k with
      | [] => None
      | b :: k' => btget (if b then r else l) k'
      end
  end.

Definition obtget (t : option bt) (k : bits) : option bytes :=
  match t with Some t => btget t k | None => None end.

(* ---------------- the canonical construction ---------------- *)
Fixpoint blcp (a b : bits) : bits :=
  match a, b with
  | x :: a', y :: b' => if Bool.eqb x y then x :: blcp a' b' else []
  | _, _ => []
  end.
Definition bcommon (J : bbindings) : bits :=
  match J with
  | [] => []
  | (k, _) :: J' => fold_left (fun acc (e : bits * bytes) => blcp acc (fst e)) J' k
  end.
Definition bstrip (n : nat) (J : bbindings) : bbindings :=
  map (fun e : bits * bytes => (skipn n (fst e), snd e)) J.
Definition bbelow (J : bbindings) (b : bool) : bbindings :=
  flat_map (fun e : bits * bytes =>
              match fst e with x :: k' => if Bool.eqb x b then [(k', snd e)] else [] | [] => [] end) J.

(* leaf when the (single) key is exhausted; kv node over the common bit-prefix of all keys;
   branch on the next bit *)
Fixpoint bbuild (fuel : nat) (J : bbindings) : option bt :=
  match fuel with
  | O => None
  | S f =>
      match J with
      | [] => None
      | [([], v)] => Some (TLeafB v)
      | _ =>
          match bcommon J with
          | [] =>
              match bbuild f (bbelow J false), bbuild f (bbelow J true) with
              | Some l, Some r => Some (TBranchB l r)
              | _, _ => None
              end
          | cp =>
              match bbuild f (bstrip (length cp) J) with
              | Some c => Some (TKV cp c)
              | None => None
              end
          end
      end
  end.

Definition bfuel_of (J : bbindings) : nat :=
  S (S (fold_left (fun m (e : bits * bytes) => Nat.max m (length (fst e))) J O)).
Definition btree_of (J : bbindings) : option bt := bbuild (bfuel_of J) J.

(* ---------------- hashing ---------------- *)
Section Enc.
  Variable H : bytes -> bytes.
  Fixpoint bhash (t : bt) : bytes :=
    match t with
    | TLeafB v => H (x02 :: v)
    | TKV p c => H (x00 :: encode_from_bin_keypath p ++ bhash c)
    | TBranchB l r => H (x01 :: bhash l ++ bhash r)
    end.
  Definition broot (t : option bt) : bytes := match t with Some t => bhash t | None => H [] end.
  Definition bin_root (J : bbindings) : bytes := broot (btree_of J).
End Enc.

(* ---------------- tree-level _set (mirror of BinD._bset with references erased) -------- *)
Definition bstarts (k p : bits) : bool := bits_eqb (firstn (length p) k) p.
Fixpoint bcommon_len (a b : bits) : nat :=
  match a, b with
  | x :: a', y :: b' => if Bool.eqb x y then S (bcommon_len a' b') else O
  | _, _ => O
  end.

Fixpoint btset (t : bt) (k : bits) (v : bytes) (ds : bool) {struct t} : result (option bt) :=
  match t with
  | TLeafB _ =>
      match k with
      | _ :: _ => Err ENodeOverride
      | [] => if ds then Ok None else match v with [] => Ok None | _ => Ok (Some (TLeafB v)) end
      end
  | TKV p c =>
      match k with
      | [] => if ds then Ok None else Err ENodeOverride
      | _ =>
          if (ds && Nat.ltb (length k) (length p) && bits_eqb k (firstn (length k) p))%bool then Ok None
          else if bstarts k p then
            match btset c (skipn (length p) k) v ds with
            | Err e => Err e
            | Ok None => Ok None
            | Ok (Some (TKV sl sr)) => Ok (Some (TKV (p ++ sl) sr))
            | Ok (Some s) => Ok (Some (TKV p s))
            end
          else
            let cpl := bcommon_len p (firstn (length p) k) in
            match v with
            | [] => Ok (Some t)
            | _ =>
                if ds then Ok (Some t)
                else if (negb (Nat.eqb (length k) (cpl + 1)) && Nat.leb (length k) cpl)%bool then Err ENodeOverride
                else
                  let valnode := if Nat.eqb (length k) (cpl + 1) then TLeafB v
                                 else TKV (skipn (cpl + 1) k) (TLeafB v) in
                  let oldnode := if Nat.eqb (length p) (cpl + 1) then c else TKV (skipn (cpl + 1) p) c in
                  let newsub := if nth cpl k false then TBranchB oldnode valnode else TBranchB valnode oldnode in
                  match cpl with
                  | O => Ok (Some newsub)
                  | _ => Ok (Some (TKV (firstn cpl p) newsub))
                  end
            end
      end
  | TBranchB l r =>
      match k with
      | [] => if ds then Ok None else Err ENodeOverride
      | b :: k' =>
          match btset (if b then r else l) k' v ds with
          | Err e => Err e
          | Ok new =>
              let nl := if b then Some l else new in
              let nr := if b then new else Some r in
              match nl, nr with
              | Some a, Some c => Ok (Some (TBranchB a c))
              | None, None => Err (EKeyError [])
              | Some x, None => Ok (Some (match x with TKV sl sr => TKV (false :: sl) sr | _ => TKV [false] x end))
              | None, Some x => Ok (Some (match x with TKV sl sr => TKV (true :: sl) sr | _ => TKV [true] x end))
              end
          end
      end
  end.

Definition obtset (t : option bt) (k : bits) (v : bytes) (ds : bool) : result (option bt) :=
  match t with
  | Some t => btset t k v ds
  | None => match v with
            | [] => Ok None
            | _ => match k with [] => Err EValidation | _ => Ok (Some (TKV k (TLeafB v))) end
            end
  end.

(* API level: a refused call leaves the tree unchanged *)
Inductive btop := BTSet (k : bits) (v : bytes) | BTDel (k : bits) | BTDelSub (k : bits).
Definition btapply (t : option bt) (o : btop) : option bt :=
  let r := match o with
           | BTSet k v => obtset t k v false
           | BTDel k => obtset t k [] false
           | BTDelSub k => obtset t k [] true
           end in
  match r with Ok t' => t' | Err _ => t end.
Definition btrun (ops : list btop) : option bt := fold_left btapply ops None.

(* all stored (key, value) pairs *)
Fixpoint btcontents (t : bt) : bbindings :=
  match t with
  | TLeafB v => [([], v)]
  | TKV p c => map (fun e : bits * bytes => (p ++ fst e, snd e)) (btcontents c)
  | TBranchB l r => map (fun e : bits * bytes => (false :: fst e, snd e)) (btcontents l)
                    ++ map (fun e : bits * bytes => (true :: fst e, snd e)) (btcontents r)
  end.
Definition obtcontents (t : option bt) : bbindings := match t with Some t => btcontents t | None => [] end.
