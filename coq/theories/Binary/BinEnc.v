(* Binary/BinEnc.v — model of trie/utils/binaries.py and of the binary-trie node
   codecs in trie/utils/nodes.py.  Bit strings (Python: bytes of 0/1) are [list bool].
   Definitions only. *)
From Coq Require Import List NArith ZArith Bool.
From Coq.Init Require Import Byte.
From PyTrie.Base Require Import Bytes Result.
Import ListNotations.
Open Scope N_scope.
Open Scope res_scope.

Definition bits := list bool.

Fixpoint bits_eqb (a b : bits) : bool :=
  match a, b with
  | [], [] => true
  | x :: a', y :: b' => Bool.eqb x y && bits_eqb a' b'
  | _, _ => false
  end.

(* encode_to_bin: for char in value: for exp in EXP (128..1): yield bool(char & exp) *)
Definition byte_to_bits (b : byte) : bits :=
  let n := b2n b in
  [N.testbit n 7; N.testbit n 6; N.testbit n 5; N.testbit n 4;
   N.testbit n 3; N.testbit n 2; N.testbit n 1; N.testbit n 0].

Fixpoint encode_to_bin (v : bytes) : bits :=
  match v with
  | [] => []
  | x :: v' => byte_to_bits x ++ encode_to_bin v'
  end.

(* sum(2**exp * bit for exp, bit in enumerate(reversed(chunk))) *)
Definition bits_to_N (l : bits) : N :=
  fold_left (fun acc (b : bool) => 2 * acc + (if b then 1 else 0)) l 0.

(* partition_all(8, input_bin): the last chunk may be shorter *)
Fixpoint decode_from_bin_aux (fuel : nat) (l : bits) : bytes :=
  match fuel with
  | O => []
  | S f =>
      match l with
      | [] => []
      | _ => n2b (bits_to_N (firstn 8 l)) :: decode_from_bin_aux f (skipn 8 l)
      end
  end.
Definition decode_from_bin (l : bits) : bytes := decode_from_bin_aux (S (length l)) l.

Definition two_bits (n : nat) : bits :=
  match n with
  | 0%nat => [false; false] | 1%nat => [false; true] | 2%nat => [true; false] | _ => [true; true]
  end.

Definition PREFIX_00 : bits := [false; false].
Definition PREFIX_100000 : bits := [true; false; false; false; false; false].

Definition encode_from_bin_keypath (input : bits) : bytes :=
  let len := length input in
  let padded := repeat false (Nat.modulo (4 - Nat.modulo len 4) 4) ++ input in
  let prefix := two_bits (Nat.modulo len 4) in
  if Nat.eqb (Nat.modulo (length padded) 8) 4
  then decode_from_bin (PREFIX_00 ++ prefix ++ padded)
  else decode_from_bin (PREFIX_100000 ++ prefix ++ padded).

(* TWO_BITS.index(x) *)
Definition two_bits_index (x : bits) : result nat :=
  match x with
  | [false; false] => Ok 0%nat
  | [false; true] => Ok 1%nat
  | [true; false] => Ok 2%nat
  | [true; true] => Ok 3%nat
  | _ => Err EValueError
  end.

Definition decode_to_bin_keypath (path : bytes) : result bits :=
  let p := encode_to_bin path in
  match p with
  | [] => Err EIndexError
  | b0 :: _ =>
      let p' := if b0 then skipn 4 p else p in
      if negb (bits_eqb (firstn 2 p') PREFIX_00) then Err EAssertion
      else
        let! padded_len := two_bits_index (firstn 2 (skipn 2 p')) in
        Ok (skipn (4 + Nat.modulo (4 - padded_len) 4) p')
  end.

(* ------------------------------------------------------------------ *)
(* binary trie nodes *)
Inductive bnode :=
| BKV (path : bits) (child : bytes)
| BBranch (l r : bytes)
| BLeaf (v : bytes).

Definition parse_node (node : bytes) : result bnode :=
  match node with
  | [] => Err EInvalidNode
  | t :: rest =>
      let n := b2n t in
      if n =? 1 then
        if negb (Nat.eqb (length node) 65) then Err EInvalidNode
        else Ok (BBranch (firstn 32 rest) (skipn 32 rest))
      else if n =? 0 then
        if Nat.leb (length node) 33 then Err EInvalidNode
        else
          let klen := (length rest - 32)%nat in
          let! p := decode_to_bin_keypath (firstn klen rest) in
          Ok (BKV p (skipn klen rest))
      else if n =? 2 then
        match rest with
        | [] => Err EInvalidNode
        | _ => Ok (BLeaf rest)
        end
      else Err EInvalidNode
  end.

Definition encode_kv_node (keypath : bits) (child : bytes) : result bytes :=
  match keypath with
  | [] => Err EValidation
  | _ => if negb (Nat.eqb (length child) 32) then Err EValidation
         else Ok (x00 :: encode_from_bin_keypath keypath ++ child)
  end.

Definition encode_branch_node (l r : bytes) : result bytes :=
  if negb (Nat.eqb (length l) 32) then Err EValidation
  else if negb (Nat.eqb (length r) 32) then Err EValidation
  else Ok (x01 :: l ++ r).

Definition encode_leaf_node (v : bytes) : result bytes :=
  match v with
  | [] => Err EValidation
  | _ => Ok (x02 :: v)
  end.

Definition bits_obs (l : bits) : obs := OL (map obool l).
Definition bnode_obs (n : bnode) : obs :=
  match n with
  | BKV p c => OL [OZ 0%Z; bits_obs p; OB c]
  | BBranch l r => OL [OZ 1%Z; OB l; OB r]
  | BLeaf v => OL [OZ 2%Z; ONone; OB v]
  end.
