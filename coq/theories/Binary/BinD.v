(* Binary/BinD.v — database-level model of trie/binary.py (BinaryTrie) and
   trie/branches.py.  Recursion through the store on explicit fuel.  Definitions only. *)
From Coq Require Import List NArith ZArith Bool.
From Coq.Init Require Import Byte.
From PyTrie.Base Require Import Bytes Result AMap.
From PyTrie.Binary Require Import BinEnc.
Import ListNotations.
Open Scope res_scope.

Definition ENodeOverrideE := ENodeOverride.

Section WithHash.
  Variable H : bytes -> bytes.
  Variable BH : bytes.          (* BLANK_HASH = H [] *)

  Definition bdb := amap bytes.

  Definition db_read (db : bdb) (h : bytes) : result bytes :=
    match aget db h with Some v => Ok v | None => Err (EKeyError h) end.

  Definition is_blank_hash (h : bytes) : bool := bytes_eqb h BH.

  Definition validate_is_bin_node (node : bytes) : result unit :=
    if bytes_eqb node BH then Ok tt
    else match node with
         | t :: _ => if (b2n t <? 3)%N then Ok tt else Err EValidation
         | [] => Err EIndexError
         end.

  (* validate_is_bin_node + keccak + db[hash] = node *)
  Definition hash_and_save (db : bdb) (node : bytes) : result (bdb * bytes) :=
    let! _ := validate_is_bin_node node in
    let h := H node in Ok (aset db h node, h).

  Definition starts_with (keypath p : bits) : bool := bits_eqb (firstn (length p) keypath) p.

  Fixpoint common_len (a b : bits) : nat :=
    match a, b with
    | x :: a', y :: b' => if Bool.eqb x y then S (common_len a' b') else O
    | _, _ => O
    end.

  (* ---------------- get ---------------- *)
  Fixpoint _bget (fuel : nat) (db : bdb) (node_hash : bytes) (keypath : bits) : result (option bytes) :=
    match fuel with
    | O => Err EOutOfFuel
    | S f =>
        if is_blank_hash node_hash then Ok None
        else
          let! raw := db_read db node_hash in
          let! n := parse_node raw in
          match n with
          | BLeaf v => match keypath with [] => Ok (Some v) | _ => Ok None end
          | BKV p child =>
              match keypath with
              | [] => Ok None
              | _ => if starts_with keypath p then _bget f db child (skipn (length p) keypath) else Ok None
              end
          | BBranch l r =>
              match keypath with
              | [] => Ok None
              | b :: k' => _bget f db (if b then r else l) k'
              end
          end
    end.

  (* ---------------- set / delete / delete_subtrie ---------------- *)
  (* state-passing: the database keeps what was written before an exception *)
  Definition W (A : Type) := bdb -> result A * bdb.
  Definition wret {A} (a : A) : W A := fun db => (Ok a, db).
  Definition wfail {A} (e : exn) : W A := fun db => (Err e, db).
  Definition wbind {A B} (m : W A) (f : A -> W B) : W B :=
    fun db => match m db with (Ok a, db') => f a db' | (Err e, db') => (Err e, db') end.
  Definition wlift {A} (r : result A) : W A := fun db => (r, db).
  Definition hs (r : result bytes) : W bytes :=
    fun db => match r with
              | Err e => (Err e, db)
              | Ok node => match hash_and_save db node with
                           | Ok (db', h) => (Ok h, db')
                           | Err e => (Err e, db)
                           end
              end.
  Definition wread (h : bytes) : W bnode :=
    fun db => (match db_read db h with Ok raw => parse_node raw | Err e => Err e end, db).

  Notation "x <-- m ;; k" := (wbind m (fun x => k)) (at level 61, m at next level, right associativity).

  Fixpoint _bset (fuel : nat) (node_hash : bytes) (keypath : bits) (value : bytes) (del_sub : bool)
    {struct fuel} : W bytes :=
    match fuel with
    | O => wfail EOutOfFuel
    | S f =>
        if is_blank_hash node_hash then
          match value with
          | [] => wret BH
          | _ => lh <-- hs (encode_leaf_node value) ;; hs (encode_kv_node keypath lh)
          end
        else
          n <-- wread node_hash ;;
          match n with
          | BLeaf _ =>
              match keypath with
              | _ :: _ => wfail ENodeOverride
              | [] => if del_sub then wret BH
                      else match value with [] => wret BH | _ => hs (encode_leaf_node value) end
              end
          | BKV path child =>
              match keypath with
              | [] => if del_sub then wret BH else wfail ENodeOverride
              | _ =>
                  (* _set_kv_node *)
                  if (del_sub && Nat.ltb (length keypath) (length path)
                      && bits_eqb keypath (firstn (length keypath) path))%bool then wret BH
                  else if starts_with keypath path then
                    sub <-- _bset f child (skipn (length path) keypath) value del_sub ;;
                    if is_blank_hash sub then wret BH
                    else
                      sn <-- wread sub ;;
                      match sn with
                      | BKV sl sr => hs (encode_kv_node (path ++ sl) sr)
                      | _ => hs (encode_kv_node path sub)
                      end
                  else
                    let cpl := common_len path (firstn (length path) keypath) in
                    match value with
                    | [] => wret node_hash
                    | _ =>
                        if del_sub then wret node_hash
                        else
                          valnode <--
                            (if Nat.eqb (length keypath) (cpl + 1) then hs (encode_leaf_node value)
                             else if Nat.leb (length keypath) cpl then wfail ENodeOverride
                             else lh <-- hs (encode_leaf_node value) ;;
                                  hs (encode_kv_node (skipn (cpl + 1) keypath) lh)) ;;
                          oldnode <--
                            (if Nat.eqb (length path) (cpl + 1) then wret child
                             else hs (encode_kv_node (skipn (cpl + 1) path) child)) ;;
                          newsub <--
                            (if nth cpl keypath false
                             then hs (encode_branch_node oldnode valnode)
                             else hs (encode_branch_node valnode oldnode)) ;;
                          match cpl with
                          | O => wret newsub
                          | _ => hs (encode_kv_node (firstn cpl path) newsub)
                          end
                    end
              end
          | BBranch l r =>
              match keypath with
              | [] => if del_sub then wret BH else wfail ENodeOverride
              | b :: k' =>
                  (* _set_branch_node *)
                  new <-- _bset f (if b then r else l) k' value del_sub ;;
                  let new_l := if b then l else new in
                  let new_r := if b then new else r in
                  if (is_blank_hash new_l || is_blank_hash new_r)%bool then
                    let other := if is_blank_hash new_l then new_r else new_l in
                    sn <-- wread other ;;
                    let first_bit := negb (is_blank_hash new_r) in
                    match sn with
                    | BKV sl sr => hs (encode_kv_node (first_bit :: sl) sr)
                    | _ => hs (encode_kv_node [first_bit] other)
                    end
                  else hs (encode_branch_node new_l new_r)
              end
          end
    end.

  Record btrie := mkBtrie { b_db : bdb; b_root : bytes }.

  Definition bfuel (key : bytes) : nat := S (S (8 * length key)).

  Definition bin_get (t : btrie) (key : bytes) : result (option bytes) :=
    _bget (bfuel key) (b_db t) (b_root t) (encode_to_bin key).
  Definition bin_exists (t : btrie) (key : bytes) : result bool :=
    let! r := bin_get t key in Ok (match r with Some _ => true | None => false end).

  (* self.root_hash = self._set(...): the root moves only if no exception was raised;
     nodes written before an exception stay in the database *)
  Definition bin_update (t : btrie) (key value : bytes) (del_sub : bool) : result unit * btrie :=
    match _bset (bfuel key) (b_root t) (encode_to_bin key) value del_sub (b_db t) with
    | (Ok h, db') => (Ok tt, mkBtrie db' h)
    | (Err e, db') => (Err e, mkBtrie db' (b_root t))
    end.
  Definition bin_set t key value := bin_update t key value false.
  Definition bin_delete t key := bin_update t key [] false.
  Definition bin_delete_subtrie t key := bin_update t key [] true.

  (* ---------------- trie/branches.py ---------------- *)
  Fixpoint _check_if_branch_exist (fuel : nat) (db : bdb) (node_hash : bytes) (kp : bits) : result bool :=
    match fuel with
    | O => Err EOutOfFuel
    | S f =>
        if is_blank_hash node_hash then Ok false
        else
          let! raw := db_read db node_hash in
          let! n := parse_node raw in
          match n with
          | BLeaf _ => match kp with [] => Ok true | _ => Ok false end
          | BKV p child =>
              match kp with
              | [] => Ok true
              | _ => if Nat.ltb (length kp) (length p) then Ok (bits_eqb kp (firstn (length kp) p))
                     else if starts_with kp p then _check_if_branch_exist f db child (skipn (length p) kp)
                     else Ok false
              end
          | BBranch l r =>
              match kp with
              | [] => Ok true
              | b :: k' => _check_if_branch_exist f db (if b then r else l) k'
              end
          end
    end.

  Definition check_if_branch_exist (db : bdb) (root key_prefix : bytes) : result bool :=
    _check_if_branch_exist (bfuel key_prefix) db root (encode_to_bin key_prefix).

  Fixpoint _get_branch (fuel : nat) (db : bdb) (node_hash : bytes) (kp : bits) : result (list bytes) :=
    match fuel with
    | O => Err EOutOfFuel
    | S f =>
        if is_blank_hash node_hash then Ok []
        else
          let! raw := db_read db node_hash in
          let! n := parse_node raw in
          match n with
          | BLeaf _ => match kp with [] => Ok [raw] | _ => Err EInvalidKey end
          | BKV p child =>
              match kp with
              | [] => Err EInvalidKey
              | _ => if starts_with kp p then
                       let! rest := _get_branch f db child (skipn (length p) kp) in Ok (raw :: rest)
                     else Ok [raw]
              end
          | BBranch l r =>
              match kp with
              | [] => Err EInvalidKey
              | b :: k' => let! rest := _get_branch f db (if b then r else l) k' in Ok (raw :: rest)
              end
          end
    end.

  Definition get_branch (db : bdb) (root key : bytes) : result (list bytes) :=
    _get_branch (bfuel key) db root (encode_to_bin key).

  (* if_branch_valid(branch, root, key, value): value None = "not in the trie" *)
  Definition if_branch_valid (branch : list bytes) (root key : bytes) (value : option bytes) : result bool :=
    match branch with
    | [] => Err EAssertion
    | _ =>
        let! _ := rmapM validate_is_bin_node branch in
        let db := fold_left (fun acc n => aset acc (H n) n) branch [] in
        let! got := _bget (bfuel key) db root (encode_to_bin key) in
        let same := match got, value with
                    | None, None => true
                    | Some a, Some b => bytes_eqb a b
                    | _, _ => false
                    end in
        if same then Ok true else Err EAssertion
    end.

  (* get_trie_nodes: nodes reachable from a root that are present in the db (preorder) *)
  Fixpoint _get_trie_nodes (fuel : nat) (db : bdb) (node_hash : bytes) : result (list bytes) :=
    match fuel with
    | O => Err EOutOfFuel
    | S f =>
        match aget db node_hash with
        | None => Ok []
        | Some raw =>
            let! n := parse_node raw in
            match n with
            | BKV _ child => let! rest := _get_trie_nodes f db child in Ok (raw :: rest)
            | BBranch l r =>
                let! a := _get_trie_nodes f db l in
                let! b := _get_trie_nodes f db r in
                Ok (raw :: a ++ b)
            | BLeaf _ => Ok [raw]
            end
        end
    end.

  Definition nodes_fuel : nat := 600.
  Definition get_trie_nodes (db : bdb) (node_hash : bytes) : result (list bytes) :=
    _get_trie_nodes nodes_fuel db node_hash.

  Fixpoint _get_witness (fuel : nat) (db : bdb) (node_hash : bytes) (kp : bits) : result (list bytes) :=
    match fuel with
    | O => Err EOutOfFuel
    | S f =>
        let! pre := match kp with [] => get_trie_nodes db node_hash | _ => Ok [] end in
        match aget db node_hash with
        | None => Ok pre
        | Some raw =>
            let! n := parse_node raw in
            match n with
            | BLeaf _ => match kp with [] => Ok pre | _ => Err EInvalidKey end
            | BKV p child =>
                if (Nat.ltb (length kp) (length p) && bits_eqb (firstn (length kp) p) kp)%bool then
                  let! rest := get_trie_nodes db child in Ok (pre ++ raw :: rest)
                else if starts_with kp p then
                  let! rest := _get_witness f db child (skipn (length p) kp) in Ok (pre ++ raw :: rest)
                else Ok (pre ++ [raw])
            | BBranch l r =>
                (* keypath[:1] == BYTE_0 ? left : right  (an empty keypath goes right) *)
                let go_left := match kp with false :: _ => true | _ => false end in
                let! rest := _get_witness f db (if go_left then l else r) (tl kp) in
                Ok (pre ++ raw :: rest)
            end
        end
    end.

  Definition get_witness_for_key_prefix (db : bdb) (node_hash key : bytes) : result (list bytes) :=
    (* with an exhausted key path the descent continues down the right spine of the sub-trie *)
    _get_witness (bfuel key + nodes_fuel) db node_hash (encode_to_bin key).
End WithHash.
