(* Binary/BinD_proofs.v — C13: the database-level reads of Binary/BinD.v (get, check_if_branch_exist,
   get_branch / if_branch_valid, get_trie_nodes, get_witness_for_key_prefix) against the tree-level
   model of Binary/BinTree.v.  [H] is an arbitrary function with 32-byte output; it is NEVER assumed
   injective: collision freedom is an explicit premise [cf] on a finite list of node encodings. *)
From Coq Require Import List NArith ZArith Bool Arith Lia ZifyBool.
From Coq.Init Require Import Byte.
From PyTrie.Base Require Import Bytes Bytes_proofs Result AMap AMap_proofs.
From PyTrie.Binary Require Import BinEnc BinEnc_proofs BinTree BinTree_proofs BinD.
Import ListNotations.
Local Open Scope nat_scope.

(* ------------------------------------------------------------------ *)
(* definitions *)

(* the encoding of the top node of a tree: children by hash *)
Definition benc (H : bytes -> bytes) (t : bt) : bytes :=
  match t with
  | TLeafB v => x02 :: v
  | TKV p c => x00 :: encode_from_bin_keypath p ++ bhash H c
  | TBranchB l r => x01 :: bhash H l ++ bhash H r
  end.

Definition bnode_of (H : bytes -> bytes) (t : bt) : bnode :=
  match t with
  | TLeafB v => BLeaf v
  | TKV p c => BKV p (bhash H c)
  | TBranchB l r => BBranch (bhash H l) (bhash H r)
  end.

(* all subtrees, preorder, the tree itself first *)
Fixpoint bsubs (t : bt) : list bt :=
  t :: match t with
       | TLeafB _ => []
       | TKV _ c => bsubs c
       | TBranchB l r => bsubs l ++ bsubs r
       end.

Fixpoint bdepth (t : bt) : nat :=
  match t with
  | TLeafB _ => 0
  | TKV _ c => S (bdepth c)
  | TBranchB l r => S (Nat.max (bdepth l) (bdepth r))
  end.

(* the store holds the encoding of every node of t under its hash *)
Fixpoint brepr (H : bytes -> bytes) (db : bdb) (t : bt) : Prop :=
  aget db (bhash H t) = Some (benc H t) /\
  match t with
  | TLeafB _ => True
  | TKV _ c => brepr H db c
  | TBranchB l r => brepr H db l /\ brepr H db r
  end.

(* what is needed for the encodings to parse back: kv paths and leaf values are not empty *)
Fixpoint bvalid (t : bt) : bool :=
  match t with
  | TLeafB v => match v with [] => false | _ => true end
  | TKV p c => match p with [] => false | _ => true end && bvalid c
  | TBranchB l r => bvalid l && bvalid r
  end.

(* no node of t hashes to the blank hash *)
Definition no_blank_collision (H : bytes -> bytes) (BH : bytes) (t : bt) : Prop :=
  forall s, In s (bsubs t) -> bhash H s <> BH.

(* collision freedom of H on a finite set of byte strings *)
Definition cf (H : bytes -> bytes) (S : list bytes) : Prop :=
  forall x y, In x S -> In y S -> H x = H y -> x = y.

(* a store is content addressed *)
Definition ca (H : bytes -> bytes) (db : bdb) : Prop := forall h n, aget db h = Some n -> H n = h.

(* the store if_branch_valid rebuilds from a list of nodes *)
Definition rebuild (H : bytes -> bytes) (l : list bytes) : bdb :=
  fold_left (fun acc n => aset acc (H n) n) l [].

Definition store_of_bt (H : bytes -> bytes) (t : bt) : bdb := rebuild H (map (benc H) (bsubs t)).

(* the subtrees a lookup of k visits, root first (= the nodes of get_branch when it succeeds) *)
Fixpoint bvisit (t : bt) (k : bits) : list bt :=
  t :: match t with
       | TLeafB _ => []
       | TKV p c =>
           match k with
           | [] => []
           | _ => if bstarts k p then bvisit c (skipn (length p) k) else []
           end
       | TBranchB l r =>
           match k with
           | [] => []
           | b :: k' => bvisit (if b then r else l) k'
           end
       end.

(* ------------------------------------------------------------------ *)
(* H-independent facts *)

Lemma bcanon_bvalid t : bcanon t = true -> bvalid t = true.
Proof.
  induction t as [v|p c IHc|l IHl r IHr]; intro Hc.
  - exact Hc.
  - apply bcanon_TKV in Hc as [Hp [_ Hc]]. cbn [bvalid]. rewrite (IHc Hc).
    destruct p; [contradiction|reflexivity].
  - apply bcanon_branch in Hc as [Hl Hr]. cbn [bvalid]. rewrite (IHl Hl), (IHr Hr). reflexivity.
Qed.

Lemma bvalid_TKV p c : bvalid (TKV p c) = true -> p <> [] /\ bvalid c = true.
Proof.
  cbn [bvalid]. intro Hv. apply andb_true_iff in Hv as [H1 H2]. split; [|exact H2].
  intros ->. discriminate H1.
Qed.

Lemma bvalid_branch l r : bvalid (TBranchB l r) = true -> bvalid l = true /\ bvalid r = true.
Proof. cbn [bvalid]. intro Hv. apply andb_true_iff in Hv. exact Hv. Qed.

Lemma bvalid_leaf v : bvalid (TLeafB v) = true -> v <> [].
Proof. cbn [bvalid]. intros Hv ->. discriminate Hv. Qed.

Lemma bsubs_self t : In t (bsubs t).
Proof. destruct t; left; reflexivity. Qed.

Lemma bsubs_kv p c s : In s (bsubs c) -> In s (bsubs (TKV p c)).
Proof. intro Hs. right. exact Hs. Qed.

Lemma bsubs_l l r s : In s (bsubs l) -> In s (bsubs (TBranchB l r)).
Proof. intro Hs. right. apply in_or_app. left. exact Hs. Qed.

Lemma bsubs_r l r s : In s (bsubs r) -> In s (bsubs (TBranchB l r)).
Proof. intro Hs. right. apply in_or_app. right. exact Hs. Qed.

Lemma bsubs_child (b : bool) l r s : In s (bsubs (if b then r else l)) -> In s (bsubs (TBranchB l r)).
Proof. destruct b; [apply bsubs_r|apply bsubs_l]. Qed.

Lemma bsubs_trans t : forall s u, In s (bsubs t) -> In u (bsubs s) -> In u (bsubs t).
Proof.
  induction t as [v|p c IHc|l IHl r IHr]; intros s u Hs Hu.
  - destruct Hs as [<-|[]]. exact Hu.
  - destruct Hs as [<-|Hs]; [exact Hu|]. apply bsubs_kv. exact (IHc s u Hs Hu).
  - destruct Hs as [<-|Hs]; [exact Hu|]. apply in_app_or in Hs as [Hs|Hs].
    + apply bsubs_l. exact (IHl s u Hs Hu).
    + apply bsubs_r. exact (IHr s u Hs Hu).
Qed.

Lemma bvalid_sub t : bvalid t = true -> forall s, In s (bsubs t) -> bvalid s = true.
Proof.
  induction t as [v|p c IHc|l IHl r IHr]; intros Hv s Hs.
  - destruct Hs as [<-|[]]. exact Hv.
  - destruct Hs as [<-|Hs]; [exact Hv|]. apply bvalid_TKV in Hv as [_ Hv]. exact (IHc Hv s Hs).
  - destruct Hs as [<-|Hs]; [exact Hv|]. apply bvalid_branch in Hv as [Hl Hr].
    apply in_app_or in Hs as [Hs|Hs]; [exact (IHl Hl s Hs)|exact (IHr Hr s Hs)].
Qed.

Lemma bvisit_subs t : forall k s, In s (bvisit t k) -> In s (bsubs t).
Proof.
  induction t as [v|p c IHc|l IHl r IHr]; intros k s Hs.
  - exact Hs.
  - destruct Hs as [<-|Hs]; [apply bsubs_self|]. apply bsubs_kv.
    destruct k as [|b k]; [destruct Hs|].
    destruct (bstarts (b :: k) p); [|destruct Hs]. exact (IHc _ s Hs).
  - destruct Hs as [<-|Hs]; [apply bsubs_self|].
    destruct k as [|b k]; [destruct Hs|].
    apply (bsubs_child b). destruct b; [exact (IHr _ s Hs)|exact (IHl _ s Hs)].
Qed.

Lemma bvisit_head t k : exists l, bvisit t k = t :: l.
Proof. destruct t; eexists; reflexivity. Qed.

(* a valid tree stores something *)
Lemma bvalid_nonempty t : bvalid t = true -> exists s, btget t s <> None.
Proof.
  induction t as [v|p c IHc|l IHl r IHr]; intro Hv.
  - exists []. discriminate.
  - apply bvalid_TKV in Hv as [Hp Hc]. destruct (IHc Hc) as [s Hs].
    exists (p ++ s). rewrite btget_TKV_app by exact Hp. exact Hs.
  - apply bvalid_branch in Hv as [Hl _]. destruct (IHl Hl) as [s Hs]. exists (false :: s). exact Hs.
Qed.

Lemma is_bprefix_nil a : is_bprefix [] a.
Proof. exists a. reflexivity. Qed.

Lemma is_bprefix_cons b a c : is_bprefix (b :: a) (b :: c) <-> is_bprefix a c.
Proof. apply (is_bprefix_app [b]). Qed.

Lemma skipn_length_lt {A} n (l : list A) : l <> [] -> n <> 0 -> length (skipn n l) < length l.
Proof.
  intros Hl Hn. rewrite skipn_length. destruct l as [|x l]; [contradiction|]. cbn [length]. lia.
Qed.

Lemma length_nonzero {A} (p : list A) : p <> [] -> length p <> 0.
Proof. destruct p; [contradiction|discriminate]. Qed.

Lemma cf_incl H S S' : incl S' S -> cf H S -> cf H S'.
Proof. intros Hi Hc x y Hx Hy. apply Hc; apply Hi; assumption. Qed.

(* ------------------------------------------------------------------ *)
Section WithHash.
  Variable H : bytes -> bytes.
  Variable BH : bytes.
  Hypothesis H_len : forall x, length (H x) = 32.

  Notation benc := (benc H).
  Notation bhash := (bhash H).
  Notation bnode_of := (bnode_of H).
  Notation brepr := (brepr H).
  Notation no_blank_collision := (no_blank_collision H BH).
  Notation cf := (cf H).
  Notation ca := (ca H).
  Notation rebuild := (rebuild H).

  Lemma bhash_benc t : bhash t = H (benc t).
  Proof. destruct t; reflexivity. Qed.

  Lemma bhash_len t : length (bhash t) = 32.
  Proof. rewrite bhash_benc. apply H_len. Qed.

  Lemma parse_benc t : bvalid t = true -> parse_node (benc t) = Ok (bnode_of t).
  Proof.
    intro Hv. apply encode_bnode_parse. destruct t as [v|p c|l r]; cbn [bnode_of encode_bnode benc].
    - apply bvalid_leaf in Hv. destruct v; [contradiction|reflexivity].
    - apply bvalid_TKV in Hv as [Hp _]. unfold encode_kv_node. rewrite bhash_len.
      destruct p; [contradiction|reflexivity].
    - unfold encode_branch_node. rewrite !bhash_len. reflexivity.
  Qed.

  Lemma validate_benc t : validate_is_bin_node BH (benc t) = Ok tt.
  Proof.
    unfold validate_is_bin_node. destruct (bytes_eqb (benc t) BH); [reflexivity|].
    destruct t; reflexivity.
  Qed.

  (* ---------------- the representation relation ---------------- *)
  Definition stored (db : bdb) (s : bt) : Prop := aget db (bhash s) = Some (benc s) /\ bhash s <> BH.

  Lemma brepr_iff db t : brepr db t <-> forall s, In s (bsubs t) -> aget db (bhash s) = Some (benc s).
  Proof.
    induction t as [v|p c IHc|l IHl r IHr]; cbn [BinD_proofs.brepr]; split.
    - intros [H1 _] s [<-|[]]. exact H1.
    - intro Hs. split; [apply Hs, bsubs_self|exact I].
    - intros [H1 H2] s [<-|Hs]; [exact H1|]. apply IHc; assumption.
    - intro Hs. split; [apply Hs, bsubs_self|]. apply IHc. intros s Hin. apply Hs, bsubs_kv, Hin.
    - intros [H1 [H2 H3]] s [<-|Hs]; [exact H1|].
      apply in_app_or in Hs as [Hs|Hs]; [apply IHl|apply IHr]; assumption.
    - intro Hs. split; [apply Hs, bsubs_self|]. split.
      + apply IHl. intros s Hin. apply Hs, bsubs_l, Hin.
      + apply IHr. intros s Hin. apply Hs, bsubs_r, Hin.
  Qed.

  Lemma brepr_stored db t : brepr db t -> no_blank_collision t -> forall s, In s (bsubs t) -> stored db s.
  Proof. intros Hr Hn s Hs. split; [apply (proj1 (brepr_iff db t) Hr s Hs)|apply Hn, Hs]. Qed.

  Lemma brepr_sub db t s : brepr db t -> In s (bsubs t) -> brepr db s.
  Proof.
    intros Hr Hs. apply brepr_iff. intros u Hu. apply (proj1 (brepr_iff db t) Hr).
    exact (bsubs_trans t s u Hs Hu).
  Qed.

  (* an honest store is collision free on the nodes of the tree it represents: equal hashes are
     the same key of the store *)
  Lemma brepr_cf db t : brepr db t -> cf (map benc (bsubs t)).
  Proof.
    intros Hr x y Hx Hy Hxy.
    apply in_map_iff in Hx as [s1 [<- H1]]. apply in_map_iff in Hy as [s2 [<- H2]].
    pose proof (proj1 (brepr_iff db t) Hr s1 H1) as E1.
    pose proof (proj1 (brepr_iff db t) Hr s2 H2) as E2.
    rewrite !bhash_benc in E1, E2. rewrite Hxy in E1. rewrite E1 in E2. injection E2 as E2. exact E2.
  Qed.

  (* ---------------- one step of each reader ---------------- *)
  Lemma not_blank h : h <> BH -> is_blank_hash BH h = false.
  Proof. intro Hh. unfold is_blank_hash. apply bytes_eqb_neq. exact Hh. Qed.

  Lemma bget_step db s f k : stored db s -> bvalid s = true ->
    _bget BH (S f) db (bhash s) k =
    match bnode_of s with
    | BLeaf v => match k with [] => Ok (Some v) | _ => Ok None end
    | BKV p child =>
        match k with
        | [] => Ok None
        | _ => if starts_with k p then _bget BH f db child (skipn (length p) k) else Ok None
        end
    | BBranch l r =>
        match k with
        | [] => Ok None
        | b :: k' => _bget BH f db (if b then r else l) k'
        end
    end.
  Proof.
    intros [Hs Hb] Hv. cbn [_bget]. rewrite (not_blank _ Hb). unfold db_read. rewrite Hs.
    cbn [rbind]. rewrite (parse_benc s Hv). reflexivity.
  Qed.

  Lemma check_step db s f k : stored db s -> bvalid s = true ->
    _check_if_branch_exist BH (S f) db (bhash s) k =
    match bnode_of s with
    | BLeaf _ => match k with [] => Ok true | _ => Ok false end
    | BKV p child =>
        match k with
        | [] => Ok true
        | _ => if Nat.ltb (length k) (length p) then Ok (bits_eqb k (firstn (length k) p))
               else if starts_with k p then _check_if_branch_exist BH f db child (skipn (length p) k)
               else Ok false
        end
    | BBranch l r =>
        match k with
        | [] => Ok true
        | b :: k' => _check_if_branch_exist BH f db (if b then r else l) k'
        end
    end.
  Proof.
    intros [Hs Hb] Hv. cbn [_check_if_branch_exist]. rewrite (not_blank _ Hb). unfold db_read. rewrite Hs.
    cbn [rbind]. rewrite (parse_benc s Hv). reflexivity.
  Qed.

  Lemma branch_step db s f k : stored db s -> bvalid s = true ->
    _get_branch BH (S f) db (bhash s) k =
    match bnode_of s with
    | BLeaf _ => match k with [] => Ok [benc s] | _ => Err EInvalidKey end
    | BKV p child =>
        match k with
        | [] => Err EInvalidKey
        | _ => if starts_with k p then
                 rbind (_get_branch BH f db child (skipn (length p) k)) (fun rest => Ok (benc s :: rest))
               else Ok [benc s]
        end
    | BBranch l r =>
        match k with
        | [] => Err EInvalidKey
        | b :: k' => rbind (_get_branch BH f db (if b then r else l) k') (fun rest => Ok (benc s :: rest))
        end
    end.
  Proof.
    intros [Hs Hb] Hv. cbn [_get_branch]. rewrite (not_blank _ Hb). unfold db_read. rewrite Hs.
    cbn [rbind]. rewrite (parse_benc s Hv). reflexivity.
  Qed.

  (* ---------------- 1. get ---------------- *)
  Lemma bget_visit db t : bvalid t = true -> forall k fuel,
    (forall s, In s (bvisit t k) -> stored db s) -> length k < fuel ->
    _bget BH fuel db (bhash t) k = Ok (btget t k).
  Proof.
    induction t as [v|p c IHc|l IHl r IHr]; intros Hv k fuel Hst Hf;
      (destruct fuel as [|f]; [lia|]);
      (rewrite bget_step; [|apply Hst; left; reflexivity|exact Hv]); cbn [BinD_proofs.bnode_of btget].
    - destruct k; reflexivity.
    - apply bvalid_TKV in Hv as [Hp Hc].
      destruct k as [|b k]; [reflexivity|].
      change (starts_with (b :: k) p) with (bstarts (b :: k) p).
      change (bits_eqb (firstn (length p) (b :: k)) p) with (bstarts (b :: k) p).
      destruct (bstarts (b :: k) p) eqn:E; [|reflexivity].
      apply IHc; [exact Hc| |].
      + intros s Hs. apply Hst. right. cbn [bvisit]. rewrite E. exact Hs.
      + pose proof (skipn_length_lt (length p) (b :: k)) as Hl.
        specialize (Hl ltac:(discriminate) (length_nonzero p Hp)). lia.
    - apply bvalid_branch in Hv as [Hl Hr].
      destruct k as [|b k]; [reflexivity|].
      assert (Hsub : forall s, In s (bvisit (if b then r else l) k) -> stored db s).
      { intros s Hs. apply Hst. right. exact Hs. }
      cbn [length] in Hf.
      destruct b; [apply IHr|apply IHl]; try assumption; lia.
  Qed.

  Theorem C13_get_refines db t : brepr db t -> bvalid t = true -> no_blank_collision t ->
    forall k fuel, length k < fuel -> _bget BH fuel db (bhash t) k = Ok (btget t k).
  Proof.
    intros Hr Hv Hn k fuel Hf. apply bget_visit; [exact Hv| |exact Hf].
    intros s Hs. apply (brepr_stored db t Hr Hn). exact (bvisit_subs t k s Hs).
  Qed.

  Corollary C13_bin_get db t key : brepr db t -> bvalid t = true -> no_blank_collision t ->
    bin_get BH (mkBtrie db (bhash t)) key = Ok (btget t (encode_to_bin key)).
  Proof.
    intros Hr Hv Hn. unfold bin_get. cbn [b_db b_root]. apply C13_get_refines; try assumption.
    rewrite encode_to_bin_length. unfold bfuel. lia.
  Qed.

  (* ---------------- the rebuilt store ---------------- *)
  Definition radd (acc : bdb) (n : bytes) : bdb := aset acc (H n) n.

  Lemma rebuild_eq l : rebuild l = fold_left radd l [].
  Proof. reflexivity. Qed.

  Lemma aget_fold l : forall acc h,
    (exists n', aget (fold_left radd l acc) h = Some n' /\ In n' l /\ H n' = h) \/
    aget (fold_left radd l acc) h = aget acc h.
  Proof.
    induction l as [|x l IH]; intros acc h; cbn [fold_left].
    - right. reflexivity.
    - destruct (IH (radd acc x) h) as [[n' [H1 [H2 H3]]]|E].
      + left. exists n'. split; [exact H1|]. split; [right; exact H2|exact H3].
      + change (aget (radd acc x) h) with (aget (aset acc (H x) x) h) in E. rewrite aget_aset in E.
        destruct (bytes_eqb h (H x)) eqn:Eh.
        * apply bytes_eqb_eq in Eh. left. exists x. split; [exact E|]. split; [left; reflexivity|].
          symmetry. exact Eh.
        * right. exact E.
  Qed.

  Lemma aget_fold_in l : forall acc n, In n l ->
    exists n', aget (fold_left radd l acc) (H n) = Some n' /\ In n' l /\ H n' = H n.
  Proof.
    induction l as [|x l IH]; intros acc n Hin; [destruct Hin|]. cbn [fold_left].
    destruct (aget_fold l (radd acc x) (H n)) as [[n' [H1 [H2 H3]]]|E].
    - exists n'. split; [exact H1|]. split; [right; exact H2|exact H3].
    - destruct Hin as [->|Hin].
      + exists n. split; [|split; [left; reflexivity|reflexivity]].
        rewrite E. unfold radd. rewrite aget_aset, bytes_eqb_refl. reflexivity.
      + destruct (IH (radd acc x) n Hin) as [n' [H1 [H2 H3]]].
        exists n'. split; [exact H1|]. split; [right; exact H2|exact H3].
  Qed.

  Lemma rebuild_ca l : forall h n, aget (rebuild l) h = Some n -> H n = h /\ In n l.
  Proof.
    intros h n Hg. rewrite rebuild_eq in Hg.
    destruct (aget_fold l [] h) as [[n' [H1 [H2 H3]]]|E].
    - rewrite H1 in Hg. injection Hg as <-. split; assumption.
    - rewrite E in Hg. discriminate Hg.
  Qed.

  Lemma rebuild_is_ca l : ca (rebuild l).
  Proof. intros h n Hg. apply (rebuild_ca l h n Hg). Qed.

  Lemma rebuild_stored l n : cf l -> In n l -> aget (rebuild l) (H n) = Some n.
  Proof.
    intros Hcf Hin. destruct (aget_fold_in l [] n Hin) as [n' [H1 [H2 H3]]].
    rewrite rebuild_eq, H1. f_equal. apply Hcf; assumption.
  Qed.

  Lemma In_snd_aset (m : bdb) k v n : In n (map snd (aset m k v)) -> n = v \/ In n (map snd m).
  Proof.
    induction m as [|[k0 v0] m IH]; cbn [aset map snd In].
    - intros [<-|[]]. left. reflexivity.
    - destruct (bytes_eqb k k0); cbn [map snd In].
      + intros [<-|Hn]; [left; reflexivity|right; right; exact Hn].
      + intros [<-|Hn]; [right; left; reflexivity|].
        destruct (IH Hn) as [->|Hm]; [left; reflexivity|right; right; exact Hm].
  Qed.

  Lemma In_snd_fold l : forall acc n, In n (map snd (fold_left radd l acc)) -> In n l \/ In n (map snd acc).
  Proof.
    induction l as [|x l IH]; intros acc n Hn; cbn [fold_left] in Hn.
    - right. exact Hn.
    - destruct (IH _ _ Hn) as [Hl|Ha]; [left; right; exact Hl|].
      apply In_snd_aset in Ha as [->|Ha]; [left; left; reflexivity|right; exact Ha].
  Qed.

  Lemma rebuild_values l n : In n (map snd (rebuild l)) -> In n l.
  Proof.
    intro Hn. rewrite rebuild_eq in Hn.
    apply In_snd_fold in Hn as [Hn|[]]. exact Hn.
  Qed.

  Lemma aget_In_snd (db : bdb) h n : aget db h = Some n -> In n (map snd db).
  Proof. intro Hg. apply aget_In in Hg. apply (in_map snd) in Hg. exact Hg. Qed.

  (* a list of node encodings of t, collision free: the rebuilt store holds each of them *)
  Lemma rebuild_stored_bt l t s : cf l -> no_blank_collision t -> In s (bsubs t) -> In (benc s) l ->
    stored (rebuild l) s.
  Proof.
    intros Hcf Hn Hs Hin. split; [|apply Hn, Hs]. rewrite bhash_benc. apply rebuild_stored; assumption.
  Qed.

  Lemma store_of_bt_repr t : cf (map benc (bsubs t)) -> brepr (store_of_bt H t) t.
  Proof.
    intro Hcf. apply brepr_iff. intros s Hs. rewrite bhash_benc. unfold store_of_bt.
    apply rebuild_stored; [exact Hcf|]. apply in_map. exact Hs.
  Qed.

  (* ---------------- 2. check_if_branch_exist ---------------- *)
  Lemma app_eq_firstn (k q pa r : bits) : k ++ q = pa ++ r -> length k <= length pa -> k = firstn (length k) pa.
  Proof.
    intros E Hl. pose proof (firstn_app_exact k q) as E1. rewrite E in E1.
    rewrite firstn_app in E1. replace (length k - length pa) with 0 in E1 by lia.
    rewrite firstn_O, app_nil_r in E1. symmetry. exact E1.
  Qed.

  Lemma app_eq_prefix (k q pa r : bits) : k ++ q = pa ++ r -> length pa <= length k -> is_bprefix pa k.
  Proof.
    intros E Hl.
    destruct (is_bprefix_comparable pa k (k ++ q)) as [Hp|[r' Hr']].
    - exists r. exact E.
    - exists q. reflexivity.
    - exact Hp.
    - subst pa. rewrite app_length in Hl. destruct r' as [|y r']; [|cbn [length] in Hl; lia].
      rewrite app_nil_r. apply is_bprefix_refl.
  Qed.

  Lemma check_spec db t : bvalid t = true -> (forall s, In s (bsubs t) -> stored db s) ->
    forall p fuel, length p < fuel ->
    exists b, _check_if_branch_exist BH fuel db (bhash t) p = Ok b /\
              (b = true <-> exists q, btget t (p ++ q) <> None).
  Proof.
    induction t as [v|pa c IHc|l IHl r IHr]; intros Hv Hst p fuel Hf;
      (destruct fuel as [|f]; [lia|]);
      (rewrite check_step; [|apply Hst; apply bsubs_self|exact Hv]); cbn [BinD_proofs.bnode_of].
    - destruct p as [|x p].
      + exists true. split; [reflexivity|]. split; [|reflexivity]. intros _. exists []. discriminate.
      + exists false. split; [reflexivity|]. split; [discriminate|]. intros [q Hq]. exfalso. apply Hq. reflexivity.
    - pose proof Hv as Hv'. apply bvalid_TKV in Hv' as [Hpa Hc].
      destruct p as [|x p].
      + exists true. split; [reflexivity|]. split; [|reflexivity]. intros _. exact (bvalid_nonempty _ Hv).
      + remember (x :: p) as k eqn:Ek.
        destruct (Nat.ltb_spec (length k) (length pa)) as [Hlt|Hge].
        * eexists. split; [reflexivity|]. split.
          -- intro Hb. apply bits_eqb_eq in Hb. destruct (bvalid_nonempty c Hc) as [s Hs].
             exists (skipn (length k) pa ++ s). rewrite app_assoc. rewrite Hb at 1. rewrite firstn_skipn.
             rewrite btget_TKV_app by exact Hpa. exact Hs.
          -- intros [q Hq]. apply btget_TKV_some in Hq as [r [Hr _]]; [|exact Hpa].
             apply bits_eqb_eq. apply (app_eq_firstn k q pa r Hr). lia.
        * change (starts_with k pa) with (bstarts k pa).
          destruct (bstarts k pa) eqn:E.
          -- apply bstarts_iff in E as [k2 Hk2]. rewrite Hk2, skipn_app_exact.
             destruct (IHc Hc (fun s Hs => Hst s (bsubs_kv pa c s Hs)) k2 f) as [b [Hb1 Hb2]].
             { rewrite Hk2, app_length in Hf. pose proof (length_nonzero pa Hpa). lia. }
             exists b. split; [exact Hb1|]. rewrite Hb2. split; intros [q Hq]; exists q.
             ++ rewrite <- app_assoc, btget_TKV_app by exact Hpa. exact Hq.
             ++ rewrite <- app_assoc, btget_TKV_app in Hq by exact Hpa. exact Hq.
          -- exists false. split; [reflexivity|]. split; [discriminate|]. intros [q Hq]. exfalso.
             apply btget_TKV_some in Hq as [r [Hr _]]; [|exact Hpa].
             apply bstarts_false in E. apply E. exact (app_eq_prefix k q pa r Hr Hge).
    - pose proof Hv as Hv'. apply bvalid_branch in Hv' as [Hl Hr].
      destruct p as [|x p].
      + exists true. split; [reflexivity|]. split; [|reflexivity]. intros _. exact (bvalid_nonempty _ Hv).
      + cbn [length] in Hf. cbn [app btget].
        destruct x; [apply IHr|apply IHl]; try assumption; try lia.
        * intros s Hs. apply Hst, bsubs_r, Hs.
        * intros s Hs. apply Hst, bsubs_l, Hs.
  Qed.

  Theorem C13_exists db t : brepr db t -> bvalid t = true -> no_blank_collision t ->
    forall p fuel, length p < fuel ->
    exists b, _check_if_branch_exist BH fuel db (bhash t) p = Ok b /\
              (b = true <-> exists q, btget t (p ++ q) <> None).
  Proof.
    intros Hr Hv Hn. apply check_spec; [exact Hv|]. exact (brepr_stored db t Hr Hn).
  Qed.

  Corollary C13_check_if_branch_exist db t prefix : brepr db t -> bvalid t = true -> no_blank_collision t ->
    exists b, check_if_branch_exist BH db (bhash t) prefix = Ok b /\
              (b = true <-> exists q, btget t (encode_to_bin prefix ++ q) <> None).
  Proof.
    intros Hr Hv Hn. unfold check_if_branch_exist. apply C13_exists; try assumption.
    rewrite encode_to_bin_length. unfold bfuel. lia.
  Qed.

  (* ---------------- 3. get_branch / if_branch_valid ---------------- *)
  Lemma get_branch_spec db t : bvalid t = true -> (forall s, In s (bsubs t) -> stored db s) ->
    forall k fuel, length k < fuel ->
    (_get_branch BH fuel db (bhash t) k = Err EInvalidKey /\ btget t k = None /\ bconflict t k) \/
    _get_branch BH fuel db (bhash t) k = Ok (map benc (bvisit t k)).
  Proof.
    induction t as [v|pa c IHc|l IHl r IHr]; intros Hv Hst k fuel Hf;
      (destruct fuel as [|f]; [lia|]);
      (rewrite branch_step; [|apply Hst; apply bsubs_self|exact Hv]); cbn [BinD_proofs.bnode_of].
    - destruct k as [|x k].
      + right. reflexivity.
      + left. split; [reflexivity|]. split; [reflexivity|].
        exists []. split; [discriminate|]. split; [discriminate|]. left. apply is_bprefix_nil.
    - pose proof Hv as Hv'. apply bvalid_TKV in Hv' as [Hpa Hc].
      destruct k as [|x k].
      + left. split; [reflexivity|]. split; [reflexivity|].
        destruct (bvalid_nonempty _ Hv) as [s Hs]. exists s. split; [exact Hs|]. split.
        * intros ->. apply Hs. reflexivity.
        * right. apply is_bprefix_nil.
      + remember (x :: k) as k1 eqn:Ek.
        assert (Hvis : bvisit (TKV pa c) k1 =
                       TKV pa c :: if bstarts k1 pa then bvisit c (skipn (length pa) k1) else []).
        { rewrite Ek. reflexivity. }
        rewrite Hvis. change (starts_with k1 pa) with (bstarts k1 pa).
        destruct (bstarts k1 pa) eqn:E; [|right; reflexivity].
        pose proof E as E'. apply bstarts_iff in E' as [k2 Hk2]. rewrite Hk2, skipn_app_exact.
        destruct (IHc Hc (fun s Hs => Hst s (bsubs_kv pa c s Hs)) k2 f) as [[H1 [H2 [s [Hs1 [Hs2 Hs3]]]]]|H1].
        { rewrite Hk2, app_length in Hf. pose proof (length_nonzero pa Hpa). lia. }
        * left. rewrite H1. split; [reflexivity|]. split.
          -- rewrite btget_TKV_app by exact Hpa. exact H2.
          -- exists (pa ++ s). split; [rewrite btget_TKV_app by exact Hpa; exact Hs1|]. split.
             ++ intro Heq. apply app_inv_head in Heq. contradiction.
             ++ destruct Hs3 as [Hs3|Hs3]; [left|right]; apply is_bprefix_app; exact Hs3.
        * right. rewrite H1. reflexivity.
    - pose proof Hv as Hv'. apply bvalid_branch in Hv' as [Hl Hr].
      destruct k as [|x k].
      + left. split; [reflexivity|]. split; [reflexivity|].
        destruct (bvalid_nonempty _ Hv) as [s Hs]. exists s. split; [exact Hs|]. split.
        * intros ->. apply Hs. reflexivity.
        * right. apply is_bprefix_nil.
      + cbn [length] in Hf. cbn [bvisit btget map].
        assert (IH : (_get_branch BH f db (bhash (if x then r else l)) k = Err EInvalidKey /\
                      btget (if x then r else l) k = None /\ bconflict (if x then r else l) k) \/
                     _get_branch BH f db (bhash (if x then r else l)) k
                     = Ok (map benc (bvisit (if x then r else l) k))).
        { destruct x; [apply IHr|apply IHl]; try assumption; try lia.
          - intros s Hs. apply Hst, bsubs_r, Hs.
          - intros s Hs. apply Hst, bsubs_l, Hs. }
        replace (if x then bhash r else bhash l) with (bhash (if x then r else l)) by (destruct x; reflexivity).
        destruct IH as [[H1 [H2 [s [Hs1 [Hs2 Hs3]]]]]|H1].
        * left. rewrite H1. split; [reflexivity|]. split; [exact H2|].
          exists (x :: s). split; [exact Hs1|]. split.
          -- intro Heq. injection Heq as Heq. contradiction.
          -- destruct Hs3 as [Hs3|Hs3]; [left|right]; apply is_bprefix_cons; exact Hs3.
        * right. rewrite H1. reflexivity.
  Qed.

  Lemma rmapM_validate l : rmapM (validate_is_bin_node BH) (map benc l) = Ok (map (fun _ => tt) l).
  Proof.
    induction l as [|s l IH]; [reflexivity|]. cbn [map rmapM]. rewrite validate_benc, IH. reflexivity.
  Qed.

  (* an honest branch (the encodings of the nodes a lookup visits) validates the trie's answer *)
  Lemma honest_branch_valid db t key : brepr db t -> bvalid t = true -> no_blank_collision t ->
    if_branch_valid H BH (map benc (bvisit t (encode_to_bin key))) (bhash t) key (btget t (encode_to_bin key)) = Ok true.
  Proof.
    intros Hr Hv Hn. unfold if_branch_valid. set (k := encode_to_bin key).
    destruct (bvisit_head t k) as [tl Htl].
    destruct (map benc (bvisit t k)) as [|n0 br0] eqn:Ebr; [rewrite Htl in Ebr; discriminate Ebr|].
    rewrite <- Ebr. clear n0 br0 Ebr.
    rewrite rmapM_validate. cbn [rbind].
    change (fold_left (fun acc n => aset acc (H n) n) (map benc (bvisit t k)) []) with (rebuild (map benc (bvisit t k))).
    assert (Hcf : cf (map benc (bvisit t k))).
    { apply (cf_incl H (map benc (bsubs t))); [|exact (brepr_cf db t Hr)].
      intros n Hin. apply in_map_iff in Hin as [s [<- Hs]]. apply in_map. exact (bvisit_subs t k s Hs). }
    rewrite (bget_visit (rebuild (map benc (bvisit t k))) t Hv k (bfuel key)).
    - cbn [rbind]. destruct (btget t k) as [a|]; [rewrite bytes_eqb_refl|]; reflexivity.
    - intros s Hs. apply (rebuild_stored_bt _ t s Hcf Hn); [exact (bvisit_subs t k s Hs)|].
      apply in_map. exact Hs.
    - unfold k. rewrite encode_to_bin_length. unfold bfuel. lia.
  Qed.

  Theorem C13_branch_valid db t : brepr db t -> bvalid t = true -> no_blank_collision t ->
    forall k fuel, length k < fuel ->
    (_get_branch BH fuel db (bhash t) k = Err EInvalidKey /\ btget t k = None /\ bconflict t k) \/
    (exists br, _get_branch BH fuel db (bhash t) k = Ok br /\ br <> [] /\
                br = map benc (bvisit t k) /\
                (forall n, In n br -> exists s, In s (bsubs t) /\ n = benc s) /\
                forall key, k = encode_to_bin key ->
                            if_branch_valid H BH br (bhash t) key (btget t k) = Ok true).
  Proof.
    intros Hr Hv Hn k fuel Hf.
    destruct (get_branch_spec db t Hv (brepr_stored db t Hr Hn) k fuel Hf) as [Herr|Hok]; [left; exact Herr|].
    right. exists (map benc (bvisit t k)). split; [exact Hok|]. split; [|split; [reflexivity|split]].
    - destruct (bvisit_head t k) as [tl ->]. discriminate.
    - intros n Hin. apply in_map_iff in Hin as [s [<- Hs]]. exists s. split; [|reflexivity].
      exact (bvisit_subs t k s Hs).
    - intros key ->. apply (honest_branch_valid db t key Hr Hv Hn).
  Qed.

  Corollary C13_get_branch db t key : brepr db t -> bvalid t = true -> no_blank_collision t ->
    let k := encode_to_bin key in
    (get_branch BH db (bhash t) key = Err EInvalidKey /\ btget t k = None /\ bconflict t k) \/
    (exists br, get_branch BH db (bhash t) key = Ok br /\ br <> [] /\
                (forall n, In n br -> exists s, In s (bsubs t) /\ n = benc s) /\
                if_branch_valid H BH br (bhash t) key (btget t k) = Ok true).
  Proof.
    intros Hr Hv Hn k. unfold get_branch.
    destruct (C13_branch_valid db t Hr Hv Hn k (bfuel key)) as [Herr|[br [H1 [H2 [_ [H4 H5]]]]]].
    - unfold k. rewrite encode_to_bin_length. unfold bfuel. lia.
    - left. exact Herr.
    - right. exists br. split; [exact H1|]. split; [exact H2|]. split; [exact H4|]. apply H5. reflexivity.
  Qed.

  (* the empty trie (blank root) has no branch to offer, and an empty branch is rejected outright:
     this is why C13 speaks of non-empty tries *)
  Lemma C13_empty_trie db f k root key v :
    _get_branch BH (S f) db BH k = Ok [] /\ if_branch_valid H BH [] root key v = Err EAssertion.
  Proof.
    split; [|reflexivity]. cbn [_get_branch]. unfold is_blank_hash. rewrite bytes_eqb_refl. reflexivity.
  Qed.

  (* ---------------- 4. determinism and unforgeability ---------------- *)
  (* two content-addressed stores that are collision free together give the same answer to every
     successful read from the same root *)
  Lemma bget_deterministic db1 db2 : ca db1 -> ca db2 -> cf (map snd db1 ++ map snd db2) ->
    forall f1 f2 h k a b, _bget BH f1 db1 h k = Ok a -> _bget BH f2 db2 h k = Ok b -> a = b.
  Proof.
    intros Hc1 Hc2 Hcf. induction f1 as [|f1 IH]; intros f2 h k a b H1 H2; [discriminate H1|].
    destruct f2 as [|f2]; [discriminate H2|]. cbn [_bget] in H1, H2.
    destruct (is_blank_hash BH h); [congruence|].
    unfold db_read in H1, H2.
    destruct (aget db1 h) as [raw1|] eqn:E1; [|discriminate H1].
    destruct (aget db2 h) as [raw2|] eqn:E2; [|discriminate H2].
    assert (Er : raw1 = raw2).
    { apply Hcf.
      - apply in_or_app. left. exact (aget_In_snd _ _ _ E1).
      - apply in_or_app. right. exact (aget_In_snd _ _ _ E2).
      - rewrite (Hc1 _ _ E1), (Hc2 _ _ E2). reflexivity. }
    subst raw2. cbn [rbind] in H1, H2.
    destruct (parse_node raw1) as [n|e]; [|discriminate H1]. cbn [rbind] in H1, H2.
    destruct n as [p child|l r|v].
    - destruct k as [|x k]; [congruence|].
      destruct (starts_with (x :: k) p); [|congruence]. exact (IH _ _ _ _ _ H1 H2).
    - destruct k as [|x k]; [congruence|]. exact (IH _ _ _ _ _ H1 H2).
    - destruct k as [|x k]; congruence.
  Qed.

  Lemma if_branch_valid_true br root key v : if_branch_valid H BH br root key v = Ok true ->
    br <> [] /\ _bget BH (bfuel key) (rebuild br) root (encode_to_bin key) = Ok v.
  Proof.
    unfold if_branch_valid. intro Hv. destruct br as [|n br]; [discriminate Hv|].
    split; [discriminate|].
    destruct (rmapM (validate_is_bin_node BH) (n :: br)) as [u|e]; [|discriminate Hv]. cbn [rbind] in Hv.
    change (fold_left (fun acc n0 => aset acc (H n0) n0) (n :: br) []) with (rebuild (n :: br)) in Hv.
    destruct (_bget BH (bfuel key) (rebuild (n :: br)) root (encode_to_bin key)) as [got|e]; [|discriminate Hv].
    cbn [rbind] in Hv. f_equal.
    destruct got as [a|], v as [b|]; try discriminate Hv; [|reflexivity].
    destruct (bytes_eqb a b) eqn:E; [|discriminate Hv]. apply bytes_eqb_eq in E. subst b. reflexivity.
  Qed.

  Theorem C13_unforgeable db t br key v : brepr db t -> bvalid t = true -> no_blank_collision t ->
    cf (map snd db ++ br) ->
    if_branch_valid H BH br (bhash t) key v = Ok true -> v = btget t (encode_to_bin key).
  Proof.
    intros Hr Hv Hn Hcf Hval. apply if_branch_valid_true in Hval as [_ Hget].
    set (nodes := map benc (bsubs t)).
    assert (Hnodes : incl nodes (map snd db)).
    { intros n Hin. apply in_map_iff in Hin as [s [<- Hs]].
      exact (aget_In_snd _ _ _ (proj1 (brepr_iff db t) Hr s Hs)). }
    assert (Hcfn : cf nodes).
    { apply (cf_incl H (map snd db ++ br)); [|exact Hcf]. intros n Hin. apply in_or_app. left. apply Hnodes, Hin. }
    pose proof (store_of_bt_repr t Hcfn) as Hr0.
    assert (Hget0 : _bget BH (bfuel key) (store_of_bt H t) (bhash t) (encode_to_bin key)
                    = Ok (btget t (encode_to_bin key))).
    { apply C13_get_refines; try assumption. rewrite encode_to_bin_length. unfold bfuel. lia. }
    symmetry.
    apply (bget_deterministic (store_of_bt H t) (rebuild br) (rebuild_is_ca _) (rebuild_is_ca _)) with
      (f1 := bfuel key) (f2 := bfuel key) (h := bhash t) (k := encode_to_bin key); [|exact Hget0|exact Hget].
    apply (cf_incl H (map snd db ++ br)); [|exact Hcf].
    intros n Hin. apply in_or_app. apply in_app_or in Hin as [Hin|Hin].
    - left. apply Hnodes. exact (rebuild_values _ _ Hin).
    - right. exact (rebuild_values _ _ Hin).
  Qed.

  (* ---------------- 5. get_trie_nodes ---------------- *)
  Lemma nodes_step db s f : aget db (bhash s) = Some (benc s) -> bvalid s = true ->
    _get_trie_nodes (S f) db (bhash s) =
    match bnode_of s with
    | BKV _ child => rbind (_get_trie_nodes f db child) (fun rest => Ok (benc s :: rest))
    | BBranch l r => rbind (_get_trie_nodes f db l) (fun a =>
                     rbind (_get_trie_nodes f db r) (fun b => Ok (benc s :: a ++ b)))
    | BLeaf _ => Ok [benc s]
    end.
  Proof.
    intros Hs Hv. cbn [_get_trie_nodes]. rewrite Hs. rewrite (parse_benc s Hv). reflexivity.
  Qed.

  Lemma trie_nodes_spec db t : bvalid t = true ->
    (forall s, In s (bsubs t) -> aget db (bhash s) = Some (benc s)) ->
    forall fuel, bdepth t < fuel -> _get_trie_nodes fuel db (bhash t) = Ok (map benc (bsubs t)).
  Proof.
    induction t as [v|pa c IHc|l IHl r IHr]; intros Hv Hst fuel Hf;
      (destruct fuel as [|f]; [lia|]);
      (rewrite nodes_step; [|apply Hst; apply bsubs_self|exact Hv]); cbn [BinD_proofs.bnode_of].
    - reflexivity.
    - apply bvalid_TKV in Hv as [_ Hc]. cbn [bdepth] in Hf.
      rewrite (IHc Hc (fun s Hs => Hst s (bsubs_kv pa c s Hs)) f) by lia. reflexivity.
    - apply bvalid_branch in Hv as [Hl Hr]. cbn [bdepth] in Hf.
      rewrite (IHl Hl (fun s Hs => Hst s (bsubs_l l r s Hs)) f) by lia.
      rewrite (IHr Hr (fun s Hs => Hst s (bsubs_r l r s Hs)) f) by lia.
      cbn [rbind bsubs map]. rewrite map_app. reflexivity.
  Qed.

  Theorem C13_nodes db t : brepr db t -> bvalid t = true ->
    forall fuel, bdepth t < fuel -> _get_trie_nodes fuel db (bhash t) = Ok (map benc (bsubs t)).
  Proof. intros Hr Hv. apply trie_nodes_spec; [exact Hv|]. apply brepr_iff. exact Hr. Qed.

  Corollary C13_get_trie_nodes db t : brepr db t -> bvalid t = true -> bdepth t < nodes_fuel ->
    get_trie_nodes db (bhash t) = Ok (map benc (bsubs t)).
  Proof. intros Hr Hv Hd. unfold get_trie_nodes. apply C13_nodes; assumption. Qed.

  (* ---------------- 6. get_witness_for_key_prefix ---------------- *)
  Lemma witness_step db s f kp : aget db (bhash s) = Some (benc s) -> bvalid s = true ->
    _get_witness (S f) db (bhash s) kp =
    rbind (match kp with [] => get_trie_nodes db (bhash s) | _ => Ok [] end) (fun pre =>
      match bnode_of s with
      | BLeaf _ => match kp with [] => Ok pre | _ => Err EInvalidKey end
      | BKV p child =>
          if (Nat.ltb (length kp) (length p) && bits_eqb (firstn (length kp) p) kp)%bool then
            rbind (get_trie_nodes db child) (fun rest => Ok (pre ++ benc s :: rest))
          else if starts_with kp p then
            rbind (_get_witness f db child (skipn (length p) kp)) (fun rest => Ok (pre ++ benc s :: rest))
          else Ok (pre ++ [benc s])
      | BBranch l r =>
          let go_left := match kp with false :: _ => true | _ => false end in
          rbind (_get_witness f db (if go_left then l else r) (tl kp)) (fun rest => Ok (pre ++ benc s :: rest))
      end).
  Proof.
    intros Hs Hv. cbn [_get_witness].
    destruct (match kp with [] => get_trie_nodes db (bhash s) | _ => Ok [] end) as [pre|e]; cbn [rbind];
      [|reflexivity].
    rewrite Hs. rewrite (parse_benc s Hv). reflexivity.
  Qed.

  Lemma bvisit_TKV pa c k : pa <> [] ->
    bvisit (TKV pa c) k = TKV pa c :: if bstarts k pa then bvisit c (skipn (length pa) k) else [].
  Proof.
    intro Hpa. destruct k as [|x k]; [|reflexivity]. cbn [bvisit]. unfold bstarts. rewrite firstn_nil.
    destruct pa; [contradiction|reflexivity].
  Qed.

  Lemma witness_spec db t : bvalid t = true ->
    (forall s, In s (bsubs t) -> aget db (bhash s) = Some (benc s)) -> bdepth t < nodes_fuel ->
    forall kp fuel, bdepth t < fuel ->
    match _get_witness fuel db (bhash t) kp with
    | Ok w => (forall n, In n w -> exists s, In s (bsubs t) /\ n = benc s) /\
              (forall k s, is_bprefix kp k -> In s (bvisit t k) -> In (benc s) w)
    | Err e => e = EInvalidKey /\ exists s, btget t s <> None /\ s <> kp /\ is_bprefix s kp
    end.
  Proof.
    induction t as [v|pa c IHc|l IHl r IHr]; intros Hv Hst Hnf kp fuel Hf;
      (destruct fuel as [|f]; [lia|]);
      (rewrite witness_step; [|apply Hst; apply bsubs_self|exact Hv]); cbn [BinD_proofs.bnode_of].
    - (* leaf *)
      destruct kp as [|x kp].
      + unfold get_trie_nodes. rewrite (trie_nodes_spec db _ Hv Hst _ Hnf). cbn [rbind]. split.
        * intros n Hin. apply in_map_iff in Hin as [s [<- Hs]]. exists s. split; [exact Hs|reflexivity].
        * intros k s _ Hs. apply in_map. exact (bvisit_subs _ k s Hs).
      + cbn [rbind]. split; [reflexivity|]. exists []. split; [discriminate|]. split; [discriminate|].
        apply is_bprefix_nil.
    - (* kv *)
      pose proof Hv as Hv'. apply bvalid_TKV in Hv' as [Hpa Hc]. cbn [bdepth] in Hf, Hnf.
      assert (Hstc : forall s, In s (bsubs c) -> aget db (bhash s) = Some (benc s)).
      { intros s Hs. apply Hst, bsubs_kv, Hs. }
      assert (Hpre : exists prel, match kp with [] => get_trie_nodes db (bhash (TKV pa c)) | _ => Ok [] end = Ok prel /\
                       (forall n, In n prel -> exists s, In s (bsubs (TKV pa c)) /\ n = benc s)).
      { destruct kp as [|x kp].
        - unfold get_trie_nodes. rewrite (trie_nodes_spec db _ Hv Hst nodes_fuel ltac:(cbn [bdepth]; lia)).
          eexists. split; [reflexivity|].
          intros n Hin. apply in_map_iff in Hin as [s [<- Hs]]. exists s. split; [exact Hs|reflexivity].
        - exists []. split; [reflexivity|]. intros n []. }
      destruct Hpre as [prel [Epre P1]]. rewrite Epre. cbn [rbind].
      destruct (Nat.ltb (length kp) (length pa) && bits_eqb (firstn (length kp) pa) kp)%bool eqn:EA.
      { (* the prefix ends inside the kv path: the whole subtree *)
        unfold get_trie_nodes. rewrite (trie_nodes_spec db c Hc Hstc nodes_fuel ltac:(lia)). cbn [rbind]. split.
        - intros n Hin. apply in_app_or in Hin as [Hin|[<-|Hin]].
          + exact (P1 n Hin).
          + exists (TKV pa c). split; [apply bsubs_self|reflexivity].
          + apply in_map_iff in Hin as [s [<- Hs]]. exists s. split; [apply bsubs_kv, Hs|reflexivity].
        - intros k s _ Hs. apply in_or_app. right. apply bvisit_subs in Hs.
          change (In (benc s) (map benc (bsubs (TKV pa c)))). apply in_map. exact Hs. }
      change (starts_with kp pa) with (bstarts kp pa).
      destruct (bstarts kp pa) eqn:EB.
      { (* descend *)
        apply bstarts_iff in EB as [kp2 Hkp2]. rewrite Hkp2, skipn_app_exact.
        specialize (IHc Hc Hstc ltac:(lia) kp2 f ltac:(lia)).
        destruct (_get_witness f db (bhash c) kp2) as [rest|e]; cbn [rbind].
        - destruct IHc as [IHa IHb]. split.
          + intros n Hin. apply in_app_or in Hin as [Hin|[<-|Hin]].
            * exact (P1 n Hin).
            * exists (TKV pa c). split; [apply bsubs_self|reflexivity].
            * destruct (IHa n Hin) as [s [Hs ->]]. exists s. split; [apply bsubs_kv, Hs|reflexivity].
          + intros k s [r0 Hk] Hs. apply in_or_app. right. rewrite bvisit_TKV in Hs by exact Hpa.
            destruct Hs as [<-|Hs]; [left; reflexivity|]. right.
            rewrite Hk, <- app_assoc, bstarts_app, skipn_app_exact in Hs.
            apply (IHb (kp2 ++ r0) s); [exists r0; reflexivity|exact Hs].
        - destruct IHc as [-> [s [Hs1 [Hs2 Hs3]]]]. split; [reflexivity|].
          exists (pa ++ s). split; [rewrite btget_TKV_app by exact Hpa; exact Hs1|]. split.
          + intro Heq. apply app_inv_head in Heq. contradiction.
          + apply is_bprefix_app. exact Hs3. }
      (* the prefix leaves the kv path *)
      split.
      + intros n Hin. apply in_app_or in Hin as [Hin|[<-|[]]]; [exact (P1 n Hin)|].
        exists (TKV pa c). split; [apply bsubs_self|reflexivity].
      + intros k s Hk Hs. apply in_or_app. right. rewrite bvisit_TKV in Hs by exact Hpa.
        destruct (bstarts k pa) eqn:Ek.
        * exfalso. apply bstarts_iff in Ek.
          destruct (is_bprefix_comparable pa kp k Ek Hk) as [Hc1|Hc1].
          -- apply bstarts_iff in Hc1. congruence.
          -- destruct Hc1 as [r0 Hr0]. destruct r0 as [|y r0].
             ++ rewrite app_nil_r in Hr0. subst pa. apply bstarts_false in EB. apply EB, is_bprefix_refl.
             ++ apply andb_false_iff in EA as [EA|EA].
                ** apply Nat.ltb_ge in EA. rewrite Hr0, app_length in EA. cbn [length] in EA. lia.
                ** apply bits_eqb_neq in EA. apply EA. rewrite Hr0. apply firstn_app_exact.
        * destruct Hs as [<-|[]]. left. reflexivity.
    - (* branch *)
      pose proof Hv as Hv'. apply bvalid_branch in Hv' as [Hl Hr]. cbn [bdepth] in Hf, Hnf.
      assert (Hpre : exists prel, match kp with [] => get_trie_nodes db (bhash (TBranchB l r)) | _ => Ok [] end = Ok prel /\
                       (forall n, In n prel -> exists s, In s (bsubs (TBranchB l r)) /\ n = benc s) /\
                       (kp = [] -> forall s, In s (bsubs (TBranchB l r)) -> In (benc s) prel)).
      { destruct kp as [|x kp].
        - unfold get_trie_nodes. rewrite (trie_nodes_spec db _ Hv Hst nodes_fuel ltac:(cbn [bdepth]; lia)).
          eexists. split; [reflexivity|]. split.
          + intros n Hin. apply in_map_iff in Hin as [s [<- Hs]]. exists s. split; [exact Hs|reflexivity].
          + intros _ s Hs. apply in_map. exact Hs.
        - exists []. split; [reflexivity|]. split; [intros n []|discriminate]. }
      destruct Hpre as [prel [Epre [P1 P2]]]. rewrite Epre. cbn [rbind]. cbv zeta.
      set (gl := match kp with false :: _ => true | _ => false end).
      set (ch := if gl then l else r).
      assert (IH : match _get_witness f db (bhash ch) (tl kp) with
                   | Ok w => (forall n, In n w -> exists s, In s (bsubs ch) /\ n = benc s) /\
                             (forall k s, is_bprefix (tl kp) k -> In s (bvisit ch k) -> In (benc s) w)
                   | Err e => e = EInvalidKey /\ exists s, btget ch s <> None /\ s <> tl kp /\ is_bprefix s (tl kp)
                   end).
      { unfold ch. destruct gl; [apply IHl|apply IHr]; try assumption; try lia.
        - intros s Hs. apply Hst, bsubs_l, Hs.
        - intros s Hs. apply Hst, bsubs_r, Hs. }
      replace (if gl then bhash l else bhash r) with (bhash ch) by (unfold ch; destruct gl; reflexivity).
      assert (Hch : forall s, In s (bsubs ch) -> In s (bsubs (TBranchB l r))).
      { intros s Hs. unfold ch in Hs. destruct gl; [apply bsubs_l|apply bsubs_r]; exact Hs. }
      destruct (_get_witness f db (bhash ch) (tl kp)) as [rest|e]; cbn [rbind].
      + destruct IH as [IHa IHb]. split.
        * intros n Hin. apply in_app_or in Hin as [Hin|[<-|Hin]].
          -- exact (P1 n Hin).
          -- exists (TBranchB l r). split; [apply bsubs_self|reflexivity].
          -- destruct (IHa n Hin) as [s [Hs ->]]. exists s. split; [apply Hch, Hs|reflexivity].
        * intros k s Hk Hs. apply in_or_app. destruct kp as [|x kp].
          -- left. apply P2; [reflexivity|]. exact (bvisit_subs _ k s Hs).
          -- right. destruct Hk as [r0 ->]. cbn [app bvisit] in Hs.
             destruct Hs as [<-|Hs]; [left; reflexivity|]. right.
             apply (IHb (kp ++ r0) s); [exists r0; reflexivity|].
             unfold ch, gl. destruct x; exact Hs.
      + destruct IH as [-> [s [Hs1 [Hs2 Hs3]]]]. split; [reflexivity|].
        destruct kp as [|x kp].
        * exfalso. cbn [tl] in Hs2, Hs3. destruct Hs3 as [r0 Hr0]. apply Hs2.
          symmetry in Hr0. apply app_eq_nil in Hr0 as [Hr0 _]. exact Hr0.
        * cbn [tl] in Hs2, Hs3. exists (x :: s). split; [|split].
          -- cbn [btget]. unfold ch, gl in Hs1. destruct x; exact Hs1.
          -- intro Heq. injection Heq as Heq. contradiction.
          -- apply is_bprefix_cons. exact Hs3.
  Qed.

  Theorem C13_witness db t : brepr db t -> bvalid t = true -> no_blank_collision t -> bdepth t < nodes_fuel ->
    forall p fuel, bdepth t < fuel ->
    (forall w, _get_witness fuel db (bhash t) p = Ok w ->
       (forall n, In n w -> exists s, In s (bsubs t) /\ n = benc s) /\
       (forall k fuel', is_bprefix p k -> length k < fuel' ->
          _bget BH fuel' (rebuild w) (bhash t) k = Ok (btget t k))) /\
    (forall e, _get_witness fuel db (bhash t) p = Err e ->
       e = EInvalidKey /\ exists s, btget t s <> None /\ s <> p /\ is_bprefix s p).
  Proof.
    intros Hr Hv Hn Hnf p fuel Hf.
    pose proof (witness_spec db t Hv (proj1 (brepr_iff db t) Hr) Hnf p fuel Hf) as Hw.
    split.
    - intros w Ew. rewrite Ew in Hw. destruct Hw as [Ha Hb]. split; [exact Ha|].
      intros k fuel' Hk Hf'.
      assert (Hcf : cf w).
      { apply (cf_incl H (map benc (bsubs t))); [|exact (brepr_cf db t Hr)].
        intros n Hin. destruct (Ha n Hin) as [s [Hs ->]]. apply in_map. exact Hs. }
      apply bget_visit; [exact Hv| |exact Hf'].
      intros s Hs. apply (rebuild_stored_bt w t s Hcf Hn); [exact (bvisit_subs t k s Hs)|].
      exact (Hb k s Hk Hs).
    - intros e Ee. rewrite Ee in Hw. exact Hw.
  Qed.

  (* at the API the fuel is a constant of the model ([bfuel key] when this was written); it suffices
     when it exceeds the depth of the tree.  The proof only needs fuel >= bfuel prefix. *)
  Corollary C13_get_witness_for_key_prefix db t prefix :
    brepr db t -> bvalid t = true -> no_blank_collision t -> bdepth t < nodes_fuel -> bdepth t < bfuel prefix ->
    (forall w, get_witness_for_key_prefix db (bhash t) prefix = Ok w ->
       (forall n, In n w -> exists s, In s (bsubs t) /\ n = benc s) /\
       (forall key r, key = prefix ++ r ->
          bin_get BH (mkBtrie (rebuild w) (bhash t)) key = Ok (btget t (encode_to_bin key)))) /\
    (forall e, get_witness_for_key_prefix db (bhash t) prefix = Err e ->
       e = EInvalidKey /\
       exists s, btget t s <> None /\ s <> encode_to_bin prefix /\ is_bprefix s (encode_to_bin prefix)).
  Proof.
    intros Hr Hv Hn Hnf Hf. unfold get_witness_for_key_prefix.
    (* whatever fuel the API passes (bfuel prefix, or more), it exceeds the depth *)
    match goal with
    | |- context [_get_witness ?fuel db (bhash t) (encode_to_bin prefix)] =>
        assert (Hfuel : bdepth t < fuel) by lia;
        destruct (C13_witness db t Hr Hv Hn Hnf (encode_to_bin prefix) fuel Hfuel) as [Hok Herr]
    end.
    split; [|exact Herr].
    intros w Ew. destruct (Hok w Ew) as [Ha Hb]. split; [exact Ha|].
    intros key r ->. unfold bin_get. cbn [b_db b_root]. apply Hb.
    - exists (encode_to_bin r). apply encode_to_bin_app.
    - rewrite encode_to_bin_length. unfold bfuel. lia.
  Qed.

  (* ---------------- boolean checkers (for closed instances) ---------------- *)
  Definition no_blank_b (t : bt) : bool := forallb (fun s => negb (bytes_eqb (bhash s) BH)) (bsubs t).
  Definition brepr_b (db : bdb) (t : bt) : bool :=
    forallb (fun s => match aget db (bhash s) with Some n => bytes_eqb n (benc s) | None => false end) (bsubs t).

  Lemma no_blank_b_sound t : no_blank_b t = true -> no_blank_collision t.
  Proof.
    intros Hb s Hs. unfold no_blank_b in Hb. rewrite forallb_forall in Hb. specialize (Hb s Hs).
    apply negb_true_iff in Hb. apply bytes_eqb_neq. exact Hb.
  Qed.

  Lemma brepr_b_sound db t : brepr_b db t = true -> brepr db t.
  Proof.
    intro Hb. apply brepr_iff. intros s Hs. unfold brepr_b in Hb. rewrite forallb_forall in Hb.
    specialize (Hb s Hs). destruct (aget db (bhash s)) as [n|]; [|discriminate Hb].
    apply bytes_eqb_eq in Hb. subst n. reflexivity.
  Qed.

End WithHash.

(* ------------------------------------------------------------------ *)
(* Keccak-256 instance: a concrete 3-key trie *)
From PyTrie.Base Require Import Keccak Keccak_proofs.
Local Open Scope nat_scope.

Definition Kh : bytes -> bytes := keccak256.
Definition KBH : bytes := Eval vm_compute in keccak256 [].

(* keys 0x00, 0x80, 0xc0 (bit strings 00000000, 10000000, 11000000) *)
Definition ex_t : bt :=
  TBranchB (TKV (repeat false 7) (TLeafB [x01]))
           (TBranchB (TKV (repeat false 6) (TLeafB [x02]))
                     (TKV (repeat false 6) (TLeafB [x03]))).
Definition ok_or_nil (r : result (list bytes)) : list bytes := match r with Ok l => l | Err _ => [] end.
Definition ex_db : bdb := Eval vm_compute in store_of_bt Kh ex_t.
Definition ex_root : bytes := Eval vm_compute in bhash Kh ex_t.
Definition ex_br : list bytes := Eval vm_compute in ok_or_nil (get_branch KBH ex_db ex_root [x80]).
Definition ex_br_absent : list bytes := Eval vm_compute in ok_or_nil (get_branch KBH ex_db ex_root [x40]).
(* the same trie built by the database-level updates of BinD.v *)
Definition ex_set (t : btrie) (k v : bytes) : btrie := snd (bin_set Kh KBH t k v).
Definition ex_hist : btrie :=
  Eval vm_compute in ex_set (ex_set (ex_set (mkBtrie [] KBH) [x00] [x01]) [x80] [x02]) [xc0] [x03].

Definition validates (r : result bool) : bool := match r with Ok true => true | _ => false end.

(* leaves are closed equations: decide them by vm_compute (never by [split] or
   [reflexivity] alone, which would run Keccak under lazy conversion) *)
Ltac c13_leaf :=
  lazymatch goal with
  | |- True => exact I
  | |- _ = _ => vm_compute; reflexivity
  end.
Ltac c13_conjs :=
  lazymatch goal with
  | |- _ /\ _ => split; [c13_conjs|c13_conjs]
  | _ => c13_leaf
  end.

Example C13_example :
  ex_db = store_of_bt Kh ex_t /\ ex_root = bhash Kh ex_t /\
  ex_hist = ex_set (ex_set (ex_set (mkBtrie [] KBH) [x00] [x01]) [x80] [x02]) [xc0] [x03] /\
  brepr Kh ex_db ex_t /\ bcanon ex_t = true /\ no_blank_collision Kh KBH ex_t /\
  (* the store written by set() represents the same tree, under the same root *)
  b_root ex_hist = ex_root /\ brepr Kh (b_db ex_hist) ex_t /\
  (* reads *)
  bin_get KBH (mkBtrie ex_db ex_root) [x80] = Ok (Some [x02]) /\
  bin_get KBH (mkBtrie ex_db ex_root) [x40] = Ok None /\
  check_if_branch_exist KBH ex_db ex_root [x80] = Ok true /\
  check_if_branch_exist KBH ex_db ex_root [x40] = Ok false /\
  (* a branch for a stored key: root branch, inner branch, kv node, leaf *)
  get_branch KBH ex_db ex_root [x80] = Ok ex_br /\ length ex_br = 4 /\
  ex_br = map (benc Kh) (bvisit ex_t (encode_to_bin [x80])) /\
  if_branch_valid Kh KBH ex_br ex_root [x80] (Some [x02]) = Ok true /\
  (* it does not validate another value, absence, or another key's answer *)
  if_branch_valid Kh KBH ex_br ex_root [x80] (Some [x03]) = Err EAssertion /\
  if_branch_valid Kh KBH ex_br ex_root [x80] None = Err EAssertion /\
  validates (if_branch_valid Kh KBH ex_br ex_root [xc0] (Some [x03])) = false /\
  (* truncated (last node dropped) or altered (first node dropped): no verdict at all *)
  validates (if_branch_valid Kh KBH (removelast ex_br) ex_root [x80] (Some [x02])) = false /\
  validates (if_branch_valid Kh KBH (removelast ex_br) ex_root [x80] None) = false /\
  validates (if_branch_valid Kh KBH (tl ex_br) ex_root [x80] (Some [x02])) = false /\
  (* a branch for an absent key proves absence *)
  get_branch KBH ex_db ex_root [x40] = Ok ex_br_absent /\ length ex_br_absent = 2 /\
  if_branch_valid Kh KBH ex_br_absent ex_root [x40] None = Ok true /\
  (* a key running past a leaf / ending at an inner node is refused *)
  get_branch KBH ex_db ex_root [x80; x00] = Err EInvalidKey /\
  _get_branch KBH 5 ex_db ex_root [true] = Err EInvalidKey /\
  (* ... but a key ending inside a kv path is not: its branch proves absence *)
  _get_branch KBH 5 ex_db ex_root [false; false] = Ok (firstn 2 (map (benc Kh) (bsubs ex_t))) /\
  (* all nodes, preorder *)
  get_trie_nodes ex_db ex_root = Ok (map (benc Kh) (bsubs ex_t)) /\
  (* witness for the prefix 0x80 *)
  get_witness_for_key_prefix ex_db ex_root [x80] = Ok ex_br.
Proof.
  split; [vm_compute; reflexivity|]. split; [vm_compute; reflexivity|]. split; [vm_compute; reflexivity|].
  split.
  { apply brepr_b_sound. vm_compute. reflexivity. }
  split; [vm_compute; reflexivity|].
  split.
  { apply no_blank_b_sound. vm_compute. reflexivity. }
  split; [vm_compute; reflexivity|].
  split.
  { apply brepr_b_sound. vm_compute. reflexivity. }
  c13_conjs.
Qed.

(* ---------------- counterexamples to the statements as first written ---------------- *)
(* 6: with fuel [bfuel key] (what get_witness_for_key_prefix passed when this was written), a prefix
   that is exhausted at a branch whose right child is again a branch runs out of (model-only) fuel:
   with an exhausted key path the descent continues down the right spine.  So
   "Err e -> e = EInvalidKey" needs "fuel > depth of t"; with enough fuel the answer is Ok, and it
   lists nodes more than once (19 entries for the 8 nodes of the tree). *)
Example C13_witness_fuel_counterexample :
  _get_witness (bfuel []) ex_db ex_root (encode_to_bin []) = Err EOutOfFuel /\
  bdepth ex_t = 3 /\ bfuel [] = 2 /\
  (match _get_witness 4 ex_db ex_root [] with Ok w => Some (length w) | Err _ => None end) = Some 19 /\
  length (bsubs ex_t) = 8.
Proof. c13_conjs. Qed.

Print Assumptions C13_get_refines.
Print Assumptions C13_bin_get.
Print Assumptions bget_deterministic.
Print Assumptions C13_unforgeable.
Print Assumptions C13_exists.
Print Assumptions C13_check_if_branch_exist.
Print Assumptions C13_branch_valid.
Print Assumptions C13_get_branch.
Print Assumptions C13_nodes.
Print Assumptions C13_get_trie_nodes.
Print Assumptions C13_witness.
Print Assumptions C13_get_witness_for_key_prefix.
Print Assumptions store_of_bt_repr.
Print Assumptions C13_empty_trie.
Print Assumptions C13_example.
Print Assumptions C13_witness_fuel_counterexample.
