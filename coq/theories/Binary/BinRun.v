(* Binary/BinRun.v — operation language of the C12 / C13 correspondence checks,
   instantiated with Keccak-256.  Definitions only. *)
From Coq Require Import List NArith ZArith Bool.
From Coq.Init Require Import Byte.
From PyTrie.Base Require Import Bytes Result AMap Keccak.
From PyTrie.Binary Require Import BinEnc BinD.
From PyTrie.Hexary Require Import Run.
Import ListNotations.

Definition K := keccak256.
Definition BH : bytes := BLANK_HASH.

Inductive bop :=
| BSet (k v : bytes) | BDelete (k : bytes) | BDeleteSubtrie (k : bytes)
| BGet (k : bytes) | BExists (k : bytes)
| BState                                   (* root, db digest, db size *)
| BAtRoot (root k : bytes)                 (* BinaryTrie(db, root).get(k) *)
| BBranchExist (p : bytes)
| BGetBranch (k : bytes)
| BBranchValid (branch : list bytes) (root k : bytes) (v : option bytes)
| BTrieNodes
| BWitness (p : bytes)
| BRootNode                                (* the root_node property: db[root_hash] *)
| BSetRootNode (node : bytes).             (* root_node = node: validate_is_bin_node, then _hash_and_save and re-root *)

Definition oopt (o : option bytes) : obs := match o with Some v => OB v | None => ONone end.
Definition obl (l : list bytes) : obs := OL (map OB l).
Definition uobs (r : result unit) : obs := res_obs (fun _ => ONone) r.

Definition bstep (t : btrie) (o : bop) : btrie * obs :=
  match o with
  | BSet k v => let '(r, t') := bin_set K BH t k v in (t', uobs r)
  | BDelete k => let '(r, t') := bin_delete K BH t k in (t', uobs r)
  | BDeleteSubtrie k => let '(r, t') := bin_delete_subtrie K BH t k in (t', uobs r)
  | BGet k => (t, res_obs oopt (bin_get BH t k))
  | BExists k => (t, res_obs obool (bin_exists BH t k))
  | BState => (t, OL [OB (b_root t); oN (db_digest (b_db t)); onat (length (b_db t))])
  | BAtRoot root k => (t, res_obs oopt (bin_get BH (mkBtrie (b_db t) root) k))
  | BBranchExist p => (t, res_obs obool (check_if_branch_exist BH (b_db t) (b_root t) p))
  | BGetBranch k => (t, res_obs obl (get_branch BH (b_db t) (b_root t) k))
  | BBranchValid br root k v => (t, res_obs obool (if_branch_valid K BH br root k v))
  | BTrieNodes => (t, res_obs obl (get_trie_nodes (b_db t) (b_root t)))
  | BWitness p => (t, res_obs obl (get_witness_for_key_prefix (b_db t) (b_root t) p))
  | BRootNode => (t, res_obs OB (db_read (b_db t) (b_root t)))
  | BSetRootNode node =>
      match hash_and_save K BH (b_db t) node with
      | Ok (db', h) => (mkBtrie db' h, ONone)
      | Err e => (t, exn_obs e)
      end
  end.

Fixpoint brun (t : btrie) (ops : list bop) : list obs :=
  match ops with
  | [] => []
  | o :: ops' => let '(t', x) := bstep t o in x :: brun t' ops'
  end.

Definition binary_run (ops : list bop) : obs := OL (brun (mkBtrie [] BH) ops).

(* the canonical root from the mapping alone (specification side of the C12 oracle) *)
From PyTrie.Binary Require Import BinTree.
Definition c12_spec_root (m : list (bytes * bytes)) : obs :=
  OB (bin_root K (map (fun e : bytes * bytes => (encode_to_bin (fst e), snd e)) m)).
