(* Api/Api_proofs.v — an invalid argument is refused with the stated exception class and the
   state (root, database, reference counts, pending table) is returned unchanged. *)
From Coq Require Import List NArith ZArith Bool.
From PyTrie.Base Require Import Bytes Result AMap Nibbles Rlp Keccak.
From PyTrie.Db Require Import ScratchDb.
From PyTrie.Hexary Require Import Raw D Run.
From PyTrie.Binary Require Import BinEnc BinD BinRun.
From PyTrie.Smt Require Import Smt SmtRun.
From PyTrie.Api Require Import Api.
Import ListNotations.
Local Arguments Nat.mul : simpl never.

Lemma prune_on_success_fail t e :
  t_pending t = None -> _prune_on_success (fail (A := unit) e) t = (Err e, t).
Proof.
  intro Hp. unfold _prune_on_success, fail. destruct t as [db root prune refc pend]. cbn in *. subst pend.
  destruct prune; reflexivity.
Qed.

(* the exception class each invalid HexaryTrie call raises *)
Definition hapi_exn (t : trie) (o : hapi) : exn :=
  match o with
  | HTraverse PNotSeq => ETypeError
  | HTraverse (PN _) => EValueError
  | HNew (PB _) _ _ => EValueError
  | _ => EValidation
  end.

Theorem hapi_invalid_refused t o :
  t_pending t = None -> hapi_invalid t o = true -> hapi_step t o = (t, exn_obs (hapi_exn t o)).
Proof.
  intros Hp Hinv. destruct o as [k|k|k v|k|k|p|r k|r k|r prune wc|]; cbn in Hinv; try discriminate.
  - destruct k; [discriminate|reflexivity].
  - destruct k; [discriminate|reflexivity].
  - destruct k as [k|]; [destruct v as [v|]; [discriminate|]|];
      unfold hapi_step, validate_is_bytes, run_m; rewrite prune_on_success_fail by exact Hp; reflexivity.
  - destruct k; [discriminate|]. unfold hapi_step, validate_is_bytes, run_m.
    rewrite prune_on_success_fail by exact Hp. reflexivity.
  - destruct k; [discriminate|reflexivity].
  - destruct p as [l|]; cbn in *.
    + destruct (forallb _ l); [discriminate|reflexivity].
    + reflexivity.
  - cbn. destruct (t_prune t) eqn:Ept; [reflexivity|]. cbn in Hinv.
    destruct r as [r|]; [destruct k as [k|]; [discriminate|]|]; reflexivity.
  - destruct r as [r|]; [destruct k as [k|]; [discriminate|]|]; reflexivity.
  - destruct r as [r|]; cbn in *; [rewrite Hinv|]; reflexivity.
Qed.

Theorem bapi_invalid_refused t o : bapi_invalid o = true -> bapi_step t o = (t, exn_obs EValidation).
Proof.
  intro Hinv. destruct o as [k|k|k v|k|k|r|p|k|k|k c|]; cbn in Hinv; try discriminate;
    try (destruct k; [discriminate|reflexivity]).
  - destruct k as [k|]; [destruct v as [v|]; [discriminate|]|]; reflexivity.
  - destruct r; [discriminate|reflexivity].
  - destruct p; [discriminate|reflexivity].
Qed.

Definition sapi_invalid (t : smt) (o : sapi) : bool :=
  match o with
  | SAGet PBad | SAExists PBad | SABranch PBad | SADelete PBad | SAFromDb PBad | SAProofUpdate PBad => true
  | SAGet (PB k) | SAExists (PB k) | SABranch (PB k) | SADelete (PB k) => negb (Nat.eqb (length k) (s_keysize t))
  | SASet PBad _ => true
  | SASet (PB k) v => negb (Nat.eqb (length k) (s_keysize t)) || match v with PBad => true | PB _ => false end
  | SACalcRoot PBad _ _ | SACalcRoot _ PBad _ | SAProofNew PBad _ _ | SAProofNew _ PBad _ => true
  | SACalcRoot (PB k) (PB _) n | SAProofNew (PB k) (PB _) n => negb (Nat.eqb n (8 * length k))
  | SAFromDb (PB r) => negb (Nat.eqb (length r) 32)
  | SAProofUpdate (PB k) => negb (Nat.eqb (length k) (s_keysize t))
  | SAState => false
  end.

Lemma repeat_len {A} (x : A) n : length (repeat x n) = n.
Proof. apply repeat_length. Qed.

Lemma repeat_byte_len b n : length (repeat_byte b n) = n.
Proof. induction n as [|n IH]; cbn; [reflexivity|rewrite IH; reflexivity]. Qed.

Theorem sapi_invalid_refused t o :
  (1 <= s_keysize t <= 32)%nat -> sapi_invalid t o = true -> sapi_step t o = (t, exn_obs EValidation).
Proof.
  intros Hks Hinv.
  destruct o as [k|k|k|k v|k|k v n|r|k v n|k|]; cbn in Hinv; try discriminate.
  - destruct k as [k|]; [|reflexivity]. cbn. unfold smt_get, _get, validate_key.
    apply negb_true_iff in Hinv. rewrite Hinv. reflexivity.
  - destruct k as [k|]; [|reflexivity]. cbn. unfold smt_exists, validate_key.
    apply negb_true_iff in Hinv. rewrite Hinv. reflexivity.
  - destruct k as [k|]; [|reflexivity]. cbn. unfold smt_branch, _get, validate_key.
    apply negb_true_iff in Hinv. rewrite Hinv. reflexivity.
  - destruct k as [k|]; [|reflexivity]. cbn. unfold validate_length.
    destruct (Nat.eqb (length k) (s_keysize t)) eqn:E; cbn in Hinv.
    + destruct v; [discriminate|reflexivity].
    + reflexivity.
  - destruct k as [k|]; [|reflexivity]. cbn. unfold smt_delete, validate_key.
    apply negb_true_iff in Hinv. rewrite Hinv. reflexivity.
  - destruct k as [k|]; [destruct v as [v|]|]; try reflexivity. cbn. unfold calc_root.
    rewrite repeat_len. apply negb_true_iff in Hinv. rewrite Hinv. reflexivity.
  - destruct r as [r|]; [|reflexivity]. cbn. unfold smt_from_db, smt_new.
    destruct Hks as [H1 H2]. apply Nat.leb_le in H1. apply Nat.leb_le in H2. rewrite H1, H2. cbn [andb].
    destruct (init_chain K (8 * s_keysize t) (s_default t) []) as [node db]. cbn.
    apply negb_true_iff in Hinv. rewrite Hinv. reflexivity.
  - destruct k as [k|]; [destruct v as [v|]|]; try reflexivity. cbn. unfold proof_new.
    rewrite repeat_len. apply negb_true_iff in Hinv. rewrite Hinv. reflexivity.
  - destruct k as [k|]; [|reflexivity]. cbn. unfold proof_new.
    rewrite repeat_len, repeat_byte_len, Nat.eqb_refl. cbn. unfold proof_update. cbn [p_key].
    rewrite repeat_byte_len. rewrite Hinv. reflexivity.
Qed.
