(* Api/Api.v — the argument-validation layer of the public entry points, over Python-like
   arguments: where each entry point validates what, in the order the source does it, in
   front of the component models.  Definitions only. *)
From Coq Require Import List NArith ZArith Bool.
From Coq.Init Require Import Byte.
From PyTrie.Base Require Import Bytes Result AMap Nibbles Rlp Keccak.
From PyTrie.Db Require Import ScratchDb.
From PyTrie.Hexary Require Import Raw D Run.
From PyTrie.Binary Require Import BinEnc BinD BinRun.
From PyTrie.Smt Require Import Smt SmtRun.
Import ListNotations.
Open Scope N_scope.

(* a Python argument where a byte string is expected: bytes, or anything else
   (None, str, int, bytearray, memoryview, list ...) *)
Inductive parg := PB (b : bytes) | PBad.
(* a Python argument where a nibble sequence is expected *)
Inductive pnibs := PN (l : list Z) | PNotSeq.

Definition validate_is_bytes (a : parg) : result bytes :=
  match a with PB b => Ok b | PBad => Err EValidation end.

Definition validate_length (b : bytes) (n : nat) : result unit :=
  if Nat.eqb (length b) n then Ok tt else Err EValidation.

(* Nibbles(x): TypeError if not list-like, ValueError if some element is not a Nibble *)
Definition as_Nibbles (a : pnibs) : result nibbles :=
  match a with
  | PNotSeq => Err ETypeError
  | PN l => if forallb (fun z => (0 <=? z)%Z && (z <? 16)%Z) l then Ok (map Z.to_N l) else Err EValueError
  end.

Definition BNH := BLANK_NODE_HASH.

(* ---------------- HexaryTrie ---------------- *)
Inductive hapi :=
| HGet (k : parg) | HExists (k : parg) | HSet (k v : parg) | HDelete (k : parg)
| HGetProof (k : parg)
| HTraverse (p : pnibs)
| HAtRootGet (root : parg) (k : parg)        (* with t.at_root(root) as s: s.get(k) *)
| HFromProof (root k : parg)                 (* get_from_proof(root, k, []) *)
| HNew (root : parg) (prune with_counts : bool)   (* HexaryTrie(db, root, prune, ref_count={} if with_counts) *)
| HState.

Definition run_m {A} (m : M A) (t : trie) (f : A -> obs) : trie * obs :=
  let '(r, t') := m t in (t', res_obs f r).

Definition hapi_step (t : trie) (o : hapi) : trie * obs :=
  match o with
  | HGet k => match validate_is_bytes k with
              | Err e => (t, exn_obs e)
              | Ok k => run_m (get BNH k) t OB
              end
  | HExists k => match validate_is_bytes k with
                 | Err e => (t, exn_obs e)
                 | Ok k => run_m (exists_ BNH k) t obool
                 end
  | HSet k v =>
      (* validation happens inside `with self._prune_on_success()` *)
      match validate_is_bytes k, validate_is_bytes v with
      | Ok k, Ok v => run_m (set keccak256 BNH k v) t (fun _ => ONone)
      | Err e, _ | _, Err e => run_m (_prune_on_success (fail e)) t (fun _ => ONone)
      end
  | HDelete k =>
      match validate_is_bytes k with
      | Ok k => run_m (delete keccak256 BNH k) t (fun _ => ONone)
      | Err e => run_m (_prune_on_success (fail e)) t (fun _ => ONone)
      end
  | HGetProof k => match validate_is_bytes k with
                   | Err e => (t, exn_obs e)
                   | Ok k => run_m (get_proof BNH k) t (fun l => OL (map item_obs l))
                   end
  | HTraverse p => match as_Nibbles p with
                   | Err e => (t, exn_obs e)
                   | Ok ns => run_m (traverse BNH ns) t hnode_obs
                   end
  | HAtRootGet root k =>
      if t_prune t then (t, exn_obs EValidation)
      else match validate_is_bytes root with          (* the snapshot constructor validates the root *)
           | Err e => (t, exn_obs e)
           | Ok r => match validate_is_bytes k with
                     | Err e => (t, exn_obs e)
                     | Ok k => (t, res_obs OB (fst (get BNH k (mkTrie (t_db t) r false [] None))))
                     end
           end
  | HFromProof root k =>
      match validate_is_bytes root with               (* at_root(root_hash) constructs a trie: validates *)
      | Err e => (t, exn_obs e)
      | Ok r => match validate_is_bytes k with
                | Err e => (t, exn_obs e)
                | Ok k => (t, res_obs OB (get_from_proof keccak256 BNH r k []))
                end
      end
  | HNew root prune with_counts =>
      match validate_is_bytes root with
      | Err e => (t, exn_obs e)
      | Ok r => if (with_counts && negb prune)%bool then (t, exn_obs EValueError)
                else (mkTrie (t_db t) r prune [] None, ONone)      (* a new handle over the same database *)
      end
  | HState => (t, state_obs t)
  end.

Fixpoint hapi_run (t : trie) (ops : list hapi) : list obs :=
  match ops with
  | [] => []
  | o :: ops' => let '(t', x) := hapi_step t o in x :: hapi_run t' ops'
  end.

(* prior history through the ordinary interpreter, then API calls *)
Definition c18_hexary_run (c : bool * list hop * list hapi) : obs :=
  let '(prune, prior, ops) := c in
  let t := fold_left (fun t o => fst (hstep t o)) prior (empty_trie BNH prune) in
  OL (hapi_run t ops).

(* which calls carry an invalid argument *)
Definition hapi_invalid (t : trie) (o : hapi) : bool :=
  match o with
  | HGet PBad | HExists PBad | HDelete PBad | HGetProof PBad => true
  | HSet PBad _ | HSet _ PBad => true
  | HTraverse p => match as_Nibbles p with Err _ => true | Ok _ => false end
  | HAtRootGet r k => t_prune t || match r, k with PB _, PB _ => false | _, _ => true end
  | HFromProof r k => match r, k with PB _, PB _ => false | _, _ => true end
  | HNew r prune wc => match r with PBad => true | PB _ => wc && negb prune end
  | _ => false
  end.

(* ---------------- BinaryTrie and branch helpers ---------------- *)
Inductive bapi :=
| BAGet (k : parg) | BAExists (k : parg) | BASet (k v : parg) | BADelete (k : parg) | BADeleteSubtrie (k : parg)
| BANew (root : parg)
| BABranchExist (p : parg) | BAGetBranch (k : parg) | BAWitness (k : parg)
| BABranchValid (k : parg) (claim_some : bool)     (* if_branch_valid([root node], root, k, b"x" if claim_some else None) *)
| BAState.

Definition bapi_step (t : btrie) (o : bapi) : btrie * obs :=
  let vb (a : parg) (f : bytes -> btrie * obs) : btrie * obs :=
    match validate_is_bytes a with Err e => (t, exn_obs e) | Ok b => f b end in
  match o with
  | BAGet k => vb k (fun k => bstep t (BGet k))
  | BAExists k => vb k (fun k => bstep t (BExists k))
  | BASet k v => vb k (fun k => vb v (fun v => bstep t (BSet k v)))
  | BADelete k => vb k (fun k => bstep t (BDelete k))
  | BADeleteSubtrie k => vb k (fun k => bstep t (BDeleteSubtrie k))
  | BANew root => vb root (fun r => (mkBtrie (b_db t) r, ONone))
  | BABranchExist p => vb p (fun p => bstep t (BBranchExist p))
  | BAGetBranch k => vb k (fun k => bstep t (BGetBranch k))
  | BAWitness k => vb k (fun k => bstep t (BWitness k))
  | BABranchValid k claim_some =>
      vb k (fun k =>
              match aget (b_db t) (b_root t) with
              | Some node => bstep t (BBranchValid [node] (b_root t) k (if claim_some then Some [x78] else None))
              | None => (t, ONone)
              end)
  | BAState => bstep t BState
  end.

Fixpoint bapi_run (t : btrie) (ops : list bapi) : list obs :=
  match ops with
  | [] => []
  | o :: ops' => let '(t', x) := bapi_step t o in x :: bapi_run t' ops'
  end.

Definition c18_binary_run (c : list bop * list bapi) : obs :=
  let '(prior, ops) := c in
  let t := fold_left (fun t o => fst (bstep t o)) prior (mkBtrie [] BLANK_HASH) in
  OL (bapi_run t ops).

Definition bapi_invalid (o : bapi) : bool :=
  match o with
  | BAGet PBad | BAExists PBad | BADelete PBad | BADeleteSubtrie PBad | BANew PBad
  | BABranchExist PBad | BAGetBranch PBad | BAWitness PBad | BABranchValid PBad _ => true
  | BASet PBad _ | BASet _ PBad => true
  | _ => false
  end.

(* ---------------- SparseMerkleTree / calc_root / SparseMerkleProof ---------------- *)
Inductive sapi :=
| SAGet (k : parg) | SAExists (k : parg) | SABranch (k : parg) | SASet (k v : parg) | SADelete (k : parg)
| SACalcRoot (k v : parg) (branch_len : nat)
| SAFromDb (root : parg)
| SAProofNew (k v : parg) (branch_len : nat)
| SAProofUpdate (k : parg)          (* on a proof for an all-zero key of the tree's key size *)
| SAState.

Definition K := keccak256.

Definition sapi_step (t : smt) (o : sapi) : smt * obs :=
  let vb (a : parg) (f : bytes -> smt * obs) : smt * obs :=
    match validate_is_bytes a with Err e => (t, exn_obs e) | Ok b => f b end in
  match o with
  | SAGet k => vb k (fun k => mstep t (MGet k))
  | SAExists k => vb k (fun k => mstep t (MExists k))
  | SABranch k => vb k (fun k => mstep t (MBranch k))
  | SASet k v =>
      vb k (fun k => match validate_length k (s_keysize t) with
                     | Err e => (t, exn_obs e)
                     | Ok _ => vb v (fun v => mstep t (MSet k v))
                     end)
  | SADelete k => vb k (fun k => mstep t (MDelete k))
  | SACalcRoot k v n =>
      vb k (fun k => vb v (fun v => (t, res_obs OB (calc_root K k v (repeat (repeat_byte x00 32) n)))))
  | SAFromDb root =>
      vb root (fun r => (t, res_obs (fun _ => ONone) (smt_from_db K (s_db t) r (s_keysize t) (s_default t))))
  | SAProofNew k v n =>
      vb k (fun k => vb v (fun v => (t, res_obs (fun _ => ONone) (proof_new k v (repeat (repeat_byte x00 32) n)))))
  | SAProofUpdate k =>
      vb k (fun k =>
              let key0 := repeat_byte x00 (s_keysize t) in
              match proof_new key0 [] (repeat (repeat_byte x00 32) (8 * s_keysize t)) with
              | Ok p => (t, res_obs (fun _ => ONone) (proof_update p k [x76] (repeat (repeat_byte x00 32) (8 * s_keysize t))))
              | Err e => (t, exn_obs e)
              end)
  | SAState => mstep t MRoot
  end.

Fixpoint sapi_run (t : smt) (ops : list sapi) : list obs :=
  match ops with
  | [] => []
  | o :: ops' => let '(t', x) := sapi_step t o in x :: sapi_run t' ops'
  end.

Definition c18_smt_run (c : nat * list mop * list sapi) : obs :=
  let '(ks, prior, ops) := c in
  match smt_new K ks [] with
  | Err e => exn_obs e                       (* key size outside 1..32 *)
  | Ok t0 =>
      let t := fold_left (fun t o => fst (mstep t o)) prior t0 in
      OL (sapi_run t ops)
  end.
