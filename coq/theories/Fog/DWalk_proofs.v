(* Fog/DWalk_proofs.v — the database-level fog-guided walk (Fog/Walk.v: wstep, over the D-level
   trie with the concrete TrieFrontierCache) REFINES the tree-level labelled transition system
   of Fog/TWalk.v: every D-level operation is matched by zero or one T-level event, so every
   C09 theorem of Fog/TWalk_proofs.v transfers to the D-level walk.

   vnode v p          the node a walk sees at prefix p of version v: the node AT p, or the node
                      SIMULATED at p when p ends inside a leaf / extension (describe v p = annotate
                      (vnode v p)); vnode (vnode v q) s = vnode v (q ++ s) for canonical v.
   wrel SB w tw       the refinement relation, for pruning and non-pruning tries alike:
                      - every version is canonical, decodable, free of blank-hash collisions, with
                        its bodies in SB (the collision-free finite set of node bodies);
                      - non-pruning: the store holds the nodes of EVERY version (stores only grow);
                        pruning: the store holds exactly the nodes of the current version (pinv);
                      - the fogs are equal (and satisfy fog_inv);
                      - every cache entry p -> (cn, seg) is cn = ann (vnode v q) for some version v
                        and p = q ++ seg (the cached node may be a SIMULATED node: see
                        ex_cache_holds_simulated_node).
   wstep_refines_step a WStep is (a) a failed fog query, nothing changes; (b) the event EStep p i,
                      where i is the version the cache entry came from (0 without an entry), the
                      observation shows ann (vnode v_i p); (c) on a pruning trie with the cache only:
                      MissingTraversalNode through a stale entry, the entry is dropped, no event.
   wstep_refines_mutate / wstep_refines_reset   set / delete = EMutate; cache reset = no event.
   wrun_refines       every run of walk steps, sets / deletes, cache resets and iterator queries from
                      (a trie built by a history ws0, a fresh fog, an empty cache) has a schedule s with
                      sched_ok s, trun_walk (twalk_init t0) s = Some tw, wrel final tw; the pairs met,
                      the mutations and the number of steps of s are those of the run.
   wrun_C09           C09_invariant / complete / no_ghosts / met_once / static for the D-level run;
   wrun_step_bound    C09_step_bound;  wstep_can_finish / wrun_can_finish   C09_can_finish.
   Premises of the run theorems: cf K (hist_bodies K ws) and the bodies are shorter than 2^64 bytes
   (ws = all writes), exactly as for C01_D_nonpruning_small / C01_D_pruning. *)
From Coq Require Import List NArith ZArith Bool Lia ZifyBool Sorted.
From Coq.Init Require Import Byte.
From PyTrie.Base Require Import Bytes Bytes_proofs Result AMap AMap_proofs Nibbles Nibbles_proofs Rlp Keccak.
From PyTrie.Db Require Import ScratchDb.
From PyTrie.Hexary Require Import Raw Raw_proofs D Run Tree Tree_aux Tree_map Tree_canon Tree_unique
  TreeTraverse D_read Refine_read Tree_traverse_proofs Refine_write Refine_write_prune.
From PyTrie.Fog Require Import Fog Fog_proofs TWalk TWalk_proofs Walk Walk_proofs.
Import ListNotations.
Open Scope N_scope.

(* the hash function is never evaluated in the proofs below (only in the final examples, by
   vm_compute, which ignores this) *)
Local Opaque keccak256.

(* ================================================================== *)
(* 1. tree level: the (possibly simulated) node a walk sees at a prefix *)

Definition vnode (t : node) (k : nibbles) : node :=
  match ttraverse t k with
  | TAt n => n
  | TPartial _ n tail => simulated n tail
  end.

Definition vpartial (t : node) (k : nibbles) : bool :=
  match ttraverse t k with TAt _ => false | TPartial _ _ _ => true end.

Lemma describe_vnode t k : describe t k = annotate (vnode t k).
Proof. unfold describe, vnode. destruct (ttraverse t k); reflexivity. Qed.

Lemma vnode_tget t k q : tget (vnode t k) q = tget t (k ++ q).
Proof.
  unfold vnode, ttraverse. destruct (ttraverse_from t k []) as [n|r n tail] eqn:E.
  - exact (ttf_at t k [] n E q).
  - destruct (ttf_partial t k [] r n tail E) as (_ & _ & _ & _ & _ & Hsim & _). apply Hsim.
Qed.

Lemma vnode_canonical t k : canonical_top t = true -> canonical_top (vnode t k) = true.
Proof.
  intro Ht. unfold vnode. destruct (ttraverse t k) as [n|r n tail] eqn:E.
  - pose proof (ttf_canonical t k [] Ht) as Hc. unfold ttraverse in E. rewrite E in Hc. exact Hc.
  - unfold canonical_top. rewrite (simulated_canonical t k r n tail Ht E). apply orb_true_r.
Qed.

Lemma vnode_compose t q s : canonical_top t = true ->
  vnode (vnode t q) s = vnode t (q ++ s).
Proof.
  intro Ht. apply canonical_unique.
  - apply vnode_canonical. apply vnode_canonical. exact Ht.
  - apply vnode_canonical. exact Ht.
  - intros x _. rewrite !vnode_tget, <- app_assoc. reflexivity.
Qed.

Lemma vnode_nil t : vnode t [] = t.
Proof. unfold vnode. rewrite C08_root. reflexivity. Qed.

(* a property of all proper sub-trees *)
Definition below (P : node -> Prop) (n : node) : Prop :=
  match n with
  | NExt _ c => all_sub P c
  | NBranch cs _ => Forall (all_sub P) cs
  | _ => True
  end.

Lemma all_sub_below P n : all_sub P n -> below P n.
Proof.
  destruct n as [| p v | p c | cs v]; intro Ha; cbn [below]; try exact I.
  - apply all_sub_ext in Ha. apply Ha.
  - apply all_sub_branch in Ha. apply Ha.
Qed.

Lemma all_sub_ttf_partial (P : node -> Prop) :
  forall t, all_sub P t -> forall k c r n tail, ttraverse_from t k c = TPartial r n tail -> all_sub P n.
Proof.
  intro t. induction t as [| p v | p c0 IH | cs v IH] using Tree_map.node_ind'; intros Ha k c r n tail Ht.
  - rewrite ttf_blank in Ht. discriminate Ht.
  - destruct k as [|k0 k']; [rewrite ttf_nil in Ht; discriminate Ht|].
    rewrite ttf_leaf in Ht by discriminate.
    destruct (key_starts_with p (k0 :: k')); [|discriminate Ht]. inversion Ht; subst. exact Ha.
  - destruct k as [|k0 k']; [rewrite ttf_nil in Ht; discriminate Ht|].
    rewrite ttf_ext in Ht by discriminate.
    destruct (key_starts_with (k0 :: k') p).
    + apply all_sub_ext in Ha as [_ Hc]. exact (IH Hc _ _ _ _ _ Ht).
    + destruct (key_starts_with p (k0 :: k')); [|discriminate Ht]. inversion Ht; subst. exact Ha.
  - destruct k as [|k0 k']; [rewrite ttf_nil in Ht; discriminate Ht|].
    rewrite ttf_branch in Ht. apply all_sub_branch in Ha as [_ Hc].
    assert (HP : all_sub P (child cs k0) ->
                 forall k c r n tail, ttraverse_from (child cs k0) k c = TPartial r n tail -> all_sub P n).
    { apply Forall_child; [exact IH|]. intros _ k1 c1 r1 n1 t1 Hb. rewrite ttf_blank in Hb. discriminate Hb. }
    assert (Hch : all_sub P (child cs k0)).
    { unfold child in Ht |- *. destruct (Nat.lt_ge_cases (N.to_nat k0) (length cs)) as [Hlt|Hge].
      - rewrite Forall_forall in Hc. apply Hc. apply nth_In. exact Hlt.
      - rewrite (nth_overflow cs NBlank Hge) in Ht. rewrite ttf_blank in Ht. discriminate Ht. }
    exact (HP Hch _ _ _ _ _ Ht).
Qed.

Lemma vnode_below (P : node -> Prop) t k : all_sub P NBlank -> all_sub P t -> below P (vnode t k).
Proof.
  intros HB Ha. unfold vnode, ttraverse. destruct (ttraverse_from t k []) as [n|r n tail] eqn:E.
  - apply all_sub_below. exact (all_sub_ttf P HB t Ha k [] n E).
  - pose proof (all_sub_ttf_partial P t Ha k [] r n tail E) as Hn.
    destruct n as [| p v | p c | cs v]; cbn [simulated below]; try exact I.
    + apply all_sub_ext in Hn. apply Hn.
    + apply all_sub_branch in Hn. apply Hn.
Qed.

(* ================================================================== *)
(* 2. database level: reading a virtual node, from the root or through a cached parent *)
Section ReadV.
  Variable H : bytes -> bytes.
  Hypothesis H_len : forall x, length (H x) = 32%nat.
  Hypothesis BNH_def : BNH = H (rlp_encode (RStr [])).

  Notation ann := (ann_hnode H).
  Notation good_here := (good_here H BNH).
  Notation good := (good H BNH).

  Lemma good_mono' m m' t : sub_store m m' -> good m t -> good m' t.
  Proof.
    intro Hsub. apply all_sub_impl. intros s (Hs & Hd & Hn). split; [|split; assumption].
    intro Hl. apply Hsub. exact (Hs Hl).
  Qed.

  Lemma below_good_mono m m' n : sub_store m m' -> below (good_here m) n -> below (good_here m') n.
  Proof.
    intro Hsub. destruct n as [| p v | p c | cs v]; cbn [below]; try (intros _; exact I).
    - apply (good_mono' m m' c Hsub).
    - intro Hf. eapply Forall_impl; [|exact Hf]. intro c. apply (good_mono' m m' c Hsub).
  Qed.

  (* _traverse_from over the encoding of a node whose PROPER sub-trees are readable (the node
     itself may be a simulated node, which is stored nowhere) *)
  Lemma tf_enc_top m N : wf N = true -> ext_ok N = true -> below (good_here m) N ->
    forall rem fuel tk consumed, nibs_ok rem = true -> (length rem < fuel)%nat ->
    tf BNH m fuel (enc H N) tk rem = Ok (res_pair H (ttraverse_from N rem consumed)).
  Proof.
    intros Hwf Hex Hb rem fuel tk consumed Hrem Hfuel.
    destruct fuel as [|f]; [lia|]. cbn [tf]. unfold tstep.
    destruct rem as [|r0 rt]; [rewrite ttf_nil; reflexivity|].
    destruct N as [| p v | p c | cs v].
    - reflexivity.
    - cbn [wf] in Hwf. destruct (leaf_classified p (RStr v) Hwf) as [Ht Hk].
      cbn [enc]. rewrite Ht, Hk. cbn [ttraverse_from].
      destruct (key_starts_with p (r0 :: rt)); reflexivity.
    - cbn [wf] in Hwf. apply andb_true_iff in Hwf as [Hp Hwc].
      cbn [ext_ok] in Hex. apply andb_true_iff in Hex as [Hpne Hexc].
      cbn [below] in Hb.
      destruct (extension_classified p (tref H c) Hp) as [Ht Hk].
      cbn [enc]. fold (tref H c). rewrite Ht, Hk. cbn [ttraverse_from].
      pose proof (consume_common_prefix_spec p (r0 :: rt)) as Hs.
      destruct (consume_common_prefix p (r0 :: rt)) as [[cm cr] kr].
      destruct Hs as (Hs1 & Hs2 & _).
      destruct cr as [|x cr'].
      + cbn [kv_second]. unfold gnt. rewrite (good_gn H BNH H_len m c Hb). cbn [mt_handler].
        rewrite app_nil_r in Hs1. subst cm.
        apply (tf_enc H BNH H_len m c Hwc Hexc Hb).
        * rewrite Hs2, nibs_ok_app in Hrem. apply andb_true_iff in Hrem as [_ Hrem]. exact Hrem.
        * rewrite Hs2 in Hfuel. rewrite app_length in Hfuel.
          destruct p as [|p0 p']; [discriminate Hpne|]. cbn [length] in Hfuel. lia.
      + destruct kr; reflexivity.
    - pose proof Hwf as Hwf'. rewrite wf_branch in Hwf'. apply andb_true_iff in Hwf' as [Hl _].
      apply Nat.eqb_eq in Hl. cbn [below] in Hb.
      rewrite (branch_enc_classified H cs v Hl).
      apply nibs_ok_cons_inv in Hrem as [Hr0 Hrt].
      rewrite (branch_child_enc H cs v r0 Hl Hr0).
      assert (Hgc : good m (child cs r0)) by (apply Forall_child; [exact Hb|apply good_blank]).
      unfold gnt. rewrite (good_gn H BNH H_len m _ Hgc). cbn [mt_handler].
      rewrite ttf_branch.
      apply (tf_enc H BNH H_len m (child cs r0)).
      + apply (wf_child cs v); exact Hwf.
      + apply (ext_ok_child cs v); exact Hex.
      + exact Hgc.
      + exact Hrt.
      + cbn [length] in Hfuel. lia.
  Qed.

  (* what annotate_or_simulate makes of the result of a tree-level traversal *)
  Definition sim_res (r : tres) : hnode * bool :=
    match r with
    | TAt n => (ann n, false)
    | TPartial _ n tail => (ann (simulated n tail), true)
    end.

  Lemma simulated_node_ann n tail : partial_ok n tail ->
    annotate_node (enc H n) = Ok (ann n) /\ simulated_node (ann n) tail = Ok (ann (simulated n tail)).
  Proof.
    intro Hpo. destruct n as [| p v | p c | cs v]; cbn [partial_ok] in Hpo; try contradiction.
    - destruct Hpo as (Hp & Hks & Hne).
      split; [apply (annotate_enc H H_len (NLeaf p v)); exact Hp|].
      destruct tail as [|x tl]; [contradiction|].
      unfold simulated_node, ann_hnode.
      cbn [annotate a_segs a_value a_suffix a_type h_segs h_suffix h_value h_raw simulated enc kv_second].
      rewrite Hks. cbn [negb].
      rewrite (compute_leaf_key_HP _ (tm_nibs_ok_skipn (length (x :: tl)) p Hp)).
      reflexivity.
    - destruct Hpo as (Hp & Hks & Hlen & Hne).
      destruct (extension_classified p (tref H c) Hp) as [Ht Hk].
      split.
      { unfold annotate_node. cbn [enc]. fold (tref H c). rewrite Ht. cbn [rbind]. rewrite Hk. reflexivity. }
      destruct tail as [|x tl]; [contradiction|].
      unfold simulated_node, ann_hnode.
      cbn [annotate a_segs a_value a_suffix a_type h_segs h_suffix h_value h_raw simulated enc kv_second].
      rewrite Hks. cbn [negb].
      apply Nat.eqb_neq in Hlen. rewrite Hlen.
      rewrite (compute_extension_key_HP _ (tm_nibs_ok_skipn (length (x :: tl)) p Hp)).
      reflexivity.
  Qed.

  Lemma aos_res (r : tres) s :
    match r with TAt n => wf n = true | TPartial _ n tail => partial_ok n tail end ->
    annotate_or_simulate (res_pair H r) s = (Ok (sim_res r), s).
  Proof.
    destruct r as [n|re n tail]; intro Hr; cbn [res_pair sim_res]; unfold annotate_or_simulate.
    - unfold bind, lift. rewrite (annotate_enc H H_len n Hr). reflexivity.
    - destruct (simulated_node_ann n tail Hr) as [Ha Hs].
      unfold bind, lift. rewrite Ha.
      destruct tail as [|x tl]; [destruct n; cbn [partial_ok] in Hr; try contradiction; destruct Hr as (_ & _ & Hr); try destruct Hr as [_ Hr]; contradiction|].
      rewrite Hs. reflexivity.
  Qed.

  Lemma sim_res_vnode t k : sim_res (ttraverse t k) = (ann (vnode t k), vpartial t k).
  Proof. unfold vnode, vpartial. destruct (ttraverse t k); reflexivity. Qed.

  (* through a cached parent *)
  Theorem traverse_from_sim_vnode m s N seg : on m s ->
    canonical_top N = true -> below (good_here m) N -> nibs_ok seg = true ->
    fst (traverse_from_sim BNH (enc H N) seg s) = Ok (ann (vnode N seg), vpartial N seg).
  Proof.
    intros Hon Hc Hb Hseg.
    pose proof (canonical_wf N Hc) as Hwf. pose proof (canonical_top_ext_ok N Hc) as Hex.
    unfold traverse_from_sim, bind.
    rewrite (traverse_from_eq BNH m _ (enc H N) seg seg s Hon).
    rewrite (tf_enc_top m N Hwf Hex Hb seg (traverse_fuel seg) seg [] Hseg)
      by (unfold traverse_fuel; lia).
    rewrite aos_res; [cbn [fst]; f_equal; apply sim_res_vnode|].
    pose proof (ttraverse_inv N Hwf seg []) as Hi.
    destruct (ttraverse_from N seg []); [exact Hi|apply Hi].
  Qed.

  (* from the root *)
  Theorem traverse_sim_vnode m s t p : on m s -> t_root s = troot H t ->
    represents H m (troot H t) t -> canonical_top t = true -> decodable H t ->
    no_blank_collision H BNH t -> nibs_ok p = true ->
    fst (traverse_sim BNH p s) = Ok (ann (vnode t p), vpartial t p).
  Proof.
    intros Hon Hroot Hrep Hc Hd Hn Hp.
    pose proof (canonical_wf t Hc) as Hwf. pose proof (canonical_top_ext_ok t Hc) as Hex.
    unfold traverse_sim, bind, getst.
    rewrite (_traverse_eq BNH m (t_root s) p s Hon), Hroot.
    rewrite (ptrav_ok H BNH H_len BNH_def m _ t p Hrep Hwf Hex Hd Hn Hp).
    rewrite aos_res; [cbn [fst]; f_equal; apply sim_res_vnode|].
    pose proof (ttraverse_inv t Hwf p []) as Hi. unfold ttraverse.
    destruct (ttraverse_from t p []); [exact Hi|apply Hi].
  Qed.
End ReadV.

(* ================================================================== *)
(* 3. reading when nodes may have been pruned: the expected answer, or MissingTraversalNode *)
Section ReadSound.
  Variable H : bytes -> bytes.
  Hypothesis H_len : forall x, length (H x) = 32%nat.
  Hypothesis BNH_def : BNH = H (rlp_encode (RStr [])).
  Variable SB : list bytes.
  Hypothesis cfS : cf H SB.

  Notation ann := (ann_hnode H).

  (* whatever the store holds under the hash of s is the body of s (SB is collision-free and
     the store is content-addressed within SB); the body decodes; the hash is not BLANK_NODE_HASH *)
  Definition sound_here (s : node) : Prop :=
    inS_here H SB s /\ decodable_here H s /\ nbc_here H BNH s.

  Lemma sound_blank : all_sub sound_here NBlank.
  Proof.
    split; [|exact I]. split; [|split].
    - intro Hx. discriminate Hx.
    - reflexivity.
    - intro Hx. discriminate Hx.
  Qed.

  Lemma sound_intro t : inS H SB t -> decodable H t -> no_blank_sub H BNH t -> all_sub sound_here t.
  Proof.
    intros Hi Hd Hn. unfold sound_here. apply all_sub_and; [exact Hi|]. apply all_sub_and; assumption.
  Qed.

  Lemma gn_sound m c : within H SB m -> sound_here c ->
    gn BNH m (tref H c) = Ok (enc H c) \/ exists h, gn BNH m (tref H c) = Err (EKeyError h).
  Proof.
    intros Hw (Hi & Hd & Hn).
    destruct (tref_cases H c) as [[-> Hr]|[(Hnb & Hl & Hr)|(Hnb & Hl & Hr)]]; rewrite Hr.
    - left. reflexivity.
    - left. destruct (enc_nonblank H c Hnb) as (x & l & He). rewrite He. reflexivity.
    - destruct (aget m (H (ebody H c))) as [b|] eqn:Eg.
      + left. destruct (Hw _ _ Eg) as [Hh Hb].
        assert (Hbe : b = ebody H c) by (apply cfS; [exact Hb|exact (Hi Hl)|symmetry; exact Hh]).
        subst b. apply (gn_hashed_ok H BNH H_len); [exact (Hn Hl)|exact Eg|exact Hd].
      + right. exists (H (ebody H c)). pose proof (H_len (ebody H c)) as Hlen. unfold gn.
        pose proof (Hn Hl) as Hne. apply bytes_eqb_neq in Hne.
        destruct (H (ebody H c)) as [|h0 h'] eqn:Eh; [discriminate Hlen|].
        rewrite Hne, Hlen. cbn [Nat.ltb Nat.leb]. rewrite Eg. reflexivity.
  Qed.

  Definition ok_or_missing {A} (x : result A) (a : A) : Prop :=
    x = Ok a \/ exists h p, x = Err (EMissingTraversal h p).

  Lemma tf_enc_snd m (Hw : within H SB m) t : wf t = true -> ext_ok t = true -> below sound_here t ->
    forall rem fuel tk consumed, nibs_ok rem = true -> (length rem < fuel)%nat ->
    ok_or_missing (tf BNH m fuel (enc H t) tk rem) (res_pair H (ttraverse_from t rem consumed)).
  Proof.
    induction t as [| p v | p c IH | cs v IH] using Tree_map.node_ind';
      intros Hwf Hex Hb rem fuel tk consumed Hrem Hfuel;
      (destruct fuel as [|f]; [lia|]); cbn [tf]; unfold tstep;
      (destruct rem as [|r0 rt]; [left; rewrite ttf_nil; reflexivity|]).
    - left. reflexivity.
    - left. cbn [wf] in Hwf. destruct (leaf_classified p (RStr v) Hwf) as [Ht Hk].
      cbn [enc]. rewrite Ht, Hk. cbn [ttraverse_from].
      destruct (key_starts_with p (r0 :: rt)); reflexivity.
    - cbn [wf] in Hwf. apply andb_true_iff in Hwf as [Hp Hwc].
      cbn [ext_ok] in Hex. apply andb_true_iff in Hex as [Hpne Hexc].
      cbn [below] in Hb.
      destruct (extension_classified p (tref H c) Hp) as [Ht Hk].
      cbn [enc]. fold (tref H c). rewrite Ht, Hk. cbn [ttraverse_from].
      pose proof (consume_common_prefix_spec p (r0 :: rt)) as Hs.
      destruct (consume_common_prefix p (r0 :: rt)) as [[cm cr] kr].
      destruct Hs as (Hs1 & Hs2 & _).
      destruct cr as [|x cr'].
      + cbn [kv_second]. unfold gnt.
        destruct (gn_sound m c Hw (all_sub_here _ _ Hb)) as [E|(h & E)]; rewrite E.
        * cbn [mt_handler]. rewrite app_nil_r in Hs1. subst cm.
          apply IH; [exact Hwc|exact Hexc|apply all_sub_below; exact Hb| |].
          -- rewrite Hs2, nibs_ok_app in Hrem. apply andb_true_iff in Hrem as [_ Hrem]. exact Hrem.
          -- rewrite Hs2 in Hfuel. rewrite app_length in Hfuel.
             destruct p as [|p0 p']; [discriminate Hpne|]. cbn [length] in Hfuel. lia.
        * right. eexists _, _. reflexivity.
      + left. destruct kr; reflexivity.
    - pose proof Hwf as Hwf'. rewrite wf_branch in Hwf'. apply andb_true_iff in Hwf' as [Hl _].
      apply Nat.eqb_eq in Hl. cbn [below] in Hb.
      rewrite (branch_enc_classified H cs v Hl).
      apply nibs_ok_cons_inv in Hrem as [Hr0 Hrt].
      rewrite (branch_child_enc H cs v r0 Hl Hr0).
      assert (Hsc : all_sub sound_here (child cs r0)) by (apply Forall_child; [exact Hb|apply sound_blank]).
      unfold gnt. destruct (gn_sound m _ Hw (all_sub_here _ _ Hsc)) as [E|(h & E)]; rewrite E.
      + cbn [mt_handler]. rewrite ttf_branch.
        assert (HP : wf (child cs r0) = true -> ext_ok (child cs r0) = true -> below sound_here (child cs r0) ->
                  forall rem fuel tk consumed, nibs_ok rem = true -> (length rem < fuel)%nat ->
                  ok_or_missing (tf BNH m fuel (enc H (child cs r0)) tk rem)
                                (res_pair H (ttraverse_from (child cs r0) rem consumed))).
        { apply Forall_child; [exact IH|].
          intros _ _ _ rem0 fuel0 tk0 consumed0 _ Hf0.
          destruct fuel0 as [|f0]; [lia|]. cbn [tf]. unfold tstep. rewrite ttf_blank.
          left. destruct rem0; reflexivity. }
        apply HP.
        * apply (wf_child cs v); exact Hwf.
        * apply (ext_ok_child cs v); exact Hex.
        * apply all_sub_below. exact Hsc.
        * exact Hrt.
        * cbn [length] in Hfuel. lia.
      + right. eexists _, _. reflexivity.
  Qed.

  Theorem traverse_from_sim_sound m s N seg : on m s -> within H SB m ->
    canonical_top N = true -> below sound_here N -> nibs_ok seg = true ->
    ok_or_missing (fst (traverse_from_sim BNH (enc H N) seg s)) (ann (vnode N seg), vpartial N seg).
  Proof.
    intros Hon Hw Hc Hb Hseg.
    pose proof (canonical_wf N Hc) as Hwf. pose proof (canonical_top_ext_ok N Hc) as Hex.
    unfold traverse_from_sim, bind.
    rewrite (traverse_from_eq BNH m _ (enc H N) seg seg s Hon).
    destruct (tf_enc_snd m Hw N Hwf Hex Hb seg (traverse_fuel seg) seg [] Hseg) as [E|(h & p & E)];
      [unfold traverse_fuel; lia| |]; rewrite E.
    - left. rewrite (aos_res H H_len); [cbn [fst]; f_equal; apply sim_res_vnode|].
      pose proof (ttraverse_inv N Hwf seg []) as Hi.
      destruct (ttraverse_from N seg []); [exact Hi|apply Hi].
    - right. exists h, p. reflexivity.
  Qed.
End ReadSound.

(* ================================================================== *)
(* 4. the frontier cache: where an entry of the updated cache comes from *)
Lemma fc_get_del_some c p q e : fc_get (fc_del c p) q = Some e -> fc_get c q = Some e.
Proof. rewrite fc_get_del. destruct (nibbles_eqb q p); [discriminate|auto]. Qed.

Lemma fc_fold_cases p (n : hnode) segs : forall c q e,
  fc_get (fold_left (fun acc s => fc_set acc (p ++ s) (n, s)) segs c) q = Some e ->
  (exists s, In s segs /\ q = p ++ s /\ e = (n, s)) \/ fc_get c q = Some e.
Proof.
  induction segs as [|s0 segs IH]; intros c q e Hg; cbn [fold_left] in Hg; [right; exact Hg|].
  destruct (IH _ _ _ Hg) as [(s & Hs & Hq & He)|Hc].
  - left. exists s. split; [right; exact Hs|]. split; assumption.
  - rewrite fc_get_set in Hc. destruct (nibbles_eqb q (p ++ s0)) eqn:E.
    + apply nibbles_eqb_eq in E. injection Hc as Hc. left. exists s0.
      split; [left; reflexivity|]. split; [exact E|symmetry; exact Hc].
    + right. exact Hc.
Qed.

Lemma fc_add_cases c p n segs q e : fc_get (fc_add c p n segs) q = Some e ->
  (exists s, In s segs /\ q = p ++ s /\ e = (n, s)) \/ fc_get c q = Some e.
Proof.
  unfold fc_add. intro Hg. destruct (fc_fold_cases _ _ _ _ _ _ Hg) as [Hl|Hr]; [left; exact Hl|right].
  destruct p; [exact Hr|apply fc_get_del_some in Hr; exact Hr].
Qed.

(* ================================================================== *)
(* 5. the refinement relation *)
Notation annK := (ann_hnode K).

Lemma troot_blank : troot K NBlank = BNH.
Proof. unfold troot. cbn [enc]. symmetry. exact BNH_K. Qed.

(* tree-level facts about a version *)
Definition ver_ok (SB : list bytes) (v : node) : Prop :=
  canonical_top v = true /\ decodable K v /\ no_blank_collision K BNH v /\ inS K SB v.

(* every cache entry (p -> (node, seg)) holds the (possibly simulated) node some version of the
   trie has at a prefix q with p = q ++ seg *)
Definition cache_inv (vs : list node) (c : fcache) : Prop :=
  forall p cn seg, fc_get c p = Some (cn, seg) ->
    exists v q, In v vs /\ p = q ++ seg /\ nibs_ok q = true /\ nibs_ok seg = true /\
                cn = annK (vnode v q).

(* the database: a non-pruning store keeps (at least) the nodes of EVERY version; a pruning store
   holds exactly the nodes of the current version, with reference counts = occurrence counts *)
Definition store_rel (SB : list bytes) (m : amap bytes) (s : trie) (vs : list node) : Prop :=
  if t_prune s
  then exists rc, s = pstate K m rc (hd NBlank vs) /\ pinv K SB m rc (hd NBlank vs)
  else s = plain m (troot K (hd NBlank vs)) /\ Forall (fun v => represents K m (troot K v) v) vs.

Definition wrel (SB : list bytes) (w : wstate) (tw : twalk) : Prop :=
  exists m,
    tw_versions tw <> [] /\ within K SB m /\ Forall (ver_ok SB) (tw_versions tw) /\
    store_rel SB m (w_trie w) (tw_versions tw) /\
    w_fog w = tw_fog tw /\ fog_inv (tw_fog tw) /\
    cache_inv (tw_versions tw) (w_cache w).

Lemma store_rel_cur SB m s vs : store_rel SB m s vs ->
  on m s /\ t_root s = troot K (hd NBlank vs) /\ represents K m (troot K (hd NBlank vs)) (hd NBlank vs).
Proof.
  unfold store_rel. destruct (t_prune s) eqn:Ep.
  - intros (rc & -> & Hp). split; [reflexivity|]. split; [reflexivity|apply Hp].
  - intros [-> Hall]. split; [reflexivity|]. split; [reflexivity|].
    destruct vs as [|v vs]; cbn [hd].
    + split; [reflexivity|]. split; [left; reflexivity|]. split; [|exact I]. intro Hl. discriminate Hl.
    + exact (Forall_inv Hall).
Qed.

Lemma ver_ok_sound SB v : ver_ok SB v -> all_sub (sound_here K SB) v.
Proof. intros (_ & Hd & [_ Hn] & Hi). apply sound_intro; assumption. Qed.

Lemma hd_in (vs : list node) : vs <> [] -> In (hd NBlank vs) vs.
Proof. destruct vs as [|v vs]; [congruence|]. intros _. left. reflexivity. Qed.

(* reading from the root: the current version *)
Lemma read_root SB m s vs p : vs <> [] -> Forall (ver_ok SB) vs -> store_rel SB m s vs ->
  nibs_ok p = true ->
  fst (traverse_sim BNH p s) = Ok (annK (vnode (hd NBlank vs) p), vpartial (hd NBlank vs) p).
Proof.
  intros Hne Hver Hst Hp. destruct (store_rel_cur SB m s vs Hst) as (Hon & Hroot & Hrep).
  rewrite Forall_forall in Hver. destruct (Hver _ (hd_in vs Hne)) as (Hc & Hd & Hn & _).
  apply (traverse_sim_vnode K K_len BNH_K m s (hd NBlank vs) p); assumption.
Qed.

(* reading through a cached parent: the version the entry was taken from; or, on a pruning
   trie, MissingTraversalNode *)
Lemma read_cached SB (cfS : cf K SB) m s vs v q seg : within K SB m -> Forall (ver_ok SB) vs ->
  store_rel SB m s vs -> In v vs -> nibs_ok q = true -> nibs_ok seg = true ->
  fst (traverse_from_sim BNH (enc K (vnode v q)) seg s)
    = Ok (annK (vnode v (q ++ seg)), vpartial (vnode v q) seg) \/
  (t_prune s = true /\
   exists h ns, fst (traverse_from_sim BNH (enc K (vnode v q)) seg s) = Err (EMissingTraversal h ns)).
Proof.
  intros Hw Hver Hst Hv Hq Hseg.
  destruct (store_rel_cur SB m s vs Hst) as (Hon & _ & _).
  rewrite Forall_forall in Hver. pose proof (Hver v Hv) as Hvok.
  destruct Hvok as (Hc & Hd & Hn & Hi).
  pose proof (vnode_canonical v q Hc) as Hcq.
  unfold store_rel in Hst. destruct (t_prune s) eqn:Ep.
  - assert (Hb : below (sound_here K SB) (vnode v q)).
    { apply vnode_below; [apply sound_blank|]. apply ver_ok_sound. exact (Hver v Hv). }
    destruct (traverse_from_sim_sound K K_len SB cfS m s (vnode v q) seg Hon Hw Hcq Hb Hseg)
      as [E|(h & ns & E)].
    + left. rewrite E, (vnode_compose v q seg Hc). reflexivity.
    + right. split; [reflexivity|]. exists h, ns. exact E.
  - left. destruct Hst as [_ Hall]. rewrite Forall_forall in Hall. pose proof (Hall v Hv) as Hrep.
    assert (Hb : below (good_here K BNH m) (vnode v q)).
    { apply vnode_below; [apply good_blank|]. apply good_intro; [apply Hrep|exact Hd|apply Hn]. }
    rewrite (traverse_from_sim_vnode K K_len m s (vnode v q) seg Hon Hcq Hb Hseg).
    rewrite (vnode_compose v q seg Hc). reflexivity.
Qed.

(* the fog queries return members of the fog *)
Lemma nearest_in (u : bool) f key p : fog_inv f ->
  (if u then nearest_unknown f key else nearest_right f key) = Ok p -> In p f.
Proof.
  intros Hf Hn. destruct (nibs_ok key) eqn:Ek.
  - destruct u.
    + destruct (nearest_unknown_spec f key Hf Ek) as [_ Hs]. apply (Hs p Hn).
    + destruct (nearest_right_spec f key Hf Ek) as (_ & _ & Hs). apply (Hs p Hn).
  - exfalso. destruct u; unfold nearest_unknown, nearest_right, as_nibbles in Hn;
      rewrite Ek in Hn; discriminate Hn.
Qed.

(* the (key, value) pair a step meets, if any *)
Definition met_list (p : nibbles) (n : hnode) : bindings :=
  match h_value n with [] => [] | v => [(p ++ h_suffix n, v)] end.

Definition met_pair_obs (e : nibbles * bytes) : obs := OL [onibs (fst e); OB (snd e)].

Lemma met_obs_list p n :
  met_obs p n = match met_list p n with [] => ONone | e :: _ => met_pair_obs e end.
Proof. unfold met_obs, met_list. destruct (h_value n); reflexivity. Qed.

Lemma met_after_list tw p N :
  met_after tw p (annotate N) = tw_met tw ++ met_list p (annK N).
Proof.
  unfold met_after, met_list. cbn [h_value h_suffix ann_hnode].
  destruct (a_value (annotate N)); cbn [nonempty]; [rewrite app_nil_r|]; reflexivity.
Qed.

(* the cache after a step *)
Definition cache_after (use : bool) (c : fcache) (p : nibbles) (n : hnode) : fcache :=
  if use then match h_segs n with [] => fc_del c p | segs => fc_add c p n segs end else c.

Lemma cache_after_inv vs use c p v : cache_inv vs c -> In v vs -> canonical_top v = true ->
  nibs_ok p = true -> cache_inv vs (cache_after use c p (annK (vnode v p))).
Proof.
  intros Hci Hv Hc Hp. unfold cache_after. destruct use; [|exact Hci].
  cbn [h_segs ann_hnode].
  destruct (a_segs (annotate (vnode v p))) as [|s0 segs] eqn:Es.
  - intros q cn seg Hg. apply fc_get_del_some in Hg. exact (Hci q cn seg Hg).
  - intros q cn seg Hg. apply fc_add_cases in Hg as [(s & Hs & Hq & He)|Hg]; [|exact (Hci q cn seg Hg)].
    injection He as -> ->. exists v, p. split; [exact Hv|]. split; [exact Hq|]. split; [exact Hp|].
    split; [|reflexivity].
    destruct (segs_facts (vnode v p) (vnode_canonical v p Hc)) as (_ & Hf & _).
    rewrite Es in Hf. apply (Hf s Hs).
Qed.

(* ---------------- a walk step that got its node ---------------- *)
Lemma wstep_finish SB w tw p i v : wrel SB w tw -> In p (tw_fog tw) ->
  nth_error (tw_versions tw) i = Some v ->
  exists tw' f',
    tevent_step tw (EStep p i) = Some tw' /\
    explore (w_fog w) p (h_segs (annK (vnode v p))) = Ok f' /\
    tw_fog tw' = f' /\ tw_versions tw' = tw_versions tw /\
    tw_met tw' = tw_met tw ++ met_list p (annK (vnode v p)) /\
    wrel SB (mkW (w_trie w) f' (cache_after (w_use_cache w) (w_cache w) p (annK (vnode v p))) (w_use_cache w)) tw'.
Proof.
  intros (m & Hne & Hw & Hver & Hst & Hfog & Hfi & Hci) Hp Hnth.
  assert (Hvo : versions_ok tw).
  { unfold versions_ok. eapply Forall_impl; [|exact Hver]. intros a Ha. apply Ha. }
  destruct (C09_step_enabled tw p i v Hfi Hvo Hp Hnth) as (tw' & Hev).
  pose proof Hev as Hev'. cbn [tevent_step] in Hev'. rewrite Hnth in Hev'.
  destruct (tstep_at_some tw p v tw' Hev') as (f' & Hex & Htw').
  rewrite describe_vnode in Hex, Htw'.
  exists tw', f'. split; [exact Hev|]. split; [rewrite Hfog; exact Hex|].
  subst tw'. cbn [tw_fog tw_met tw_versions]. split; [reflexivity|]. split; [reflexivity|].
  split; [apply met_after_list|].
  pose proof (nth_error_In _ _ Hnth) as Hv.
  assert (Hc : canonical_top v = true).
  { rewrite Forall_forall in Hver. apply (Hver v Hv). }
  assert (Hpok : nibs_ok p = true).
  { destruct Hfi as (_ & Hok & _). rewrite Forall_forall in Hok. exact (Hok p Hp). }
  exists m. cbn [w_trie w_fog w_cache w_use_cache tw_versions tw_fog].
  split; [exact Hne|]. split; [exact Hw|]. split; [exact Hver|]. split; [exact Hst|].
  split; [reflexivity|]. split; [apply (explore_inv _ _ _ _ Hfi Hex)|].
  apply cache_after_inv; assumption.
Qed.

(* ---------------- Theorem: a D-level walk step ---------------- *)
Theorem wstep_refines_step SB (cfS : cf K SB) w tw unknown key w' x :
  wrel SB w tw -> wstep w (WStep unknown key) = (w', x) ->
  (* (a) the fog query failed (nothing left to explore in that direction, or a bad key) *)
  (exists e, (if unknown then nearest_unknown (w_fog w) key else nearest_right (w_fog w) key) = Err e /\
             w' = w /\ x = exn_obs e) \/
  (* (b) a walk step: the T-level event EStep p i, reading version number i *)
  (exists p i v tw' partial,
     (if unknown then nearest_unknown (w_fog w) key else nearest_right (w_fog w) key) = Ok p /\
     nth_error (tw_versions tw) i = Some v /\
     (fc_get (w_cache w) p = None \/ w_use_cache w = false -> i = 0%nat) /\
     tevent_step tw (EStep p i) = Some tw' /\ wrel SB w' tw' /\
     x = OL [onibs p; hnode_obs (annK (vnode v p)); obool partial; fog_obs (tw_fog tw');
             met_obs p (annK (vnode v p))] /\
     tw_met tw' = tw_met tw ++ met_list p (annK (vnode v p)) /\
     tw_versions tw' = tw_versions tw) \/
  (* (c) MissingTraversalNode through a stale cache entry of a pruning trie: the entry is
         dropped, nothing else changes, no T-level event *)
  (exists p cn seg h ns,
     (if unknown then nearest_unknown (w_fog w) key else nearest_right (w_fog w) key) = Ok p /\
     t_prune (w_trie w) = true /\ w_use_cache w = true /\ fc_get (w_cache w) p = Some (cn, seg) /\
     w' = mkW (w_trie w) (w_fog w) (fc_del (w_cache w) p) (w_use_cache w) /\
     x = OL [onibs p; exn_obs (EMissingTraversal h ns)] /\ wrel SB w' tw).
Proof.
  intros Hrel Hstep. pose proof Hrel as (m & Hne & Hw & Hver & Hst & Hfog & Hfi & Hci).
  cbn [wstep] in Hstep.
  destruct (if unknown then nearest_unknown (w_fog w) key else nearest_right (w_fog w) key)
    as [p|e] eqn:En.
  2:{ left. exists e. injection Hstep as <- <-. repeat split. }
  right.
  assert (Hp : In p (tw_fog tw)).
  { rewrite <- Hfog. apply (nearest_in unknown _ key); [rewrite Hfog; exact Hfi|exact En]. }
  assert (Hpok : nibs_ok p = true).
  { destruct Hfi as (_ & Hok & _). rewrite Forall_forall in Hok. exact (Hok p Hp). }
  (* the common continuation *)
  assert (Hfin : forall i v partial,
            nth_error (tw_versions tw) i = Some v ->
            (fc_get (w_cache w) p = None \/ w_use_cache w = false -> i = 0%nat) ->
            (match explore (w_fog w) p (h_segs (annK (vnode v p))) with
             | Err e => (w, OL [onibs p; hnode_obs (annK (vnode v p)); exn_obs e])
             | Ok f' =>
                 (mkW (w_trie w) f' (cache_after (w_use_cache w) (w_cache w) p (annK (vnode v p))) (w_use_cache w),
                  OL [onibs p; hnode_obs (annK (vnode v p)); obool partial; fog_obs f'; met_obs p (annK (vnode v p))])
             end = (w', x)) ->
            exists p0 i v tw' partial,
              @Ok nibbles p = Ok p0 /\ nth_error (tw_versions tw) i = Some v /\
              (fc_get (w_cache w) p0 = None \/ w_use_cache w = false -> i = 0%nat) /\
              tevent_step tw (EStep p0 i) = Some tw' /\ wrel SB w' tw' /\
              x = OL [onibs p0; hnode_obs (annK (vnode v p0)); obool partial; fog_obs (tw_fog tw');
                      met_obs p0 (annK (vnode v p0))] /\
              tw_met tw' = tw_met tw ++ met_list p0 (annK (vnode v p0)) /\
              tw_versions tw' = tw_versions tw).
  { intros i v partial Hnth Hi0 Hs.
    destruct (wstep_finish SB w tw p i v Hrel Hp Hnth) as (tw' & f' & Hev & Hex & Hf' & Hvs' & Hmet & Hrel').
    rewrite Hex in Hs. injection Hs as <- <-.
    exists p, i, v, tw', partial. rewrite Hf'. repeat split; try assumption. }
  assert (Hcur : nth_error (tw_versions tw) 0 = Some (hd NBlank (tw_versions tw))).
  { destruct (tw_versions tw); [congruence|reflexivity]. }
  destruct (if w_use_cache w then fc_get (w_cache w) p else None) as [[cn seg]|] eqn:Ecache.
  - (* through the cache *)
    assert (Huse : w_use_cache w = true) by (destruct (w_use_cache w); [reflexivity|discriminate Ecache]).
    rewrite Huse in Ecache.
    destruct (Hci p cn seg Ecache) as (v & q & Hv & Hpq & Hq & Hseg & Hcn).
    subst cn. cbn [h_raw ann_hnode] in Hstep.
    destruct (In_nth_error _ _ Hv) as (i & Hnth).
    destruct (read_cached SB cfS m (w_trie w) (tw_versions tw) v q seg Hw Hver Hst Hv Hq Hseg)
      as [E|(Hprune & h & ns & E)]; rewrite E in Hstep.
    + left. rewrite <- Hpq in Hstep.
      apply (Hfin i v (vpartial (vnode v q) seg) Hnth); [|exact Hstep].
      intros [Hx|Hx]; [rewrite Hx in Ecache; discriminate Ecache|rewrite Hx in Huse; discriminate Huse].
    + right. exists p, (annK (vnode v q)), seg, h, ns. injection Hstep as <- <-.
      split; [reflexivity|]. split; [exact Hprune|]. split; [exact Huse|]. split; [exact Ecache|].
      split; [reflexivity|]. split; [reflexivity|].
      exists m. cbn [w_trie w_fog w_cache w_use_cache].
      split; [exact Hne|]. split; [exact Hw|]. split; [exact Hver|]. split; [exact Hst|].
      split; [exact Hfog|]. split; [exact Hfi|].
      intros q' cn' seg' Hg. apply fc_get_del_some in Hg. exact (Hci q' cn' seg' Hg).
  - (* from the root *)
    left. rewrite (read_root SB m (w_trie w) (tw_versions tw) p Hne Hver Hst Hpok) in Hstep.
    apply (Hfin 0%nat (hd NBlank (tw_versions tw)) (vpartial (hd NBlank (tw_versions tw)) p) Hcur);
      [intros _; reflexivity|exact Hstep].
Qed.

(* ================================================================== *)
(* 6. mutations between steps, cache resets *)

(* API writes as walk operations *)
Definition hop_of (wo : Refine_write.wop) : hop :=
  match wo with (k, Some v) => OSet k v | (k, None) => ODelete k end.

(* the premises of the one-step write refinement (Hexary/Refine_write.v), relative to the
   collision-free set SB of node bodies *)
Definition mut_ok (SB : list bytes) (t : node) (wo : Refine_write.wop) : Prop :=
  incl (tree_bodies K (tapply t (top_of wo))) SB /\
  incl (flat_map (tree_bodies K) (op_writes t (top_of wo))) SB /\
  decodable K (tapply t (top_of wo)) /\
  Forall (decodable K) (op_writes t (top_of wo)).

Lemma hstep_write s wo :
  hstep s (hop_of wo) = (let '(r, s') := dwrite K BNH wo s in (s', unit_obs r)).
Proof. destruct wo as [k [v|]]; reflexivity. Qed.

Lemma cache_inv_cons vs c t : cache_inv vs c -> cache_inv (t :: vs) c.
Proof.
  intros Hci p cn seg Hg. destruct (Hci p cn seg Hg) as (v & q & Hv & Hrest).
  exists v, q. split; [right; exact Hv|exact Hrest].
Qed.

Theorem wstep_refines_mutate SB (cfS : cf K SB) (HSB : In (rlp_encode (RStr [])) SB) w tw wo w' x :
  wrel SB w tw -> mut_ok SB (current tw) wo -> wstep w (WTrie (hop_of wo)) = (w', x) ->
  exists tw', tevent_step tw (EMutate (top_of wo)) = Some tw' /\ wrel SB w' tw' /\ x = ONone /\
              event_ok (EMutate (top_of wo)).
Proof.
  intros (m & Hne & Hw & Hver & Hst & Hfog & Hfi & Hci) (Hincl0 & Hincl1 & Hd1 & Hdw) Hstep.
  unfold current in *. set (t := hd NBlank (tw_versions tw)) in *.
  set (t1 := tapply t (top_of wo)) in *.
  pose proof (Forall_forall (ver_ok SB) (tw_versions tw)) as Hvf.
  destruct (proj1 Hvf Hver t (hd_in _ Hne)) as (Hc & Hd & Hn & Hin).
  assert (Htop1 : inS_top K SB t1) by (apply inS_top_of_incl; exact Hincl0).
  assert (Hc1 : canonical_top t1 = true).
  { apply Tree_canon.canonical_tapply; [exact Hc|]. exact (op_ok_top_of wo). }
  assert (Hn1 : no_blank_collision K BNH t1).
  { apply (no_blank_collision_of_cf K BNH BNH_K); [apply (all_sub_here _ _ Hd1)|].
    apply (cf_incl K SB); [|exact cfS]. intros b [<-|Hb]; [exact HSB|apply Hincl0; exact Hb]. }
  assert (Hinj : forall y, In y (op_writes t (top_of wo)) -> inj_ok K SB y).
  { intros y Hy. split; [|split].
    - apply (op_writes_wf t wo); [apply canonical_wf; exact Hc|exact Hy].
    - apply inS_top_of_incl. intros b Hb. apply Hincl1. apply in_flat_map. exists y. split; assumption.
    - rewrite Forall_forall in Hdw. apply Hdw. exact Hy. }
  assert (Hver1 : Forall (ver_ok SB) (t1 :: tw_versions tw)).
  { constructor; [|exact Hver]. split; [exact Hc1|]. split; [exact Hd1|]. split; [exact Hn1|apply Htop1]. }
  assert (Hev : event_ok (EMutate (top_of wo))).
  { pose proof (op_ok_top_of wo) as Ho. destruct (top_of wo); exact Ho. }
  cbn [wstep] in Hstep. rewrite hstep_write in Hstep.
  exists (mkTW (t1 :: tw_versions tw) (tw_fog tw) (tw_met tw)).
  split; [reflexivity|].
  unfold store_rel in Hst. destruct (t_prune (w_trie w)) eqn:Ep.
  - destruct Hst as (rc & Es & Hpinv). fold t in Es, Hpinv.
    destruct (write_refines_ps K BNH K_len BNH_K SB cfS m rc t wo Hpinv Hc Hd Hn Hin Hinj Htop1)
      as (m' & rc' & E & Hpinv').
    rewrite Es, E in Hstep. injection Hstep as <- <-.
    split; [|split; [reflexivity|exact Hev]].
    exists m'. cbn [w_trie w_fog w_cache w_use_cache tw_versions tw_fog].
    split; [discriminate|]. split; [apply Hpinv'|]. split; [exact Hver1|].
    split; [unfold store_rel; cbn [t_prune pstate hd]; exists rc'; split; [reflexivity|exact Hpinv']|].
    split; [exact Hfog|]. split; [exact Hfi|apply cache_inv_cons; exact Hci].
  - destruct Hst as (Es & Hall). fold t in Es.
    assert (Hrep : represents K m (troot K t) t).
    { rewrite Forall_forall in Hall. apply Hall. apply hd_in. exact Hne. }
    destruct (write_refines K BNH K_len BNH_K SB cfS m (troot K t) t wo Hrep Hc Hd Hn Hw Hin Hinj Htop1)
      as (m' & E & Hsub & Hw' & Hrep').
    rewrite Es, E in Hstep. injection Hstep as <- <-.
    split; [|split; [reflexivity|exact Hev]].
    exists m'. cbn [w_trie w_fog w_cache w_use_cache tw_versions tw_fog].
    split; [discriminate|]. split; [exact Hw'|]. split; [exact Hver1|].
    split.
    { unfold store_rel; cbn [t_prune plain hd]. split; [reflexivity|].
      constructor; [exact Hrep'|]. eapply Forall_impl; [|exact Hall].
      intros a Ha. exact (represents_mono K m m' _ a Hsub Ha). }
    split; [exact Hfog|]. split; [exact Hfi|apply cache_inv_cons; exact Hci].
Qed.

Theorem wstep_refines_reset SB w tw : wrel SB w tw -> wrel SB (fst (wstep w WResetCache)) tw.
Proof.
  intros (m & Hne & Hw & Hver & Hst & Hfog & Hfi & Hci). exists m.
  cbn [wstep fst w_trie w_fog w_cache w_use_cache].
  split; [exact Hne|]. split; [exact Hw|]. split; [exact Hver|]. split; [exact Hst|].
  split; [exact Hfog|]. split; [exact Hfi|]. intros p cn seg Hg. discriminate Hg.
Qed.

(* the NodeIterator operations do not change the walk state *)
Lemma wstep_iter_state w o :
  match o with WIterNext _ | WIterItems | WIterNodes => True | _ => False end ->
  fst (wstep w o) = w.
Proof. destruct o; intro Ho; try contradiction; reflexivity. Qed.

(* ================================================================== *)
(* 7. whole runs *)

(* the operations covered: walk steps, set / delete, cache resets, NodeIterator queries *)
Definition allowed (o : wop) : Prop :=
  match o with
  | WTrie (OSet _ _) | WTrie (ODelete _) => True
  | WTrie _ => False
  | _ => True
  end.

Definition write_of (o : wop) : list Refine_write.wop :=
  match o with
  | WTrie (OSet k v) => [(k, Some v)]
  | WTrie (ODelete k) => [(k, None)]
  | _ => []
  end.
Definition writes_of (ops : list wop) : list Refine_write.wop := flat_map write_of ops.

(* the state after a list of operations (wrun only returns the observations) *)
Definition wfinal (w : wstate) (ops : list wop) : wstate := fold_left (fun w o => fst (wstep w o)) ops w.

(* the (key, value) observations of the successful walk steps of a run *)
Definition step_mets (o : wop) (x : obs) : list obs :=
  match o, x with
  | WStep _ _, OL [_; _; _; _; mo] => match mo with ONone => [] | _ => [mo] end
  | _, _ => []
  end.
Fixpoint mets (ops : list wop) (xs : list obs) : list obs :=
  match ops, xs with
  | o :: ops', x :: xs' => step_mets o x ++ mets ops' xs'
  | _, _ => []
  end.
(* the number of successful walk steps of a run *)
Definition step_done (o : wop) (x : obs) : nat :=
  match o, x with
  | WStep _ _, OL [_; _; _; _; _] => 1%nat
  | _, _ => 0%nat
  end.
Fixpoint steps_done (ops : list wop) (xs : list obs) : nat :=
  match ops, xs with
  | o :: ops', x :: xs' => (step_done o x + steps_done ops' xs')%nat
  | _, _ => 0%nat
  end.

Definition sched_muts (s : list tevent) : list top :=
  flat_map (fun e => match e with EMutate o => [o] | EStep _ _ => [] end) s.

Definition vers_after (vs : list node) (ops : list top) : list node :=
  fold_left (fun vs o => tapply (hd NBlank vs) o :: vs) ops vs.

Lemma trun_versions s : forall w w', trun_walk w s = Some w' ->
  tw_versions w' = vers_after (tw_versions w) (sched_muts s).
Proof.
  induction s as [|e s IH]; intros w w' Hrun; cbn [trun_walk] in Hrun.
  - injection Hrun as <-. reflexivity.
  - destruct (tevent_step w e) as [w1|] eqn:E; [|discriminate Hrun].
    rewrite (IH w1 w' Hrun). destruct e as [p i|o]; cbn [tevent_step] in E.
    + destruct (nth_error (tw_versions w) i) as [t|]; [|discriminate E].
      destruct (tstep_at_some w p t w1 E) as (f' & _ & ->). reflexivity.
    + injection E as <-. reflexivity.
Qed.

Lemma sched_muts_steps_only s : sched_muts s = [] -> forall e, In e s -> exists p i, e = EStep p i.
Proof.
  induction s as [|e0 s IH]; intros Hm e He; [destruct He|].
  destruct e0 as [p i|o]; cbn [sched_muts flat_map app] in Hm; [|discriminate Hm].
  destruct He as [<-|He]; [eauto|apply IH; assumption].
Qed.

Lemma writes_of_cons o ops : writes_of (o :: ops) = write_of o ++ writes_of ops.
Proof. reflexivity. Qed.

Lemma wfinal_cons w o ops : wfinal w (o :: ops) = wfinal (fst (wstep w o)) ops.
Proof. reflexivity. Qed.

Lemma wrun_cons w o ops : wrun w (o :: ops) = snd (wstep w o) :: wrun (fst (wstep w o)) ops.
Proof. cbn [wrun]. destruct (wstep w o) as [w1 x]. reflexivity. Qed.

Lemma step_mets_list u key p n partial fo :
  step_mets (WStep u key) (OL [onibs p; hnode_obs n; obool partial; fo; met_obs p n])
  = map met_pair_obs (met_list p n).
Proof.
  cbn [step_mets]. rewrite met_obs_list. destruct (met_list p n) as [|e l] eqn:E; [reflexivity|].
  unfold met_list in E. destruct (h_value n); [discriminate E|]. injection E as <- <-. reflexivity.
Qed.

Lemma hist_trees_app t a : forall b,
  hist_trees t (a ++ b) = hist_trees t a ++ hist_trees (fold_left tapply a t) b.
Proof.
  revert t. induction a as [|o a IH]; intros t b; [reflexivity|].
  cbn [app hist_trees fold_left]. rewrite IH, <- !app_assoc. reflexivity.
Qed.

Lemma fold_in_hist ops : forall t, ops <> [] -> In (fold_left tapply ops t) (hist_trees t ops).
Proof.
  induction ops as [|o ops IH]; intros t Hne; [congruence|]. cbn [fold_left hist_trees].
  destruct ops as [|o2 ops2].
  - cbn [fold_left]. left. reflexivity.
  - apply in_or_app. right. apply IH. discriminate.
Qed.

Section Run.
  Variable SB : list bytes.
  Hypothesis cfS : cf K SB.
  Hypothesis HSB : In (rlp_encode (RStr [])) SB.

  Lemma wrun_refines_gen ops : forall w tw,
    Forall allowed ops -> wrel SB w tw ->
    incl (flat_map (tree_bodies K) (hist_trees (current tw) (map top_of (writes_of ops)))) SB ->
    Forall (decodable K) (hist_trees (current tw) (map top_of (writes_of ops))) ->
    exists s tw',
      sched_ok s /\ trun_walk tw s = Some tw' /\ wrel SB (wfinal w ops) tw' /\
      sched_muts s = map top_of (writes_of ops) /\
      count_steps s = steps_done ops (wrun w ops) /\
      map met_pair_obs (tw_met tw') = map met_pair_obs (tw_met tw) ++ mets ops (wrun w ops).
  Proof.
    induction ops as [|o ops IH]; intros w tw Hall Hrel Hincl Hdec.
    - exists [], tw. split; [constructor|]. split; [reflexivity|]. split; [exact Hrel|].
      split; [reflexivity|]. split; [reflexivity|]. cbn [mets wrun]. rewrite app_nil_r. reflexivity.
    - pose proof (Forall_inv Hall) as Ho. pose proof (Forall_inv_tail Hall) as Hall'.
      rewrite wfinal_cons, wrun_cons. cbn [mets steps_done].
      rewrite writes_of_cons in Hincl, Hdec |- *.
      destruct (wstep w o) as [w1 x] eqn:Est. cbn [fst snd].
      destruct o as [u key|ho| |k| |].
      + (* a walk step *)
        cbn [write_of app] in Hincl, Hdec |- *.
        destruct (wstep_refines_step SB cfS w tw u key w1 x Hrel Est)
          as [(e & _ & -> & ->)|[(p & i & v & tw1 & partial & _ & Hnth & _ & Hev & Hrel1 & -> & Hmet & Hvs)
                                |(p & cn & seg & h & ns & _ & _ & _ & _ & _ & -> & Hrel1)]].
        * destruct (IH w tw Hall' Hrel Hincl Hdec) as (s & tw' & Hs & Hrun & Hrel' & Hm & Hcnt & Hmets).
          exists s, tw'. split; [exact Hs|]. split; [exact Hrun|]. split; [exact Hrel'|].
          split; [exact Hm|]. split; [|].
          -- destruct e as [tg ar]. exact Hcnt.
          -- destruct e as [tg ar]. exact Hmets.
        * assert (Hcur : current tw1 = current tw) by (unfold current; rewrite Hvs; reflexivity).
          rewrite <- Hcur in Hincl, Hdec.
          destruct (IH w1 tw1 Hall' Hrel1 Hincl Hdec) as (s & tw' & Hs & Hrun & Hrel' & Hm & Hcnt & Hmets).
          exists (EStep p i :: s), tw'.
          split; [constructor; [exact I|exact Hs]|].
          split; [cbn [trun_walk]; rewrite Hev; exact Hrun|]. split; [exact Hrel'|].
          split; [exact Hm|]. split.
          -- cbn [count_steps step_done]. rewrite Hcnt. reflexivity.
          -- rewrite step_mets_list, Hmets, Hmet, map_app, app_assoc. reflexivity.
        * destruct (IH w1 tw Hall' Hrel1 Hincl Hdec) as (s & tw' & Hs & Hrun & Hrel' & Hm & Hcnt & Hmets).
          exists s, tw'. split; [exact Hs|]. split; [exact Hrun|]. split; [exact Hrel'|].
          split; [exact Hm|]. split; [exact Hcnt|exact Hmets].
      + (* a mutation *)
        assert (Hwo : exists wo, ho = hop_of wo /\ write_of (WTrie ho) = [wo]).
        { destruct ho; try contradiction; [exists (k, Some v)|exists (k, None)]; split; reflexivity. }
        destruct Hwo as (wo & -> & Ewo).
        rewrite Ewo in Hincl, Hdec |- *. cbn [app map hist_trees] in Hincl, Hdec |- *.
        pose proof (Forall_inv Hdec) as Hd1. apply Forall_inv_tail in Hdec.
        rewrite Forall_app in Hdec. destruct Hdec as [Hdw Hdec2].
        cbn [flat_map] in Hincl. apply incl_app_inv in Hincl as [Hincl0 Hincl].
        rewrite flat_map_app in Hincl. apply incl_app_inv in Hincl as [Hincl1 Hincl2].
        assert (Hmo : mut_ok SB (current tw) wo).
        { split; [exact Hincl0|]. split; [exact Hincl1|]. split; [exact Hd1|exact Hdw]. }
        destruct (wstep_refines_mutate SB cfS HSB w tw wo w1 x Hrel Hmo Est) as (tw1 & Hev & Hrel1 & -> & Hok).
        assert (Hcur : current tw1 = tapply (current tw) (top_of wo)).
        { cbn [tevent_step] in Hev. injection Hev as <-. reflexivity. }
        rewrite <- Hcur in Hincl2, Hdec2.
        destruct (IH w1 tw1 Hall' Hrel1 Hincl2 Hdec2) as (s & tw' & Hs & Hrun & Hrel' & Hm & Hcnt & Hmets).
        exists (EMutate (top_of wo) :: s), tw'.
        split; [constructor; [exact Hok|exact Hs]|].
        split; [cbn [trun_walk]; rewrite Hev; exact Hrun|]. split; [exact Hrel'|].
        split; [cbn [sched_muts flat_map app]; fold (sched_muts s); rewrite Hm; reflexivity|].
        split; [exact Hcnt|].
        rewrite Hmets. cbn [tevent_step] in Hev. injection Hev as <-. reflexivity.
      + (* cache reset *)
        cbn [write_of app] in Hincl, Hdec |- *.
        assert (Hw1 : w1 = fst (wstep w WResetCache)) by (rewrite Est; reflexivity).
        pose proof (wstep_refines_reset SB w tw Hrel) as Hrel1. rewrite <- Hw1 in Hrel1.
        destruct (IH w1 tw Hall' Hrel1 Hincl Hdec) as (s & tw' & Hs & Hrun & Hrel' & Hm & Hcnt & Hmets).
        exists s, tw'. split; [exact Hs|]. split; [exact Hrun|]. split; [exact Hrel'|].
        split; [exact Hm|]. split; [exact Hcnt|exact Hmets].
      + cbn [write_of app] in Hincl, Hdec |- *.
        assert (Hw1 : w1 = w) by (rewrite <- (wstep_iter_state w (WIterNext k) I), Est; reflexivity).
        subst w1.
        destruct (IH w tw Hall' Hrel Hincl Hdec) as (s & tw' & Hs & Hrun & Hrel' & Hm & Hcnt & Hmets).
        exists s, tw'. split; [exact Hs|]. split; [exact Hrun|]. split; [exact Hrel'|].
        split; [exact Hm|]. split; [exact Hcnt|exact Hmets].
      + cbn [write_of app] in Hincl, Hdec |- *.
        assert (Hw1 : w1 = w) by (rewrite <- (wstep_iter_state w WIterItems I), Est; reflexivity).
        subst w1.
        destruct (IH w tw Hall' Hrel Hincl Hdec) as (s & tw' & Hs & Hrun & Hrel' & Hm & Hcnt & Hmets).
        exists s, tw'. split; [exact Hs|]. split; [exact Hrun|]. split; [exact Hrel'|].
        split; [exact Hm|]. split; [exact Hcnt|exact Hmets].
      + cbn [write_of app] in Hincl, Hdec |- *.
        assert (Hw1 : w1 = w) by (rewrite <- (wstep_iter_state w WIterNodes I), Est; reflexivity).
        subst w1.
        destruct (IH w tw Hall' Hrel Hincl Hdec) as (s & tw' & Hs & Hrun & Hrel' & Hm & Hcnt & Hmets).
        exists s, tw'. split; [exact Hs|]. split; [exact Hrun|]. split; [exact Hrel'|].
        split; [exact Hm|]. split; [exact Hcnt|exact Hmets].
  Qed.
End Run.

(* ================================================================== *)
(* 8. from the empty trie: a history of writes ws0 builds the trie, then the walk starts with a
   fresh fog and an empty cache (ws0 = [] is walk_run of Fog/Walk.v) *)
Definition w_init (prune use : bool) (ws0 : list Refine_write.wop) : wstate :=
  mkW (snd (Refine_write.wrun K BNH ws0 (empty_trie BNH prune))) fog_init [] use.

Lemma walk_run_init prune use ops : walk_run (prune, use, ops) = OL (wrun (w_init prune use []) ops).
Proof. reflexivity. Qed.

Lemma wrel_init SB (cfS : cf K SB) (HSB : In (rlp_encode (RStr [])) SB) prune use ws0 :
  incl (flat_map (tree_bodies K) (hist_trees NBlank (map top_of ws0))) SB ->
  Forall (decodable K) (hist_trees NBlank (map top_of ws0)) ->
  wrel SB (w_init prune use ws0) (twalk_init (trun (map top_of ws0))).
Proof.
  intros Hincl Hdec. set (t0 := trun (map top_of ws0)).
  assert (Hc0 : canonical_top t0 = true) by (apply Tree_canon.C02_canonical; apply ops_ok_top_of).
  assert (Hin0 : inS K SB t0).
  { destruct ws0 as [|w0 ws0']; [apply inS_blank|].
    apply (inS_top_of_incl K SB t0). intros b Hb. apply Hincl. apply in_flat_map. exists t0.
    split; [|exact Hb]. unfold t0, trun. apply fold_in_hist. discriminate. }
  assert (HdB : decodable K NBlank) by (split; [reflexivity|exact I]).
  assert (HnB : no_blank_collision K BNH NBlank).
  { split; [intro Hx; contradiction|]. split; [|exact I]. intro Hl. discriminate Hl. }
  unfold w_init, twalk_init. destruct prune.
  - destruct (run_refines_ps K BNH K_len BNH_K SB cfS HSB ws0 NBlank [] []
                (pinv_empty K BNH BNH_K SB) eq_refl HdB HnB (inS_blank K SB) Hincl Hdec)
      as (m & rc & E & Hpinv & Hd & Hn).
    assert (E0 : pstate K [] [] NBlank = empty_trie BNH true).
    { unfold pstate, empty_trie. rewrite troot_blank. reflexivity. }
    rewrite E0 in E. rewrite E. cbn [snd]. fold (trun (map top_of ws0)) in Hpinv, Hd, Hn |- *. fold t0 in Hpinv, Hd, Hn |- *.
    exists m. cbn [w_trie w_fog w_cache w_use_cache tw_versions tw_fog].
    split; [discriminate|]. split; [apply Hpinv|].
    split; [constructor; [|constructor]; split; [exact Hc0|split; [exact Hd|split; [exact Hn|exact Hin0]]]|].
    split; [unfold store_rel; cbn [t_prune pstate hd]; exists rc; split; [reflexivity|exact Hpinv]|].
    split; [reflexivity|]. split; [exact fog_inv_init|]. intros p cn seg Hg. discriminate Hg.
  - destruct (run_refines K BNH K_len BNH_K SB cfS HSB ws0 NBlank []) as (m & E & _ & Hw & Hrep & Hd & Hn);
      try assumption.
    + rewrite troot_blank. apply (represents_empty K BNH BNH_K).
    + reflexivity.
    + intros h b Hg. discriminate Hg.
    + apply inS_blank.
    + assert (E0 : plain [] (troot K NBlank) = empty_trie BNH false).
      { rewrite troot_blank. reflexivity. }
      rewrite E0 in E. rewrite E. cbn [snd]. fold (trun (map top_of ws0)) in Hrep, Hd, Hn |- *. fold t0 in Hrep, Hd, Hn |- *.
      exists m. cbn [w_trie w_fog w_cache w_use_cache tw_versions tw_fog].
      split; [discriminate|]. split; [exact Hw|].
      split; [constructor; [|constructor]; split; [exact Hc0|split; [exact Hd|split; [exact Hn|exact Hin0]]]|].
      split; [unfold store_rel; cbn [t_prune plain hd]; split; [reflexivity|constructor; [exact Hrep|constructor]]|].
      split; [reflexivity|]. split; [exact fog_inv_init|]. intros p cn seg Hg. discriminate Hg.
Qed.

(* THE REFINEMENT THEOREM for whole runs.  Premises: Keccak-256 is collision-free on the finite
   list of node bodies of the history (all writes: those that built the trie and those interleaved
   with the walk), and those bodies are shorter than 2^64 bytes. *)
Theorem wrun_refines prune use ws0 ops :
  Forall allowed ops ->
  cf K (hist_bodies K (ws0 ++ writes_of ops)) ->
  Forall (fun b => blen b < 2 ^ 64) (hist_bodies K (ws0 ++ writes_of ops)) ->
  let t0 := trun (map top_of ws0) in
  let w0 := w_init prune use ws0 in
  canonical_top t0 = true /\
  exists s tw,
    sched_ok s /\ trun_walk (twalk_init t0) s = Some tw /\
    wrel (hist_bodies K (ws0 ++ writes_of ops)) (wfinal w0 ops) tw /\
    sched_muts s = map top_of (writes_of ops) /\
    tw_versions tw = vers_after [t0] (map top_of (writes_of ops)) /\
    count_steps s = steps_done ops (wrun w0 ops) /\
    map met_pair_obs (tw_met tw) = mets ops (wrun w0 ops).
Proof.
  intros Hall Hcf Hsmall t0 w0.
  set (SB := hist_bodies K (ws0 ++ writes_of ops)) in *.
  assert (HSB : In (rlp_encode (RStr [])) SB) by (left; reflexivity).
  pose proof (hist_decodable_of_small K (ws0 ++ writes_of ops) Hsmall) as Hdec.
  unfold hist_decodable in Hdec. rewrite map_app, hist_trees_app in Hdec.
  apply Forall_app in Hdec as [Hdec0 Hdec1].
  assert (Hincl : incl (flat_map (tree_bodies K) (hist_trees NBlank (map top_of (ws0 ++ writes_of ops)))) SB).
  { intros b Hb. right. exact Hb. }
  rewrite map_app, hist_trees_app, flat_map_app in Hincl. apply incl_app_inv in Hincl as [Hincl0 Hincl1].
  fold (trun (map top_of ws0)) in Hdec1, Hincl1. fold t0 in Hdec1, Hincl1.
  split; [apply Tree_canon.C02_canonical; apply ops_ok_top_of|].
  pose proof (wrel_init SB Hcf HSB prune use ws0 Hincl0 Hdec0) as Hrel0. fold t0 in Hrel0. fold w0 in Hrel0.
  destruct (wrun_refines_gen SB Hcf HSB ops w0 (twalk_init t0) Hall Hrel0 Hincl1 Hdec1)
    as (s & tw & Hs & Hrun & Hrel & Hm & Hcnt & Hmets).
  exists s, tw. split; [exact Hs|]. split; [exact Hrun|]. split; [exact Hrel|]. split; [exact Hm|].
  split; [rewrite (trun_versions s _ tw Hrun), Hm; reflexivity|]. split; [exact Hcnt|exact Hmets].
Qed.

(* ---------------- the C09 theorems at database level ---------------- *)
(* everything a run met, as (key, value) pairs *)
Theorem wrun_C09 prune use ws0 ops :
  Forall allowed ops ->
  cf K (hist_bodies K (ws0 ++ writes_of ops)) ->
  Forall (fun b => blen b < 2 ^ 64) (hist_bodies K (ws0 ++ writes_of ops)) ->
  let t0 := trun (map top_of ws0) in
  let w0 := w_init prune use ws0 in
  let versions := vers_after [t0] (map top_of (writes_of ops)) in
  exists met : bindings,
    mets ops (wrun w0 ops) = map met_pair_obs met /\
    (* the fog stays a sorted prefix-free set of valid prefixes *)
    fog_inv (w_fog (wfinal w0 ops)) /\
    (* C09_invariant: a key with the same value in every version is met, or still under the fog *)
    (forall k v, v <> [] -> nibs_ok k = true -> (forall t, In t versions -> tget t k = v) ->
       In (k, v) met \/ exists p, In p (w_fog (wfinal w0 ops)) /\ is_prefix p k) /\
    (* C09_complete *)
    (w_fog (wfinal w0 ops) = [] ->
     forall k v, v <> [] -> nibs_ok k = true -> (forall t, In t versions -> tget t k = v) -> In (k, v) met) /\
    (* C09_no_ghosts *)
    (forall k v, In (k, v) met -> v <> [] /\ nibs_ok k = true /\ exists t, In t versions /\ tget t k = v) /\
    (* C09_met_once *)
    NoDup (map fst met) /\
    (* C09_static: without interleaved writes, a complete walk meets exactly the contents *)
    (writes_of ops = [] -> w_fog (wfinal w0 ops) = [] ->
     (forall k v, In (k, v) met <-> In (k, v) (contents t0)) /\ NoDup met).
Proof.
  intros Hall Hcf Hsmall t0 w0 versions.
  destruct (wrun_refines prune use ws0 ops Hall Hcf Hsmall)
    as (Hc0 & s & tw & Hs & Hrun & Hrel & Hm & Hvs & _ & Hmets).
  fold t0 in Hc0, Hrun, Hvs. fold w0 in Hrel, Hmets. fold versions in Hvs.
  destruct Hrel as (m & _ & _ & _ & _ & Hfog & Hfi & _).
  exists (tw_met tw). split; [symmetry; exact Hmets|]. rewrite Hfog. split; [exact Hfi|].
  assert (Hst : forall k v, v <> [] -> nibs_ok k = true -> (forall t, In t versions -> tget t k = v) ->
                stable tw k v).
  { intros k v Hv Hk Hall'. split; [exact Hv|]. split; [exact Hk|]. rewrite Hvs. apply Forall_forall. exact Hall'. }
  split.
  { intros k v Hv Hk Hall'. destruct (C09_invariant t0 s tw Hc0 Hs Hrun) as (_ & _ & Hcov).
    apply Hcov. apply Hst; assumption. }
  split.
  { intros Hf k v Hv Hk Hall'. apply (C09_complete t0 s tw Hc0 Hs Hrun Hf). apply Hst; assumption. }
  split.
  { intros k v Hin. rewrite <- Hvs. exact (C09_no_ghosts_ok t0 s tw Hc0 Hs Hrun k v Hin). }
  split; [apply (C09_met_once t0 s tw Hc0 Hs Hrun)|].
  intros Hnw Hf. apply (C09_static t0 s tw Hc0); [|exact Hrun|exact Hf].
  apply sched_muts_steps_only. rewrite Hm, Hnw. reflexivity.
Qed.

(* ---------------- special cases of the step theorem ---------------- *)
(* non-pruning: every step that finds a prefix is a T-level step (never a stutter) *)
Corollary wstep_refines_step_nonpruning SB (cfS : cf K SB) w tw unknown key w' x :
  wrel SB w tw -> t_prune (w_trie w) = false -> wstep w (WStep unknown key) = (w', x) ->
  (exists e, (if unknown then nearest_unknown (w_fog w) key else nearest_right (w_fog w) key) = Err e /\
             w' = w /\ x = exn_obs e) \/
  (exists p i v tw' partial,
     (if unknown then nearest_unknown (w_fog w) key else nearest_right (w_fog w) key) = Ok p /\
     nth_error (tw_versions tw) i = Some v /\
     tevent_step tw (EStep p i) = Some tw' /\ wrel SB w' tw' /\
     x = OL [onibs p; hnode_obs (annK (vnode v p)); obool partial; fog_obs (tw_fog tw');
             met_obs p (annK (vnode v p))] /\
     tw_met tw' = tw_met tw ++ met_list p (annK (vnode v p))).
Proof.
  intros Hrel Hnp Hstep.
  destruct (wstep_refines_step SB cfS w tw unknown key w' x Hrel Hstep)
    as [Ha|[(p & i & v & tw' & partial & H1 & H2 & _ & H4 & H5 & H6 & H7 & _)
           |(p & cn & seg & h & ns & _ & Hp & _)]].
  - left. exact Ha.
  - right. exists p, i, v, tw', partial. repeat split; assumption.
  - rewrite Hp in Hnp. discriminate Hnp.
Qed.

(* without the frontier cache (pruning or not): every step reads the CURRENT version *)
Corollary wstep_refines_step_nocache SB (cfS : cf K SB) w tw unknown key w' x :
  wrel SB w tw -> w_use_cache w = false -> wstep w (WStep unknown key) = (w', x) ->
  (exists e, (if unknown then nearest_unknown (w_fog w) key else nearest_right (w_fog w) key) = Err e /\
             w' = w /\ x = exn_obs e) \/
  (exists p tw' partial,
     (if unknown then nearest_unknown (w_fog w) key else nearest_right (w_fog w) key) = Ok p /\
     tevent_step tw (EStep p 0) = Some tw' /\ wrel SB w' tw' /\
     x = OL [onibs p; hnode_obs (annK (vnode (current tw) p)); obool partial; fog_obs (tw_fog tw');
             met_obs p (annK (vnode (current tw) p))] /\
     tw_met tw' = tw_met tw ++ met_list p (annK (vnode (current tw) p))).
Proof.
  intros Hrel Hnc Hstep.
  destruct (wstep_refines_step SB cfS w tw unknown key w' x Hrel Hstep)
    as [Ha|[(p & i & v & tw' & partial & H1 & H2 & H3 & H4 & H5 & H6 & H7 & _)
           |(p & cn & seg & h & ns & _ & _ & Hu & _)]].
  - left. exact Ha.
  - right. rewrite (H3 (or_intror Hnc)) in H2, H4.
    assert (Hv : v = current tw).
    { unfold current. destruct (tw_versions tw); [discriminate H2|]. injection H2 as <-. reflexivity. }
    subst v. exists p, tw', partial. repeat split; assumption.
  - rewrite Hu in Hnc. discriminate Hnc.
Qed.

(* ---------------- termination: the number of successful steps of any run ---------------- *)
Lemma sched_bounded_muts L s :
  Forall (fun o => match o with TSet k _ | TDel k => (length k <= L)%nat end) (sched_muts s) ->
  sched_bounded L s.
Proof.
  induction s as [|e s IH]; intro Hm; [constructor|].
  destruct e as [p i|o]; cbn [sched_muts flat_map app] in Hm.
  - constructor; [exact I|apply IH; exact Hm].
  - constructor; [exact (Forall_inv Hm)|apply IH; exact (Forall_inv_tail Hm)].
Qed.

Theorem wrun_step_bound L prune use ws0 ops :
  Forall allowed ops ->
  cf K (hist_bodies K (ws0 ++ writes_of ops)) ->
  Forall (fun b => blen b < 2 ^ 64) (hist_bodies K (ws0 ++ writes_of ops)) ->
  keys_bounded L (trun (map top_of ws0)) ->
  Forall (fun wo : Refine_write.wop => (2 * length (fst wo) <= L)%nat) (writes_of ops) ->
  (N.of_nat (steps_done ops (wrun (w_init prune use ws0) ops)) <= pow17 (S L))%N.
Proof.
  intros Hall Hcf Hsmall Hkb Hwb.
  destruct (wrun_refines prune use ws0 ops Hall Hcf Hsmall)
    as (Hc0 & s & tw & Hs & Hrun & _ & Hm & _ & Hcnt & _).
  rewrite <- Hcnt. apply (C09_step_bound L _ s tw Hc0 Hs Hkb); [|exact Hrun].
  apply sched_bounded_muts. rewrite Hm. apply Forall_forall. intros o Ho.
  apply in_map_iff in Ho as (wo & <- & Hwo). rewrite Forall_forall in Hwb. specialize (Hwb wo Hwo).
  destruct wo as [k [v|]]; cbn [top_of fst] in *; rewrite length_bytes_to_nibbles; exact Hwb.
Qed.

(* ---------------- liveness: the D-level walk can always be finished ---------------- *)
Lemma nearest_unknown_nil_err f e : nearest_unknown f [] = Err e -> f = [].
Proof.
  destruct f as [|q f']; [reflexivity|]. unfold nearest_unknown, as_nibbles. cbn [nibs_ok forallb rbind bisect].
  destruct (nibbles_ltb [] q); [intro Hx; discriminate Hx|].
  cbv zeta. destruct (Nat.eqb _ _); [intro Hx; discriminate Hx|].
  destruct (ztuple_ltb _ _); intro Hx; discriminate Hx.
Qed.

Lemma fc_del_length c p : (length (fc_del c p) <= length c)%nat.
Proof.
  induction c as [|[q v] c IH]; cbn [fc_del length]; [lia|].
  destruct (nibbles_eqb p q); cbn [length]; lia.
Qed.

Lemma fc_del_length_lt c p e : fc_get c p = Some e -> (length (fc_del c p) < length c)%nat.
Proof.
  induction c as [|[q v] c IH]; cbn [fc_get fc_del length]; [discriminate|].
  destruct (nibbles_eqb p q); cbn [length]; intro Hg.
  - pose proof (fc_del_length c p). lia.
  - specialize (IH Hg). lia.
Qed.

Lemma wfinal_repeat_S w o n : wfinal w (repeat o (S n)) = wfinal (fst (wstep w o)) (repeat o n).
Proof. reflexivity. Qed.

Lemma can_finish_aux SB (cfS : cf K SB) L : forall a b w tw,
  wrel SB w tw ->
  (forall t k, In t (tw_versions tw) -> tget t k <> [] -> nibs_ok k = true -> (length k <= L)%nat) ->
  (N.to_nat (fog_potential L (tw_fog tw)) <= a)%nat -> (length (w_cache w) <= b)%nat ->
  exists n tw', wrel SB (wfinal w (repeat (WStep true []) n)) tw' /\
                w_fog (wfinal w (repeat (WStep true []) n)) = [].
Proof.
  induction a as [a IHa] using lt_wf_ind. induction b as [b IHb] using lt_wf_ind.
  intros w tw Hrel HL Ha Hb.
  destruct (wstep w (WStep true [])) as [w1 x] eqn:Est.
  destruct (wstep_refines_step SB cfS w tw true [] w1 x Hrel Est)
    as [(e & He & _ & _)|[(p & i & v & tw1 & partial & _ & Hnth & _ & Hev & Hrel1 & _ & _ & Hvs)
                          |(p & cn & seg & h & ns & _ & _ & _ & Hg & -> & _ & Hrel1)]].
  - exists 0%nat, tw. split; [exact Hrel|]. cbn [repeat wfinal fold_left].
    exact (nearest_unknown_nil_err _ e He).
  - destruct Hrel as (m & _ & _ & Hver & _ & _ & Hfi & _).
    assert (Hvo : versions_ok tw).
    { unfold versions_ok. eapply Forall_impl; [|exact Hver]. intros t0 Ht0. apply Ht0. }
    pose proof (C09_terminates_step L tw p i tw1 Hfi Hvo HL Hev) as Hdec.
    destruct (IHa (N.to_nat (fog_potential L (tw_fog tw1))) ltac:(lia) (length (w_cache w1)) w1 tw1 Hrel1)
      as (n & tw' & Hrel' & Hn); [rewrite Hvs; exact HL|lia|lia|].
    exists (S n), tw'. rewrite wfinal_repeat_S, Est. cbn [fst]. split; assumption.
  - pose proof (fc_del_length_lt _ _ _ Hg) as Hlt.
    destruct (IHb (length (fc_del (w_cache w) p)) ltac:(lia)
                  (mkW (w_trie w) (w_fog w) (fc_del (w_cache w) p) (w_use_cache w)) tw Hrel1 HL Ha)
      as (n & tw' & Hrel' & Hn); [cbn [w_cache]; lia|].
    exists (S n), tw'. rewrite wfinal_repeat_S, Est. cbn [fst]. split; assumption.
Qed.

Lemma versions_bound (vs : list node) : Forall (fun t => canonical_top t = true) vs ->
  forall t k, In t vs -> tget t k <> [] -> nibs_ok k = true ->
    (length k <= list_max (map max_key_len vs))%nat.
Proof.
  intros Hc t k Ht Hg Hk. rewrite Forall_forall in Hc.
  pose proof (keys_bounded_max t (Hc t Ht) k Hk Hg) as H1.
  pose proof (proj1 (list_max_le (map max_key_len vs) (list_max (map max_key_len vs))) (Nat.le_refl _)) as Hall.
  rewrite Forall_forall in Hall. specialize (Hall (max_key_len t) (in_map _ _ _ Ht)). lia.
Qed.

(* from every state related to a T-level state, finitely many further steps (nearest_unknown(()))
   complete the fog -- whatever is in the cache, pruning or not *)
Theorem wstep_can_finish SB (cfS : cf K SB) w tw : wrel SB w tw ->
  exists n tw', wrel SB (wfinal w (repeat (WStep true []) n)) tw' /\
                w_fog (wfinal w (repeat (WStep true []) n)) = [].
Proof.
  intro Hrel. pose proof Hrel as (m & _ & _ & Hver & _).
  eapply (can_finish_aux SB cfS (list_max (map max_key_len (tw_versions tw))) _ _ w tw Hrel);
    [|apply Nat.le_refl|apply Nat.le_refl].
  apply versions_bound. eapply Forall_impl; [|exact Hver]. intros t0 Ht0. apply Ht0.
Qed.

Lemma wfinal_app w a b : wfinal w (a ++ b) = wfinal (wfinal w a) b.
Proof. unfold wfinal. apply fold_left_app. Qed.

Corollary wrun_can_finish prune use ws0 ops :
  Forall allowed ops ->
  cf K (hist_bodies K (ws0 ++ writes_of ops)) ->
  Forall (fun b => blen b < 2 ^ 64) (hist_bodies K (ws0 ++ writes_of ops)) ->
  exists n, w_fog (wfinal (w_init prune use ws0) (ops ++ repeat (WStep true []) n)) = [].
Proof.
  intros Hall Hcf Hsmall.
  destruct (wrun_refines prune use ws0 ops Hall Hcf Hsmall) as (_ & s & tw & _ & _ & Hrel & _).
  destruct (wstep_can_finish _ Hcf _ tw Hrel) as (n & tw' & _ & Hn).
  exists n. rewrite wfinal_app. exact Hn.
Qed.

(* ================================================================== *)
(* 9. non-vacuity, with the real Keccak-256: three 40-byte values (every node is hashed), walk
   steps interleaved with a delete that collapses the branch under [1;2;3] into a leaf and a set
   that splits the leaf under [5]; the frontier cache is on.
   Non-pruning trie: the steps after the delete go through stale cache entries and read the OLD
   versions (indices 1 and 2): the deleted key [1;2;3;5] is still met, the new key is not.
   Pruning trie: the first step at [1;2;3] goes through the cached extension node whose child was
   pruned -> MissingTraversalNode, the entry is dropped (no T-level event); the retry reads the
   current version from the root, ends INSIDE the new leaf and is answered by the simulated node
   (partial = 1); the step at [5] goes through the stale cached ROOT node of the old version, whose
   child [5] still exists (content-addressed), and describes the old version (index 1). *)
Section DWalkExample.
  Definition ex_ops : list wop :=
    [ WTrie (OSet [x12; x34] (repeat x61 40));
      WTrie (OSet [x12; x35] (repeat x62 40));
      WTrie (OSet [x56; x78] (repeat x63 40));
      WStep true [];
      WStep true [1];
      WTrie (ODelete [x12; x35]);
      WStep true [1; 2; 3];
      WStep true [1; 2; 3];
      WStep true [5];
      WTrie (OSet [x56; x79] (repeat x64 40));
      WStep false [];
      WStep false [] ].

  Definition ex_m1 : tevent := EMutate (top_of ([x12; x34], Some (repeat x61 40))).
  Definition ex_m2 : tevent := EMutate (top_of ([x12; x35], Some (repeat x62 40))).
  Definition ex_m3 : tevent := EMutate (top_of ([x56; x78], Some (repeat x63 40))).
  Definition ex_m4 : tevent := EMutate (top_of ([x12; x35], None)).
  Definition ex_m5 : tevent := EMutate (top_of ([x56; x79], Some (repeat x64 40))).

  (* the matching schedules *)
  Definition ex_sched_np : list tevent :=
    [ex_m1; ex_m2; ex_m3; EStep [] 0; EStep [1] 0; ex_m4; EStep [1; 2; 3] 1; EStep [1; 2; 3; 4] 1;
     EStep [5] 1; ex_m5; EStep [1; 2; 3; 5] 2].
  Definition ex_sched_pr : list tevent :=
    [ex_m1; ex_m2; ex_m3; EStep [] 0; EStep [1] 0; ex_m4; EStep [1; 2; 3] 0; EStep [5] 1; ex_m5].

  Lemma ex_allowed : Forall allowed ex_ops.
  Proof. unfold ex_ops. repeat constructor. Qed.

  Lemma ex_cf : cf K (hist_bodies K ([] ++ writes_of ex_ops)).
  Proof. apply cf_check. vm_compute. reflexivity. Qed.

  Lemma ex_small : Forall (fun b => blen b < 2 ^ 64) (hist_bodies K ([] ++ writes_of ex_ops)).
  Proof. apply smallb_sound. vm_compute. reflexivity. Qed.

  (* the theorems apply to this run, pruning or not, cache or not *)
  Example ex_refines prune use := wrun_refines prune use [] ex_ops ex_allowed ex_cf ex_small.
  Example ex_C09 prune use := wrun_C09 prune use [] ex_ops ex_allowed ex_cf ex_small.

  Definition tag_of (x : obs) : N := match x with OL [_; OE t _] => t | OE t _ => t | _ => 0 end.
  Definition partial_of (x : obs) : obs := match x with OL [_; _; pa; _; _] => pa | _ => ONone end.

  (* non-pruning, with the cache *)
  Example ex_run_nonpruning :
    let w0 := w_init false true [] in
    sched_ok ex_sched_np /\
    sched_muts ex_sched_np = map top_of (writes_of ex_ops) /\
    count_steps ex_sched_np = steps_done ex_ops (wrun w0 ex_ops) /\
    exists tw, trun_walk (twalk_init NBlank) ex_sched_np = Some tw /\
      tw_fog tw = w_fog (wfinal w0 ex_ops) /\ tw_fog tw = [] /\
      map met_pair_obs (tw_met tw) = mets ex_ops (wrun w0 ex_ops) /\
      map fst (tw_met tw) = [[1; 2; 3; 4]; [5; 6; 7; 8]; [1; 2; 3; 5]] /\
      length (tw_versions tw) = 6%nat /\
      (* no step failed; the last query finds the fog complete *)
      map tag_of (wrun w0 ex_ops) = [0; 0; 0; 0; 0; 0; 0; 0; 0; 0; 0; 15].
  Proof.
    cbv zeta. split; [unfold sched_ok, ex_sched_np; repeat constructor; reflexivity|].
    split; [vm_compute; reflexivity|]. split; [vm_compute; reflexivity|].
    eexists. split; [vm_compute; reflexivity|]. cbn [tw_fog tw_met tw_versions].
    split; [vm_compute; reflexivity|]. split; [reflexivity|].
    split; [vm_compute; reflexivity|]. split; [vm_compute; reflexivity|].
    split; [vm_compute; reflexivity|]. vm_compute. reflexivity.
  Qed.

  (* pruning, with the cache *)
  Example ex_run_pruning :
    let w0 := w_init true true [] in
    sched_ok ex_sched_pr /\
    sched_muts ex_sched_pr = map top_of (writes_of ex_ops) /\
    count_steps ex_sched_pr = steps_done ex_ops (wrun w0 ex_ops) /\
    exists tw, trun_walk (twalk_init NBlank) ex_sched_pr = Some tw /\
      tw_fog tw = w_fog (wfinal w0 ex_ops) /\ tw_fog tw = [] /\
      map met_pair_obs (tw_met tw) = mets ex_ops (wrun w0 ex_ops) /\
      map fst (tw_met tw) = [[1; 2; 3; 4]; [5; 6; 7; 8]] /\
      (* the 7th operation raised MissingTraversalNode (the stutter), the 8th was answered by a
         simulated node, the 9th went through the stale cached root *)
      map tag_of (wrun w0 ex_ops) = [0; 0; 0; 0; 0; 0; 9; 0; 0; 0; 15; 15] /\
      partial_of (nth 7 (wrun w0 ex_ops) ONone) = obool true /\
      partial_of (nth 8 (wrun w0 ex_ops) ONone) = obool false.
  Proof.
    cbv zeta. split; [unfold sched_ok, ex_sched_pr; repeat constructor; reflexivity|].
    split; [vm_compute; reflexivity|]. split; [vm_compute; reflexivity|].
    eexists. split; [vm_compute; reflexivity|]. cbn [tw_fog tw_met tw_versions].
    split; [vm_compute; reflexivity|]. split; [reflexivity|].
    split; [vm_compute; reflexivity|]. split; [vm_compute; reflexivity|].
    split; [vm_compute; reflexivity|]. split; vm_compute; reflexivity.
  Qed.
  (* WHY THE CACHE INVARIANT SPEAKS OF [vnode]: the suggested invariant "every cached node is the
     node some version has AT a prefix q (ttraverse v q = TAt n)" is FALSE for reachable states.
     When a step ends inside an extension, wstep caches the SIMULATED extension node: after the
     8 operations below (non-pruning, cache on) the entry for [1;2;3] holds the node simulated at
     [1;2] inside the extension [1;2;3] of the current version; no version has a node with
     sub-segments AT [1;2].  The next step traverses from that simulated node (and succeeds). *)
  Definition ex2_ops : list wop :=
    [ WTrie (OSet [x12; x34] (repeat x61 40));
      WTrie (OSet [x15; x67] (repeat x62 40));
      WStep true [];
      WStep true [1];
      WTrie (ODelete [x15; x67]);
      WTrie (OSet [x12; x35] (repeat x63 40));
      WResetCache;
      WStep true [1; 2];
      WStep true [1; 2; 3] ].

  Example ex_cache_holds_simulated_node :
    let w := wfinal (w_init false true []) (firstn 8 ex2_ops) in
    let versions := vers_after [NBlank] (map top_of (writes_of (firstn 8 ex2_ops))) in
    exists cn,
      fc_get (w_cache w) [1; 2; 3] = Some (cn, [3]) /\
      cn = annK (vnode (hd NBlank versions) [1; 2]) /\
      vpartial (hd NBlank versions) [1; 2] = true /\
      h_segs cn = [[3]] /\
      Forall (fun v => match ttraverse v [1; 2] with
                       | TAt n => h_segs (annK n) = []
                       | TPartial _ _ _ => True
                       end) versions /\
      (* the step through the simulated node *)
      map tag_of (wrun (w_init false true []) ex2_ops) = [0; 0; 0; 0; 0; 0; 0; 0; 0] /\
      partial_of (nth 7 (wrun (w_init false true []) ex2_ops) ONone) = obool true.
  Proof.
    cbv zeta. eexists. split; [vm_compute; reflexivity|].
    split; [vm_compute; reflexivity|]. split; [vm_compute; reflexivity|].
    split; [vm_compute; reflexivity|].
    split; [vm_compute; repeat constructor|]. split; vm_compute; reflexivity.
  Qed.
End DWalkExample.

Print Assumptions wstep_refines_step.
Print Assumptions wstep_refines_mutate.
Print Assumptions wstep_refines_reset.
Print Assumptions wrun_refines.
Print Assumptions wrun_C09.
Print Assumptions wrun_step_bound.
Print Assumptions wstep_refines_step_nonpruning.
Print Assumptions wstep_refines_step_nocache.
Print Assumptions ex_refines.
Print Assumptions ex_C09.
Print Assumptions ex_run_nonpruning.
Print Assumptions ex_run_pruning.
Print Assumptions wstep_can_finish.
Print Assumptions wrun_can_finish.
Print Assumptions ex_cache_holds_simulated_node.
