(* Fog/Fog.v — model of trie/fog.py: HexaryTrieFog as a strictly sorted list of nibble
   paths under Python tuple order.  Definitions only. *)
From Coq Require Import List NArith ZArith Bool.
From PyTrie.Base Require Import Bytes Result Nibbles.
Import ListNotations.
Open Scope N_scope.
Open Scope res_scope.

Definition fog := list nibbles.

Definition fog_init : fog := [[]].
Definition is_complete (f : fog) : bool := match f with [] => true | _ => false end.

Fixpoint fog_mem (p : nibbles) (f : fog) : bool :=
  match f with
  | [] => false
  | q :: f' => nibbles_eqb p q || fog_mem p f'
  end.

Fixpoint fog_remove (p : nibbles) (f : fog) : fog :=
  match f with
  | [] => []
  | q :: f' => if nibbles_eqb p q then f' else q :: fog_remove p f'
  end.

(* SortedSet.add *)
Fixpoint fog_insert (p : nibbles) (f : fog) : fog :=
  match f with
  | [] => [p]
  | q :: f' =>
      if nibbles_eqb p q then f
      else if nibbles_ltb p q then p :: f
      else q :: fog_insert p f'
  end.

(* Nibbles(x): every element must be a Nibble (0..15) *)
Definition as_nibbles (ns : nibbles) : result nibbles :=
  if nibs_ok ns then Ok ns else Err EValueError.

Fixpoint has_dup (l : list nibbles) : bool :=
  match l with
  | [] => false
  | x :: l' => fog_mem x l' || has_dup l'
  end.

(* "no segment is a prefix of another", as the code checks it *)
Definition distinct_lengths (segs : list nibbles) : list nat := nodup Nat.eq_dec (map (@length N) segs).

Definition nested_segment (segs : list nibbles) : bool :=
  let lens := distinct_lengths segs in
  if Nat.leb (length lens) 1 then false
  else existsb (fun seg =>
                  existsb (fun cl => Nat.ltb cl (length seg) && fog_mem (firstn cl seg) segs) lens)
               segs.

Definition explore (f : fog) (old_prefix : nibbles) (segs : list nibbles) : result fog :=
  let! old := as_nibbles old_prefix in
  let! segs := rmapM as_nibbles segs in
  if negb (fog_mem old f) then Err EValidation
  else if has_dup segs then Err EValidation
  else if nested_segment segs then Err EValidation
  else Ok (fold_left (fun acc s => fog_insert (old ++ s) acc) segs (fog_remove old f)).

Fixpoint mark_all_complete (f : fog) (ps : list nibbles) : result fog :=
  match ps with
  | [] => Ok f
  | p :: ps' =>
      match as_nibbles p with
      | Err e => Err e
      | Ok p =>
          if negb (fog_mem p f) then Err EValidation
          else mark_all_complete (fog_remove p f) ps'
      end
  end.

(* SortedSet.bisect(key) = bisect_right: number of members <= key *)
Fixpoint bisect (f : fog) (key : nibbles) : nat :=
  match f with
  | [] => O
  | q :: f' => if nibbles_ltb key q then O else S (bisect f' key)
  end.

(* _prefix_distance(low, high) with zip_longest padding 15 / 0 *)
Fixpoint prefix_distance (low high : nibbles) {struct low} : list Z :=
  match low, high with
  | [], _ => map (fun h => (Z.of_N h - 15)%Z) high
  | l :: low', [] => (0 - Z.of_N l)%Z :: prefix_distance low' []
  | l :: low', h :: high' => (Z.of_N h - Z.of_N l)%Z :: prefix_distance low' high'
  end.

(* Python tuple < on int tuples *)
Fixpoint ztuple_ltb (a b : list Z) : bool :=
  match a, b with
  | [], [] => false
  | [], _ :: _ => true
  | _ :: _, [] => false
  | x :: a', y :: b' => if (x <? y)%Z then true else if (y <? x)%Z then false else ztuple_ltb a' b'
  end.

Definition nearest_unknown (f : fog) (key : nibbles) : result nibbles :=
  let! key := as_nibbles key in
  let index := bisect f key in
  match index with
  | O => match f with [] => Err EPerfectVisibility | q :: _ => Ok q end
  | S i =>
      if Nat.eqb index (length f) then Ok (last f [])
      else
        let left := nth i f [] in
        let right := nth index f [] in
        if ztuple_ltb (prefix_distance left key) (prefix_distance key right) then Ok left else Ok right
  end.

Definition nearest_right (f : fog) (key : nibbles) : result nibbles :=
  let! key := as_nibbles key in
  let index := bisect f key in
  match index with
  | O => match f with [] => Err EPerfectVisibility | q :: _ => Ok q end
  | S i =>
      let left := nth i f [] in
      if key_starts_with key left then Ok left
      else match nth_error f index with
           | Some q => Ok q
           | None => Err EFullDirectional
           end
  end.

(* serialize: the list of HP-encoded prefixes (repr / literal_eval of a list of bytes is
   Python's business); deserialize: decode each and build a SortedSet *)
Definition serialize (f : fog) : result (list bytes) := rmapM encode_nibbles f.

Definition deserialize (l : list bytes) : result fog :=
  let! ps := rmapM (fun b => let! ns := decode_nibbles b in as_nibbles ns) l in
  Ok (fold_left (fun acc p => fog_insert p acc) ps []).

Definition fog_obs (f : fog) : obs := OL (map onibs f).

(* the operation language of the C11 correspondence check *)
Inductive fop :=
| FExplore (p : nibbles) (segs : list nibbles)
| FMark (ps : list nibbles)
| FNearestUnknown (k : nibbles)
| FNearestRight (k : nibbles)
| FRoundTrip.

Definition fstep (f : fog) (o : fop) : fog * obs :=
  match o with
  | FExplore p segs =>
      match explore f p segs with
      | Ok f' => (f', fog_obs f')
      | Err e => (f, exn_obs e)
      end
  | FMark ps =>
      match mark_all_complete f ps with
      | Ok f' => (f', fog_obs f')
      | Err e => (f, exn_obs e)
      end
  | FNearestUnknown k => (f, res_obs onibs (nearest_unknown f k))
  | FNearestRight k => (f, res_obs onibs (nearest_right f k))
  | FRoundTrip =>
      (f, match serialize f with
          | Ok l => OL [OL (map OB l); res_obs fog_obs (deserialize l)]
          | Err e => exn_obs e
          end)
  end.

Fixpoint frun (f : fog) (ops : list fop) : list obs :=
  match ops with
  | [] => []
  | o :: ops' => let '(f', x) := fstep f o in x :: frun f' ops'
  end.

Definition c11_run (ops : list fop) : obs := OL (frun fog_init ops ++ []).
