(* Fog/Walk_proofs.v — property C10 at database level: over a store that represents a
   canonical tree, the database-level NodeIterator (Fog/Walk.v: iter_next, iter_all_nodes,
   iter_items) computes the tree-level views (Hexary/TreeTraverse.v: tnext_key, tkey_after,
   tnodes, titems = contents). *)
From Coq Require Import List NArith ZArith Bool Lia ZifyBool Sorted.
From Coq.Init Require Import Byte.
From PyTrie.Base Require Import Bytes Bytes_proofs Result AMap AMap_proofs Nibbles Nibbles_proofs Rlp.
From PyTrie.Db Require Import ScratchDb.
From PyTrie.Hexary Require Import Raw Raw_proofs D Tree Tree_aux Tree_map Tree_canon Tree_unique
  TreeTraverse TreeRun D_read Refine_read Tree_traverse_proofs.
From PyTrie.Fog Require Import Fog Fog_proofs TWalk TWalk_proofs Walk.
Import ListNotations.
Open Scope N_scope.

(* ================================================================== *)
(* 0. tree-level preliminaries: the children a node describes *)

(* the (sub-segment, child) pairs of a branch, left to right, blanks skipped *)
Fixpoint kids_go (cs : list node) (i : N) : list (nibbles * node) :=
  match cs with
  | [] => []
  | c :: cs' => (if is_nblank c then [] else [([i], c)]) ++ kids_go cs' (i + 1)
  end.

Definition kids (n : node) : list (nibbles * node) :=
  match n with
  | NExt p c => [(p, c)]
  | NBranch cs _ => kids_go cs 0
  | _ => []
  end.

Lemma kids_go_in cs : forall i s c, In (s, c) (kids_go cs i) ->
  exists k : nat, s = [i + N.of_nat k] /\ nth k cs NBlank = c /\ (k < length cs)%nat /\ is_nblank c = false.
Proof.
  induction cs as [|c0 cs IH]; intros i s c Hin; [contradiction|].
  cbn [kids_go] in Hin. apply in_app_or in Hin as [Hin|Hin].
  - destruct (is_nblank c0) eqn:Eb; [contradiction|].
    destruct Hin as [Heq|[]]. inversion Heq; subst. exists O.
    repeat split; [f_equal; lia|cbn [length]; lia|exact Eb].
  - destruct (IH _ _ _ Hin) as (k & Hs & Hn & Hl & Hb). exists (S k).
    repeat split; [subst s; f_equal; lia|exact Hn|cbn [length]; lia|exact Hb].
Qed.

Lemma kids_go_segs_gen cs : forall pre,
  map fst (kids_go cs (N.of_nat (length pre))) =
  flat_map (fun j => if is_nblank (child (pre ++ cs) j) then [] else [[j]])
           (map N.of_nat (seq (length pre) (length cs))).
Proof.
  induction cs as [|c cs IH]; intro pre; [reflexivity|].
  cbn [kids_go length seq map flat_map]. rewrite map_app.
  f_equal.
  - unfold child. rewrite Nat2N.id, app_nth2 by lia. rewrite Nat.sub_diag. cbn [nth].
    destruct (is_nblank c); reflexivity.
  - specialize (IH (pre ++ [c])). rewrite app_length in IH. cbn [length] in IH.
    rewrite <- app_assoc in IH. cbn [app] in IH.
    replace (N.of_nat (length pre) + 1) with (N.of_nat (length pre + 1)) by lia.
    replace (S (length pre)) with (length pre + 1)%nat by lia. exact IH.
Qed.

Lemma kids_segs n : wf n = true -> map fst (kids n) = a_segs (annotate n).
Proof.
  destruct n as [| p v | p c | cs v]; try reflexivity.
  rewrite wf_branch. intro Hw. apply andb_true_iff in Hw as [Hl _]. apply Nat.eqb_eq in Hl.
  pose proof (kids_go_segs_gen cs []) as Hg. cbn [length app N.of_nat] in Hg.
  cbn [kids annotate a_segs]. rewrite Hg, Hl. reflexivity.
Qed.

Lemma tnodes_go_kids q cs : forall i,
  tnodes_go q cs i = flat_map (fun e : nibbles * node => tnodes (snd e) (q ++ fst e)) (kids_go cs i).
Proof.
  induction cs as [|c cs IH]; intro i; [reflexivity|].
  cbn [tnodes_go kids_go]. rewrite flat_map_app, IH. f_equal.
  destruct (is_nblank c); [reflexivity|]. cbn [flat_map fst snd]. rewrite app_nil_r. reflexivity.
Qed.

Lemma tnodes_kids n q :
  tnodes n q = (q, n) :: flat_map (fun e : nibbles * node => tnodes (snd e) (q ++ fst e)) (kids n).
Proof.
  destruct n as [| p v | p c | cs v]; try reflexivity.
  - cbn [tnodes kids flat_map fst snd]. rewrite app_nil_r. reflexivity.
  - rewrite tnodes_branch. cbn [kids]. rewrite tnodes_go_kids. reflexivity.
Qed.

Lemma kids_traverse n s c : ext_ok n = true -> In (s, c) (kids n) ->
  s <> [] /\ ttraverse_from n s [] = TAt c.
Proof.
  destruct n as [| p v | p c0 | cs v]; intros Hex Hin; try contradiction.
  - destruct Hin as [Heq|[]]. inversion Heq; subst.
    cbn [ext_ok] in Hex. apply andb_true_iff in Hex as [Hp _].
    assert (Hne : s <> []) by (destruct s; [discriminate Hp|discriminate]).
    split; [exact Hne|]. rewrite (ttf_ext s c s [] Hne), ksw_refl, skipn_all, ttf_nil. reflexivity.
  - cbn [kids] in Hin. destruct (kids_go_in _ _ _ _ Hin) as (k & Hs & Hn & _ & _).
    subst s. split; [discriminate|]. rewrite ttf_branch, ttf_nil. unfold child.
    replace (N.to_nat (0 + N.of_nat k)) with k by lia. rewrite Hn. reflexivity.
Qed.

(* a property of all sub-trees is inherited by the node a traversal arrives at *)
Lemma all_sub_ttf (P : node -> Prop) : all_sub P NBlank ->
  forall t, all_sub P t -> forall k c n, ttraverse_from t k c = TAt n -> all_sub P n.
Proof.
  intros HB t. induction t as [| p v | p c0 IH | cs v IH] using node_ind'; intros Ha k c n Ht.
  - rewrite ttf_blank in Ht. inversion Ht; subst. exact HB.
  - destruct k as [|k0 k']; [rewrite ttf_nil in Ht; inversion Ht; subst; exact Ha|].
    rewrite ttf_leaf in Ht by discriminate.
    destruct (key_starts_with p (k0 :: k')); [discriminate Ht|]. inversion Ht; subst. exact HB.
  - destruct k as [|k0 k']; [rewrite ttf_nil in Ht; inversion Ht; subst; exact Ha|].
    rewrite ttf_ext in Ht by discriminate.
    destruct (key_starts_with (k0 :: k') p).
    + apply all_sub_ext in Ha as [_ Hc]. exact (IH Hc _ _ _ Ht).
    + destruct (key_starts_with p (k0 :: k')); [discriminate Ht|]. inversion Ht; subst. exact HB.
  - destruct k as [|k0 k']; [rewrite ttf_nil in Ht; inversion Ht; subst; exact Ha|].
    rewrite ttf_branch in Ht. apply all_sub_branch in Ha as [_ Hc].
    assert (HP : (all_sub P (child cs k0) -> forall k c n, ttraverse_from (child cs k0) k c = TAt n -> all_sub P n)).
    { apply Forall_child; [exact IH|]. intros _ k1 c1 n1 Hb. rewrite ttf_blank in Hb. inversion Hb; subst. exact HB. }
    apply (HP (Forall_child _ cs k0 Hc HB) _ _ _ Ht).
Qed.


(* ---------------- the frontier cache ---------------- *)
Lemma fc_get_del c p q : fc_get (fc_del c p) q = if nibbles_eqb q p then None else fc_get c q.
Proof.
  induction c as [|[k v] c IH]; [destruct (nibbles_eqb q p); reflexivity|].
  cbn [fc_del]. destruct (nibbles_eqb p k) eqn:Epk.
  - apply nibbles_eqb_eq in Epk. subst k. rewrite IH. cbn [fc_get].
    destruct (nibbles_eqb q p); reflexivity.
  - cbn [fc_get]. rewrite IH. destruct (nibbles_eqb q k) eqn:Eqk; [|reflexivity].
    apply nibbles_eqb_eq in Eqk. subst k.
    destruct (nibbles_eqb q p) eqn:Eqp; [|reflexivity].
    apply nibbles_eqb_eq in Eqp. subst q. rewrite nibbles_eqb_refl in Epk. discriminate Epk.
Qed.

Lemma fc_get_set c p v q : fc_get (fc_set c p v) q = if nibbles_eqb q p then Some v else fc_get c q.
Proof.
  unfold fc_set. cbn [fc_get]. rewrite fc_get_del. destruct (nibbles_eqb q p); reflexivity.
Qed.

Lemma fc_get_fold_other p (n : hnode) segs q : (forall s, In s segs -> q <> p ++ s) ->
  forall c, fc_get (fold_left (fun acc s => fc_set acc (p ++ s) (n, s)) segs c) q = fc_get c q.
Proof.
  induction segs as [|s0 segs IH]; intros Hq c; [reflexivity|].
  cbn [fold_left]. rewrite IH by (intros s Hs; apply Hq; right; exact Hs).
  rewrite fc_get_set. destruct (nibbles_eqb q (p ++ s0)) eqn:E; [|reflexivity].
  apply nibbles_eqb_eq in E. exfalso. apply (Hq s0); [left; reflexivity|exact E].
Qed.

Lemma fc_get_fold_in p (n : hnode) segs : forall c s, In s segs ->
  fc_get (fold_left (fun acc s => fc_set acc (p ++ s) (n, s)) segs c) (p ++ s) = Some (n, s).
Proof.
  induction segs as [|s0 segs IH]; intros c s Hin; [contradiction|].
  cbn [fold_left]. destruct (in_dec fg_nib_eq_dec s segs) as [Hs|Hs]; [apply IH; exact Hs|].
  destruct Hin as [->|Hin]; [|contradiction].
  rewrite fc_get_fold_other.
  - rewrite fc_get_set, nibbles_eqb_refl. reflexivity.
  - intros s' Hs' Heq. apply app_inv_head in Heq. subst s'. contradiction.
Qed.

Lemma fc_add_other c p n segs q : q <> p -> (forall s, In s segs -> q <> p ++ s) ->
  fc_get (fc_add c p n segs) q = fc_get c q.
Proof.
  intros Hqp Hq. unfold fc_add. rewrite fc_get_fold_other by exact Hq.
  destruct p as [|p0 p']; [reflexivity|]. rewrite fc_get_del.
  destruct (nibbles_eqb q (p0 :: p')) eqn:E; [|reflexivity].
  apply nibbles_eqb_eq in E. contradiction.
Qed.

Lemma fc_add_in c p n segs s : In s segs -> fc_get (fc_add c p n segs) (p ++ s) = Some (n, s).
Proof. intro Hs. unfold fc_add. apply fc_get_fold_in; exact Hs. Qed.

(* ---------------- the fog ---------------- *)
Lemma nearest_right_least q f : StronglySorted nlt (q :: f) -> nearest_right (q :: f) [] = Ok q.
Proof.
  intro Hs. unfold nearest_right. cbn [as_nibbles nibs_ok forallb rbind bisect].
  destruct q as [|q0 q']; [|reflexivity].
  cbn [nibbles_ltb]. destruct f as [|q2 f']; [reflexivity|].
  inversion Hs as [|? ? _ Hall]; subst. inversion Hall as [|? ? Hlt _]; subst.
  unfold nlt in Hlt. cbn [bisect]. rewrite Hlt. reflexivity.
Qed.

Lemma segs_sorted_all n : StronglySorted nlt (a_segs (annotate n)).
Proof.
  destruct n as [| p v | p c | cs v]; cbn [annotate a_segs]; try constructor; try constructor.
  exact (branch_segs_sorted cs).
Qed.

Lemma sorted_nlt_nodup (l : list nibbles) : StronglySorted nlt l -> NoDup l.
Proof.
  induction 1 as [|a l Hs IH Hall]; constructor; [|exact IH].
  intro Hin. rewrite Forall_forall in Hall. specialize (Hall a Hin). unfold nlt in Hall.
  rewrite fg_ltb_irrefl in Hall. discriminate Hall.
Qed.

Lemma flat_map_map {A B C} (f : B -> list C) (g : A -> B) l :
  flat_map f (map g l) = flat_map (fun x => f (g x)) l.
Proof. induction l as [|a l IH]; [reflexivity|]. cbn [map flat_map]. rewrite IH. reflexivity. Qed.


(* ---------------- byte keys ---------------- *)
(* every stored key has an even number of nibbles (it came through the byte API) *)
Definition even_keys (t : node) : Prop :=
  forallb (fun e : nibbles * bytes => Nat.even (length (fst e))) (contents t) = true.

(* the contents with the keys packed back into bytes *)
Definition bitems (t : node) : list (bytes * bytes) :=
  map (fun e : nibbles * bytes => (pack_nibbles (fst e), snd e)) (contents t).

Lemma contents_key_ok t k : wf t = true -> even_keys t -> In k (map fst (contents t)) ->
  nibs_ok k = true /\ Nat.even (length k) = true.
Proof.
  intros Hwf Hev Hin. apply in_map_iff in Hin as ([k' v] & <- & Hin). cbn [fst]. split.
  - apply (contents_spec t k' v Hwf) in Hin. apply Hin.
  - unfold even_keys in Hev. rewrite forallb_forall in Hev. exact (Hev _ Hin).
Qed.

Lemma bitems_nibbles t : wf t = true -> even_keys t ->
  map (fun e : bytes * bytes => (bytes_to_nibbles (fst e), snd e)) (bitems t) = contents t.
Proof.
  intros Hwf Hev. unfold bitems. rewrite map_map. rewrite <- (map_id (contents t)) at 2.
  apply map_ext_in. intros [k v] Hin. cbn [fst snd].
  destruct (contents_key_ok t k Hwf Hev) as [Hok Hk]; [apply (in_map fst) in Hin; exact Hin|].
  rewrite (bytes_to_nibbles_pack k Hok Hk). reflexivity.
Qed.

Lemma bitems_spec t k v : wf t = true -> even_keys t ->
  In (k, v) (bitems t) <-> tget t (bytes_to_nibbles k) = v /\ v <> [].
Proof.
  intros Hwf Hev. split.
  - intro Hin. assert (Hc : In (bytes_to_nibbles k, v) (contents t)).
    { rewrite <- (bitems_nibbles t Hwf Hev). apply in_map_iff. exists (k, v). split; [reflexivity|exact Hin]. }
    apply (contents_spec t _ v Hwf) in Hc. split; apply Hc.
  - intros [Hg Hv]. assert (Hc : In (bytes_to_nibbles k, v) (contents t)).
    { apply (contents_spec t _ v Hwf). split; [apply bytes_to_nibbles_ok|]. split; assumption. }
    unfold bitems. apply in_map_iff. exists (bytes_to_nibbles k, v). cbn [fst snd].
    rewrite pack_bytes_to_nibbles. split; [reflexivity|exact Hc].
Qed.

Lemma bitems_sorted t : canonical_top t = true -> even_keys t ->
  StronglySorted (fun a b : bytes * bytes => bytes_ltb (fst a) (fst b) = true) (bitems t).
Proof.
  intros Hcan Hev. pose proof (canonical_wf t Hcan) as Hwf.
  pose proof (contents_sorted t Hcan) as Hs. rewrite <- (bitems_nibbles t Hwf Hev) in Hs.
  induction (bitems t) as [|a l IH]; [constructor|].
  cbn [map] in Hs. inversion Hs as [|? ? Hs' Hall]; subst. constructor; [apply IH; exact Hs'|].
  rewrite Forall_forall in Hall |- *. intros b Hb. rewrite bytes_ltb_nibbles.
  apply (Hall (bytes_to_nibbles (fst b), snd b)). apply in_map_iff. exists b. split; [reflexivity|exact Hb].
Qed.

Lemma rmapM_pack (J : bindings) :
  (forall k, In k (map fst J) -> nibs_ok k = true /\ Nat.even (length k) = true) ->
  rmapM (fun e : nibbles * bytes => match nibbles_to_bytes (fst e) with Ok b => Ok (b, snd e) | Err x => Err x end) J
  = Ok (map (fun e : nibbles * bytes => (pack_nibbles (fst e), snd e)) J).
Proof.
  induction J as [|[k v] J IH]; intro HJ; [reflexivity|].
  cbn [rmapM map fst snd]. destruct (HJ k (or_introl eq_refl)) as [Hok Hev].
  rewrite (nibbles_to_bytes_even k Hok Hev), IH; [reflexivity|].
  intros k' Hk'. apply HJ. right. exact Hk'.
Qed.

(* histories through the byte API only store even-length keys *)
Lemma spec_run_source ops : forall (m0 : nibbles -> bytes) q,
  fold_left spec_apply ops m0 q <> [] ->
  m0 q <> [] \/ exists o, In o ops /\ match o with TSet k _ => k = q | TDel _ => False end.
Proof.
  induction ops as [|o ops IH]; intros m0 q Hq; [left; exact Hq|].
  cbn [fold_left] in Hq. destruct (IH _ _ Hq) as [Hm|(o' & Ho' & Hk)].
  - destruct o as [k v|k]; cbn [spec_apply] in Hm; destruct (nibbles_eqb q k) eqn:E.
    + apply nibbles_eqb_eq in E. right. exists (TSet k v). split; [left; reflexivity|symmetry; exact E].
    + left. exact Hm.
    + contradiction.
    + left. exact Hm.
  - right. exists o'. split; [right; exact Ho'|exact Hk].
Qed.

Lemma to_top_ops_ok (ops : list (bytes * option bytes)) : Tree_map.ops_ok (map to_top ops).
Proof.
  unfold Tree_map.ops_ok. apply Forall_forall. intros o Ho. apply in_map_iff in Ho as ([k [v|]] & <- & _);
    unfold to_top; cbn [fst snd]; apply bytes_to_nibbles_ok.
Qed.

Theorem even_keys_trun (ops : list (bytes * option bytes)) : even_keys (trun (map to_top ops)).
Proof.
  unfold even_keys. apply forallb_forall. intros [k v] Hin. cbn [fst].
  pose proof (to_top_ops_ok ops) as Hok.
  apply (contents_spec _ k v (trun_wf _ Hok)) in Hin. destruct Hin as (Hk & Hg & Hv).
  rewrite (C01_map_T _ k Hok Hk) in Hg. subst v. unfold spec_run in Hv.
  destruct (spec_run_source _ _ _ Hv) as [Hx|(o & Ho & Hm)]; [contradiction|].
  apply in_map_iff in Ho as ([kb [vb|]] & <- & _); unfold to_top in Hm; cbn [fst snd] in Hm; [|contradiction].
  subst k. apply bytes_to_nibbles_even.
Qed.


(* ---------------- next(): the tree-level views through [kids] ---------------- *)
Fixpoint depth (t : node) {struct t} : nat :=
  match t with
  | NExt _ c => S (depth c)
  | NBranch cs _ =>
      S ((fix mx (cs : list node) : nat :=
            match cs with [] => O | c :: cs' => Nat.max (depth c) (mx cs') end) cs)
  | _ => O
  end.

Lemma depth_branch cs v : depth (NBranch cs v) = S (list_max (map depth cs)).
Proof.
  cbn [depth]. f_equal. induction cs as [|c cs IH]; [reflexivity|]. cbn [map list_max]. rewrite IH. reflexivity.
Qed.

Lemma depth_kid n s c : In (s, c) (kids n) -> (depth c < depth n)%nat.
Proof.
  destruct n as [| p v | p c0 | cs v]; intro Hin; try contradiction.
  - destruct Hin as [Heq|[]]. inversion Heq; subst. cbn [depth]. lia.
  - cbn [kids] in Hin. destruct (kids_go_in _ _ _ _ Hin) as (k & _ & Hn & Hl & _).
    rewrite depth_branch. assert (Hle : (depth c <= list_max (map depth cs))%nat); [|lia].
    pose proof (proj1 (list_max_le (map depth cs) (list_max (map depth cs))) (Nat.le_refl _)) as Hall.
    rewrite Forall_forall in Hall. apply Hall. apply in_map_iff. exists c. split; [reflexivity|].
    subst c. apply nth_In. exact Hl.
Qed.

Lemma first_go_kids tr cs : forall i,
  first_go tr cs i = match kids_go cs i with [] => None | (s, c) :: _ => tnext_key c (tr ++ s) end.
Proof.
  induction cs as [|c cs IH]; intro i; [reflexivity|].
  cbn [first_go kids_go]. destruct (is_nblank c); [apply IH|reflexivity].
Qed.

Lemma tnext_key_kids n tr :
  tnext_key n tr =
  if nonempty (a_value (annotate n)) then Some (tr ++ a_suffix (annotate n))
  else match kids n with [] => None | (s, c) :: _ => tnext_key c (tr ++ s) end.
Proof.
  destruct n as [| p v | p c | cs v]; try reflexivity.
  rewrite tnext_key_branch. cbn [annotate a_value a_suffix kids].
  destruct (nonempty v); [rewrite app_nil_r; reflexivity|apply first_go_kids].
Qed.

(* the scan of _get_key_after over the (sub-segment, child) pairs; [fin] is the answer once
   the sub-segments are exhausted *)
Fixpoint kscan (fin : option nibbles) (key tr : nibbles) (ks : list (nibbles * node)) : option nibbles :=
  match ks with
  | [] => fin
  | (seg, c) :: ks' =>
      if nibbles_ltb seg (firstn (length seg) key) then kscan fin key tr ks'
      else
        let '(_, key_rem, seg_rem) := consume_common_prefix key seg in
        match seg_rem with
        | [] => match tkey_after c key_rem (tr ++ seg) with
                | None => kscan fin key tr ks'
                | Some k => Some k
                end
        | _ => tnext_key c (tr ++ seg)
        end
  end.

Lemma scan_go_kids key tr cs : forall i, scan_go key tr cs i = kscan None key tr (kids_go cs i).
Proof.
  induction cs as [|c cs IH]; intro i; [reflexivity|].
  cbn [scan_go kids_go]. destruct (is_nblank c); [apply IH|].
  cbn [app kscan length]. destruct key as [|k0 krem].
  - reflexivity.
  - cbn [firstn nibbles_ltb]. unfold consume_common_prefix. cbn [common_prefix_length].
    rewrite (N.eqb_sym k0 i).
    destruct (i <? k0) eqn:E1; [apply IH|].
    destruct (i =? k0) eqn:E2.
    + assert (E3 : k0 <? i = false) by lia. rewrite E3.
      replace (common_prefix_length krem []) with O by (destruct krem; reflexivity).
      cbn [firstn skipn]. rewrite IH. reflexivity.
    + assert (E3 : k0 <? i = true) by lia. rewrite E3. reflexivity.
Qed.

Lemma tkey_after_kids n key tr :
  tkey_after n key tr =
  kscan (if nibbles_ltb key (a_suffix (annotate n)) then Some (tr ++ a_suffix (annotate n)) else None)
        key tr (kids n).
Proof.
  destruct n as [| p v | p c | cs v].
  - cbn [annotate a_suffix kids kscan]. rewrite ltb_nil_r. reflexivity.
  - reflexivity.
  - rewrite tkey_after_ext. cbn [annotate a_suffix kids kscan]. rewrite ltb_nil_r.
    destruct (nibbles_ltb p (firstn (length p) key)); [reflexivity|].
    destruct (consume_common_prefix key p) as [[cm kr] sr]. destruct sr; [|reflexivity].
    destruct (tkey_after c kr (tr ++ p)); reflexivity.
  - rewrite tkey_after_branch. cbn [annotate a_suffix kids]. rewrite ltb_nil_r. apply scan_go_kids.
Qed.

(* the inner loop of _get_key_after, named *)
Definition gka_scan (t : trie) (f : nat) (n : hnode) (key traversed : nibbles) :=
  fix scan (segs : list nibbles) : result (option nibbles) :=
    match segs with
    | [] => if nibbles_ltb key (h_suffix n) then Ok (Some (traversed ++ h_suffix n)) else Ok None
    | seg :: segs' =>
        if nibbles_ltb seg (firstn (length seg) key) then scan segs'
        else
          match run_read t (traverse_from BNH (h_raw n) seg) with
          | Err e => Err e
          | Ok next =>
              let '(_, key_rem, seg_rem) := consume_common_prefix key seg in
              match seg_rem with
              | [] =>
                  match _get_key_after t f next key_rem (traversed ++ seg) with
                  | Err e => Err e
                  | Ok None => scan segs'
                  | Ok (Some k) => Ok (Some k)
                  end
              | _ => _get_next_key t f next (traversed ++ seg)
              end
          end
    end.

Lemma gka_unfold t f n key tr :
  _get_key_after t (S f) n key tr = gka_scan t f n key tr (h_segs n).
Proof. reflexivity. Qed.

Lemma gka_scan_nil t f n key tr :
  gka_scan t f n key tr [] =
  if nibbles_ltb key (h_suffix n) then Ok (Some (tr ++ h_suffix n)) else Ok None.
Proof. reflexivity. Qed.

Lemma gka_scan_cons t f n key tr seg segs' :
  gka_scan t f n key tr (seg :: segs') =
  if nibbles_ltb seg (firstn (length seg) key) then gka_scan t f n key tr segs'
  else
    match run_read t (traverse_from BNH (h_raw n) seg) with
    | Err e => Err e
    | Ok next =>
        let '(_, key_rem, seg_rem) := consume_common_prefix key seg in
        match seg_rem with
        | [] =>
            match _get_key_after t f next key_rem (tr ++ seg) with
            | Err e => Err e
            | Ok None => gka_scan t f n key tr segs'
            | Ok (Some k) => Ok (Some k)
            end
        | _ => _get_next_key t f next (tr ++ seg)
        end
    end.
Proof. reflexivity. Qed.

(* ================================================================== *)
Section WalkRefine.
  Variable H : bytes -> bytes.
  Hypothesis H_len : forall x, length (H x) = 32%nat.
  Hypothesis BNH_def : BNH = H (rlp_encode (RStr [])).
  Variable m : amap bytes.
  Variable r : bytes.

  Notation st := (plain m r).
  Notation ann := (ann_hnode H).
  Notation good := (good H BNH m).

  (* ---------------- 1. traverse_from ---------------- *)
  Lemma traverse_from_refines_good n seg :
    wf n = true -> ext_ok n = true -> good n -> nibs_ok seg = true ->
    fst (traverse_from BNH (enc H n) seg st) = traverse_spec H n seg.
  Proof.
    intros Hwf Hex Hg Hseg.
    rewrite (traverse_from'_eq BNH m _ _ _ (on_plain m r)). cbn [fst]. unfold ptraverse_from.
    rewrite (tf_enc H BNH H_len m n Hwf Hex Hg seg (traverse_fuel seg) seg [] Hseg)
      by (unfold traverse_fuel; lia).
    apply (aop_ttraverse H H_len); exact Hwf.
  Qed.

  Lemma good_ttf t k c n : good t -> ttraverse_from t k c = TAt n -> good n.
  Proof. intros Hg Ht. exact (all_sub_ttf _ (good_blank H BNH m) t Hg k c n Ht). Qed.

  (* premises shared by the main theorems *)
  Variable t : node.
  Hypothesis Hrep : represents H m r t.
  Hypothesis Hcan : canonical_top t = true.
  Hypothesis Hdec : decodable H t.
  Hypothesis Hnbc : no_blank_collision H BNH t.

  Lemma t_wf : wf t = true. Proof. exact (canonical_wf t Hcan). Qed.
  Lemma t_ext_ok : ext_ok t = true. Proof. exact (canonical_top_ext_ok t Hcan). Qed.
  Lemma t_good : good t.
  Proof. apply good_intro; [apply Hrep|exact Hdec|apply Hnbc]. Qed.

  Theorem traverse_from_refines p n seg :
    nibs_ok p = true -> ttraverse t p = TAt n -> nibs_ok seg = true ->
    fst (traverse_from BNH (enc H n) seg st) = traverse_spec H n seg.
  Proof.
    intros Hp Ht Hseg.
    pose proof (ttraverse_canonical t p n Hcan Hp Ht) as Hcn.
    apply traverse_from_refines_good; [exact (canonical_wf n Hcn)|exact (canonical_top_ext_ok n Hcn)| |exact Hseg].
    exact (good_ttf t p [] n t_good Ht).
  Qed.

  (* ... and it is the traversal of the concatenated path from the root (C08_from) *)
  Corollary traverse_from_is_traverse p n seg :
    nibs_ok p = true -> ttraverse t p = TAt n -> nibs_ok seg = true ->
    match fst (traverse_from BNH (enc H n) seg st), fst (traverse BNH (p ++ seg) st) with
    | Ok a, Ok b => a = b
    | Err _, Err _ => True
    | _, _ => False
    end.
  Proof.
    intros Hp Ht Hseg. rewrite (traverse_from_refines p n seg Hp Ht Hseg).
    rewrite (traverse_refines H BNH H_len BNH_def m r t Hrep t_wf t_ext_ok Hdec Hnbc (p ++ seg))
      by (apply nibs_ok_app_intro; assumption).
    unfold traverse_spec. rewrite (C08_from t p seg n t_wf Hp Hseg Ht). unfold ttraverse.
    destruct (ttraverse_from n seg []); [reflexivity|exact I].
  Qed.

  (* ---------------- 3. nodes(): the fog loop with the frontier cache ---------------- *)
  Lemma traverse_at p n : nibs_ok p = true -> ttraverse t p = TAt n ->
    run_read st (traverse BNH p) = Ok (ann n).
  Proof.
    intros Hp Ht. unfold run_read.
    rewrite (traverse_refines H BNH H_len BNH_def m r t Hrep t_wf t_ext_ok Hdec Hnbc p Hp).
    unfold traverse_spec. rewrite Ht. reflexivity.
  Qed.

  (* the work list: the fog is the list of prefixes of sub-trees still to be listed *)
  Definition entry_ok (e : nibbles * node) : Prop :=
    ttraverse t (fst e) = TAt (snd e) /\ canonical_top (snd e) = true.

  Definition cache_ok (c : fcache) (W : list (nibbles * node)) : Prop :=
    forall q n, In (q, n) W ->
      match fc_get c q with
      | None => True
      | Some (cached, seg) => run_read st (traverse_from BNH (h_raw cached) seg) = Ok (ann n)
      end.

  Definition out_of (W : list (nibbles * node)) : list (nibbles * node) :=
    flat_map (fun e : nibbles * node => tnodes (snd e) (fst e)) W.

  Definition push (q : nibbles) (n : node) : list (nibbles * node) :=
    map (fun e : nibbles * node => (q ++ fst e, snd e)) (kids n).

  Lemma push_fst q n : wf n = true -> map fst (push q n) = map (app q) (a_segs (annotate n)).
  Proof.
    intro Hwf. unfold push. rewrite <- (kids_segs n Hwf), !map_map. reflexivity.
  Qed.

  Lemma out_of_step q n W : out_of ((q, n) :: W) = (q, n) :: out_of (push q n ++ W).
  Proof.
    unfold out_of. cbn [flat_map fst snd]. rewrite tnodes_kids. cbn [app]. f_equal.
    rewrite flat_map_app. f_equal. unfold push. rewrite flat_map_map. reflexivity.
  Qed.

  Lemma entry_child q n s c : nibs_ok q = true -> entry_ok (q, n) -> In (s, c) (kids n) ->
    entry_ok (q ++ s, c) /\ nibs_ok s = true /\
    run_read st (traverse_from BNH (enc H n) s) = Ok (ann c).
  Proof.
    intros Hq [Ht Hc] Hin. cbn [fst snd] in Ht, Hc.
    pose proof (canonical_wf n Hc) as Hwf. pose proof (canonical_top_ext_ok n Hc) as Hex.
    destruct (kids_traverse n s c Hex Hin) as [Hne Hk].
    assert (Hs : nibs_ok s = true).
    { destruct (segs_facts n Hc) as (_ & Hf & _). apply Hf. rewrite <- (kids_segs n Hwf).
      apply (in_map fst) in Hin. exact Hin. }
    split; [split; cbn [fst snd]|split; [exact Hs|]].
    - unfold ttraverse. rewrite (ttf_compose t q s [] n Ht). cbn [app].
      rewrite ttf_consumed, Hk. reflexivity.
    - pose proof (ttf_canonical n s [] Hc) as Hcc. rewrite Hk in Hcc. exact Hcc.
    - unfold run_read. rewrite (traverse_from_refines q n s Hq Ht Hs).
      unfold traverse_spec, ttraverse. rewrite Hk. reflexivity.
  Qed.

  Lemma iter_nodes_work : forall fuel W c,
    fog_inv (map fst W) -> Forall entry_ok W -> cache_ok c W ->
    (length (out_of W) < fuel)%nat ->
    iter_nodes st fuel (map fst W) c = Ok (map (fun e : nibbles * node => (fst e, ann (snd e))) (out_of W)).
  Proof.
    induction fuel as [|fu IH]; intros W c Hinv Hent Hcache Hfuel; [lia|].
    destruct W as [|[q1 n1] W'].
    - reflexivity.
    - cbn [iter_nodes map fst].
      pose proof Hinv as Hinv0. unfold fog_inv in Hinv0. cbn [map fst] in Hinv0.
      destruct Hinv0 as (Hsorted & Hnibs & Hpf).
      rewrite (nearest_right_least q1 (map fst W') Hsorted).
      inversion Hent as [|? ? He1 Hent']; subst.
      pose proof He1 as [Ht1 Hc1]. cbn [fst snd] in Ht1, Hc1.
      assert (Hq1 : nibs_ok q1 = true) by (inversion Hnibs; assumption).
      pose proof (canonical_wf n1 Hc1) as Hwf1.
      (* the node read at q1, through the cache or from the root *)
      assert (Hread : match fc_get c q1 with
                      | None => run_read st (traverse BNH q1)
                      | Some (cached, seg) => run_read st (traverse_from BNH (h_raw cached) seg)
                      end = Ok (ann n1)).
      { pose proof (Hcache q1 n1 (or_introl eq_refl)) as Hc.
        destruct (fc_get c q1) as [[cached seg]|]; [exact Hc|].
        apply traverse_at; assumption. }
      rewrite Hread. clear Hread.
      change (h_segs (ann n1)) with (a_segs (annotate n1)).
      set (segs := a_segs (annotate n1)).
      destruct (segs_facts n1 Hc1) as (Hnd & Hsf & Hnn & _).
      fold segs in Hnd, Hsf, Hnn.
      (* explore accepts the sub-segments *)
      destruct (explore (q1 :: map fst W') q1 segs) as [f'|e] eqn:Eex.
      2:{ exfalso.
          destruct (proj1 (explore_rejects _ _ _ Hinv) (ex_intro _ e Eex))
            as [Hx|[(s & Hs & Hx)|[Hx|[Hx|(s1 & s2 & Hs1 & Hs2 & Hne & Hpre)]]]].
          - rewrite Hq1 in Hx. discriminate Hx.
          - destruct (Hsf s Hs) as (_ & Hok & _). rewrite Hok in Hx. discriminate Hx.
          - apply Hx. left. reflexivity.
          - apply Hx. exact Hnd.
          - apply Hne. apply Hnn; assumption. }
      destruct (explore_inv _ _ _ _ Hinv Eex) as [Hinv' Hmem].
      (* the new fog is the new work list *)
      assert (Hnot1 : forall q, In q (map fst W') -> q <> q1 /\ ~ is_prefix q1 q).
      { intros q Hq. assert (Hne : q <> q1).
        { intros ->. apply sorted_nlt_nodup in Hsorted. inversion Hsorted; contradiction. }
        split; [exact Hne|]. intro Hpre. apply Hne. symmetry.
        apply Hpf; [left; reflexivity|right; exact Hq|exact Hpre]. }
      assert (Hf' : f' = map fst (push q1 n1 ++ W')).
      { apply fg_sorted_ext.
        - apply Hinv'.
        - rewrite map_app, (push_fst q1 n1 Hwf1). fold segs. apply ssorted_app.
          + apply (ssorted_map nlt nlt (app q1) segs); [|apply segs_sorted_all].
            intros a b Hab. unfold nlt. rewrite ltb_app. exact Hab.
          + inversion Hsorted; assumption.
          + intros a b Ha Hb. apply in_map_iff in Ha as (s & <- & Hs).
            destruct (Hnot1 b Hb) as [_ Hnp]. unfold nlt.
            destruct (nibbles_ltb (q1 ++ s) b) eqn:El; [reflexivity|]. exfalso. apply Hnp.
            apply (fg_between_prefix q1 (q1 ++ s) b); [exists s; reflexivity| |exact El].
            inversion Hsorted as [|? ? _ Hall]; subst. rewrite Forall_forall in Hall. exact (Hall b Hb).
        - intro x. cbn [map fst] in Hmem.
          rewrite Hmem, map_app, (push_fst q1 n1 Hwf1), in_app_iff, (in_map_iff (app q1)). fold segs.
          split.
          + intros [[Hx Hne]|(s & Hs & ->)]; [destruct Hx as [Hx|Hx]|].
            * subst x. contradiction.
            * right. exact Hx.
            * left. exists s. split; [reflexivity|exact Hs].
          + intros [(s & <- & Hs)|Hx].
            * right. exists s. split; [exact Hs|reflexivity].
            * left. split; [right; exact Hx|apply (Hnot1 x Hx)]. }
      subst f'.
      set (c' := match segs with [] => fc_del c q1 | s0 :: l => fc_add c q1 (ann n1) (s0 :: l) end).
      assert (Hc'other : forall q, q <> q1 -> (forall s, In s segs -> q <> q1 ++ s) -> fc_get c' q = fc_get c q).
      { intros q Hq Hqs. unfold c'. destruct segs as [|s0 segs0] eqn:Esegs.
        - rewrite fc_get_del. destruct (nibbles_eqb q q1) eqn:E; [|reflexivity].
          apply nibbles_eqb_eq in E. contradiction.
        - apply fc_add_other; assumption. }
      assert (Hc'in : forall s, In s segs -> fc_get c' (q1 ++ s) = Some (ann n1, s)).
      { intros s Hs. unfold c'. destruct segs as [|s0 segs0] eqn:Esegs; [contradiction|].
        apply fc_add_in. exact Hs. }
      assert (Hpush : forall e, In e (push q1 n1) ->
                exists s c0, e = (q1 ++ s, c0) /\ In (s, c0) (kids n1) /\ In s segs).
      { intros e He. unfold push in He. apply in_map_iff in He as ([s c0] & <- & Hk).
        exists s, c0. split; [reflexivity|]. split; [exact Hk|].
        unfold segs. rewrite <- (kids_segs n1 Hwf1). apply (in_map fst) in Hk. exact Hk. }
      rewrite (IH (push q1 n1 ++ W') c').
      + rewrite out_of_step. reflexivity.
      + exact Hinv'.
      + apply Forall_app. split; [|exact Hent'].
        apply Forall_forall. intros e He. destruct (Hpush e He) as (s & c0 & -> & Hk & _).
        apply (entry_child q1 n1 s c0 Hq1 He1 Hk).
      + intros q n Hin. apply in_app_or in Hin as [Hin|Hin].
        * destruct (Hpush _ Hin) as (s & c0 & Heq & Hk & Hs). inversion Heq; subst q n.
          rewrite (Hc'in s Hs). cbn [h_raw ann_hnode].
          apply (entry_child q1 n1 s c0 Hq1 He1 Hk).
        * assert (Hq : In q (map fst W')) by (apply (in_map fst) in Hin; exact Hin).
          destruct (Hnot1 q Hq) as [Hne Hnp].
          rewrite Hc'other; [apply Hcache; right; exact Hin|exact Hne|].
          intros s _ ->. apply Hnp. exists s. reflexivity.
      + rewrite out_of_step in Hfuel. cbn [length] in Hfuel. lia.
  Qed.

  Theorem iter_nodes_refines : (length (tnodes t []) < nodes_fuel)%nat ->
    iter_all_nodes st = Ok (map (fun e : nibbles * node => (fst e, ann (snd e))) (tnodes t [])).
  Proof.
    intro Hfuel. unfold iter_all_nodes.
    assert (Ho : out_of [([], t)] = tnodes t []).
    { unfold out_of. cbn [flat_map fst snd]. apply app_nil_r. }
    pose proof (iter_nodes_work nodes_fuel [([], t)] []) as Hw. rewrite Ho in Hw. apply Hw.
    - exact fog_inv_init.
    - constructor; [|constructor]. split; [apply C08_root|exact Hcan].
    - intros q n _. exact I.
    - exact Hfuel.
  Qed.

  (* ---------------- 4. items() ---------------- *)
  Lemma items_of_nodes (L : list (nibbles * node)) :
    flat_map (fun e : nibbles * hnode =>
                match h_value (snd e) with
                | [] => []
                | v => [(fst e ++ h_suffix (snd e), v)]
                end) (map (fun e : nibbles * node => (fst e, ann (snd e))) L)
    = flat_map item_of L.
  Proof.
    rewrite flat_map_map. apply flat_map_ext_in. intros [q n] _. unfold item_of. cbn [fst snd].
    change (h_value (ann n)) with (a_value (annotate n)).
    change (h_suffix (ann n)) with (a_suffix (annotate n)).
    destruct (a_value (annotate n)); reflexivity.
  Qed.

  Theorem iter_items_refines : even_keys t -> (length (tnodes t []) < nodes_fuel)%nat ->
    iter_items st = Ok (bitems t).
  Proof.
    intros Hev Hfuel. unfold iter_items. rewrite (iter_nodes_refines Hfuel).
    rewrite items_of_nodes, <- titems_eq, (titems_contents t Hcan).
    apply rmapM_pack. intros k Hk. exact (contents_key_ok t k t_wf Hev Hk).
  Qed.

  (* ---------------- 2. next() ---------------- *)
  Definition sub_ok (n : node) : Prop := wf n = true /\ ext_ok n = true /\ good n.

  Lemma kid_ok n s c : sub_ok n -> In (s, c) (kids n) ->
    sub_ok c /\ run_read st (traverse_from BNH (enc H n) s) = Ok (ann c).
  Proof.
    intros (Hwf & Hex & Hg) Hin.
    destruct (kids_traverse n s c Hex Hin) as [Hne Hk].
    assert (Hsc : sub_ok c /\ nibs_ok s = true).
    { destruct n as [| p v | p c0 | cs v]; try contradiction.
      - destruct Hin as [Heq|[]]. inversion Heq; subst.
        cbn [wf] in Hwf. apply andb_true_iff in Hwf as [Hp Hwc].
        cbn [ext_ok] in Hex. apply andb_true_iff in Hex as [_ Hec].
        apply all_sub_ext in Hg as [_ Hgc]. repeat split; assumption.
      - cbn [kids] in Hin. destruct (kids_go_in _ _ _ _ Hin) as (k & Hs & Hn & Hl & _).
        assert (Hc : c = child cs (N.of_nat k)) by (unfold child; rewrite Nat2N.id; symmetry; exact Hn).
        pose proof Hwf as Hwf'. rewrite wf_branch in Hwf'. apply andb_true_iff in Hwf' as [Hlen _].
        apply Nat.eqb_eq in Hlen.
        split; [rewrite Hc; repeat split|].
        + exact (wf_child cs v _ Hwf).
        + exact (ext_ok_child cs v _ Hex).
        + exact (good_child H BNH m cs v _ Hg).
        + subst s. apply nibs_ok_cons_intro; [lia|reflexivity]. }
    destruct Hsc as [Hc Hs]. split; [exact Hc|].
    unfold run_read. rewrite (traverse_from_refines_good n s Hwf Hex Hg Hs).
    unfold traverse_spec, ttraverse. rewrite Hk. reflexivity.
  Qed.

  Lemma gnk_refines : forall fuel n tr, sub_ok n -> (depth n < fuel)%nat ->
    _get_next_key st fuel (ann n) tr = Ok (tnext_key n tr).
  Proof.
    induction fuel as [|f IH]; intros n tr Hok Hd; [lia|].
    cbn [_get_next_key]. rewrite tnext_key_kids.
    change (h_value (ann n)) with (a_value (annotate n)).
    change (h_suffix (ann n)) with (a_suffix (annotate n)).
    change (h_segs (ann n)) with (a_segs (annotate n)).
    change (h_raw (ann n)) with (enc H n).
    destruct (a_value (annotate n)) as [|v0 v']; [|reflexivity]. cbn [nonempty].
    rewrite <- (kids_segs n (proj1 Hok)).
    destruct (kids n) as [|[s c] ks] eqn:Ek; [reflexivity|]. cbn [map fst].
    assert (Hin : In (s, c) (kids n)) by (rewrite Ek; left; reflexivity).
    destruct (kid_ok n s c Hok Hin) as [Hc Hr]. rewrite Hr.
    apply IH; [exact Hc|]. pose proof (depth_kid n s c Hin). lia.
  Qed.

  Lemma gka_refines : forall fuel n key tr, sub_ok n -> (depth n < fuel)%nat ->
    _get_key_after st fuel (ann n) key tr = Ok (tkey_after n key tr).
  Proof.
    induction fuel as [|f IH]; intros n key tr Hok Hd; [lia|].
    rewrite gka_unfold, tkey_after_kids.
    change (h_segs (ann n)) with (a_segs (annotate n)).
    rewrite <- (kids_segs n (proj1 Hok)).
    assert (Hsub : forall e, In e (kids n) -> In e (kids n)) by (intros e He; exact He).
    revert Hsub. generalize (kids n) at 1 3 4 as ks.
    induction ks as [|[s c] ks IHks]; intro Hsub.
    - cbn [map kscan]. rewrite gka_scan_nil.
      change (h_suffix (ann n)) with (a_suffix (annotate n)).
      destruct (nibbles_ltb key (a_suffix (annotate n))); reflexivity.
    - cbn [map fst kscan]. rewrite gka_scan_cons.
      assert (Hin : In (s, c) (kids n)) by (apply Hsub; left; reflexivity).
      assert (IHks' := IHks (fun e He => Hsub e (or_intror He))).
      destruct (nibbles_ltb s (firstn (length s) key)); [exact IHks'|].
      change (h_raw (ann n)) with (enc H n).
      destruct (kid_ok n s c Hok Hin) as [Hc Hr]. rewrite Hr.
      pose proof (depth_kid n s c Hin) as Hdc.
      destruct (consume_common_prefix key s) as [[cm kr] sr]. destruct sr as [|x sr'].
      + rewrite (IH c kr (tr ++ s) Hc) by lia.
        destruct (tkey_after c kr (tr ++ s)); [reflexivity|exact IHks'].
      + apply gnk_refines; [exact Hc|lia].
  Qed.

  Lemma root_node_refines : run_read st (root_node BNH) = Ok (ann t).
  Proof.
    unfold run_read. rewrite (root_node_eq BNH m st (on_plain m r)). cbn [fst t_root plain].
    unfold proot_node. rewrite (root_raw_ok H BNH H_len BNH_def m r t Hrep Hdec Hnbc).
    apply (annotate_enc H H_len). exact t_wf.
  Qed.

  Lemma t_sub_ok : sub_ok t.
  Proof. split; [exact t_wf|split; [exact t_ext_ok|exact t_good]]. Qed.

  (* next() at database level is the tree-level _get_next_key / _get_key_after ... *)
  Theorem iter_next_first : even_keys t -> (depth t < iter_fuel)%nat ->
    iter_next st None = Ok (option_map pack_nibbles (tnext_key t [])).
  Proof.
    intros Hev Hd. unfold iter_next. rewrite root_node_refines.
    rewrite (gnk_refines iter_fuel t [] t_sub_ok Hd).
    destruct (tnext_key t []) as [ns|] eqn:En; [|reflexivity].
    rewrite (C10_next_first t Hcan) in En.
    pose proof (least_above_spec _ _ _ En) as [Hin _].
    destruct (contents_key_ok t ns t_wf Hev Hin) as [Hok Hk].
    rewrite (nibbles_to_bytes_even ns Hok Hk). reflexivity.
  Qed.

  Theorem iter_next_after k : even_keys t -> (depth t < iter_fuel)%nat ->
    iter_next st (Some k) = Ok (option_map pack_nibbles (tkey_after t (bytes_to_nibbles k) [])).
  Proof.
    intros Hev Hd. unfold iter_next. rewrite root_node_refines.
    rewrite (gka_refines iter_fuel t (bytes_to_nibbles k) [] t_sub_ok Hd).
    destruct (tkey_after t (bytes_to_nibbles k) []) as [ns|] eqn:En; [|reflexivity].
    rewrite (C10_next_after t _ Hcan (bytes_to_nibbles_ok k)) in En.
    pose proof (least_above_spec _ _ _ En) as [Hin _].
    destruct (contents_key_ok t ns t_wf Hev Hin) as [Hok Hk].
    rewrite (nibbles_to_bytes_even ns Hok Hk). reflexivity.
  Qed.

  (* ... hence the smallest stored key, and the least stored key strictly greater than k, in
     byte order *)
  Corollary iter_next_first_least : even_keys t -> (depth t < iter_fuel)%nat ->
    exists res, iter_next st None = Ok res /\
    match res with
    | Some k1 => tget t (bytes_to_nibbles k1) <> [] /\
                 forall k', tget t (bytes_to_nibbles k') <> [] -> k' = k1 \/ bytes_ltb k1 k' = true
    | None => forall k', tget t (bytes_to_nibbles k') = []
    end.
  Proof.
    intros Hev Hd. eexists. split; [apply (iter_next_first Hev Hd)|].
    pose proof (C10_next_first_least t Hcan) as Hl.
    destruct (tnext_key t []) as [ns|] eqn:En; cbn [option_map].
    - destruct Hl as (Hok & Hg & Hleast).
      assert (Hk : Nat.even (length ns) = true).
      { apply (contents_key_ok t ns t_wf Hev). apply in_map_iff. exists (ns, tget t ns).
        split; [reflexivity|]. apply (contents_spec t ns _ t_wf). repeat split; assumption. }
      rewrite (bytes_to_nibbles_pack ns Hok Hk). split; [exact Hg|].
      intros k' Hk'. destruct (Hleast _ (bytes_to_nibbles_ok k') Hk') as [Heq|Hlt].
      + left. rewrite <- Heq. symmetry. apply pack_bytes_to_nibbles.
      + right. rewrite bytes_ltb_nibbles, (bytes_to_nibbles_pack ns Hok Hk). exact Hlt.
    - intros k'. apply Hl. apply bytes_to_nibbles_ok.
  Qed.

  Corollary iter_next_after_least k : even_keys t -> (depth t < iter_fuel)%nat ->
    exists res, iter_next st (Some k) = Ok res /\
    match res with
    | Some k1 => tget t (bytes_to_nibbles k1) <> [] /\ bytes_ltb k k1 = true /\
                 forall k', tget t (bytes_to_nibbles k') <> [] -> bytes_ltb k k' = true ->
                            k' = k1 \/ bytes_ltb k1 k' = true
    | None => forall k', tget t (bytes_to_nibbles k') <> [] -> bytes_ltb k k' = false
    end.
  Proof.
    intros Hev Hd. eexists. split; [apply (iter_next_after k Hev Hd)|].
    pose proof (C10_next_after_least t _ Hcan (bytes_to_nibbles_ok k)) as Hl.
    destruct (tkey_after t (bytes_to_nibbles k) []) as [ns|] eqn:En; cbn [option_map].
    - destruct Hl as (Hok & Hg & Hgt & Hleast).
      assert (Hk : Nat.even (length ns) = true).
      { apply (contents_key_ok t ns t_wf Hev). apply in_map_iff. exists (ns, tget t ns).
        split; [reflexivity|]. apply (contents_spec t ns _ t_wf). repeat split; assumption. }
      rewrite !bytes_ltb_nibbles, (bytes_to_nibbles_pack ns Hok Hk).
      split; [exact Hg|]. split; [exact Hgt|].
      intros k' Hk' Hlt'. rewrite bytes_ltb_nibbles in Hlt'.
      destruct (Hleast _ (bytes_to_nibbles_ok k') Hk' Hlt') as [Heq|Hlt].
      + left. rewrite <- Heq. symmetry. apply pack_bytes_to_nibbles.
      + right. rewrite bytes_ltb_nibbles, (bytes_to_nibbles_pack ns Hok Hk). exact Hlt.
    - intros k' Hk'. rewrite bytes_ltb_nibbles. apply Hl; [apply bytes_to_nibbles_ok|exact Hk'].
  Qed.
End WalkRefine.

(* ================================================================== *)
(* Non-vacuity: the example tree of Refine_read.v under Keccak-256 *)
Section KeccakExample.
  Lemma BNH_K : BNH = K (rlp_encode (RStr [])).
  Proof. vm_compute. reflexivity. Qed.

  Lemma ex_BNH : BNH = BN.
  Proof. vm_compute. reflexivity. Qed.

  Lemma ex_nbc : no_blank_collision K BNH ex_t.
  Proof. rewrite ex_BNH. exact ex_no_blank_collision. Qed.

  Lemma ex_even : even_keys ex_t.
  Proof. vm_compute. reflexivity. Qed.

  Example ex_iter_nodes :
    iter_all_nodes (plain ex_m ex_r) =
    Ok (map (fun e : nibbles * node => (fst e, ann_hnode K (snd e))) (tnodes ex_t [])).
  Proof.
    apply (iter_nodes_refines K K_len BNH_K ex_m ex_r ex_t ex_represents); [reflexivity|exact ex_decodable|exact ex_nbc|].
    vm_compute. lia.
  Qed.

  Example ex_iter_items : iter_items (plain ex_m ex_r) = Ok (bitems ex_t).
  Proof.
    apply (iter_items_refines K K_len BNH_K ex_m ex_r ex_t ex_represents); [reflexivity|exact ex_decodable|exact ex_nbc|exact ex_even|].
    vm_compute. lia.
  Qed.

  Example ex_iter_next k :
    iter_next (plain ex_m ex_r) (Some k) = Ok (option_map pack_nibbles (tkey_after ex_t (bytes_to_nibbles k) [])).
  Proof.
    apply (iter_next_after K K_len BNH_K ex_m ex_r ex_t ex_represents); [reflexivity|exact ex_decodable|exact ex_nbc|exact ex_even|].
    vm_compute. lia.
  Qed.

  (* evaluated directly *)
  Example ex_iter_eval :
    iter_items (plain ex_m ex_r) =
      Ok [([], [x76]); ([x12; x34], repeat x61 40); ([x56], [x62]); ([xab; xc0], [x63]);
          ([xab; xcf; x12], repeat x64 33)] /\
    rmap (map fst) (iter_all_nodes (plain ex_m ex_r)) =
      Ok [[]; [1]; [5]; [10]; [10; 11; 12]; [10; 11; 12; 0]; [10; 11; 12; 15]] /\
    iter_next (plain ex_m ex_r) None = Ok (Some []) /\
    iter_next (plain ex_m ex_r) (Some [x56]) = Ok (Some [xab; xc0]) /\
    iter_next (plain ex_m ex_r) (Some [xab; xcf; x12]) = Ok None.
  Proof. vm_compute. repeat split. Qed.

  (* [even_keys] is needed: a key of odd nibble length (not expressible through the byte API)
     is listed by nodes() but makes items() and next() raise in nibbles_to_bytes *)
  Definition cx_odd_t : node := NLeaf [1] [x61].
  Example cx_odd :
    canonical_top cx_odd_t = true /\
    represents K (store_of_tree K cx_odd_t) (troot K cx_odd_t) cx_odd_t /\
    decodable K cx_odd_t /\ no_blank_collision K BNH cx_odd_t /\
    iter_items (plain (store_of_tree K cx_odd_t) (troot K cx_odd_t)) = Err EInvalidNibbles /\
    iter_next (plain (store_of_tree K cx_odd_t) (troot K cx_odd_t)) None = Err EInvalidNibbles /\
    rmap (map fst) (iter_all_nodes (plain (store_of_tree K cx_odd_t) (troot K cx_odd_t))) = Ok [[]].
  Proof.
    split; [reflexivity|]. split; [|split; [|split; [|split; [|split]]]].
    - split; [reflexivity|]. split; [right; vm_compute; reflexivity|].
      split; [|exact I]. intro Hl. vm_compute in Hl. discriminate Hl.
    - split; [|exact I]. vm_compute. reflexivity.
    - split; [intros _; vm_compute; intro E; discriminate E|].
      split; [|exact I]. intro Hl. vm_compute in Hl. discriminate Hl.
    - vm_compute. reflexivity.
    - vm_compute. reflexivity.
    - vm_compute. reflexivity.
  Qed.
End KeccakExample.

Check traverse_from_refines.
Check traverse_from_is_traverse.
Check iter_nodes_refines.
Check iter_items_refines.
Check iter_next_first.
Check iter_next_after.
Check iter_next_first_least.
Check iter_next_after_least.
Check even_keys_trun.
Check bitems_nibbles.
Check bitems_sorted.
Check bitems_spec.
Print Assumptions traverse_from_refines.
Print Assumptions traverse_from_is_traverse.
Print Assumptions iter_nodes_refines.
Print Assumptions iter_items_refines.
Print Assumptions iter_next_first.
Print Assumptions iter_next_after.
Print Assumptions iter_next_first_least.
Print Assumptions iter_next_after_least.
Print Assumptions even_keys_trun.
Print Assumptions bitems_nibbles.
Print Assumptions bitems_sorted.
Print Assumptions bitems_spec.
Print Assumptions ex_iter_nodes.
Print Assumptions ex_iter_items.
Print Assumptions ex_iter_next.
Print Assumptions ex_iter_eval.
Print Assumptions cx_odd.
