(* Fog/TWalk.v — the fog-guided walk at tree level, as a labelled transition system whose
   schedule is arbitrary: which unexplored prefix is taken (any query, any key), which version
   of the trie the traversal reads (the current one, or an older one through a stale
   TrieFrontierCache entry — by C08_from a traverse_from through a cached node describes the
   cached version at that prefix), and where the trie is mutated.  Definitions only. *)
From Coq Require Import List NArith ZArith Bool.
From PyTrie.Base Require Import Bytes Result Nibbles.
From PyTrie.Hexary Require Import Raw Tree TreeTraverse.
From PyTrie.Fog Require Import Fog.
Import ListNotations.

Record twalk := mkTW {
  tw_versions : list node;          (* every version the trie has had since the walk began, newest first *)
  tw_fog : fog;
  tw_met : bindings }.              (* (key nibbles, value) pairs met so far *)

Inductive tevent :=
| EStep (p : nibbles) (version : nat)     (* take prefix p; describe it in version number [version] (0 = current) *)
| EMutate (o : top).                      (* set / delete on the current version *)

Definition current (w : twalk) : node := hd NBlank (tw_versions w).

(* one walk step at prefix p reading version t: explore with the sub-segments of the
   (possibly simulated) node, record its value if it has one *)
Definition tstep_at (w : twalk) (p : nibbles) (t : node) : option twalk :=
  let a := describe t p in
  match explore (tw_fog w) p (a_segs a) with
  | Err _ => None
  | Ok f' =>
      Some (mkTW (tw_versions w) f'
                 (if nonempty (a_value a) then tw_met w ++ [(p ++ a_suffix a, a_value a)] else tw_met w))
  end.

Definition tevent_step (w : twalk) (e : tevent) : option twalk :=
  match e with
  | EStep p i =>
      match nth_error (tw_versions w) i with
      | Some t => tstep_at w p t
      | None => None
      end
  | EMutate o => Some (mkTW (tapply (current w) o :: tw_versions w) (tw_fog w) (tw_met w))
  end.

(* a schedule is any list of events; events that are not enabled (prefix not in the fog,
   version out of range) make the run undefined *)
Fixpoint trun_walk (w : twalk) (s : list tevent) : option twalk :=
  match s with
  | [] => Some w
  | e :: s' => match tevent_step w e with Some w' => trun_walk w' s' | None => None end
  end.

Definition twalk_init (t : node) : twalk := mkTW [t] fog_init [].

(* potential used for termination: sum over the fog of 17^(L+1-|p|) *)
Fixpoint pow17 (n : nat) : N := match n with O => 1%N | S n' => (17 * pow17 n')%N end.
Definition fog_potential (L : nat) (f : fog) : N :=
  fold_left (fun acc (p : nibbles) => (acc + pow17 (S L - length p))%N) f 0%N.
