(* Fog/Fog_proofs.v — property C11: the HexaryTrieFog model of Fog/Fog.v.

   Main results (all closed under the global context):
     fog_inv_init, explore_inv, explore_rejects, explore_commute, mark_all_complete_spec,
     is_complete_iff, serialize_roundtrip, nearest_unknown_spec, nearest_right_spec,
     reachable_inv, fstep_inv / frun_state_inv (every state of the C11 operation language
     satisfies the invariant).

   "Rejected without effect": [explore] and [mark_all_complete] are pure functions that
   return [Err e] instead of a new fog; the old fog value is untouched by construction
   (and [fstep] keeps the old state on [Err]). *)
From Coq Require Import List NArith ZArith Bool Lia ZifyBool Sorted Arith.
From PyTrie.Base Require Import Bytes Result Nibbles Bytes_proofs.
From PyTrie.Fog Require Import Fog.
Import ListNotations.
Open Scope N_scope.

(* ------------------------------------------------------------------ *)
(* nibble-tuple equality and order *)

Definition nlt (a b : nibbles) : Prop := nibbles_ltb a b = true.

Lemma fg_eqb_eq a : forall b, nibbles_eqb a b = true <-> a = b.
Proof.
  induction a as [|x a IH]; intros [|y b]; cbn [nibbles_eqb]; split; intro H;
    try reflexivity; try discriminate.
  - apply andb_true_iff in H as [H1 H2]. apply N.eqb_eq in H1. apply IH in H2. congruence.
  - injection H as -> ->. rewrite N.eqb_refl. cbn [andb]. apply IH. reflexivity.
Qed.

Lemma fg_eqb_refl a : nibbles_eqb a a = true.
Proof. apply fg_eqb_eq; reflexivity. Qed.

Lemma fg_eqb_neq a b : nibbles_eqb a b = false <-> a <> b.
Proof.
  split.
  - intros Hf Heq. apply fg_eqb_eq in Heq. congruence.
  - intro Hn. destruct (nibbles_eqb a b) eqn:E; [|reflexivity].
    apply fg_eqb_eq in E. contradiction.
Qed.

Lemma fg_nib_eq_dec (a b : nibbles) : {a = b} + {a <> b}.
Proof.
  destruct (nibbles_eqb a b) eqn:E.
  - left; apply fg_eqb_eq; exact E.
  - right; apply fg_eqb_neq; exact E.
Qed.

Lemma fg_ltb_irrefl a : nibbles_ltb a a = false.
Proof.
  induction a as [|x a IH]; cbn [nibbles_ltb]; [reflexivity|].
  rewrite N.ltb_irrefl. exact IH.
Qed.

Lemma fg_ltb_trans a : forall b c,
  nibbles_ltb a b = true -> nibbles_ltb b c = true -> nibbles_ltb a c = true.
Proof.
  induction a as [|x a IH]; intros [|y b] [|z c] H1 H2; cbn [nibbles_ltb] in *;
    try discriminate; try reflexivity.
  destruct (N.ltb_spec x y) as [Hxy|Hxy], (N.ltb_spec y x) as [Hyx|Hyx],
           (N.ltb_spec y z) as [Hyz|Hyz], (N.ltb_spec z y) as [Hzy|Hzy],
           (N.ltb_spec x z) as [Hxz|Hxz], (N.ltb_spec z x) as [Hzx|Hzx];
    try lia; try discriminate; try reflexivity.
  eapply IH; eassumption.
Qed.

Lemma fg_ltb_asym a : forall b, nibbles_ltb a b = true -> nibbles_ltb b a = false.
Proof.
  intros b H. destruct (nibbles_ltb b a) eqn:E; [|reflexivity].
  pose proof (fg_ltb_trans _ _ _ H E) as Haa. rewrite fg_ltb_irrefl in Haa. discriminate.
Qed.

Lemma fg_ltb_total a : forall b,
  nibbles_ltb a b = false -> nibbles_ltb b a = false -> a = b.
Proof.
  induction a as [|x a IH]; intros [|y b] H1 H2; cbn [nibbles_ltb] in *;
    try discriminate; try reflexivity.
  destruct (N.ltb_spec x y) as [Hxy|Hxy], (N.ltb_spec y x) as [Hyx|Hyx];
    try lia; try discriminate.
  assert (x = y) as -> by lia. f_equal. apply IH; assumption.
Qed.

(* trichotomy with nibbles_eqb *)
Lemma fg_ltb_trichotomy a b :
  (nibbles_ltb a b = true /\ nibbles_eqb a b = false /\ nibbles_ltb b a = false) \/
  (nibbles_ltb a b = false /\ nibbles_eqb a b = true /\ nibbles_ltb b a = false) \/
  (nibbles_ltb a b = false /\ nibbles_eqb a b = false /\ nibbles_ltb b a = true).
Proof.
  destruct (nibbles_ltb a b) eqn:E1.
  - left. split; [reflexivity|]. split; [|apply fg_ltb_asym; exact E1].
    apply fg_eqb_neq. intros ->. rewrite fg_ltb_irrefl in E1. discriminate.
  - destruct (nibbles_ltb b a) eqn:E2.
    + right; right. split; [reflexivity|]. split; [|reflexivity].
      apply fg_eqb_neq. intros ->. rewrite fg_ltb_irrefl in E2. discriminate.
    + right; left. split; [reflexivity|]. split; [|reflexivity].
      apply fg_eqb_eq. apply fg_ltb_total; assumption.
Qed.

(* ------------------------------------------------------------------ *)
(* prefixes *)

Definition is_prefix (a b : nibbles) : Prop := exists r, b = a ++ r.

Lemma fg_prefix_refl a : is_prefix a a.
Proof. exists []. symmetry; apply app_nil_r. Qed.

Lemma fg_prefix_nil a : is_prefix [] a.
Proof. exists a. reflexivity. Qed.

Lemma fg_prefix_cons x a y b : is_prefix (x :: a) (y :: b) <-> x = y /\ is_prefix a b.
Proof.
  split.
  - intros [r Hr]. cbn in Hr. injection Hr as -> ->. split; [reflexivity|]. exists r; reflexivity.
  - intros [-> [r ->]]. exists r. reflexivity.
Qed.

Lemma fg_prefix_app p a b : is_prefix (p ++ a) (p ++ b) <-> is_prefix a b.
Proof.
  split.
  - intros [r Hr]. rewrite <- app_assoc in Hr. apply app_inv_head in Hr. exists r; exact Hr.
  - intros [r ->]. exists r. apply app_assoc.
Qed.

Lemma fg_prefix_trans a b c : is_prefix a b -> is_prefix b c -> is_prefix a c.
Proof. intros [r ->] [s ->]. exists (r ++ s). symmetry; apply app_assoc. Qed.

(* two prefixes of the same tuple are comparable *)
Lemma fg_prefix_comparable a : forall b c,
  is_prefix a c -> is_prefix b c -> is_prefix a b \/ is_prefix b a.
Proof.
  induction a as [|x a IH]; intros b c Ha Hb.
  - left; apply fg_prefix_nil.
  - destruct b as [|y b]; [right; apply fg_prefix_nil|].
    destruct c as [|z c].
    + destruct Ha as [r Hr]; discriminate.
    + apply fg_prefix_cons in Ha as [-> Ha]. apply fg_prefix_cons in Hb as [-> Hb].
      destruct (IH _ _ Ha Hb) as [H|H]; [left|right]; apply fg_prefix_cons; auto.
Qed.

Lemma fg_prefix_not_gt a : forall b, is_prefix a b -> nibbles_ltb b a = false.
Proof.
  induction a as [|x a IH]; intros b Hp.
  - destruct b; reflexivity.
  - destruct b as [|y b]; [destruct Hp as [r Hr]; discriminate|].
    apply fg_prefix_cons in Hp as [-> Hp]. cbn [nibbles_ltb].
    rewrite N.ltb_irrefl. apply IH; exact Hp.
Qed.

Lemma fg_prefix_lt a b : is_prefix a b -> a <> b -> nibbles_ltb a b = true.
Proof.
  intros Hp Hne. destruct (nibbles_ltb a b) eqn:E; [reflexivity|].
  exfalso; apply Hne. apply fg_ltb_total; [exact E|]. apply fg_prefix_not_gt; exact Hp.
Qed.

(* the key fact: anything strictly above a prefix p of k but not above k starts with p *)
Lemma fg_between_prefix p : forall k m,
  is_prefix p k -> nibbles_ltb p m = true -> nibbles_ltb k m = false -> is_prefix p m.
Proof.
  induction p as [|a p IH]; intros k m Hp Hpm Hkm.
  - apply fg_prefix_nil.
  - destruct k as [|b k]; [destruct Hp as [r Hr]; discriminate|].
    apply fg_prefix_cons in Hp as [<- Hp].
    destruct m as [|c m]; [discriminate|].
    cbn [nibbles_ltb] in Hpm, Hkm.
    destruct (N.ltb_spec a c) as [Hac|Hac]; [discriminate|].
    destruct (N.ltb_spec c a) as [Hca|Hca]; [discriminate|].
    assert (a = c) as -> by lia. apply fg_prefix_cons. split; [reflexivity|].
    eapply IH; eassumption.
Qed.

Lemma fg_starts_with_iff p : forall k, key_starts_with k p = true <-> is_prefix p k.
Proof.
  induction p as [|a p IH]; intros k.
  - split; intro; [apply fg_prefix_nil|destruct k; reflexivity].
  - destruct k as [|b k]; cbn [key_starts_with].
    + split; [discriminate|]. intros [r Hr]; discriminate.
    + rewrite andb_true_iff, N.eqb_eq, IH, fg_prefix_cons. split; intros [H1 H2]; auto.
Qed.

Lemma fg_nibs_ok_app a b : nibs_ok (a ++ b) = nibs_ok a && nibs_ok b.
Proof. unfold nibs_ok. apply forallb_app. Qed.

(* ------------------------------------------------------------------ *)
(* sorted lists *)

Lemma fg_sorted_ext (l1 : list nibbles) : forall l2,
  StronglySorted nlt l1 -> StronglySorted nlt l2 ->
  (forall x, In x l1 <-> In x l2) -> l1 = l2.
Proof.
  induction l1 as [|a l1 IH]; intros [|b l2] S1 S2 Hin.
  - reflexivity.
  - exfalso. apply (Hin b). left; reflexivity.
  - exfalso. apply (Hin a). left; reflexivity.
  - apply StronglySorted_inv in S1 as [S1 F1]. apply StronglySorted_inv in S2 as [S2 F2].
    rewrite Forall_forall in F1, F2.
    assert (a = b) as Hab.
    { destruct (proj1 (Hin a) (or_introl eq_refl)) as [Hba|Ha]; [congruence|].
      destruct (proj2 (Hin b) (or_introl eq_refl)) as [Hba|Hb]; [congruence|].
      pose proof (fg_ltb_trans _ _ _ (F1 _ Hb) (F2 _ Ha)) as Haa.
      rewrite fg_ltb_irrefl in Haa. discriminate. }
    subst b. f_equal. apply IH; [exact S1|exact S2|].
    intro x. split; intro Hx.
    + destruct (proj1 (Hin x) (or_intror Hx)) as [Hax|Hx2]; [|exact Hx2].
      subst x. pose proof (F1 _ Hx) as Haa. unfold nlt in Haa. rewrite fg_ltb_irrefl in Haa. discriminate.
    + destruct (proj2 (Hin x) (or_intror Hx)) as [Hax|Hx2]; [|exact Hx2].
      subst x. pose proof (F2 _ Hx) as Haa. unfold nlt in Haa. rewrite fg_ltb_irrefl in Haa. discriminate.
Qed.

Lemma fg_sorted_app (l : list nibbles) : forall m r,
  StronglySorted nlt (l ++ m :: r) ->
  Forall (fun x => nlt x m) l /\ Forall (nlt m) r.
Proof.
  induction l as [|a l IH]; intros m r S; cbn [app] in S.
  - apply StronglySorted_inv in S as [_ F]. split; [constructor|exact F].
  - apply StronglySorted_inv in S as [S F]. destruct (IH _ _ S) as [H1 H2].
    split; [|exact H2]. constructor; [|exact H1].
    rewrite Forall_forall in F. apply F. apply in_or_app. right; left; reflexivity.
Qed.

Lemma fg_mem_in p f : fog_mem p f = true <-> In p f.
Proof.
  induction f as [|q f IH]; cbn [fog_mem In].
  - split; [discriminate|tauto].
  - rewrite orb_true_iff, IH, fg_eqb_eq. split; intros [H|H]; auto.
Qed.

Lemma fg_mem_false p f : fog_mem p f = false <-> ~ In p f.
Proof.
  rewrite <- fg_mem_in. destruct (fog_mem p f); split; intro H.
  - discriminate H.
  - exfalso; apply H; reflexivity.
  - intro H'; discriminate H'.
  - reflexivity.
Qed.

Lemma fg_remove_incl p f x : In x (fog_remove p f) -> In x f.
Proof.
  induction f as [|q f IH]; cbn [fog_remove]; [tauto|].
  destruct (nibbles_eqb p q) eqn:E; cbn [In]; intro H; [right; exact H|].
  destruct H as [H|H]; [left; exact H|right; apply IH; exact H].
Qed.

Lemma fg_remove_sorted p f : StronglySorted nlt f -> StronglySorted nlt (fog_remove p f).
Proof.
  induction f as [|q f IH]; cbn [fog_remove]; intro S; [constructor|].
  apply StronglySorted_inv in S as [S F].
  destruct (nibbles_eqb p q) eqn:E; [exact S|].
  constructor; [apply IH; exact S|].
  rewrite Forall_forall in *. intros x Hx. apply F. eapply fg_remove_incl; exact Hx.
Qed.

Lemma fg_remove_in p f x : StronglySorted nlt f ->
  (In x (fog_remove p f) <-> In x f /\ x <> p).
Proof.
  induction f as [|q f IH]; cbn [fog_remove]; intro S; [cbn; tauto|].
  apply StronglySorted_inv in S as [S F]. rewrite Forall_forall in F.
  destruct (nibbles_eqb p q) eqn:E.
  - apply fg_eqb_eq in E. subst q. cbn [In]. split.
    + intro Hx. split; [right; exact Hx|]. intros ->.
      pose proof (F _ Hx) as Hpp. unfold nlt in Hpp. rewrite fg_ltb_irrefl in Hpp. discriminate.
    + intros [[Hx|Hx] Hne]; [congruence|exact Hx].
  - apply fg_eqb_neq in E. cbn [In]. rewrite (IH S). split.
    + intros [Hx|[Hx Hne]]; [|tauto]. subst x. split; [left; reflexivity|congruence].
    + intros [[Hx|Hx] Hne]; [left; exact Hx|right; tauto].
Qed.

Lemma fg_insert_in p f x : In x (fog_insert p f) <-> x = p \/ In x f.
Proof.
  induction f as [|q f IH]; cbn [fog_insert].
  - cbn. split; intros [H|H]; auto.
  - destruct (nibbles_eqb p q) eqn:E.
    + apply fg_eqb_eq in E. subst q. cbn [In]. split; [tauto|].
      intros [H|H]; [left; congruence|exact H].
    + destruct (nibbles_ltb p q) eqn:E2.
      * cbn [In]. split; intros [H|H]; auto.
      * cbn [In]. rewrite IH. tauto.
Qed.

Lemma fg_insert_sorted p f : StronglySorted nlt f -> StronglySorted nlt (fog_insert p f).
Proof.
  induction f as [|q f IH]; cbn [fog_insert]; intro S.
  - constructor; constructor.
  - destruct (nibbles_eqb p q) eqn:E; [exact S|].
    pose proof S as S0. apply StronglySorted_inv in S as [S F].
    destruct (nibbles_ltb p q) eqn:E2.
    + constructor; [exact S0|]. constructor; [exact E2|].
      rewrite Forall_forall in *. intros x Hx. eapply fg_ltb_trans; [exact E2|apply F; exact Hx].
    + constructor; [apply IH; exact S|].
      rewrite Forall_forall in *. intros x Hx. apply fg_insert_in in Hx as [->|Hx]; [|apply F; exact Hx].
      destruct (fg_ltb_trichotomy p q) as [[H _]|[[_ [H _]]|[_ [_ H]]]]; [congruence|congruence|exact H].
Qed.

Lemma fg_fold_insert_in p segs : forall acc x,
  In x (fold_left (fun acc s => fog_insert (p ++ s) acc) segs acc) <->
  In x acc \/ exists s, In s segs /\ x = p ++ s.
Proof.
  induction segs as [|s segs IH]; intros acc x; cbn [fold_left].
  - split; [auto|]. intros [H|[s [[] _]]]. exact H.
  - rewrite IH, fg_insert_in. split.
    + intros [[H|H]|[s' [Hs' Hx]]].
      * right. exists s. split; [left; reflexivity|exact H].
      * left; exact H.
      * right. exists s'. split; [right; exact Hs'|exact Hx].
    + intros [H|[s' [[Hs'|Hs'] Hx]]].
      * left; right; exact H.
      * subst s'. left; left; exact Hx.
      * right. exists s'. split; assumption.
Qed.

Lemma fg_fold_insert_sorted (g : nibbles -> nibbles) segs : forall acc,
  StronglySorted nlt acc ->
  StronglySorted nlt (fold_left (fun acc s => fog_insert (g s) acc) segs acc).
Proof.
  induction segs as [|s segs IH]; intros acc S; cbn [fold_left]; [exact S|].
  apply IH. apply fg_insert_sorted. exact S.
Qed.

Lemma fg_fold_insert_in_gen (g : nibbles -> nibbles) segs : forall acc x,
  In x (fold_left (fun acc s => fog_insert (g s) acc) segs acc) <->
  In x acc \/ exists s, In s segs /\ x = g s.
Proof.
  induction segs as [|s segs IH]; intros acc x; cbn [fold_left].
  - split; [auto|]. intros [H|[s [[] _]]]. exact H.
  - rewrite IH, fg_insert_in. split.
    + intros [[H|H]|[s' [Hs' Hx]]].
      * right. exists s. split; [left; reflexivity|exact H].
      * left; exact H.
      * right. exists s'. split; [right; exact Hs'|exact Hx].
    + intros [H|[s' [[Hs'|Hs'] Hx]]].
      * left; right; exact H.
      * subst s'. left; left; exact Hx.
      * right. exists s'. split; assumption.
Qed.

(* ------------------------------------------------------------------ *)
(* the argument checks of explore *)

Lemma fg_has_dup_false l : has_dup l = false <-> NoDup l.
Proof.
  induction l as [|x l IH]; cbn [has_dup].
  - split; [constructor|reflexivity].
  - rewrite orb_false_iff, IH, fg_mem_false. split.
    + intros [H1 H2]. constructor; assumption.
    + intro H. inversion H as [|y l' H1 H2]; subst. split; assumption.
Qed.

Lemma fg_has_dup_true l : has_dup l = true <-> ~ NoDup l.
Proof.
  rewrite <- fg_has_dup_false. destruct (has_dup l); split; intro H.
  - intro H'; discriminate H'.
  - reflexivity.
  - discriminate H.
  - exfalso; apply H; reflexivity.
Qed.

Lemma fg_two_members (l : list nat) a b : In a l -> In b l -> a <> b -> (2 <= length l)%nat.
Proof.
  destruct l as [|x [|y l]]; cbn [In length]; intros Ha Hb Hne.
  - destruct Ha.
  - exfalso. destruct Ha as [Ha|[]], Hb as [Hb|[]]. congruence.
  - lia.
Qed.

Lemma fg_nested_iff segs :
  nested_segment segs = true <->
  exists s1 s2, In s1 segs /\ In s2 segs /\ s1 <> s2 /\ is_prefix s1 s2.
Proof.
  unfold nested_segment. split.
  - destruct (Nat.leb (length (distinct_lengths segs)) 1) eqn:El; [discriminate|].
    intro H. apply existsb_exists in H as [seg [Hseg H]].
    apply existsb_exists in H as [cl [Hcl H]].
    apply andb_true_iff in H as [Hlt Hm]. apply Nat.ltb_lt in Hlt. apply fg_mem_in in Hm.
    exists (firstn cl seg), seg. split; [exact Hm|]. split; [exact Hseg|]. split.
    + intro Heq. apply (f_equal (@length N)) in Heq. rewrite firstn_length_le in Heq by lia. lia.
    + exists (skipn cl seg). symmetry. apply firstn_skipn.
  - intros [s1 [s2 [H1 [H2 [Hne [r Hr]]]]]].
    assert (length s1 < length s2)%nat as Hlen.
    { subst s2. rewrite app_length. destruct r as [|x r]; [|cbn [length]; lia].
      exfalso; apply Hne. symmetry; apply app_nil_r. }
    assert (In (length s1) (distinct_lengths segs)) as L1.
    { unfold distinct_lengths. apply nodup_In. apply in_map. exact H1. }
    assert (In (length s2) (distinct_lengths segs)) as L2.
    { unfold distinct_lengths. apply nodup_In. apply in_map. exact H2. }
    pose proof (fg_two_members _ _ _ L1 L2 ltac:(lia)) as Hge.
    destruct (Nat.leb (length (distinct_lengths segs)) 1) eqn:El; [apply Nat.leb_le in El; lia|].
    apply existsb_exists. exists s2. split; [exact H2|].
    apply existsb_exists. exists (length s1). split; [exact L1|].
    apply andb_true_iff. split; [apply Nat.ltb_lt; exact Hlen|].
    apply fg_mem_in. subst s2. rewrite firstn_app, firstn_all, Nat.sub_diag. cbn [firstn].
    rewrite app_nil_r. exact H1.
Qed.

Lemma fg_nested_false segs :
  nested_segment segs = false ->
  forall s1 s2, In s1 segs -> In s2 segs -> is_prefix s1 s2 -> s1 = s2.
Proof.
  intros Hn s1 s2 H1 H2 Hp. destruct (fg_nib_eq_dec s1 s2) as [Heq|Hne]; [exact Heq|].
  exfalso. assert (nested_segment segs = true) as Ht.
  { apply fg_nested_iff. exists s1, s2. auto. }
  congruence.
Qed.

Lemma fg_rmapM_as_nibbles segs :
  rmapM as_nibbles segs = if forallb nibs_ok segs then Ok segs else Err EValueError.
Proof.
  induction segs as [|s segs IH]; cbn [rmapM forallb]; [reflexivity|].
  unfold as_nibbles at 1. destruct (nibs_ok s); cbn [andb]; [|reflexivity].
  rewrite IH. destruct (forallb nibs_ok segs); reflexivity.
Qed.

Lemma fg_forallb_false (segs : list nibbles) :
  forallb nibs_ok segs = false <-> exists s, In s segs /\ nibs_ok s = false.
Proof.
  induction segs as [|s segs IH]; cbn [forallb].
  - split; [discriminate|]. intros [s [[] _]].
  - rewrite andb_false_iff, IH. split.
    + intros [H|[s' [H1 H2]]]; [exists s; split; [left; reflexivity|exact H]|].
      exists s'. split; [right; exact H1|exact H2].
    + intros [s' [[H1|H1] H2]]; [left; congruence|right; exists s'; auto].
Qed.

Definition explore_result (f : fog) (p : nibbles) (segs : list nibbles) : fog :=
  fold_left (fun acc s => fog_insert (p ++ s) acc) segs (fog_remove p f).

Lemma fg_explore_unfold f p segs :
  explore f p segs =
  if nibs_ok p then
    if forallb nibs_ok segs then
      if negb (fog_mem p f) then Err EValidation
      else if has_dup segs then Err EValidation
      else if nested_segment segs then Err EValidation
      else Ok (explore_result f p segs)
    else Err EValueError
  else Err EValueError.
Proof.
  unfold explore, as_nibbles at 1. destruct (nibs_ok p); cbn [rbind]; [|reflexivity].
  rewrite fg_rmapM_as_nibbles. destruct (forallb nibs_ok segs); cbn [rbind]; reflexivity.
Qed.

Lemma fg_explore_ok f p segs f' :
  explore f p segs = Ok f' <->
  (nibs_ok p = true /\ forallb nibs_ok segs = true /\ fog_mem p f = true /\
   has_dup segs = false /\ nested_segment segs = false) /\ f' = explore_result f p segs.
Proof.
  rewrite fg_explore_unfold.
  destruct (nibs_ok p), (forallb nibs_ok segs), (fog_mem p f), (has_dup segs), (nested_segment segs);
    cbn [negb]; split; try discriminate; try (intros [[? [? [? [? ?]]]] ?]; discriminate).
  - intro H. injection H as <-. repeat split.
  - intros [_ ->]. reflexivity.
Qed.

Lemma fg_explore_err f p segs :
  (exists e, explore f p segs = Err e) <->
  (nibs_ok p = false \/ forallb nibs_ok segs = false \/ fog_mem p f = false \/
   has_dup segs = true \/ nested_segment segs = true).
Proof.
  rewrite fg_explore_unfold.
  destruct (nibs_ok p), (forallb nibs_ok segs), (fog_mem p f), (has_dup segs), (nested_segment segs);
    cbn [negb]; split; intro H; try (eexists; reflexivity); try tauto.
  - destruct H as [e He]. discriminate He.
  - exfalso. destruct H as [H|[H|[H|[H|H]]]]; discriminate H.
Qed.

(* ------------------------------------------------------------------ *)
(* the invariant *)

Definition fog_inv (f : fog) : Prop :=
  StronglySorted (fun a b => nibbles_ltb a b = true) f /\
  Forall (fun p => nibs_ok p = true) f /\
  (forall a b, In a f -> In b f -> is_prefix a b -> a = b).

Lemma fog_inv_init : fog_inv fog_init.
Proof.
  unfold fog_init. split; [|split].
  - constructor; constructor.
  - constructor; [reflexivity|constructor].
  - intros a b [<-|[]] [<-|[]] _. reflexivity.
Qed.

Lemma fg_explore_result_in f p segs x : StronglySorted nlt f ->
  (In x (explore_result f p segs) <->
   (In x f /\ x <> p) \/ (exists s, In s segs /\ x = p ++ s)).
Proof.
  intro S. unfold explore_result. rewrite fg_fold_insert_in, (fg_remove_in p f x S). tauto.
Qed.

Theorem explore_inv f p segs f' : fog_inv f -> explore f p segs = Ok f' ->
  fog_inv f' /\
  (forall x, In x f' <-> (In x f /\ x <> p) \/ (exists s, In s segs /\ x = p ++ s)).
Proof.
  intros [S [Fok Hpf]] He. apply fg_explore_ok in He as [[Hp [Hsegs [Hmem [Hdup Hnest]]]] ->].
  assert (forall x, In x (explore_result f p segs) <->
                    (In x f /\ x <> p) \/ (exists s, In s segs /\ x = p ++ s)) as Hin.
  { intro x. apply fg_explore_result_in. exact S. }
  split; [|exact Hin].
  apply fg_mem_in in Hmem. rewrite forallb_forall in Hsegs. rewrite Forall_forall in Fok.
  split; [|split].
  - unfold explore_result. apply (fg_fold_insert_sorted (app p)). apply fg_remove_sorted. exact S.
  - rewrite Forall_forall. intros x Hx. apply Hin in Hx as [[Hx _]|[s [Hs ->]]].
    + apply Fok; exact Hx.
    + rewrite fg_nibs_ok_app, Hp, (Hsegs _ Hs). reflexivity.
  - intros a b Ha Hb Hab. apply Hin in Ha. apply Hin in Hb.
    destruct Ha as [[Ha Hap]|[sa [Hsa ->]]], Hb as [[Hb Hbp]|[sb [Hsb ->]]].
    + apply Hpf; assumption.
    + exfalso. assert (is_prefix p (p ++ sb)) as Hpp by (exists sb; reflexivity).
      destruct (fg_prefix_comparable _ _ _ Hab Hpp) as [H|H].
      * apply Hap. apply Hpf; assumption.
      * apply Hap. symmetry. apply Hpf; assumption.
    + exfalso. apply Hbp. symmetry. apply Hpf; [exact Hmem|exact Hb|].
      eapply fg_prefix_trans; [|exact Hab]. exists sa; reflexivity.
    + f_equal. apply (proj1 (fg_prefix_app p sa sb)) in Hab. eapply fg_nested_false; eassumption.
Qed.

(* An explore is rejected exactly when the prefix or a segment is not a nibble tuple, the
   prefix is not a member, a segment is listed twice, or one segment is a proper prefix of
   another.  "Without effect": explore is a pure function; on Err there is no new fog. *)
Theorem explore_rejects f p segs : fog_inv f ->
  (exists e, explore f p segs = Err e) <->
  (nibs_ok p = false \/ (exists s, In s segs /\ nibs_ok s = false) \/ ~ In p f \/ ~ NoDup segs
   \/ (exists s1 s2, In s1 segs /\ In s2 segs /\ s1 <> s2 /\ is_prefix s1 s2)).
Proof.
  intros _. rewrite fg_explore_err, fg_forallb_false, fg_mem_false, fg_has_dup_true, fg_nested_iff.
  tauto.
Qed.

(* the exception raised: ValueError for a non-nibble, ValidationError otherwise *)
Lemma explore_error_class f p segs e : explore f p segs = Err e ->
  e = (if nibs_ok p && forallb nibs_ok segs then EValidation else EValueError).
Proof.
  rewrite fg_explore_unfold.
  destruct (nibs_ok p), (forallb nibs_ok segs), (fog_mem p f), (has_dup segs), (nested_segment segs);
    cbn [negb andb]; intro H; try discriminate H; injection H as <-; reflexivity.
Qed.

Lemma fg_fold_err {A B} (step : result A -> B -> result A) (Hstep : forall e b, step (Err e) b = Err e)
  (l : list B) e : fold_left step l (Err e) = Err e.
Proof. induction l as [|b l IH]; cbn [fold_left]; [reflexivity|]. rewrite Hstep. exact IH. Qed.

Definition explore_step (acc : result fog) (o : nibbles * list nibbles) : result fog :=
  match acc with Ok g => explore g (fst o) (snd o) | Err e => Err e end.

Lemma fg_explore_step_err e o : explore_step (Err e) o = Err e.
Proof. reflexivity. Qed.

Lemma fg_reachable_gen (ops : list (nibbles * list nibbles)) : forall f0 f,
  fog_inv f0 -> fold_left explore_step ops (Ok f0) = Ok f -> fog_inv f.
Proof.
  induction ops as [|o ops IH]; intros f0 f H0 Hf; cbn [fold_left] in Hf.
  - injection Hf as <-. exact H0.
  - cbn [explore_step] in Hf. destruct (explore f0 (fst o) (snd o)) as [f1|e] eqn:E.
    + eapply IH; [|exact Hf]. eapply explore_inv; eassumption.
    + rewrite (fg_fold_err explore_step fg_explore_step_err) in Hf. discriminate Hf.
Qed.

(* every fog reachable from a fresh one by explore calls satisfies the invariant *)
Theorem reachable_inv (ops : list (nibbles * list nibbles)) f :
  fold_left (fun acc o => match acc with Ok g => explore g (fst o) (snd o) | Err e => Err e end)
            ops (Ok fog_init) = Ok f -> fog_inv f.
Proof. apply (fg_reachable_gen ops fog_init f fog_inv_init). Qed.

Theorem is_complete_iff f : is_complete f = true <-> f = [].
Proof. destruct f; cbn [is_complete]; split; intro H; try reflexivity; discriminate H. Qed.

(* ------------------------------------------------------------------ *)
(* independent explorations commute *)

Theorem explore_commute f p1 s1 p2 s2 : fog_inv f -> p1 <> p2 -> In p1 f -> In p2 f ->
  (let r12 := match explore f p1 s1 with Ok f1 => explore f1 p2 s2 | Err e => Err e end in
   let r21 := match explore f p2 s2 with Ok f2 => explore f2 p1 s1 | Err e => Err e end in
   forall f12, r12 = Ok f12 -> r21 = Ok f12).
Proof.
  intros Hinv Hne Hp1 Hp2 r12 r21 f12. subst r12 r21.
  destruct (explore f p1 s1) as [f1|e1] eqn:E1; [|discriminate].
  intro E12.
  destruct (explore_inv _ _ _ _ Hinv E1) as [Hinv1 Hin1].
  destruct (explore_inv _ _ _ _ Hinv1 E12) as [Hinv12 Hin12].
  pose proof E1 as C1. apply fg_explore_ok in C1 as [[A1 [A2 [A3 [A4 A5]]]] _].
  pose proof E12 as C2. apply fg_explore_ok in C2 as [[B1 [B2 [B3 [B4 B5]]]] _].
  assert (explore f p2 s2 = Ok (explore_result f p2 s2)) as E2.
  { apply fg_explore_ok. split; [|reflexivity]. repeat split; try assumption.
    apply fg_mem_in; exact Hp2. }
  rewrite E2.
  destruct (explore_inv _ _ _ _ Hinv E2) as [Hinv2 Hin2].
  assert (explore (explore_result f p2 s2) p1 s1 =
          Ok (explore_result (explore_result f p2 s2) p1 s1)) as E21.
  { apply fg_explore_ok. split; [|reflexivity]. repeat split; try assumption.
    apply fg_mem_in. apply Hin2. left. split; assumption. }
  rewrite E21. f_equal.
  destruct (explore_inv _ _ _ _ Hinv2 E21) as [Hinv21 Hin21].
  destruct Hinv as [_ [_ Hpf]].
  apply fg_sorted_ext; [apply Hinv21|apply Hinv12|].
  assert (forall s, p1 ++ s <> p2) as N1.
  { intros s Heq. apply Hne. apply Hpf; [assumption|assumption|]. exists s. symmetry; exact Heq. }
  assert (forall s, p2 ++ s <> p1) as N2.
  { intros s Heq. apply Hne. symmetry. apply Hpf; [assumption|assumption|]. exists s. symmetry; exact Heq. }
  intro x. rewrite Hin21, Hin12, Hin2, Hin1. split.
  - intros [[[[Hx Hx2]|[s [Hs ->]]] Hx1]|[s [Hs ->]]].
    + left. split; [left; split; assumption|assumption].
    + right. exists s. split; [assumption|reflexivity].
    + left. split; [right; exists s; split; [assumption|reflexivity]|apply N1].
  - intros [[[[Hx Hx1]|[s [Hs ->]]] Hx2]|[s [Hs ->]]].
    + left. split; [left; split; assumption|assumption].
    + right. exists s. split; [assumption|reflexivity].
    + left. split; [right; exists s; split; [assumption|reflexivity]|apply N2].
Qed.

(* ------------------------------------------------------------------ *)
(* mark_all_complete = explore with no continuations, prefix by prefix *)

Lemma fg_explore_nil f p :
  explore f p [] =
  match as_nibbles p with
  | Err e => Err e
  | Ok p => if negb (fog_mem p f) then Err EValidation else Ok (fog_remove p f)
  end.
Proof.
  rewrite fg_explore_unfold. unfold as_nibbles. cbn [forallb has_dup].
  destruct (nibs_ok p); [|reflexivity].
  destruct (negb (fog_mem p f)); reflexivity.
Qed.

Definition mark_step (acc : result fog) (p : nibbles) : result fog :=
  match acc with Ok g => explore g p [] | Err e => Err e end.

Theorem mark_all_complete_spec f ps :
  mark_all_complete f ps =
  fold_left (fun acc p => match acc with Ok g => explore g p [] | Err e => Err e end) ps (Ok f).
Proof.
  change (mark_all_complete f ps = fold_left mark_step ps (Ok f)).
  revert f. induction ps as [|p ps IH]; intro f; cbn [mark_all_complete fold_left]; [reflexivity|].
  cbn [mark_step]. rewrite fg_explore_nil.
  destruct (as_nibbles p) as [p'|e].
  - destruct (negb (fog_mem p' f)).
    + symmetry. apply (fg_fold_err mark_step). reflexivity.
    + apply IH.
  - symmetry. apply (fg_fold_err mark_step). reflexivity.
Qed.

Lemma mark_all_complete_inv f ps f' : fog_inv f -> mark_all_complete f ps = Ok f' -> fog_inv f'.
Proof.
  rewrite mark_all_complete_spec. intros H0 Hf.
  apply (fg_reachable_gen (map (fun p => (p, [])) ps) f f' H0).
  rewrite <- Hf. clear Hf H0. generalize (Ok f) as acc.
  induction ps as [|p ps IH]; intro acc; cbn [map fold_left]; [reflexivity|]. apply IH.
Qed.

(* the state component of the C11 operation language keeps the invariant *)
Theorem fstep_inv f o : fog_inv f -> fog_inv (fst (fstep f o)).
Proof.
  intro H0. destruct o as [p segs|ps|k|k|]; cbn [fstep]; try exact H0.
  - destruct (explore f p segs) as [f'|e] eqn:E; cbn [fst]; [|exact H0].
    eapply explore_inv; eassumption.
  - destruct (mark_all_complete f ps) as [f'|e] eqn:E; cbn [fst]; [|exact H0].
    eapply mark_all_complete_inv; eassumption.
Qed.

Fixpoint frun_state (f : fog) (ops : list fop) : fog :=
  match ops with
  | [] => f
  | o :: ops' => frun_state (fst (fstep f o)) ops'
  end.

Theorem frun_state_inv ops : forall f, fog_inv f -> fog_inv (frun_state f ops).
Proof.
  induction ops as [|o ops IH]; intros f H0; cbn [frun_state]; [exact H0|].
  apply IH. apply fstep_inv. exact H0.
Qed.

(* ------------------------------------------------------------------ *)
(* bisect splits a sorted fog into the members <= key and the members > key *)

Lemma fg_bisect_cases f k : StronglySorted nlt f ->
  (bisect f k = O /\ Forall (fun q => nibbles_ltb k q = true) f) \/
  (exists l0 m r, f = l0 ++ m :: r /\ bisect f k = S (length l0) /\
     Forall (fun q => nibbles_ltb k q = false) (l0 ++ [m]) /\
     Forall (fun q => nibbles_ltb k q = true) r).
Proof.
  induction f as [|q f IH]; intro S; cbn [bisect].
  - left. split; [reflexivity|constructor].
  - apply StronglySorted_inv in S as [S F].
    destruct (nibbles_ltb k q) eqn:E.
    + left. split; [reflexivity|]. constructor; [exact E|].
      rewrite Forall_forall in *. intros x Hx. eapply fg_ltb_trans; [exact E|apply F; exact Hx].
    + right. destruct (IH S) as [[Hb Hall]|[l0 [m [r [Hf [Hb [Hl Hr]]]]]]].
      * exists [], q, f. rewrite Hb. split; [reflexivity|]. split; [reflexivity|].
        split; [|exact Hall]. constructor; [exact E|constructor].
      * exists (q :: l0), m, r. subst f. split; [reflexivity|]. split; [rewrite Hb; reflexivity|].
        split; [|exact Hr]. cbn [app]. constructor; assumption.
Qed.

Lemma fg_nth_after {A} (l0 : list A) m r d : nth (S (length l0)) (l0 ++ m :: r) d = nth 0 r d.
Proof. induction l0 as [|a l0 IH]; [reflexivity|exact IH]. Qed.

Lemma fg_nth_error_after {A} (l0 : list A) m r :
  nth_error (l0 ++ m :: r) (S (length l0)) = nth_error r 0.
Proof. induction l0 as [|a l0 IH]; [reflexivity|exact IH]. Qed.

(* the key fact behind nearest_*: a member that is a prefix of the key is the greatest member <= key *)
Lemma fg_prefix_is_left l0 m r k p :
  fog_inv (l0 ++ m :: r) ->
  Forall (fun q => nibbles_ltb k q = false) (l0 ++ [m]) ->
  Forall (fun q => nibbles_ltb k q = true) r ->
  In p (l0 ++ m :: r) -> is_prefix p k -> p = m.
Proof.
  intros [S [_ Hpf]] Hl Hr Hp Hpk.
  destruct (fg_sorted_app _ _ _ S) as [Hlm Hmr].
  rewrite Forall_forall in Hlm, Hl, Hr.
  apply in_app_or in Hp as [Hp|[Hp|Hp]].
  - apply Hpf; [apply in_or_app; left; exact Hp|apply in_or_app; right; left; reflexivity|].
    eapply fg_between_prefix; [exact Hpk|exact (Hlm _ Hp)|].
    apply Hl. apply in_or_app; right; left; reflexivity.
  - symmetry; exact Hp.
  - exfalso. pose proof (Hr _ Hp) as C. rewrite (fg_prefix_not_gt _ _ Hpk) in C. discriminate C.
Qed.

Lemma fg_no_prefix_above f k :
  Forall (fun q => nibbles_ltb k q = true) f -> forall p, In p f -> ~ is_prefix p k.
Proof.
  intros Hall p Hp Hpk. rewrite Forall_forall in Hall.
  pose proof (Hall _ Hp) as C. rewrite (fg_prefix_not_gt _ _ Hpk) in C. discriminate C.
Qed.

Lemma fg_app_not_nil {A} (l0 : list A) m r : l0 ++ m :: r <> [].
Proof. destruct l0; discriminate. Qed.

Lemma fg_epv_efd : @Err nibbles EPerfectVisibility <> Err EFullDirectional.
Proof. intro H. inversion H. Qed.

Theorem nearest_right_spec f k : fog_inv f -> nibs_ok k = true ->
  (f = [] <-> nearest_right f k = Err EPerfectVisibility) /\
  (nearest_right f k = Err EFullDirectional <->
     f <> [] /\ (forall p, In p f -> ~ is_prefix p k) /\
     (forall p, In p f -> nibbles_ltb k p = false)) /\
  (forall x, nearest_right f k = Ok x ->
     In x f /\
     (is_prefix x k \/
      ((forall p, In p f -> ~ is_prefix p k) /\ nibbles_ltb k x = true /\
       forall y, In y f -> nibbles_ltb k y = true -> y = x \/ nibbles_ltb x y = true))).
Proof.
  intros Hinv Hk. pose proof Hinv as [S [_ Hpf]].
  unfold nearest_right, as_nibbles. rewrite Hk. cbn [rbind]. cbv zeta.
  destruct (fg_bisect_cases f k S) as [[Hb Hall]|[l0 [m [r [Hf [Hb [Hl Hr]]]]]]]; rewrite Hb.
  - destruct f as [|q f'].
    + split; [split; reflexivity|]. split.
      * split; [intro H; exfalso; exact (fg_epv_efd H)|]. intros [H _]. exfalso; apply H; reflexivity.
      * intros x H. discriminate H.
    + split; [split; intro H; discriminate H|]. split.
      * split; [intro H; discriminate H|]. intros [_ [_ H]].
        pose proof (H q (or_introl eq_refl)) as C.
        apply Forall_inv in Hall. congruence.
      * intros x H. injection H as <-. split; [left; reflexivity|]. right.
        split; [apply fg_no_prefix_above; exact Hall|].
        split; [apply Forall_inv in Hall; exact Hall|].
        intros y [Hy|Hy] _; [left; symmetry; exact Hy|right].
        apply StronglySorted_inv in S as [_ F]. rewrite Forall_forall in F. apply F; exact Hy.
  - subst f. rewrite nth_middle.
    assert (In m (l0 ++ m :: r)) as Hm by (apply in_or_app; right; left; reflexivity).
    destruct (key_starts_with k m) eqn:Ek.
    + apply fg_starts_with_iff in Ek.
      split; [split; intro H; [exfalso; exact (fg_app_not_nil _ _ _ H)|discriminate H]|]. split.
      * split; [intro H; discriminate H|]. intros [_ [H _]]. exfalso. exact (H m Hm Ek).
      * intros x H. injection H as <-. split; [exact Hm|left; exact Ek].
    + assert (forall p, In p (l0 ++ m :: r) -> ~ is_prefix p k) as Hnp.
      { intros p Hp Hpk. pose proof (fg_prefix_is_left _ _ _ _ _ Hinv Hl Hr Hp Hpk) as ->.
        apply fg_starts_with_iff in Hpk. congruence. }
      rewrite fg_nth_error_after. destruct r as [|q r']; cbn [nth_error].
      * split; [split; intro H; [exfalso; exact (fg_app_not_nil _ _ _ H)|]|].
        { exfalso. apply fg_epv_efd. symmetry; exact H. }
        split; [|intros x H; discriminate H].
        split; [|reflexivity]. intros _. split; [apply fg_app_not_nil|]. split; [exact Hnp|].
        rewrite Forall_forall in Hl. exact Hl.
      * split; [split; intro H; [exfalso; exact (fg_app_not_nil _ _ _ H)|discriminate H]|]. split.
        { split; [intro H; discriminate H|]. intros [_ [_ H]].
          assert (In q (l0 ++ m :: q :: r')) as Hq by (apply in_or_app; right; right; left; reflexivity).
          pose proof (H q Hq) as C. apply Forall_inv in Hr. congruence. }
        intros x H. injection H as <-.
        split; [apply in_or_app; right; right; left; reflexivity|]. right.
        split; [exact Hnp|]. split; [apply Forall_inv in Hr; exact Hr|].
        intros y Hy Hky.
        assert (l0 ++ m :: q :: r' = (l0 ++ [m]) ++ q :: r') as Heq by (rewrite <- app_assoc; reflexivity).
        rewrite Heq in Hy, S. apply in_app_or in Hy as [Hy|[Hy|Hy]].
        { exfalso. rewrite Forall_forall in Hl. rewrite (Hl _ Hy) in Hky. discriminate Hky. }
        { left; symmetry; exact Hy. }
        { right. destruct (fg_sorted_app _ _ _ S) as [_ Hqr]. rewrite Forall_forall in Hqr.
          apply Hqr; exact Hy. }
Qed.

(* ------------------------------------------------------------------ *)
(* nearest_unknown *)

Definition fg_adj (f : fog) (k x : nibbles) : Prop :=
  forall y, In y f ->
    ~ (nibbles_ltb x y = true /\ nibbles_ltb y k = true) /\
    ~ (nibbles_ltb k y = true /\ nibbles_ltb y x = true).

Lemma fg_adj_left l0 m r k : StronglySorted nlt (l0 ++ m :: r) ->
  Forall (fun q => nibbles_ltb k q = false) (l0 ++ [m]) ->
  Forall (fun q => nibbles_ltb k q = true) r -> fg_adj (l0 ++ m :: r) k m.
Proof.
  intros S Hl Hr y Hy. destruct (fg_sorted_app _ _ _ S) as [Hlm Hmr].
  rewrite Forall_forall in Hlm, Hmr, Hl, Hr.
  assert (nibbles_ltb k m = false) as Hkm by (apply Hl; apply in_or_app; right; left; reflexivity).
  split.
  - intros [H1 H2]. apply in_app_or in Hy as [Hy|[Hy|Hy]].
    + pose proof (fg_ltb_trans _ _ _ H1 (Hlm _ Hy)) as C. rewrite fg_ltb_irrefl in C; discriminate C.
    + subst y. rewrite fg_ltb_irrefl in H1; discriminate H1.
    + pose proof (fg_ltb_trans _ _ _ H2 (Hr _ Hy)) as C. rewrite fg_ltb_irrefl in C; discriminate C.
  - intros [H1 H2]. pose proof (fg_ltb_trans _ _ _ H1 H2) as C. congruence.
Qed.

Lemma fg_adj_right l q r k : StronglySorted nlt (l ++ q :: r) ->
  Forall (fun q => nibbles_ltb k q = false) l ->
  Forall (fun q => nibbles_ltb k q = true) (q :: r) -> fg_adj (l ++ q :: r) k q.
Proof.
  intros S Hl Hr y Hy. destruct (fg_sorted_app _ _ _ S) as [Hlq Hqr].
  rewrite Forall_forall in Hlq, Hqr, Hl, Hr.
  assert (nibbles_ltb k q = true) as Hkq by (apply Hr; left; reflexivity).
  split.
  - intros [H1 H2]. pose proof (fg_ltb_trans _ _ _ Hkq (fg_ltb_trans _ _ _ H1 H2)) as C.
    rewrite fg_ltb_irrefl in C; discriminate C.
  - intros [H1 H2]. apply in_app_or in Hy as [Hy|[Hy|Hy]].
    + rewrite (Hl _ Hy) in H1; discriminate H1.
    + subst y. rewrite fg_ltb_irrefl in H2; discriminate H2.
    + pose proof (fg_ltb_trans _ _ _ H2 (Hqr _ Hy)) as C. rewrite fg_ltb_irrefl in C; discriminate C.
Qed.

(* when the left neighbour is a prefix of the key it always wins the distance comparison *)
Lemma fg_dist_prefix m : forall k q,
  is_prefix m k -> nibbles_ltb k q = true -> ~ is_prefix m q ->
  ztuple_ltb (prefix_distance m k) (prefix_distance k q) = true.
Proof.
  induction m as [|a m IH]; intros k q Hmk Hkq Hnp.
  - exfalso; apply Hnp; apply fg_prefix_nil.
  - destruct k as [|b k]; [destruct Hmk as [r0 Hr0]; discriminate Hr0|].
    apply fg_prefix_cons in Hmk as [<- Hmk].
    destruct q as [|c q]; [discriminate Hkq|].
    cbn [nibbles_ltb] in Hkq. cbn [prefix_distance ztuple_ltb].
    destruct (N.ltb_spec a c) as [Hac|Hac].
    + destruct (Z.ltb_spec (Z.of_N a - Z.of_N a) (Z.of_N c - Z.of_N a)) as [_|C]; [reflexivity|lia].
    + destruct (N.ltb_spec c a) as [Hca|Hca]; [discriminate Hkq|].
      assert (a = c) as -> by lia.
      rewrite Z.ltb_irrefl. apply IH; [exact Hmk|exact Hkq|].
      intro H; apply Hnp; apply fg_prefix_cons; auto.
Qed.

Theorem nearest_unknown_spec f k : fog_inv f -> nibs_ok k = true ->
  (f = [] <-> nearest_unknown f k = Err EPerfectVisibility) /\
  (forall x, nearest_unknown f k = Ok x ->
     In x f /\ (forall p, In p f -> is_prefix p k -> x = p) /\
     (* adjacent: nothing of f lies strictly between x and k *)
     (forall y, In y f ->
        ~ (nibbles_ltb x y = true /\ nibbles_ltb y k = true) /\
        ~ (nibbles_ltb k y = true /\ nibbles_ltb y x = true))).
Proof.
  intros Hinv Hk. pose proof Hinv as [Hsrt [_ Hpf]].
  unfold nearest_unknown, as_nibbles. rewrite Hk. cbn [rbind]. cbv zeta.
  destruct (fg_bisect_cases f k Hsrt) as [[Hb Hall]|[l0 [m [r [Hf [Hb [Hl Hr]]]]]]]; rewrite Hb.
  - destruct f as [|q f'].
    + split; [split; reflexivity|]. intros x H; discriminate H.
    + split; [split; intro H; discriminate H|].
      intros x H. injection H as <-. split; [left; reflexivity|]. split.
      * intros p Hp Hpk. exfalso. exact (fg_no_prefix_above _ _ Hall p Hp Hpk).
      * apply (fg_adj_right [] q f' k Hsrt); [constructor|exact Hall].
  - subst f.
    assert (In m (l0 ++ m :: r)) as Hm by (apply in_or_app; right; left; reflexivity).
    split; [split; intro H; [exfalso; exact (fg_app_not_nil _ _ _ H)|]|].
    { exfalso. destruct (Nat.eqb (S (length l0)) (length (l0 ++ m :: r)));
        [discriminate H|].
      destruct (ztuple_ltb _ _); discriminate H. }
    assert (forall x, x = m -> In x (l0 ++ m :: r) /\
              (forall p, In p (l0 ++ m :: r) -> is_prefix p k -> x = p) /\
              fg_adj (l0 ++ m :: r) k x) as Hleft.
    { intros x ->. split; [exact Hm|]. split.
      - intros p Hp Hpk. symmetry. eapply fg_prefix_is_left; eassumption.
      - apply fg_adj_left; assumption. }
    intros x. destruct r as [|q r'].
    + rewrite app_length. cbn [length]. replace (length l0 + 1)%nat with (S (length l0)) by lia.
      rewrite Nat.eqb_refl. rewrite last_last. intro H. injection H as <-. apply Hleft; reflexivity.
    + rewrite app_length. cbn [length].
      destruct (Nat.eqb_spec (S (length l0)) (length l0 + S (S (length r')))) as [C|_]; [lia|].
      rewrite nth_middle, fg_nth_after. cbn [nth].
      destruct (ztuple_ltb (prefix_distance m k) (prefix_distance k q)) eqn:Ed;
        intro H; injection H as <-; [apply Hleft; reflexivity|].
      assert (In q (l0 ++ m :: q :: r')) as Hq by (apply in_or_app; right; right; left; reflexivity).
      split; [exact Hq|]. split.
      * intros p Hp Hpk. exfalso.
        pose proof (fg_prefix_is_left _ _ _ _ _ Hinv Hl Hr Hp Hpk) as ->.
        destruct (fg_sorted_app _ _ _ Hsrt) as [_ Hmr]. apply Forall_inv in Hmr.
        rewrite fg_dist_prefix in Ed; [discriminate Ed|exact Hpk|apply Forall_inv in Hr; exact Hr|].
        intro Hmq. pose proof (Hpf _ _ Hm Hq Hmq) as Heq. subst q.
        unfold nlt in Hmr. rewrite fg_ltb_irrefl in Hmr. discriminate Hmr.
      * assert (l0 ++ m :: q :: r' = (l0 ++ [m]) ++ q :: r') as Heq by (rewrite <- app_assoc; reflexivity).
        rewrite Heq. apply fg_adj_right; [rewrite <- Heq; exact Hsrt|exact Hl|exact Hr].
Qed.

(* ------------------------------------------------------------------ *)
(* serialize / deserialize: hex-prefix encoding of non-terminated nibble tuples *)

Lemma fg_last_lt ns : nibs_ok ns = true -> last ns 0 < 16.
Proof.
  induction ns as [|x ns IH]; intro H.
  - cbn [last]. lia.
  - unfold nibs_ok in H. cbn [forallb] in H. apply andb_true_iff in H as [H1 H2].
    destruct ns as [|y ns]; [cbn [last]; lia|].
    change (last (x :: y :: ns) 0) with (last (y :: ns) 0). apply IH. exact H2.
Qed.

Lemma fg_not_terminated ns : nibs_ok ns = true -> is_nibbles_terminated ns = false.
Proof.
  intro H. unfold is_nibbles_terminated, NIBBLE_TERMINATOR. destruct ns as [|x ns]; [reflexivity|].
  pose proof (fg_last_lt _ H) as Hl. apply N.eqb_neq. lia.
Qed.

Lemma fg_byte_hi hi lo : hi < 16 -> lo < 16 -> byte_hi (n2b (hi * 16 + lo)) = hi.
Proof.
  intros H1 H2. unfold byte_hi. rewrite b2n_n2b by lia.
  symmetry. apply (N.div_unique (hi * 16 + lo) 16 hi lo); lia.
Qed.

Lemma fg_byte_lo hi lo : hi < 16 -> lo < 16 -> byte_lo (n2b (hi * 16 + lo)) = lo.
Proof.
  intros H1 H2. unfold byte_lo. rewrite b2n_n2b by lia.
  symmetry. apply (N.mod_unique (hi * 16 + lo) 16 hi lo); lia.
Qed.

Lemma fg_unpack_pack n : forall l, (length l <= n)%nat -> Nat.even (length l) = true ->
  nibs_ok l = true -> bytes_to_nibbles (pack_nibbles l) = l.
Proof.
  induction n as [|n IH]; intros l Hlen Hev Hok.
  - destruct l; [reflexivity|cbn [length] in Hlen; lia].
  - destruct l as [|hi [|lo rest]]; [reflexivity|discriminate Hev|].
    unfold nibs_ok in Hok. cbn [forallb] in Hok.
    apply andb_true_iff in Hok as [Hhi Hok]. apply andb_true_iff in Hok as [Hlo Hok].
    apply N.ltb_lt in Hhi, Hlo.
    cbn [pack_nibbles bytes_to_nibbles]. rewrite fg_byte_hi, fg_byte_lo by assumption.
    f_equal. f_equal. apply IH; [cbn [length] in Hlen; lia|exact Hev|exact Hok].
Qed.

Definition fg_flagged (ns : nibbles) : nibbles :=
  if Nat.odd (length ns) then 1 :: ns else 0 :: 0 :: ns.

Lemma fg_flagged_ok ns : nibs_ok ns = true ->
  nibs_ok (fg_flagged ns) = true /\ Nat.odd (length (fg_flagged ns)) = false.
Proof.
  intro H. unfold fg_flagged. destruct (Nat.odd (length ns)) eqn:Eo.
  - split; [unfold nibs_ok in *; cbn [forallb]; rewrite H; reflexivity|].
    cbn [length]. rewrite Nat.odd_succ, <- Nat.negb_odd, Eo. reflexivity.
  - split; [unfold nibs_ok in *; cbn [forallb]; rewrite H; reflexivity|].
    cbn [length]. rewrite Nat.odd_succ, Nat.even_succ. exact Eo.
Qed.

Lemma fg_encode ns : nibs_ok ns = true ->
  encode_nibbles ns = Ok (pack_nibbles (fg_flagged ns)).
Proof.
  intro H. unfold encode_nibbles, remove_nibbles_terminator. rewrite (fg_not_terminated _ H).
  cbv beta iota zeta. change (HP_FLAG_0 + 1) with 1. change HP_FLAG_0 with 0.
  change (if Nat.odd (length ns) then 1 :: ns else 0 :: 0 :: ns) with (fg_flagged ns).
  destruct (fg_flagged_ok _ H) as [H1 H2].
  unfold nibbles_to_bytes. rewrite H1, H2. reflexivity.
Qed.

Lemma fg_decode_encode ns : nibs_ok ns = true ->
  decode_nibbles (pack_nibbles (fg_flagged ns)) = Ok ns.
Proof.
  intro H. destruct (fg_flagged_ok _ H) as [H1 H2]. unfold decode_nibbles.
  rewrite (fg_unpack_pack (length (fg_flagged ns))); [|lia| |exact H1].
  - unfold fg_flagged. destruct (Nat.odd (length ns)); reflexivity.
  - rewrite <- Nat.negb_odd, H2. reflexivity.
Qed.

Lemma fg_serialize f : Forall (fun p => nibs_ok p = true) f ->
  serialize f = Ok (map (fun ns => pack_nibbles (fg_flagged ns)) f).
Proof.
  unfold serialize. induction f as [|p f IH]; intro H; cbn [rmapM map]; [reflexivity|].
  rewrite (fg_encode p (Forall_inv H)), (IH (Forall_inv_tail H)). reflexivity.
Qed.

Lemma fg_deserialize_map f : Forall (fun p => nibs_ok p = true) f ->
  rmapM (fun b => rbind (decode_nibbles b) (fun ns => as_nibbles ns))
        (map (fun ns => pack_nibbles (fg_flagged ns)) f) = Ok f.
Proof.
  induction f as [|p f IH]; intro H; cbn [rmapM map]; [reflexivity|].
  rewrite (fg_decode_encode p (Forall_inv H)). cbn [rbind]. unfold as_nibbles at 1.
  rewrite (Forall_inv H), (IH (Forall_inv_tail H)). reflexivity.
Qed.

Lemma fg_rebuild f : StronglySorted nlt f -> fold_left (fun acc p => fog_insert p acc) f [] = f.
Proof.
  intro S. apply fg_sorted_ext; [|exact S|].
  - apply (fg_fold_insert_sorted (fun s => s)). constructor.
  - intro x. pose proof (fg_fold_insert_in_gen (fun s => s) f [] x) as H. cbv beta in H.
    rewrite H. split.
    + intros [[]|[s [Hs ->]]]. exact Hs.
    + intro Hx. right. exists x. split; [exact Hx|reflexivity].
Qed.

Theorem serialize_roundtrip f : fog_inv f -> exists l, serialize f = Ok l /\ deserialize l = Ok f.
Proof.
  intros [S [Fok _]]. exists (map (fun ns => pack_nibbles (fg_flagged ns)) f).
  split; [apply fg_serialize; exact Fok|].
  unfold deserialize. rewrite (fg_deserialize_map f Fok). cbn [rbind].
  rewrite (fg_rebuild f S). reflexivity.
Qed.

Print Assumptions fog_inv_init.
Print Assumptions explore_inv.
Print Assumptions explore_rejects.
Print Assumptions explore_commute.
Print Assumptions mark_all_complete_spec.
Print Assumptions is_complete_iff.
Print Assumptions serialize_roundtrip.
Print Assumptions nearest_unknown_spec.
Print Assumptions nearest_right_spec.
Print Assumptions reachable_inv.
Print Assumptions frun_state_inv.
