(* Fog/Walk.v — NodeIterator (trie/iter.py) and the fog-guided walk protocol
   (HexaryTrieFog + TrieFrontierCache + traverse / traverse_from / simulated nodes), over the
   database-level trie model; the trie may be mutated between walk steps.
   Definitions only. *)
From Coq Require Import List NArith ZArith Bool.
From Coq.Init Require Import Byte.
From PyTrie.Base Require Import Bytes Result AMap Nibbles Rlp Keccak.
From PyTrie.Db Require Import ScratchDb.
From PyTrie.Hexary Require Import Raw D Run.
From PyTrie.Fog Require Import Fog.
Import ListNotations.
Open Scope N_scope.

Definition BNH := BLANK_NODE_HASH.

(* ---------------- TrieFrontierCache ---------------- *)
Definition fcache := list (nibbles * (hnode * nibbles)).

Fixpoint fc_get (c : fcache) (p : nibbles) : option (hnode * nibbles) :=
  match c with
  | [] => None
  | (q, v) :: c' => if nibbles_eqb p q then Some v else fc_get c' p
  end.
Fixpoint fc_del (c : fcache) (p : nibbles) : fcache :=
  match c with
  | [] => []
  | (q, v) :: c' => if nibbles_eqb p q then fc_del c' p else (q, v) :: fc_del c' p
  end.
Definition fc_set (c : fcache) (p : nibbles) (v : hnode * nibbles) : fcache := (p, v) :: fc_del c p.
Definition fc_add (c : fcache) (prefix : nibbles) (n : hnode) (segs : list nibbles) : fcache :=
  let c1 := match prefix with [] => c | _ => fc_del c prefix end in
  fold_left (fun acc s => fc_set acc (prefix ++ s) (n, s)) segs c1.

(* ---------------- NodeIterator ---------------- *)
Section Iter.
  Variable t : trie.     (* reads never change the state (D_safety), so the trie is a parameter *)

  Definition run_read {A} (m : M A) : result A := fst (m t).

  Fixpoint _get_next_key (fuel : nat) (n : hnode) (traversed : nibbles) : result (option nibbles) :=
    match fuel with
    | O => Err EOutOfFuel
    | S f =>
        match h_value n with
        | _ :: _ => Ok (Some (traversed ++ h_suffix n))
        | [] =>
            match h_segs n with
            | [] => Ok None
            | seg :: _ =>
                match run_read (traverse_from BNH (h_raw n) seg) with
                | Err e => Err e
                | Ok next => _get_next_key f next (traversed ++ seg)
                end
            end
        end
    end.

  Fixpoint _get_key_after (fuel : nat) (n : hnode) (key traversed : nibbles) : result (option nibbles) :=
    match fuel with
    | O => Err EOutOfFuel
    | S f =>
        let fix scan (segs : list nibbles) : result (option nibbles) :=
          match segs with
          | [] => if nibbles_ltb key (h_suffix n) then Ok (Some (traversed ++ h_suffix n)) else Ok None
          | seg :: segs' =>
              if nibbles_ltb seg (firstn (length seg) key) then scan segs'
              else
                match run_read (traverse_from BNH (h_raw n) seg) with
                | Err e => Err e
                | Ok next =>
                    let '(_, key_rem, seg_rem) := consume_common_prefix key seg in
                    match seg_rem with
                    | [] =>
                        match _get_key_after f next key_rem (traversed ++ seg) with
                        | Err e => Err e
                        | Ok None => scan segs'
                        | Ok (Some k) => Ok (Some k)
                        end
                    | _ => _get_next_key f next (traversed ++ seg)
                    end
                end
          end in
        scan (h_segs n)
    end.

  Definition iter_fuel : nat := 200.

  (* next(key_bytes) *)
  Definition iter_next (key : option bytes) : result (option bytes) :=
    match run_read (root_node BNH) with
    | Err e => Err e
    | Ok root =>
        match (match key with
               | None => _get_next_key iter_fuel root []
               | Some k => _get_key_after iter_fuel root (bytes_to_nibbles k) []
               end) with
        | Err e => Err e
        | Ok None => Ok None
        | Ok (Some ns) => match nibbles_to_bytes ns with Ok b => Ok (Some b) | Err e => Err e end
        end
    end.

  (* nodes(): the nearest_right(()) fog loop with the frontier cache *)
  Fixpoint iter_nodes (fuel : nat) (f : fog) (c : fcache) : result (list (nibbles * hnode)) :=
    match fuel with
    | O => Err EOutOfFuel
    | S fu =>
        match nearest_right f [] with
        | Err (Exn 15 _) => Ok []
        | Err e => Err e
        | Ok prefix =>
            match (match fc_get c prefix with
                   | None => run_read (traverse BNH prefix)
                   | Some (cached, seg) => run_read (traverse_from BNH (h_raw cached) seg)
                   end) with
            | Err e => Err e
            | Ok n =>
                match explore f prefix (h_segs n) with
                | Err e => Err e
                | Ok f' =>
                    let c' := match h_segs n with [] => fc_del c prefix | segs => fc_add c prefix n segs end in
                    match iter_nodes fu f' c' with
                    | Err e => Err e
                    | Ok rest => Ok ((prefix, n) :: rest)
                    end
                end
            end
        end
    end.

  Definition nodes_fuel : nat := 2000.
  Definition iter_all_nodes : result (list (nibbles * hnode)) := iter_nodes nodes_fuel fog_init [].

  Definition iter_items : result (list (bytes * bytes)) :=
    match iter_all_nodes with
    | Err e => Err e
    | Ok l =>
        rmapM (fun e : nibbles * bytes => match nibbles_to_bytes (fst e) with Ok b => Ok (b, snd e) | Err x => Err x end)
              (flat_map (fun e : nibbles * hnode =>
                           match h_value (snd e) with
                           | [] => []
                           | v => [(fst e ++ h_suffix (snd e), v)]
                           end) l)
    end.
End Iter.

(* ---------------- the walk ---------------- *)
Record wstate := mkW { w_trie : trie; w_fog : fog; w_cache : fcache; w_use_cache : bool }.

Inductive wop :=
| WStep (unknown : bool) (key : nibbles)    (* nearest_unknown(key) if unknown else nearest_right(key); then one walk step *)
| WTrie (o : hop)                           (* any trie operation (mutation) between steps *)
| WResetCache
| WIterNext (k : option bytes)
| WIterItems
| WIterNodes.

Definition met_obs (prefix : nibbles) (n : hnode) : obs :=
  match h_value n with
  | [] => ONone
  | v => OL [onibs (prefix ++ h_suffix n); OB v]
  end.

Definition wstep (w : wstate) (o : wop) : wstate * obs :=
  match o with
  | WStep unknown key =>
      match (if unknown then nearest_unknown (w_fog w) key else nearest_right (w_fog w) key) with
      | Err e => (w, exn_obs e)
      | Ok prefix =>
          let cached := if w_use_cache w then fc_get (w_cache w) prefix else None in
          let r := match cached with
                   | None => fst (traverse_sim BNH prefix (w_trie w))
                   | Some (cn, seg) => fst (traverse_from_sim BNH (h_raw cn) seg (w_trie w))
                   end in
          match r with
          | Err e =>
              (* MissingTraversalNode through a stale cache entry: drop the entry, retry later *)
              match cached, e with
              | Some _, Exn 9 _ => (mkW (w_trie w) (w_fog w) (fc_del (w_cache w) prefix) (w_use_cache w),
                                     OL [onibs prefix; exn_obs e])
              | _, _ => (w, OL [onibs prefix; exn_obs e])
              end
          | Ok (n, partial) =>
              match explore (w_fog w) prefix (h_segs n) with
              | Err e => (w, OL [onibs prefix; hnode_obs n; exn_obs e])
              | Ok f' =>
                  let c' := if w_use_cache w then
                              match h_segs n with [] => fc_del (w_cache w) prefix
                                             | segs => fc_add (w_cache w) prefix n segs end
                            else w_cache w in
                  (mkW (w_trie w) f' c' (w_use_cache w),
                   OL [onibs prefix; hnode_obs n; obool partial; fog_obs f'; met_obs prefix n])
              end
          end
      end
  | WTrie ho => let '(t', x) := hstep (w_trie w) ho in (mkW t' (w_fog w) (w_cache w) (w_use_cache w), x)
  | WResetCache => (mkW (w_trie w) (w_fog w) [] (w_use_cache w), ONone)
  | WIterNext k => (w, res_obs (fun r => match r with Some b => OB b | None => ONone end) (iter_next (w_trie w) k))
  | WIterItems => (w, res_obs (fun l => OL (map (fun e : bytes * bytes => OL [OB (fst e); OB (snd e)]) l)) (iter_items (w_trie w)))
  | WIterNodes => (w, res_obs (fun l => OL (map (fun e : nibbles * hnode => OL [onibs (fst e); hnode_obs (snd e)]) l))
                             (iter_all_nodes (w_trie w)))
  end.

Fixpoint wrun (w : wstate) (ops : list wop) : list obs :=
  match ops with
  | [] => []
  | o :: ops' => let '(w', x) := wstep w o in x :: wrun w' ops'
  end.

(* prune flag, use the frontier cache?, ops *)
Definition walk_run (c : bool * bool * list wop) : obs :=
  let '(prune, use_cache, ops) := c in
  OL (wrun (mkW (empty_trie BNH prune) fog_init [] use_cache) ops).
