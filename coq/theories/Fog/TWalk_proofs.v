(* Fog/TWalk_proofs.v — property C09 for the tree-level fog-guided walk of Fog/TWalk.v:
   for EVERY schedule (any prefixes, any stale versions, any interleaved mutations)
     - the fog stays a sorted prefix-free set of valid prefixes, every version is canonical,
     - every stable key is either already met with its value or still covered by the fog,
     - with the fog empty every stable key has been met,
     - nothing is met that was never stored, every key is met at most once,
     - on an unchanging trie the pairs met are exactly the contents, each once,
     - a step at an unexplored prefix is always enabled,
     - every step strictly decreases the potential; the number of steps of any schedule is
       bounded by 17^(L+1); from every reachable state the walk can be finished. *)
From Coq Require Import List NArith ZArith Bool Lia ZifyBool Sorted Arith.
From PyTrie.Base Require Import Bytes Result Nibbles Bytes_proofs.
From PyTrie.Hexary Require Import Raw Tree TreeTraverse Tree_aux Tree_map.
From PyTrie.Hexary Require Tree_canon.
From PyTrie.Hexary Require Import Tree_unique Tree_traverse_proofs.
From PyTrie.Fog Require Import Fog Fog_proofs TWalk.
Import ListNotations.

(* ------------------------------------------------------------------ *)
(* statements' vocabulary                                               *)

Definition versions_ok (w : twalk) : Prop :=
  Forall (fun t => canonical_top t = true) (tw_versions w).

Definition event_ok (e : tevent) : Prop :=
  match e with
  | EMutate (TSet k _) | EMutate (TDel k) => nibs_ok k = true
  | EStep p _ => True
  end.

Definition sched_ok (s : list tevent) : Prop :=
  Forall (fun e => match e with
                   | EMutate (TSet k _) | EMutate (TDel k) => nibs_ok k = true
                   | EStep p _ => True
                   end) s.

(* a key is STABLE if it has the same non-empty value in every version *)
Definition stable (w : twalk) (k : nibbles) (v : bytes) : Prop :=
  v <> [] /\ nibs_ok k = true /\ Forall (fun t => tget t k = v) (tw_versions w).

(* ------------------------------------------------------------------ *)
(* small list facts                                                     *)

Lemma tw_nodup_snoc {A} (l : list A) x : NoDup l -> ~ In x l -> NoDup (l ++ [x]).
Proof.
  induction l as [|y l IH]; intros Hnd Hx; cbn [app].
  - constructor; [intros []|constructor].
  - inversion Hnd as [|y' l' Hy Hl]; subst. constructor.
    + intro Hin. apply in_app_or in Hin. destruct Hin as [Hin|[Hin|[]]].
      * apply Hy; exact Hin.
      * apply Hx. left. symmetry. exact Hin.
    + apply IH; [exact Hl|]. intro Hin. apply Hx. right. exact Hin.
Qed.

Lemma tw_sorted_nodup (l : list nibbles) : StronglySorted nkey_lt l -> NoDup l.
Proof.
  induction l as [|x l IH]; intro Hs; [constructor|].
  inversion Hs as [|x' l' Hl Hx]; subst. constructor; [|apply IH; exact Hl].
  intro Hin. rewrite Forall_forall in Hx. specialize (Hx x Hin).
  unfold nkey_lt in Hx. rewrite fg_ltb_irrefl in Hx. discriminate.
Qed.

Lemma tw_flat_map_len (f : N -> bool) (l : list N) :
  (length (flat_map (fun i => if f i then [] else [[i]]) l) <= length l)%nat.
Proof.
  induction l as [|x l IH]; cbn [flat_map length]; [lia|].
  rewrite app_length. destruct (f x); cbn [length]; lia.
Qed.

(* ------------------------------------------------------------------ *)
(* what a walk sees at a prefix                                         *)

Lemma describe_node t p : canonical_top t = true -> nibs_ok p = true ->
  exists m, canonical_top m = true /\ describe t p = annotate m /\
            forall q, nibs_ok q = true -> tget m q = tget t (p ++ q).
Proof.
  intros Ht Hp. unfold describe.
  destruct (ttraverse t p) as [n|reached n tail] eqn:E.
  - exists n. split; [exact (ttraverse_canonical t p n Ht Hp E)|]. split; [reflexivity|].
    exact (ttraverse_at t p n (canonical_wf t Ht) Hp E).
  - exists (simulated n tail). split.
    + unfold canonical_top. rewrite (simulated_canonical t p reached n tail Ht E). apply orb_true_r.
    + split; [reflexivity|].
      destruct (ttraverse_partial t p reached n tail (canonical_wf t Ht) Hp E) as (_ & _ & _ & H & _).
      exact H.
Qed.

Lemma canonical_top_nonblank m : canonical_top m = true -> is_nblank m = false -> canonical m = true.
Proof. unfold canonical_top. intros H E. rewrite E in H. exact H. Qed.

(* everything the walk needs to know about the description of a canonical node *)
Lemma segs_facts m : canonical_top m = true ->
  NoDup (a_segs (annotate m)) /\
  (forall s, In s (a_segs (annotate m)) ->
     s <> [] /\ nibs_ok s = true /\ exists r, nibs_ok r = true /\ tget m (s ++ r) <> []) /\
  (forall s1 s2, In s1 (a_segs (annotate m)) -> In s2 (a_segs (annotate m)) ->
     is_prefix s1 s2 -> s1 = s2) /\
  (length (a_segs (annotate m)) <= 16)%nat /\
  (forall s, In s (a_segs (annotate m)) -> nonempty (a_value (annotate m)) = true ->
     ~ is_prefix s (a_suffix (annotate m))) /\
  (nonempty (a_value (annotate m)) = true ->
     nibs_ok (a_suffix (annotate m)) = true /\ tget m (a_suffix (annotate m)) = a_value (annotate m)).
Proof.
  intro Hm. destruct m as [|p v|p c|cs v].
  - cbn [annotate a_segs a_value a_suffix nonempty length].
    split; [constructor|]. split; [intros s []|]. split; [intros s1 s2 []|].
    split; [lia|]. split; [intros s []|]. intro Hf; discriminate.
  - cbn [annotate a_segs a_value a_suffix length].
    assert (Hc : canonical (NLeaf p v) = true) by (apply canonical_top_nonblank; [exact Hm|reflexivity]).
    destruct (canonical_leaf_inv p v Hc) as [Hp Hv].
    split; [constructor|]. split; [intros s []|]. split; [intros s1 s2 []|].
    split; [lia|]. split; [intros s []|].
    intros _. split; [exact Hp|]. cbn [tget]. rewrite fg_eqb_refl. reflexivity.
  - assert (Hc : canonical (NExt p c) = true) by (apply canonical_top_nonblank; [exact Hm|reflexivity]).
    pose proof (annotate_spec (NExt p c) Hc) as Hs.
    cbn [annotate a_segs a_value a_suffix a_type] in Hs.
    destruct Hs as (_ & _ & _ & p0 & Hp0 & Hne & Hok & _ & r1 & _ & (Hst1 & Hg1) & _).
    injection Hp0 as Hp0. subst p0.
    cbn [annotate a_segs a_value a_suffix nonempty length].
    split; [constructor; [intros []|constructor]|].
    split.
    { intros s [Hs|[]]. subst s. split; [exact Hne|]. split; [exact Hok|].
      exists r1. split; [exact (nibs_ok_app_r p r1 Hst1)|exact Hg1]. }
    split.
    { intros s1 s2 [H1|[]] [H2|[]] _. congruence. }
    split; [lia|]. split; [intros s _ Hf; discriminate|]. intro Hf; discriminate.
  - assert (Hc : canonical (NBranch cs v) = true) by (apply canonical_top_nonblank; [exact Hm|reflexivity]).
    pose proof (annotate_spec (NBranch cs v) Hc) as Hs.
    rewrite annotate_branch in *.
    cbn [a_segs a_value a_suffix a_type] in *.
    destruct Hs as (_ & _ & Hsorted & Hin & _).
    split; [apply tw_sorted_nodup; exact Hsorted|].
    split.
    { intros s Hs. apply Hin in Hs. destruct Hs as (i & Hi & q & Hq1 & Hq2). subst s.
      split; [discriminate|].
      assert (Hiq : nibs_ok ([i] ++ q) = true) by exact Hq1.
      split; [exact (nibs_ok_app_l [i] q Hiq)|].
      exists q. split; [exact (nibs_ok_app_r [i] q Hiq)|exact Hq2]. }
    split.
    { intros s1 s2 H1 H2 Hp. apply Hin in H1. apply Hin in H2.
      destruct H1 as (i & Hi & _). destruct H2 as (j & Hj & _). subst s1 s2.
      apply fg_prefix_cons in Hp. destruct Hp as [Hp _]. subst j. reflexivity. }
    split.
    { unfold branch_segs. etransitivity; [apply tw_flat_map_len|]. cbn. lia. }
    split.
    { intros s Hs _ (r & Hr). apply Hin in Hs. destruct Hs as (i & Hi & _). subst s.
      discriminate. }
    intros _. split; [reflexivity|]. reflexivity.
Qed.

(* ------------------------------------------------------------------ *)
(* unfolding one step                                                   *)

Definition met_after (w : twalk) (p : nibbles) (a : tann) : bindings :=
  if nonempty (a_value a) then tw_met w ++ [(p ++ a_suffix a, a_value a)] else tw_met w.

Lemma tstep_at_some w p t w' : tstep_at w p t = Some w' ->
  exists f', explore (tw_fog w) p (a_segs (describe t p)) = Ok f' /\
             w' = mkTW (tw_versions w) f' (met_after w p (describe t p)).
Proof.
  unfold tstep_at, met_after. intro H.
  destruct (explore (tw_fog w) p (a_segs (describe t p))) as [f'|e] eqn:E; [|discriminate].
  exists f'. split; [reflexivity|]. injection H as H. symmetry. exact H.
Qed.

Lemma in_met_after w p a k v :
  In (k, v) (met_after w p a) <->
  In (k, v) (tw_met w) \/ (nonempty (a_value a) = true /\ k = p ++ a_suffix a /\ v = a_value a).
Proof.
  unfold met_after. destruct (nonempty (a_value a)) eqn:E.
  - rewrite in_app_iff. cbn [In]. split.
    + intros [H|[H|[]]]; [left; exact H|]. injection H as H1 H2. right. auto.
    + intros [H|(_ & H1 & H2)]; [left; exact H|]. right. left. subst. reflexivity.
  - split; [intro H; left; exact H|]. intros [H|(H & _)]; [exact H|discriminate].
Qed.

(* ------------------------------------------------------------------ *)
(* the invariant                                                        *)

Definition covered (w : twalk) : Prop :=
  forall k v, stable w k v ->
    In (k, v) (tw_met w) \/ exists p, In p (tw_fog w) /\ is_prefix p k.

Definition met_sound (w : twalk) : Prop :=
  forall k v, In (k, v) (tw_met w) ->
    v <> [] /\ nibs_ok k = true /\ exists t, In t (tw_versions w) /\ tget t k = v.

Definition met_fresh (w : twalk) : Prop :=
  NoDup (map fst (tw_met w)) /\
  forall k v q, In (k, v) (tw_met w) -> In q (tw_fog w) -> ~ is_prefix q k.

Definition winv (w : twalk) : Prop :=
  fog_inv (tw_fog w) /\ versions_ok w /\ covered w /\ met_sound w /\ met_fresh w.

Lemma current_canonical w : versions_ok w -> canonical_top (current w) = true.
Proof.
  unfold versions_ok, current. intro H. destruct (tw_versions w) as [|t l]; [reflexivity|].
  cbn [hd]. exact (Forall_inv H).
Qed.

Lemma winv_init t0 : canonical_top t0 = true -> winv (twalk_init t0).
Proof.
  intro Ht. unfold winv, twalk_init; cbn [tw_fog tw_versions tw_met].
  split; [exact fog_inv_init|].
  split; [unfold versions_ok; cbn [tw_versions]; constructor; [exact Ht|constructor]|].
  split.
  { intros k v _. right. exists []. split; [left; reflexivity|apply fg_prefix_nil]. }
  split; [intros k v []|].
  split; [constructor|intros k v q []].
Qed.

Lemma winv_step w e w' : winv w -> event_ok e -> tevent_step w e = Some w' -> winv w'.
Proof.
  intros (Hfog & Hver & Hcov & Hsound & Hnd & Hfresh) He Hstep.
  destruct e as [p i|o]; cbn [tevent_step] in Hstep.
  - (* a walk step *)
    destruct (nth_error (tw_versions w) i) as [t|] eqn:Hnth; [|discriminate].
    assert (Htin : In t (tw_versions w)) by (eapply nth_error_In; exact Hnth).
    assert (Ht : canonical_top t = true).
    { unfold versions_ok in Hver. rewrite Forall_forall in Hver. exact (Hver t Htin). }
    destruct (tstep_at_some w p t w' Hstep) as (f' & Hex & Hw'). subst w'.
    destruct (explore_inv _ _ _ _ Hfog Hex) as [Hfog' Hmem].
    apply fg_explore_ok in Hex. destruct Hex as ((Hp & _ & Hpin & _ & _) & _).
    apply fg_mem_in in Hpin.
    destruct (describe_node t p Ht Hp) as (m & Hm & Hd & Hget).
    rewrite Hd in *.
    destruct (segs_facts m Hm) as (_ & Hsegs & _ & _ & Hnopre & Hval).
    unfold winv, met_sound, met_fresh; cbn [tw_fog tw_versions tw_met].
    split; [exact Hfog'|]. split; [exact Hver|].
    split.
    { (* covered *)
      intros k v Hst. pose proof Hst as (Hv & Hk & Hall). cbn [tw_versions] in Hall.
      rewrite Forall_forall in Hall. pose proof (Hall t Htin) as Htk.
      destruct (Hcov k v) as [Hmet|(q & Hq & Hqk)].
      { split; [exact Hv|]. split; [exact Hk|]. rewrite Forall_forall. exact Hall. }
      - left. apply in_met_after. left. exact Hmet.
      - destruct (fg_nib_eq_dec q p) as [Heq|Hneq].
        + subst q. destruct Hqk as (r & Hr). subst k.
          assert (Hrok : nibs_ok r = true) by exact (nibs_ok_app_r p r Hk).
          assert (Hmr : tget m r = v) by (rewrite Hget by exact Hrok; exact Htk).
          assert (Hmne : tget m r <> []) by (rewrite Hmr; exact Hv).
          assert (Hc : canonical m = true).
          { apply canonical_top_nonblank; [exact Hm|]. exact (tget_nonblank m r Hmne). }
          destruct (annotate_cover m r Hc Hrok Hmne) as [(Hsuf & Hvalue)|(s & Hs & _ & r' & Hr')].
          * left. apply in_met_after. right.
            split; [apply nonempty_true; rewrite Hvalue; exact Hmne|].
            split; [rewrite Hsuf; reflexivity|]. rewrite Hvalue. symmetry. exact Hmr.
          * right. exists (p ++ s). split.
            -- apply Hmem. right. exists s. split; [exact Hs|reflexivity].
            -- exists r'. rewrite Hr'. rewrite app_assoc. reflexivity.
        + right. exists q. split; [|exact Hqk]. apply Hmem. left. split; assumption. }
    split.
    { (* met_sound *)
      intros k v Hin. apply in_met_after in Hin. destruct Hin as [Hin|(Hne & Hk & Hv)].
      - exact (Hsound k v Hin).
      - destruct (Hval Hne) as [Hsok Hsget]. subst k v.
        split; [apply nonempty_true; exact Hne|].
        split; [apply nibs_ok_app_intro; assumption|].
        exists t. split; [exact Htin|]. rewrite <- Hget by exact Hsok. exact Hsget. }
    split.
    { (* NoDup of the keys met *)
      unfold met_after. destruct (nonempty (a_value (annotate m))) eqn:Hne; [|exact Hnd].
      rewrite map_app. cbn [map fst]. apply tw_nodup_snoc; [exact Hnd|].
      intro Hin. apply in_map_iff in Hin. destruct Hin as ((k' & v') & Hk' & Hin').
      cbn [fst] in Hk'. subst k'.
      apply (Hfresh _ _ p Hin' Hpin). exists (a_suffix (annotate m)). reflexivity. }
    { (* no fog prefix above a met key *)
      intros k v q Hin Hq. apply in_met_after in Hin. apply Hmem in Hq.
      destruct Hin as [Hin|(Hne & Hk & Hv)].
      - destruct Hq as [(Hq & _)|(s & Hs & Hqs)].
        + exact (Hfresh k v q Hin Hq).
        + subst q. intro Hpre. apply (Hfresh k v p Hin Hpin).
          eapply fg_prefix_trans; [|exact Hpre]. exists s. reflexivity.
      - subst k v. destruct Hq as [(Hq & Hqp)|(s & Hs & Hqs)].
        + intro Hpre.
          assert (Hpp : is_prefix p (p ++ a_suffix (annotate m))) by (eexists; reflexivity).
          destruct Hfog as (_ & _ & Hfree).
          destruct (fg_prefix_comparable q p _ Hpre Hpp) as [Hc|Hc].
          * apply Hqp. exact (Hfree q p Hq Hpin Hc).
          * apply Hqp. symmetry. exact (Hfree p q Hpin Hq Hc).
        + subst q. intro Hpre. apply (proj1 (fg_prefix_app p s (a_suffix (annotate m)))) in Hpre.
          exact (Hnopre s Hs Hne Hpre). }
  - (* a mutation *)
    injection Hstep as Hw'. subst w'.
    unfold winv, met_sound, met_fresh; cbn [tw_fog tw_versions tw_met].
    split; [exact Hfog|].
    split.
    { unfold versions_ok; cbn [tw_versions]. constructor; [|exact Hver].
      apply Tree_canon.canonical_tapply; [apply current_canonical; exact Hver|].
      destruct o as [k v|k]; exact He. }
    split.
    { intros k v (Hv & Hk & Hall). cbn [tw_versions] in Hall.
      apply Hcov. split; [exact Hv|]. split; [exact Hk|]. exact (Forall_inv_tail Hall). }
    split.
    { intros k v Hin. destruct (Hsound k v Hin) as (Hv & Hk & t & Ht & Hg).
      split; [exact Hv|]. split; [exact Hk|]. exists t. split; [right; exact Ht|exact Hg]. }
    split; [exact Hnd|exact Hfresh].
Qed.

Lemma winv_run s : forall w w', winv w -> sched_ok s -> trun_walk w s = Some w' -> winv w'.
Proof.
  induction s as [|e s IH]; intros w w' Hw Hs Hrun; cbn [trun_walk] in Hrun.
  - injection Hrun as Hrun. subst w'. exact Hw.
  - destruct (tevent_step w e) as [w1|] eqn:E; [|discriminate].
    unfold sched_ok in Hs. apply (IH w1 w').
    + apply (winv_step w e w1 Hw); [|exact E]. exact (Forall_inv Hs).
    + exact (Forall_inv_tail Hs).
    + exact Hrun.
Qed.

Lemma winv_reach t0 s w : canonical_top t0 = true -> sched_ok s ->
  trun_walk (twalk_init t0) s = Some w -> winv w.
Proof. intros Ht Hs Hrun. exact (winv_run s _ w (winv_init t0 Ht) Hs Hrun). Qed.

(* ------------------------------------------------------------------ *)
(* main theorems: safety                                                *)

Theorem C09_invariant t0 s w : canonical_top t0 = true -> sched_ok s ->
  trun_walk (twalk_init t0) s = Some w ->
  fog_inv (tw_fog w) /\ versions_ok w /\
  forall k v, stable w k v ->
    In (k, v) (tw_met w) \/ exists p, In p (tw_fog w) /\ is_prefix p k.
Proof.
  intros Ht Hs Hrun. destruct (winv_reach t0 s w Ht Hs Hrun) as (H1 & H2 & H3 & _).
  split; [exact H1|]. split; [exact H2|exact H3].
Qed.

Theorem C09_complete t0 s w : canonical_top t0 = true -> sched_ok s ->
  trun_walk (twalk_init t0) s = Some w ->
  tw_fog w = [] -> forall k v, stable w k v -> In (k, v) (tw_met w).
Proof.
  intros Ht Hs Hrun Hf k v Hst.
  destruct (C09_invariant t0 s w Ht Hs Hrun) as (_ & _ & Hcov).
  destruct (Hcov k v Hst) as [H|(p & Hp & _)]; [exact H|]. rewrite Hf in Hp. destruct Hp.
Qed.

(* (slightly stronger than asked: the keys met are valid nibble strings) *)
Theorem C09_no_ghosts_ok t0 s w : canonical_top t0 = true -> sched_ok s ->
  trun_walk (twalk_init t0) s = Some w ->
  forall k v, In (k, v) (tw_met w) ->
    v <> [] /\ nibs_ok k = true /\ exists t, In t (tw_versions w) /\ tget t k = v.
Proof.
  intros Ht Hs Hrun. destruct (winv_reach t0 s w Ht Hs Hrun) as (_ & _ & _ & H & _). exact H.
Qed.

Theorem C09_no_ghosts t0 s w : canonical_top t0 = true -> sched_ok s ->
  trun_walk (twalk_init t0) s = Some w ->
  forall k v, In (k, v) (tw_met w) -> v <> [] /\ exists t, In t (tw_versions w) /\ tget t k = v.
Proof.
  intros Ht Hs Hrun k v Hin.
  destruct (C09_no_ghosts_ok t0 s w Ht Hs Hrun k v Hin) as (H1 & _ & H2). split; assumption.
Qed.

(* every key is met at most once, whatever the schedule and the mutations; and once a key
   has been met no unexplored prefix lies above it any more *)
Theorem C09_met_once t0 s w : canonical_top t0 = true -> sched_ok s ->
  trun_walk (twalk_init t0) s = Some w ->
  NoDup (map fst (tw_met w)) /\
  forall k v q, In (k, v) (tw_met w) -> In q (tw_fog w) -> ~ is_prefix q k.
Proof.
  intros Ht Hs Hrun. destruct (winv_reach t0 s w Ht Hs Hrun) as (_ & _ & _ & _ & H). exact H.
Qed.

(* ------------------------------------------------------------------ *)
(* the unchanging trie                                                  *)

Definition steps_only (s : list tevent) : Prop := forall e, In e s -> exists p i, e = EStep p i.

Lemma steps_only_sched_ok s : steps_only s -> sched_ok s.
Proof.
  intro H. unfold sched_ok. apply Forall_forall. intros e He.
  destruct (H e He) as (p & i & Hpi). subst e. exact I.
Qed.

Lemma steps_only_versions s : forall w w', steps_only s -> trun_walk w s = Some w' ->
  tw_versions w' = tw_versions w.
Proof.
  induction s as [|e s IH]; intros w w' Hs Hrun; cbn [trun_walk] in Hrun.
  - injection Hrun as Hrun. subst w'. reflexivity.
  - destruct (tevent_step w e) as [w1|] eqn:E; [|discriminate].
    rewrite (IH w1 w'); [| intros e' He'; apply Hs; right; exact He' | exact Hrun].
    destruct (Hs e (or_introl eq_refl)) as (p & i & Hpi). subst e.
    cbn [tevent_step] in E. destruct (nth_error (tw_versions w) i) as [t|]; [|discriminate].
    destruct (tstep_at_some w p t w1 E) as (f' & _ & Hw1). subst w1. reflexivity.
Qed.

Theorem C09_static t0 s w : canonical_top t0 = true ->
  (forall e, In e s -> exists p i, e = EStep p i) ->
  trun_walk (twalk_init t0) s = Some w -> tw_fog w = [] ->
  (forall k v, In (k, v) (tw_met w) <-> In (k, v) (contents t0)) /\ NoDup (tw_met w).
Proof.
  intros Ht Hsteps Hrun Hf.
  pose proof (steps_only_sched_ok s Hsteps) as Hs.
  pose proof (steps_only_versions s _ w Hsteps Hrun) as Hv. cbn [twalk_init tw_versions] in Hv.
  split.
  - intros k v. rewrite (contents_spec_canonical t0 k v Ht). split.
    + intro Hin. destruct (C09_no_ghosts_ok t0 s w Ht Hs Hrun k v Hin) as (Hne & Hk & t & Htin & Hg).
      rewrite Hv in Htin. destruct Htin as [Htin|[]]. subst t. auto.
    + intros (Hk & Hg & Hne). apply (C09_complete t0 s w Ht Hs Hrun Hf).
      split; [exact Hne|]. split; [exact Hk|]. rewrite Hv. constructor; [exact Hg|constructor].
  - destruct (C09_met_once t0 s w Ht Hs Hrun) as [Hnd _].
    exact (NoDup_map_inv fst (tw_met w) Hnd).
Qed.

(* ------------------------------------------------------------------ *)
(* a step at an unexplored prefix is always enabled                     *)

Theorem C09_step_enabled w p i t : fog_inv (tw_fog w) -> versions_ok w ->
  In p (tw_fog w) -> nth_error (tw_versions w) i = Some t ->
  exists w', tevent_step w (EStep p i) = Some w'.
Proof.
  intros Hfog Hver Hp Hnth. cbn [tevent_step]. rewrite Hnth. unfold tstep_at.
  assert (Ht : canonical_top t = true).
  { unfold versions_ok in Hver. rewrite Forall_forall in Hver. apply Hver.
    eapply nth_error_In; exact Hnth. }
  assert (Hpok : nibs_ok p = true).
  { destruct Hfog as (_ & Hok & _). rewrite Forall_forall in Hok. exact (Hok p Hp). }
  destruct (describe_node t p Ht Hpok) as (m & Hm & Hd & _). rewrite Hd.
  destruct (segs_facts m Hm) as (Hnd & Hsegs & Hnest & _).
  assert (Hex : explore (tw_fog w) p (a_segs (annotate m)) =
                Ok (explore_result (tw_fog w) p (a_segs (annotate m)))).
  { apply fg_explore_ok. split; [|reflexivity].
    split; [exact Hpok|].
    split; [apply forallb_forall; intros s Hs; apply (Hsegs s Hs)|].
    split; [apply fg_mem_in; exact Hp|].
    split; [apply fg_has_dup_false; exact Hnd|].
    destruct (nested_segment (a_segs (annotate m))) eqn:En; [|reflexivity].
    apply fg_nested_iff in En. destruct En as (s1 & s2 & H1 & H2 & Hne & Hpre).
    exfalso. apply Hne. exact (Hnest s1 s2 H1 H2 Hpre). }
  rewrite Hex. eexists. reflexivity.
Qed.

(* ------------------------------------------------------------------ *)
(* termination                                                          *)

Definition pot (L : nat) (p : nibbles) : N := pow17 (S L - length p).

Fixpoint psum (L : nat) (f : fog) : N :=
  match f with
  | [] => 0%N
  | p :: f' => (pot L p + psum L f')%N
  end.

Lemma fog_potential_acc L f : forall a,
  fold_left (fun acc (p : nibbles) => (acc + pow17 (S L - length p))%N) f a = (a + psum L f)%N.
Proof.
  induction f as [|p f IH]; intro a; cbn [fold_left psum].
  - lia.
  - rewrite IH. unfold pot. lia.
Qed.

Lemma fog_potential_psum L f : fog_potential L f = psum L f.
Proof. unfold fog_potential. rewrite fog_potential_acc. lia. Qed.

Lemma pow17_pos n : (0 < pow17 n)%N.
Proof. induction n as [|n IH]; cbn [pow17]; lia. Qed.

Lemma pow17_mono n : forall m, (n <= m)%nat -> (pow17 n <= pow17 m)%N.
Proof.
  induction n as [|n IH]; intros m Hle.
  - cbn [pow17]. pose proof (pow17_pos m). lia.
  - destruct m as [|m]; [lia|]. cbn [pow17]. specialize (IH m ltac:(lia)). lia.
Qed.

Lemma psum_insert L x f : (psum L (fog_insert x f) <= pot L x + psum L f)%N.
Proof.
  induction f as [|q f IH]; cbn [fog_insert psum].
  - lia.
  - destruct (nibbles_eqb x q) eqn:E1.
    + cbn [psum]. lia.
    + destruct (nibbles_ltb x q) eqn:E2; cbn [psum]; lia.
Qed.

Lemma psum_remove L p f : In p f -> psum L f = (pot L p + psum L (fog_remove p f))%N.
Proof.
  induction f as [|q f IH]; intro Hin; [destruct Hin|].
  cbn [fog_remove psum]. destruct (nibbles_eqb p q) eqn:E.
  - apply fg_eqb_eq in E. subst q. reflexivity.
  - destruct Hin as [Hin|Hin].
    + subst q. rewrite fg_eqb_refl in E. discriminate.
    + cbn [psum]. rewrite (IH Hin). lia.
Qed.

Fixpoint ssum (L : nat) (p : nibbles) (segs : list nibbles) : N :=
  match segs with
  | [] => 0%N
  | s :: segs' => (pot L (p ++ s) + ssum L p segs')%N
  end.

Lemma psum_fold L p segs : forall acc,
  (psum L (fold_left (fun acc s => fog_insert (p ++ s) acc) segs acc) <= psum L acc + ssum L p segs)%N.
Proof.
  induction segs as [|s segs IH]; intro acc; cbn [fold_left ssum].
  - lia.
  - specialize (IH (fog_insert (p ++ s) acc)). pose proof (psum_insert L (p ++ s) acc). lia.
Qed.

Lemma ssum_bound L p segs : (forall s, In s segs -> s <> []) ->
  (ssum L p segs <= N.of_nat (length segs) * pow17 (L - length p))%N.
Proof.
  induction segs as [|s segs IH]; intro Hne; cbn [ssum length].
  - lia.
  - assert (Hs : (pot L (p ++ s) <= pow17 (L - length p))%N).
    { unfold pot. apply pow17_mono. rewrite app_length.
      assert (s <> []) by (apply Hne; left; reflexivity).
      destruct s as [|x s]; [congruence|]. cbn [length]. lia. }
    assert (IH' := IH (fun s' Hs' => Hne s' (or_intror Hs'))).
    rewrite Nat2N.inj_succ. lia.
Qed.

Definition keys_bounded (L : nat) (t : node) : Prop :=
  forall k, nibs_ok k = true -> tget t k <> [] -> (length k <= L)%nat.

(* the core: reading a version whose keys are all at most L long *)
Lemma terminates_step_at L w p t w' : fog_inv (tw_fog w) -> canonical_top t = true ->
  keys_bounded L t -> tstep_at w p t = Some w' ->
  (fog_potential L (tw_fog w') < fog_potential L (tw_fog w))%N.
Proof.
  intros Hfog Ht Hb Hstep.
  destruct (tstep_at_some w p t w' Hstep) as (f' & Hex & Hw'). subst w'. cbn [tw_fog].
  apply fg_explore_ok in Hex. destruct Hex as ((Hp & _ & Hpin & _ & _) & Hf'). subst f'.
  apply fg_mem_in in Hpin.
  destruct (describe_node t p Ht Hp) as (m & Hm & Hd & Hget). rewrite Hd.
  destruct (segs_facts m Hm) as (_ & Hsegs & _ & Hlen & _).
  rewrite !fog_potential_psum. unfold explore_result.
  pose proof (psum_fold L p (a_segs (annotate m)) (fog_remove p (tw_fog w))) as H1.
  pose proof (psum_remove L p (tw_fog w) Hpin) as H2.
  assert (H3 : (ssum L p (a_segs (annotate m)) < pot L p)%N).
  { destruct (a_segs (annotate m)) as [|s0 segs] eqn:Esegs.
    - cbn [ssum]. unfold pot. apply pow17_pos.
    - rewrite <- Esegs in *.
      assert (Hs0 : In s0 (a_segs (annotate m))) by (rewrite Esegs; left; reflexivity).
      destruct (Hsegs s0 Hs0) as (_ & Hs0ok & r & Hr & Hg).
      assert (HpL : (length p <= L)%nat).
      { rewrite Hget in Hg by (apply nibs_ok_app_intro; assumption).
        assert (Hk : nibs_ok (p ++ s0 ++ r) = true).
        { apply nibs_ok_app_intro; [exact Hp|]. apply nibs_ok_app_intro; assumption. }
        pose proof (Hb _ Hk Hg) as Hle. rewrite app_length in Hle. lia. }
      pose proof (ssum_bound L p (a_segs (annotate m)) (fun s Hs => proj1 (Hsegs s Hs))) as Hsb.
      unfold pot. replace (S L - length p)%nat with (S (L - length p)) by lia.
      cbn [pow17]. pose proof (pow17_pos (L - length p)) as Hpos.
      assert (Hn16 : (N.of_nat (length (a_segs (annotate m))) <= 16)%N) by lia.
      apply N.le_lt_trans with (16 * pow17 (L - length p))%N; [|lia].
      etransitivity; [exact Hsb|]. apply N.mul_le_mono_r. exact Hn16. }
  lia.
Qed.

Theorem C09_terminates_step L w p i w' : fog_inv (tw_fog w) -> versions_ok w ->
  (forall t k, In t (tw_versions w) -> tget t k <> [] -> nibs_ok k = true -> (length k <= L)%nat) ->
  tevent_step w (EStep p i) = Some w' ->
  (fog_potential L (tw_fog w') < fog_potential L (tw_fog w))%N.
Proof.
  intros Hfog Hver Hb Hstep. cbn [tevent_step] in Hstep.
  destruct (nth_error (tw_versions w) i) as [t|] eqn:Hnth; [|discriminate].
  assert (Htin : In t (tw_versions w)) by (eapply nth_error_In; exact Hnth).
  apply (terminates_step_at L w p t w' Hfog); [| |exact Hstep].
  - unfold versions_ok in Hver. rewrite Forall_forall in Hver. exact (Hver t Htin).
  - intros k Hk Hg. exact (Hb t k Htin Hg Hk).
Qed.

(* whole schedules: L bounds the keys of the initial trie and of every mutation *)
Fixpoint count_steps (s : list tevent) : nat :=
  match s with
  | [] => O
  | EStep _ _ :: s' => S (count_steps s')
  | EMutate _ :: s' => count_steps s'
  end.

Definition sched_bounded (L : nat) (s : list tevent) : Prop :=
  Forall (fun e => match e with
                   | EMutate (TSet k _) | EMutate (TDel k) => (length k <= L)%nat
                   | EStep _ _ => True
                   end) s.

Definition versions_bounded (L : nat) (w : twalk) : Prop :=
  Forall (keys_bounded L) (tw_versions w).

Lemma keys_bounded_tapply L t o : canonical_top t = true -> keys_bounded L t ->
  match o with TSet k _ | TDel k => nibs_ok k = true /\ (length k <= L)%nat end ->
  keys_bounded L (tapply t o).
Proof.
  intros Ht Hb Ho q Hq Hg.
  assert (Hop : op_ok o) by (destruct o as [k v|k]; exact (proj1 Ho)).
  rewrite (tget_tapply t o q (canonical_wf t Ht) Hop Hq) in Hg.
  destruct o as [k v|k]; cbn [spec_apply] in Hg; destruct (nibbles_eqb q k) eqn:E.
  - apply fg_eqb_eq in E. subst q. exact (proj2 Ho).
  - exact (Hb q Hq Hg).
  - congruence.
  - exact (Hb q Hq Hg).
Qed.

Lemma terminates_run L s : forall w w', winv w -> versions_bounded L w ->
  sched_ok s -> sched_bounded L s -> trun_walk w s = Some w' ->
  (N.of_nat (count_steps s) + fog_potential L (tw_fog w') <= fog_potential L (tw_fog w))%N.
Proof.
  induction s as [|e s IH]; intros w w' Hw Hvb Hs Hsb Hrun; cbn [trun_walk] in Hrun.
  - injection Hrun as Hrun. subst w'. cbn [count_steps]. lia.
  - destruct (tevent_step w e) as [w1|] eqn:E; [|discriminate].
    unfold sched_ok in Hs. unfold sched_bounded in Hsb.
    pose proof (winv_step w e w1 Hw (Forall_inv Hs) E) as Hw1.
    destruct Hw as (Hfog & Hver & _).
    destruct e as [p i|o].
    + assert (Hvb1 : versions_bounded L w1).
      { cbn [tevent_step] in E. destruct (nth_error (tw_versions w) i) as [t|]; [|discriminate].
        destruct (tstep_at_some w p t w1 E) as (f' & _ & Hw1e). subst w1. exact Hvb. }
      pose proof (IH w1 w' Hw1 Hvb1 (Forall_inv_tail Hs) (Forall_inv_tail Hsb) Hrun) as IH1.
      assert (Hdec : (fog_potential L (tw_fog w1) < fog_potential L (tw_fog w))%N).
      { apply (C09_terminates_step L w p i w1 Hfog Hver); [|exact E].
        intros t k Htin Hg Hk. unfold versions_bounded in Hvb. rewrite Forall_forall in Hvb.
        exact (Hvb t Htin k Hk Hg). }
      cbn [count_steps]. lia.
    + cbn [tevent_step] in E. injection E as E. subst w1.
      assert (Hvb1 : versions_bounded L (mkTW (tapply (current w) o :: tw_versions w) (tw_fog w) (tw_met w))).
      { unfold versions_bounded; cbn [tw_versions]. constructor; [|exact Hvb].
        apply keys_bounded_tapply.
        - apply current_canonical. exact Hver.
        - unfold current. unfold versions_bounded in Hvb.
          destruct (tw_versions w) as [|t l]; cbn [hd].
          + intros k _ Hg. cbn [tget] in Hg. congruence.
          + exact (Forall_inv Hvb).
        - pose proof (Forall_inv Hs) as H1. pose proof (Forall_inv Hsb) as H2.
          cbn beta iota in H1, H2. destruct o as [k v|k]; split; assumption. }
      pose proof (IH _ w' Hw1 Hvb1 (Forall_inv_tail Hs) (Forall_inv_tail Hsb) Hrun) as IH1.
      cbn [tw_fog] in IH1. cbn [count_steps]. exact IH1.
Qed.

(* the number of walk steps of ANY enabled schedule is at most 17^(L+1) *)
Theorem C09_terminates L t0 s w : canonical_top t0 = true -> sched_ok s ->
  keys_bounded L t0 -> sched_bounded L s ->
  trun_walk (twalk_init t0) s = Some w ->
  (N.of_nat (count_steps s) + fog_potential L (tw_fog w) <= pow17 (S L))%N.
Proof.
  intros Ht Hs Hb Hsb Hrun.
  pose proof (terminates_run L s (twalk_init t0) w (winv_init t0 Ht)) as H.
  assert (Hvb : versions_bounded L (twalk_init t0)).
  { unfold versions_bounded, twalk_init; cbn [tw_versions]. constructor; [exact Hb|constructor]. }
  specialize (H Hvb Hs Hsb Hrun).
  replace (fog_potential L (tw_fog (twalk_init t0))) with (pow17 (S L)) in H; [exact H|].
  unfold twalk_init, fog_init, fog_potential; cbn [tw_fog fold_left length].
  rewrite Nat.sub_0_r. lia.
Qed.

Corollary C09_step_bound L t0 s w : canonical_top t0 = true -> sched_ok s ->
  keys_bounded L t0 -> sched_bounded L s ->
  trun_walk (twalk_init t0) s = Some w -> (N.of_nat (count_steps s) <= pow17 (S L))%N.
Proof. intros Ht Hs Hb Hsb Hrun. pose proof (C09_terminates L t0 s w Ht Hs Hb Hsb Hrun). lia. Qed.

(* keys_bounded is decidable on the contents, and every tree has a bound *)
Lemma keys_bounded_contents L t : canonical_top t = true ->
  (keys_bounded L t <-> Forall (fun e => (length (fst e) <= L)%nat) (contents t)).
Proof.
  intro Ht. rewrite Forall_forall. split.
  - intros Hb (k & v) Hin. cbn [fst].
    apply (contents_spec_canonical t k v Ht) in Hin. destruct Hin as (Hk & Hg & Hne).
    apply Hb; [exact Hk|]. rewrite Hg. exact Hne.
  - intros Hall k Hk Hg.
    apply (Hall (k, tget t k)). apply (contents_spec_canonical t k _ Ht). auto.
Qed.

Definition max_key_len (t : node) : nat := list_max (map (fun e : nibbles * bytes => length (fst e)) (contents t)).

Lemma keys_bounded_max t : canonical_top t = true -> keys_bounded (max_key_len t) t.
Proof.
  intro Ht. apply keys_bounded_contents; [exact Ht|].
  unfold max_key_len. pose proof (list_max_le (map (fun e : nibbles * bytes => length (fst e)) (contents t))
                                              (list_max (map (fun e : nibbles * bytes => length (fst e)) (contents t)))) as H.
  destruct H as [H _]. specialize (H (Nat.le_refl _)).
  rewrite Forall_map in H. exact H.
Qed.

(* from any state satisfying the invariant, the walk (reading the current version) can be
   driven to a complete fog by walk steps alone *)
Lemma psum_in_pos L p f : In p f -> (0 < psum L f)%N.
Proof.
  intro Hin. rewrite (psum_remove L p f Hin). unfold pot.
  pose proof (pow17_pos (S L - length p)). lia.
Qed.

Lemma can_finish_aux L n : forall w, fog_inv (tw_fog w) -> versions_ok w ->
  tw_versions w <> [] -> keys_bounded L (current w) ->
  (N.to_nat (fog_potential L (tw_fog w)) <= n)%nat ->
  exists s w', steps_only s /\ trun_walk w s = Some w' /\ tw_fog w' = [].
Proof.
  induction n as [|n IH]; intros w Hfog Hver Hne Hb Hn.
  - assert (Hcase : tw_fog w = [] \/ exists p, In p (tw_fog w)).
    { destruct (tw_fog w) as [|p f]; [left; reflexivity|right; exists p; left; reflexivity]. }
    destruct Hcase as [Ef|(p & Hp)].
    + exists [], w. split; [intros e []|]. split; [reflexivity|exact Ef].
    + exfalso. rewrite fog_potential_psum in Hn. pose proof (psum_in_pos L p _ Hp). lia.
  - assert (Hcase : tw_fog w = [] \/ exists p, In p (tw_fog w)).
    { destruct (tw_fog w) as [|p f]; [left; reflexivity|right; exists p; left; reflexivity]. }
    destruct Hcase as [Ef|(p & Hp)].
    + exists [], w. split; [intros e []|]. split; [reflexivity|exact Ef].
    + assert (Hcur : exists t, nth_error (tw_versions w) 0 = Some t /\ current w = t).
      { unfold current. destruct (tw_versions w) as [|t l]; [congruence|]. exists t. split; reflexivity. }
      destruct Hcur as (t & Hnth & Hcur).
      destruct (C09_step_enabled w p 0 t Hfog Hver Hp Hnth) as (w1 & Hstep).
      pose proof Hstep as Hstep'. cbn [tevent_step] in Hstep'. rewrite Hnth in Hstep'.
      assert (Ht : canonical_top t = true) by (rewrite <- Hcur; apply current_canonical; exact Hver).
      assert (Hbt : keys_bounded L t) by (rewrite <- Hcur; exact Hb).
      pose proof (terminates_step_at L w p t w1 Hfog Ht Hbt Hstep') as Hdec.
      destruct (tstep_at_some w p t w1 Hstep') as (f' & Hex & Hw1).
      destruct (explore_inv _ _ _ _ Hfog Hex) as [Hfog1 _].
      assert (Hv1 : tw_versions w1 = tw_versions w) by (subst w1; reflexivity).
      assert (Hf1 : tw_fog w1 = f') by (subst w1; reflexivity).
      destruct (IH w1) as (s & w' & Hs & Hrun & Hdone).
      * rewrite Hf1. exact Hfog1.
      * unfold versions_ok. rewrite Hv1. exact Hver.
      * rewrite Hv1. exact Hne.
      * unfold current. rewrite Hv1. exact Hb.
      * lia.
      * exists (EStep p 0 :: s), w'. split.
        -- intros e [He|He]; [subst e; eauto|apply Hs; exact He].
        -- split; [|exact Hdone]. cbn [trun_walk]. rewrite Hstep. exact Hrun.
Qed.

Lemma versions_nonempty_run s : forall w0 w, tw_versions w0 <> [] ->
  trun_walk w0 s = Some w -> tw_versions w <> [].
Proof.
  induction s as [|e s IH]; intros w0 w H0 Hrun; cbn [trun_walk] in Hrun.
  - injection Hrun as Hrun. subst w0. exact H0.
  - destruct (tevent_step w0 e) as [w1|] eqn:E; [|discriminate].
    apply (IH w1); [|exact Hrun]. destruct e as [p i|o]; cbn [tevent_step] in E.
    + destruct (nth_error (tw_versions w0) i) as [t|]; [|discriminate].
      destruct (tstep_at_some w0 p t w1 E) as (f' & _ & Hw1). subst w1. exact H0.
    + injection E as E. subst w1. cbn [tw_versions]. discriminate.
Qed.

Theorem C09_can_finish t0 s w : canonical_top t0 = true -> sched_ok s ->
  trun_walk (twalk_init t0) s = Some w ->
  exists s' w', steps_only s' /\ trun_walk w s' = Some w' /\ tw_fog w' = [].
Proof.
  intros Ht Hs Hrun. destruct (winv_reach t0 s w Ht Hs Hrun) as (Hfog & Hver & _ & _ & _).
  assert (Hne : tw_versions w <> []).
  { apply (versions_nonempty_run s (twalk_init t0) w); [|exact Hrun].
    unfold twalk_init; cbn [tw_versions]. discriminate. }
  apply (can_finish_aux (max_key_len (current w))
           (N.to_nat (fog_potential (max_key_len (current w)) (tw_fog w))) w Hfog Hver Hne); [|lia].
  apply keys_bounded_max. apply current_canonical. exact Hver.
Qed.

(* ------------------------------------------------------------------ *)
(* the hypotheses are satisfiable: a 4-key trie, a delete that collapses the branch at
   [1;2] into a leaf, an insert that splits the leaf at [5] into extension + branch, two
   steps through stale versions (one of them a partial traversal ending inside the old
   leaf [6;7], answered by the simulated node), reaching an empty fog.  The three stable
   keys are met; the deleted key and the inserted key are not. *)
Local Open Scope N_scope.

Definition ex_t0 : node :=
  trun [TSet [1;2;3] [Byte.x61]; TSet [1;2;4] [Byte.x62]; TSet [5;6;7] [Byte.x63]; TSet [1;9] [Byte.x64]].

Definition ex_sched : list tevent :=
  [EStep [] 0; EMutate (TDel [1;2;4]); EStep [1] 1; EMutate (TSet [5;6;8] [Byte.x65]);
   EStep [1;2] 0; EStep [5] 0; EStep [5;6] 2; EStep [1;9] 1].

Example C09_example :
  canonical_top ex_t0 = true /\ sched_ok ex_sched /\
  keys_bounded 3 ex_t0 /\ sched_bounded 3 ex_sched /\
  length (contents ex_t0) = 4%nat /\
  exists w, trun_walk (twalk_init ex_t0) ex_sched = Some w /\
            tw_fog w = [] /\
            tw_met w = [([1;2;3], [Byte.x61]); ([5;6;7], [Byte.x63]); ([1;9], [Byte.x64])] /\
            length (tw_versions w) = 3%nat.
Proof.
  split; [vm_compute; reflexivity|].
  split; [unfold sched_ok, ex_sched; repeat constructor|].
  split.
  { apply keys_bounded_contents; [vm_compute; reflexivity|].
    vm_compute. repeat constructor. }
  split; [unfold sched_bounded, ex_sched; repeat constructor|].
  split; [vm_compute; reflexivity|].
  eexists. split; [vm_compute; reflexivity|].
  cbn [tw_fog tw_met tw_versions length]. repeat split.
Qed.

Print Assumptions C09_invariant.
Print Assumptions C09_complete.
Print Assumptions C09_no_ghosts.
Print Assumptions C09_no_ghosts_ok.
Print Assumptions C09_met_once.
Print Assumptions C09_static.
Print Assumptions C09_step_enabled.
Print Assumptions C09_terminates_step.
Print Assumptions C09_terminates.
Print Assumptions C09_step_bound.
Print Assumptions C09_can_finish.
Print Assumptions C09_example.
