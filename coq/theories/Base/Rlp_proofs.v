(* Base/Rlp_proofs.v — facts about the RLP encoder/decoder of Base/Rlp.v.

   Summary of what is TRUE for the definitions as they are:
   - the length-of-length byte of [rlp_len_prefix] is [n2b (off + 55 + blen bl)], which wraps modulo 256
     as soon as the length needs 9 bytes or more (>= 2^64).  Every round-trip / classification / injectivity
     statement therefore carries the hypothesis [item_small x] (all string and payload lengths < 2^64),
     which holds for every item whose encoding is shorter than 2^64 bytes ([item_small_of_length]).
   - [rlp_decode] runs [rlp_dec_item] with fuel [length b + 2]; but the decoder spends TWO units of fuel per
     nesting level (one in [rlp_dec_item], one in [rlp_dec_list]) while a nesting level can cost a single
     byte.  So [rlp_decode (rlp_encode x) = Ok x] is FALSE in general:
     [rlp_decode (rlp_encode (RList [RList [RList []]])) = Err EOutOfFuel]  ([rlp_decode_encode_counterexample]).
     The exact fuel the decoder needs is [item_fuel x] ([rlp_dec_item_encode], [rlp_dec_item_out_of_fuel]),
     and [rlp_decode (rlp_encode x) = Ok x <-> item_fuel x <= length (rlp_encode x) + 2]  ([rlp_decode_encode_iff]).
     It holds for all items of nesting depth <= 2 ([rlp_decode_encode_shallow]). *)
From Coq Require Import List NArith Bool Arith Lia ZifyBool.
From Coq.Init Require Import Byte.
From PyTrie.Base Require Import Bytes Result Rlp Bytes_proofs.
Import ListNotations.
Open Scope N_scope.

(* ------------------------------------------------------------------ *)
(* induction principle for the nested type *)
Section ItemInd.
  Variable P : item -> Prop.
  Hypothesis HS : forall b, P (RStr b).
  Hypothesis HL : forall l, Forall P l -> P (RList l).
  Fixpoint item_ind' (x : item) : P x :=
    match x with
    | RStr b => HS b
    | RList l =>
        HL l ((fix go (l : list item) : Forall P l :=
                 match l with
                 | [] => Forall_nil P
                 | y :: l' => Forall_cons y (item_ind' y) (go l')
                 end) l)
    end.
End ItemInd.

(* ------------------------------------------------------------------ *)
(* item_eqb *)
Fixpoint items_eqb (l l' : list item) : bool :=
  match l, l' with
  | [], [] => true
  | x :: l1, y :: l2 => item_eqb x y && items_eqb l1 l2
  | _, _ => false
  end.

Lemma item_eqb_list l l' : item_eqb (RList l) (RList l') = items_eqb l l'.
Proof. reflexivity. Qed.

Lemma item_eqb_eq a b : item_eqb a b = true <-> a = b.
Proof.
  revert b. induction a as [x|l IHl] using item_ind'; intros [y|l'].
  - cbn [item_eqb]. rewrite bytes_eqb_eq. split; intro Hxy; [subst; reflexivity|injection Hxy as ->; reflexivity].
  - cbn [item_eqb]. split; intro Hxy; discriminate.
  - cbn [item_eqb]. split; intro Hxy; discriminate.
  - rewrite item_eqb_list.
    assert (Hl : items_eqb l l' = true <-> l = l').
    { revert l'. induction IHl as [|x l Hx Hl IH]; intros [|y l']; cbn [items_eqb].
      - split; reflexivity.
      - split; intro Hxy; discriminate.
      - split; intro Hxy; discriminate.
      - rewrite andb_true_iff, Hx, IH. split.
        + intros [-> ->]. reflexivity.
        + intro Hxy. injection Hxy as -> ->. split; reflexivity. }
    rewrite Hl. split; intro Hxy; [subst; reflexivity|injection Hxy as ->; reflexivity].
Qed.

Lemma item_eqb_refl a : item_eqb a a = true.
Proof. apply item_eqb_eq. reflexivity. Qed.

Lemma item_eq_dec (a b : item) : {a = b} + {a <> b}.
Proof.
  destruct (item_eqb a b) eqn:E.
  - left. apply item_eqb_eq. exact E.
  - right. intro Hab. apply item_eqb_eq in Hab. congruence.
Qed.

(* ------------------------------------------------------------------ *)
(* be_min / be_to_N *)
Lemma b2n_n2b_mod n : b2n (n2b n) = n mod 256.
Proof.
  assert (Hm : n2b n = n2b (n mod 256)).
  { unfold n2b. rewrite N.mod_mod by lia. reflexivity. }
  rewrite Hm. apply b2n_n2b. apply N.mod_lt. lia.
Qed.

Lemma be_to_N_snoc l x : be_to_N (l ++ [x]) = be_to_N l * 256 + b2n x.
Proof. unfold be_to_N. rewrite fold_left_app. reflexivity. Qed.

Lemma be_min_aux_app fuel : forall n acc, be_min_aux fuel n acc = be_min_aux fuel n [] ++ acc.
Proof.
  induction fuel as [|f IH]; intros n acc; cbn [be_min_aux].
  - reflexivity.
  - destruct (n =? 0) eqn:E.
    + reflexivity.
    + rewrite IH. rewrite (IH _ [n2b n]). rewrite <- app_assoc. reflexivity.
Qed.

Lemma be_min_aux_S f n : n <> 0 -> be_min_aux (S f) n [] = be_min_aux f (n / 256) [] ++ [n2b n].
Proof.
  intro Hn. cbn [be_min_aux]. destruct (n =? 0) eqn:E; [lia|]. apply be_min_aux_app.
Qed.

Lemma be_min_aux_0 f : be_min_aux f 0 [] = [].
Proof. destruct f as [|f]; reflexivity. Qed.

Lemma be_to_N_be_min_aux fuel : forall n, n < 2 ^ N.of_nat fuel -> be_to_N (be_min_aux fuel n []) = n.
Proof.
  induction fuel as [|f IH]; intros n Hn.
  - cbn in Hn. cbn [be_min_aux]. cbn. lia.
  - destruct (N.eq_dec n 0) as [-> | Hnz].
    + reflexivity.
    + rewrite be_min_aux_S by exact Hnz. rewrite be_to_N_snoc, b2n_n2b_mod.
      rewrite IH.
      * pose proof (N.div_mod' n 256). lia.
      * rewrite Nat2N.inj_succ, N.pow_succ_r' in Hn.
        apply N.div_lt_upper_bound; lia.
Qed.

Lemma pos_size_nat_gt p : N.pos p < 2 ^ N.of_nat (Pos.size_nat p).
Proof.
  induction p as [p IH|p IH|]; cbn [Pos.size_nat].
  - rewrite Nat2N.inj_succ, N.pow_succ_r'. lia.
  - rewrite Nat2N.inj_succ, N.pow_succ_r'. lia.
  - cbn. lia.
Qed.

Lemma size_nat_gt n : n < 2 ^ N.of_nat (S (N.size_nat n)).
Proof.
  rewrite Nat2N.inj_succ, N.pow_succ_r'.
  destruct n as [|p].
  - cbn. lia.
  - cbn [N.size_nat]. pose proof (pos_size_nat_gt p). lia.
Qed.

Lemma be_to_N_be_min n : be_to_N (be_min n) = n.
Proof. unfold be_min. apply be_to_N_be_min_aux. apply size_nat_gt. Qed.

Lemma be_min_aux_nonzero_head fuel : forall n, n < 2 ^ N.of_nat fuel -> n <> 0 ->
  exists x r, be_min_aux fuel n [] = x :: r /\ b2n x <> 0.
Proof.
  induction fuel as [|f IH]; intros n Hn Hnz.
  - cbn in Hn. lia.
  - rewrite be_min_aux_S by exact Hnz.
    rewrite Nat2N.inj_succ, N.pow_succ_r' in Hn.
    destruct (N.eq_dec (n / 256) 0) as [Hq|Hq].
    + rewrite Hq, be_min_aux_0. exists (n2b n), []. split; [reflexivity|].
      rewrite b2n_n2b_mod. pose proof (N.div_mod' n 256). lia.
    + destruct (IH (n / 256)) as (x & r & Hxr & Hx).
      * apply N.div_lt_upper_bound; lia.
      * exact Hq.
      * rewrite Hxr. exists x, (r ++ [n2b n]). split; [reflexivity|exact Hx].
Qed.

(* canonical: no leading zero byte *)
Lemma be_min_nonzero_head n : n <> 0 -> exists x r, be_min n = x :: r /\ b2n x <> 0.
Proof. intro Hn. unfold be_min. apply be_min_aux_nonzero_head; [apply size_nat_gt|exact Hn]. Qed.

Lemma be_min_0 : be_min 0 = [].
Proof. reflexivity. Qed.

Lemma be_min_aux_length fuel : forall n (k : nat), n < 256 ^ N.of_nat k -> (length (be_min_aux fuel n []) <= k)%nat.
Proof.
  induction fuel as [|f IH]; intros n k Hn.
  - cbn [be_min_aux length]. lia.
  - destruct (N.eq_dec n 0) as [-> | Hnz].
    + cbn. lia.
    + rewrite be_min_aux_S by exact Hnz. rewrite app_length. cbn [length].
      destruct k as [|k].
      * cbn in Hn. lia.
      * rewrite Nat2N.inj_succ, N.pow_succ_r' in Hn.
        assert (Hq : n / 256 < 256 ^ N.of_nat k) by (apply N.div_lt_upper_bound; lia).
        specialize (IH _ _ Hq). lia.
Qed.

Lemma be_min_length n (k : nat) : n < 256 ^ N.of_nat k -> (length (be_min n) <= k)%nat.
Proof. unfold be_min. apply be_min_aux_length. Qed.

Lemma blen_be_min_small n : n < 2 ^ 64 -> blen (be_min n) <= 8.
Proof.
  intro Hn. unfold blen. pose proof (be_min_length n 8) as Hl.
  change (256 ^ N.of_nat 8) with (2 ^ 64) in Hl. specialize (Hl Hn). lia.
Qed.

Lemma blen_be_min_pos n : n <> 0 -> 1 <= blen (be_min n).
Proof.
  intro Hn. destruct (be_min_nonzero_head n Hn) as (x & r & Hxr & _). rewrite Hxr.
  unfold blen. cbn [length]. lia.
Qed.

(* ------------------------------------------------------------------ *)
(* blen, take_n *)
Lemma blen_app a b : blen (a ++ b) = blen a + blen b.
Proof. unfold blen. rewrite app_length. lia. Qed.

Lemma blen_cons x b : blen (x :: b) = 1 + blen b.
Proof. unfold blen. cbn [length]. lia. Qed.

Lemma blen_nil : blen [] = 0.
Proof. reflexivity. Qed.

Lemma take_n_app a r : take_n (blen a) (a ++ r) = Ok (a, r).
Proof.
  unfold take_n. rewrite blen_app.
  destruct (blen a + blen r <? blen a) eqn:E; [lia|].
  unfold blen. rewrite Nat2N.id.
  rewrite firstn_app, Nat.sub_diag, firstn_all, firstn_O, app_nil_r.
  rewrite skipn_app, Nat.sub_diag, skipn_all, skipn_O. reflexivity.
Qed.

Lemma take_n_0 r : take_n 0 r = Ok ([], r).
Proof. apply (take_n_app [] r). Qed.

(* ------------------------------------------------------------------ *)
(* the encoder, unfolded *)
Fixpoint rlp_payload (l : list item) : bytes :=
  match l with
  | [] => []
  | y :: l' => rlp_encode y ++ rlp_payload l'
  end.

Lemma rlp_encode_list l : rlp_encode (RList l) = rlp_len_prefix 192 (blen (rlp_payload l)) ++ rlp_payload l.
Proof. reflexivity. Qed.

Lemma rlp_payload_concat l : rlp_payload l = concat (map rlp_encode l).
Proof. induction l as [|y l IH]; cbn [rlp_payload map concat]; [reflexivity|rewrite IH; reflexivity]. Qed.

Lemma rlp_payload_app l1 l2 : rlp_payload (l1 ++ l2) = rlp_payload l1 ++ rlp_payload l2.
Proof.
  induction l1 as [|y l1 IH]; cbn [rlp_payload app]; [reflexivity|rewrite IH, app_assoc; reflexivity].
Qed.

Lemma rlp_len_prefix_cons off len : exists h t, rlp_len_prefix off len = h :: t.
Proof. unfold rlp_len_prefix. destruct (len <? 56) eqn:E; eauto. Qed.

Lemma rlp_encode_str_cases b :
  (exists c, b = [c] /\ b2n c < 128 /\ rlp_encode (RStr b) = [c]) \/
  rlp_encode (RStr b) = rlp_len_prefix 128 (blen b) ++ b.
Proof.
  destruct b as [|c [|c' b']]; cbn [rlp_encode].
  - right. reflexivity.
  - destruct (b2n c <? 128) eqn:E.
    + left. exists c. split; [reflexivity|]. split; [lia|reflexivity].
    + right. reflexivity.
  - right. reflexivity.
Qed.

Lemma rlp_encode_nonempty x : rlp_encode x <> [].
Proof.
  destruct x as [b|l].
  - destruct (rlp_encode_str_cases b) as [(c & _ & _ & ->) | ->]; [discriminate|].
    destruct (rlp_len_prefix_cons 128 (blen b)) as (h & t & ->). discriminate.
  - rewrite rlp_encode_list.
    destruct (rlp_len_prefix_cons 192 (blen (rlp_payload l))) as (h & t & ->). discriminate.
Qed.

Lemma rlp_encode_length_pos x : (1 <= length (rlp_encode x))%nat.
Proof.
  pose proof (rlp_encode_nonempty x) as Hne. destruct (rlp_encode x) as [|h t]; [congruence|cbn [length]; lia].
Qed.

Lemma rlp_len_prefix_length_pos off len : (1 <= length (rlp_len_prefix off len))%nat.
Proof. destruct (rlp_len_prefix_cons off len) as (h & t & ->). cbn [length]. lia. Qed.

(* ------------------------------------------------------------------ *)
(* the size side condition *)
Fixpoint item_smallb (x : item) : bool :=
  match x with
  | RStr b => blen b <? 2 ^ 64
  | RList l =>
      (fix go (l : list item) : bool :=
         match l with
         | [] => true
         | y :: l' => item_smallb y && go l'
         end) l
      && (blen (rlp_payload l) <? 2 ^ 64)
  end.

(* every string length and every list-payload length inside [x] is below 2^64 *)
Definition item_small (x : item) : Prop := item_smallb x = true.

Lemma item_small_str b : item_small (RStr b) <-> blen b < 2 ^ 64.
Proof. unfold item_small. cbn [item_smallb]. rewrite N.ltb_lt. reflexivity. Qed.

Lemma item_small_list l : item_small (RList l) <-> Forall item_small l /\ blen (rlp_payload l) < 2 ^ 64.
Proof.
  unfold item_small. cbn [item_smallb]. rewrite andb_true_iff, N.ltb_lt.
  assert (Hl : (fix go (l : list item) : bool :=
                  match l with [] => true | y :: l' => item_smallb y && go l' end) l = true
               <-> Forall (fun x => item_smallb x = true) l).
  { induction l as [|y l IH].
    - split; intro Hx; [constructor|reflexivity].
    - rewrite andb_true_iff, IH. split.
      + intros [Hy Hl]. constructor; assumption.
      + intro Hyl. inversion Hyl as [|y' l' Hy Hl]; subst. split; assumption. }
  rewrite Hl. reflexivity.
Qed.

Lemma blen_str_le b : blen b <= blen (rlp_encode (RStr b)).
Proof.
  destruct (rlp_encode_str_cases b) as [(c & -> & _ & ->) | ->].
  - lia.
  - rewrite blen_app. lia.
Qed.

Lemma blen_payload_le l : blen (rlp_payload l) < blen (rlp_encode (RList l)).
Proof.
  rewrite rlp_encode_list, blen_app.
  pose proof (rlp_len_prefix_length_pos 192 (blen (rlp_payload l))) as Hp.
  unfold blen at 2. lia.
Qed.

(* the bound is harmless: it holds for everything that encodes to fewer than 2^64 bytes *)
Lemma item_small_of_length x : blen (rlp_encode x) < 2 ^ 64 -> item_small x.
Proof.
  induction x as [b|l IHl] using item_ind'; intro Hlen.
  - apply item_small_str. pose proof (blen_str_le b). lia.
  - apply item_small_list. pose proof (blen_payload_le l) as Hp.
    assert (Hpl : blen (rlp_payload l) < 2 ^ 64) by lia.
    split; [|exact Hpl]. clear Hlen Hp.
    induction IHl as [|y l Hy Hl IH].
    + constructor.
    + cbn [rlp_payload] in Hpl. rewrite blen_app in Hpl. constructor.
      * apply Hy. lia.
      * apply IH. lia.
Qed.

(* ... and only the top-level length matters *)
Lemma item_small_top x :
  item_small x <-> match x with RStr b => blen b < 2 ^ 64 | RList l => blen (rlp_payload l) < 2 ^ 64 end.
Proof.
  destruct x as [b|l].
  - apply item_small_str.
  - rewrite item_small_list. split; [intros [_ Hp]; exact Hp|]. intro Hp. split; [|exact Hp].
    induction l as [|y l IH].
    + constructor.
    + cbn [rlp_payload] in Hp. rewrite blen_app in Hp. constructor.
      * apply item_small_of_length. lia.
      * apply IH. lia.
Qed.

(* ------------------------------------------------------------------ *)
(* first-byte classification *)
Lemma two64 : 2 ^ 64 = 18446744073709551616.
Proof. reflexivity. Qed.

Lemma rlp_encode_str_head_small b : blen b < 2 ^ 64 ->
  exists h t, rlp_encode (RStr b) = h :: t /\ b2n h < 192.
Proof.
  intro Hb. destruct (rlp_encode_str_cases b) as [(c & -> & Hc & ->) | ->].
  - exists c, []. split; [reflexivity|lia].
  - unfold rlp_len_prefix. destruct (blen b <? 56) eqn:E.
    + exists (n2b (128 + blen b)), b. split; [reflexivity|]. rewrite b2n_n2b by lia. lia.
    + pose proof (blen_be_min_small _ Hb) as Hle.
      exists (n2b (128 + 55 + blen (be_min (blen b)))), (be_min (blen b) ++ b). split; [reflexivity|].
      rewrite b2n_n2b by lia. lia.
Qed.

Lemma rlp_encode_list_head_small l : blen (rlp_payload l) < 2 ^ 64 ->
  exists h t, rlp_encode (RList l) = h :: t /\ 192 <= b2n h.
Proof.
  intro Hb. rewrite rlp_encode_list. set (p := rlp_payload l) in *.
  unfold rlp_len_prefix. destruct (blen p <? 56) eqn:E.
  - exists (n2b (192 + blen p)), p. split; [reflexivity|]. rewrite b2n_n2b by lia. lia.
  - pose proof (blen_be_min_small _ Hb) as Hle.
    exists (n2b (192 + 55 + blen (be_min (blen p)))), (be_min (blen p) ++ p). split; [reflexivity|].
    rewrite b2n_n2b by lia. lia.
Qed.

Lemma rlp_encode_str_head b : item_small (RStr b) -> exists h t, rlp_encode (RStr b) = h :: t /\ b2n h < 192.
Proof. intro Hs. apply rlp_encode_str_head_small. apply item_small_str. exact Hs. Qed.

Lemma rlp_encode_list_head l : item_small (RList l) -> exists h t, rlp_encode (RList l) = h :: t /\ 192 <= b2n h.
Proof. intro Hs. apply rlp_encode_list_head_small. apply item_small_list in Hs. apply Hs. Qed.

(* ------------------------------------------------------------------ *)
(* the decoder, unfolded one step *)
Lemma rlp_dec_item_0 b : rlp_dec_item 0 b = Err EOutOfFuel.
Proof. reflexivity. Qed.

Lemma rlp_dec_list_0 b : rlp_dec_list 0 b = Err EOutOfFuel.
Proof. reflexivity. Qed.

Lemma rlp_dec_item_S f x rest :
  rlp_dec_item (S f) (x :: rest) =
    let n := b2n x in
    if n <? 128 then Ok (RStr [x], rest)
    else if n <? 184 then
      match take_n (n - 128) rest with
      | Ok (s, rest') => Ok (RStr s, rest')
      | Err e => Err e
      end
    else if n <? 192 then
      match take_n (n - 183) rest with
      | Ok (lb, rest') =>
          match take_n (be_to_N lb) rest' with
          | Ok (s, rest'') => Ok (RStr s, rest'')
          | Err e => Err e
          end
      | Err e => Err e
      end
    else if n <? 248 then
      match take_n (n - 192) rest with
      | Ok (p, rest') =>
          match rlp_dec_list f p with
          | Ok l => Ok (RList l, rest')
          | Err e => Err e
          end
      | Err e => Err e
      end
    else
      match take_n (n - 247) rest with
      | Ok (lb, rest') =>
          match take_n (be_to_N lb) rest' with
          | Ok (p, rest'') =>
              match rlp_dec_list f p with
              | Ok l => Ok (RList l, rest'')
              | Err e => Err e
              end
          | Err e => Err e
          end
      | Err e => Err e
      end.
Proof. reflexivity. Qed.

Lemma rlp_dec_list_S_nil f : rlp_dec_list (S f) [] = Ok [].
Proof. reflexivity. Qed.

Lemma rlp_dec_list_S_cons f b : b <> [] ->
  rlp_dec_list (S f) b =
    match rlp_dec_item f b with
    | Ok (it, rest) =>
        match rlp_dec_list f rest with
        | Ok l => Ok (it :: l)
        | Err e => Err e
        end
    | Err e => Err e
    end.
Proof. intro Hb. destruct b as [|x b]; [congruence|reflexivity]. Qed.

Ltac if_false :=
  match goal with
  | |- context [if ?c then _ else _] => let E := fresh "E" in destruct c eqn:E; [exfalso; lia|clear E]
  end.
Ltac if_true :=
  match goal with
  | |- context [if ?c then _ else _] => let E := fresh "E" in destruct c eqn:E; [clear E|exfalso; lia]
  end.

(* one decoder step on an encoded string *)
Lemma rlp_dec_item_str b : blen b < 2 ^ 64 -> forall rest f,
  rlp_dec_item (S f) (rlp_encode (RStr b) ++ rest) = Ok (RStr b, rest).
Proof.
  intros Hb rest f. destruct (rlp_encode_str_cases b) as [(c & -> & Hc & ->) | ->].
  - cbn [app]. rewrite rlp_dec_item_S. cbv zeta. if_true. reflexivity.
  - unfold rlp_len_prefix. destruct (blen b <? 56) eqn:E.
    + cbn [app]. rewrite rlp_dec_item_S. cbv zeta. rewrite b2n_n2b by lia.
      if_false. if_true.
      replace (128 + blen b - 128) with (blen b) by lia.
      rewrite take_n_app. reflexivity.
    + pose proof (blen_be_min_small _ Hb) as Hle.
      assert (Hnz : blen b <> 0) by lia.
      pose proof (blen_be_min_pos _ Hnz) as Hge.
      cbn [app]. rewrite <- app_assoc. rewrite rlp_dec_item_S. cbv zeta. rewrite b2n_n2b by lia.
      if_false. if_false. if_true.
      replace (128 + 55 + blen (be_min (blen b)) - 183) with (blen (be_min (blen b))) by lia.
      rewrite take_n_app. cbv beta iota. rewrite be_to_N_be_min, take_n_app. reflexivity.
Qed.

(* one decoder step on a list header followed by its payload *)
Lemma rlp_dec_item_list_step p : blen p < 2 ^ 64 -> forall rest f,
  rlp_dec_item (S f) ((rlp_len_prefix 192 (blen p) ++ p) ++ rest) =
    match rlp_dec_list f p with
    | Ok l => Ok (RList l, rest)
    | Err e => Err e
    end.
Proof.
  intros Hb rest f. unfold rlp_len_prefix. destruct (blen p <? 56) eqn:E.
  - cbn [app]. rewrite rlp_dec_item_S. cbv zeta. rewrite b2n_n2b by lia.
    if_false. if_false. if_false. if_true.
    replace (192 + blen p - 192) with (blen p) by lia.
    rewrite take_n_app. reflexivity.
  - pose proof (blen_be_min_small _ Hb) as Hle.
    assert (Hnz : blen p <> 0) by lia.
    pose proof (blen_be_min_pos _ Hnz) as Hge.
    cbn [app]. rewrite <- app_assoc. rewrite rlp_dec_item_S. cbv zeta. rewrite b2n_n2b by lia.
    if_false. if_false. if_false. if_false.
    replace (192 + 55 + blen (be_min (blen p)) - 247) with (blen (be_min (blen p))) by lia.
    rewrite take_n_app. cbv beta iota. rewrite be_to_N_be_min, take_n_app. reflexivity.
Qed.

(* ------------------------------------------------------------------ *)
(* exact fuel needed by the decoder *)
Fixpoint item_fuel (x : item) : nat :=
  match x with
  | RStr _ => 1
  | RList l =>
      S ((fix go (l : list item) : nat :=
            match l with
            | [] => 1
            | y :: l' => S (Nat.max (item_fuel y) (go l'))
            end) l)
  end%nat.

Fixpoint list_fuel (l : list item) : nat :=
  match l with
  | [] => 1
  | y :: l' => S (Nat.max (item_fuel y) (list_fuel l'))
  end%nat.

Lemma item_fuel_list l : item_fuel (RList l) = S (list_fuel l).
Proof. reflexivity. Qed.

Lemma item_fuel_pos x : (1 <= item_fuel x)%nat.
Proof. destruct x as [b|l]; [cbn [item_fuel]; lia|rewrite item_fuel_list; lia]. Qed.

Lemma list_fuel_pos l : (1 <= list_fuel l)%nat.
Proof. destruct l as [|y l]; cbn [list_fuel]; lia. Qed.

Definition dec_ok (x : item) : Prop :=
  forall rest fuel, (item_fuel x <= fuel)%nat -> rlp_dec_item fuel (rlp_encode x ++ rest) = Ok (x, rest).
Definition dec_oof (x : item) : Prop :=
  forall rest fuel, (fuel < item_fuel x)%nat -> rlp_dec_item fuel (rlp_encode x ++ rest) = Err EOutOfFuel.

Lemma payload_nonempty y l rest : (rlp_encode y ++ rlp_payload l) ++ rest <> [].
Proof.
  pose proof (rlp_encode_nonempty y) as Hne.
  destruct (rlp_encode y) as [|h t]; [congruence|discriminate].
Qed.

Lemma rlp_dec_list_payload l : Forall dec_ok l ->
  forall fuel, (list_fuel l <= fuel)%nat -> rlp_dec_list fuel (rlp_payload l) = Ok l.
Proof.
  intro Hl. induction Hl as [|y l Hy Hl IH]; intros fuel Hf.
  - cbn [list_fuel] in Hf. destruct fuel as [|f]; [lia|]. reflexivity.
  - cbn [list_fuel] in Hf. destruct fuel as [|f]; [lia|].
    cbn [rlp_payload].
    rewrite rlp_dec_list_S_cons.
    2:{ pose proof (payload_nonempty y l []) as Hne. rewrite app_nil_r in Hne. exact Hne. }
    rewrite Hy by lia. rewrite IH by lia. reflexivity.
Qed.

Lemma rlp_dec_list_payload_oof l : Forall dec_ok l -> Forall dec_oof l ->
  forall fuel, (fuel < list_fuel l)%nat -> rlp_dec_list fuel (rlp_payload l) = Err EOutOfFuel.
Proof.
  intros Hl. induction Hl as [|y l Hy Hl IH]; intros Ho fuel Hf.
  - cbn [list_fuel] in Hf. destruct fuel as [|f]; [reflexivity|lia].
  - inversion Ho as [|y' l' Hoy Hol]; subst.
    cbn [list_fuel] in Hf. destruct fuel as [|f]; [reflexivity|].
    cbn [rlp_payload].
    rewrite rlp_dec_list_S_cons.
    2:{ pose proof (payload_nonempty y l []) as Hne. rewrite app_nil_r in Hne. exact Hne. }
    destruct (Nat.lt_ge_cases f (item_fuel y)) as [Hlt|Hge].
    + rewrite Hoy by exact Hlt. reflexivity.
    + rewrite Hy by exact Hge. rewrite (IH Hol) by lia. reflexivity.
Qed.

Lemma rlp_dec_item_both x : item_small x -> dec_ok x /\ dec_oof x.
Proof.
  induction x as [b|l IHl] using item_ind'; intro Hs.
  - apply item_small_str in Hs. split; intros rest fuel Hf; cbn [item_fuel] in Hf.
    + destruct fuel as [|f]; [lia|]. apply rlp_dec_item_str. exact Hs.
    + destruct fuel as [|f]; [reflexivity|lia].
  - apply item_small_list in Hs. destruct Hs as [Hsl Hp].
    assert (Hboth : Forall dec_ok l /\ Forall dec_oof l).
    { clear Hp. induction IHl as [|y l Hy Hl IH].
      - split; constructor.
      - inversion Hsl as [|y' l' Hsy Hsl']; subst.
        destruct (Hy Hsy) as [Hy1 Hy2]. destruct (IH Hsl') as [H1 H2].
        split; constructor; assumption. }
    destruct Hboth as [Hok Hoof].
    split; intros rest fuel Hf; rewrite item_fuel_list in Hf; rewrite rlp_encode_list.
    + destruct fuel as [|f]; [lia|].
      rewrite rlp_dec_item_list_step by exact Hp.
      rewrite (rlp_dec_list_payload l Hok) by lia. reflexivity.
    + destruct fuel as [|f]; [reflexivity|].
      rewrite rlp_dec_item_list_step by exact Hp.
      rewrite (rlp_dec_list_payload_oof l Hok Hoof) by lia. reflexivity.
Qed.

(* the decoder reads back exactly what the encoder wrote, leaving the rest of the input untouched *)
Theorem rlp_dec_item_encode x : item_small x -> forall rest fuel, (fuel >= item_fuel x)%nat ->
  rlp_dec_item fuel (rlp_encode x ++ rest) = Ok (x, rest).
Proof. intros Hs rest fuel Hf. apply (proj1 (rlp_dec_item_both x Hs)). lia. Qed.

(* ... and [item_fuel] is exact: with less fuel the decoder gives up *)
Theorem rlp_dec_item_out_of_fuel x : item_small x -> forall rest fuel, (fuel < item_fuel x)%nat ->
  rlp_dec_item fuel (rlp_encode x ++ rest) = Err EOutOfFuel.
Proof. intros Hs rest fuel Hf. apply (proj2 (rlp_dec_item_both x Hs)). lia. Qed.

Theorem rlp_dec_list_encode l : Forall item_small l -> forall fuel, (fuel >= list_fuel l)%nat ->
  rlp_dec_list fuel (rlp_payload l) = Ok l.
Proof.
  intros Hs. assert (Hok : Forall dec_ok l).
  { induction Hs as [|y l Hy Hl IH]; constructor; [|exact IH].
    intros rest fuel' Hf'. apply rlp_dec_item_encode; [exact Hy|lia]. }
  intros fuel Hf. apply rlp_dec_list_payload; [exact Hok|lia].
Qed.

(* explicit bound in terms of the encoded length *)
Lemma item_fuel_le_length x : (item_fuel x <= 2 * length (rlp_encode x))%nat.
Proof.
  induction x as [b|l IHl] using item_ind'.
  - pose proof (rlp_encode_length_pos (RStr b)). cbn [item_fuel]. lia.
  - rewrite item_fuel_list, rlp_encode_list, app_length.
    assert (Hl : (list_fuel l <= 2 * length (rlp_payload l) + 1)%nat).
    { induction IHl as [|y l Hy Hl IH]; cbn [list_fuel rlp_payload].
      - cbn [length]. lia.
      - rewrite app_length. pose proof (rlp_encode_length_pos y). lia. }
    pose proof (rlp_len_prefix_length_pos 192 (blen (rlp_payload l))) as Hp.
    lia.
Qed.

Theorem rlp_dec_item_encode_len x : item_small x -> forall rest fuel, (fuel >= 2 * length (rlp_encode x))%nat ->
  rlp_dec_item fuel (rlp_encode x ++ rest) = Ok (x, rest).
Proof.
  intros Hs rest fuel Hf. apply rlp_dec_item_encode; [exact Hs|].
  pose proof (item_fuel_le_length x). lia.
Qed.

(* ------------------------------------------------------------------ *)
(* rlp_decode *)

(* [rlp_decode (rlp_encode x) = Ok x] is FALSE without a fuel hypothesis: *)
Lemma rlp_decode_encode_counterexample :
  rlp_decode (rlp_encode (RList [RList [RList []]])) = Err EOutOfFuel.
Proof. vm_compute. reflexivity. Qed.

Theorem rlp_decode_encode x : item_small x -> (item_fuel x <= S (S (length (rlp_encode x))))%nat ->
  rlp_decode (rlp_encode x) = Ok x.
Proof.
  intros Hs Hf. unfold rlp_decode.
  rewrite <- (app_nil_r (rlp_encode x)) at 2.
  rewrite rlp_dec_item_encode by (exact Hs || lia). reflexivity.
Qed.

Theorem rlp_decode_encode_iff x : item_small x ->
  (rlp_decode (rlp_encode x) = Ok x <-> (item_fuel x <= S (S (length (rlp_encode x))))%nat).
Proof.
  intro Hs. split; [|apply rlp_decode_encode; exact Hs].
  intro Hd. destruct (Nat.lt_ge_cases (S (S (length (rlp_encode x)))) (item_fuel x)) as [Hlt|Hge]; [|exact Hge].
  exfalso. unfold rlp_decode in Hd.
  rewrite <- (app_nil_r (rlp_encode x)) in Hd at 2.
  rewrite rlp_dec_item_out_of_fuel in Hd by (exact Hs || lia). discriminate.
Qed.

(* sufficient: nesting depth at most 2 (a list of strings and of lists of strings) *)
Fixpoint item_depth (x : item) : nat :=
  match x with
  | RStr _ => 0
  | RList l =>
      S ((fix go (l : list item) : nat :=
            match l with
            | [] => 0
            | y :: l' => Nat.max (item_depth y) (go l')
            end) l)
  end%nat.

Fixpoint list_depth (l : list item) : nat :=
  match l with
  | [] => 0
  | y :: l' => Nat.max (item_depth y) (list_depth l')
  end%nat.

Lemma item_depth_list l : item_depth (RList l) = S (list_depth l).
Proof. reflexivity. Qed.

Lemma list_depth_le l (d : nat) : (list_depth l <= d)%nat <-> Forall (fun y => (item_depth y <= d)%nat) l.
Proof.
  induction l as [|y l IH]; cbn [list_depth].
  - split; intro Hx; [constructor|lia].
  - split.
    + intro Hm. constructor; [lia|apply IH; lia].
    + intro Hyl. inversion Hyl as [|y' l' Hy Hl]; subst. apply IH in Hl. lia.
Qed.

(* fuel of a list whose elements each have one unit of slack *)
Lemma item_fuel_list_slack l :
  Forall (fun y => (item_fuel y <= S (length (rlp_encode y)))%nat) l ->
  (item_fuel (RList l) <= S (S (length (rlp_encode (RList l)))))%nat.
Proof.
  intro Hl. rewrite item_fuel_list, rlp_encode_list, app_length.
  assert (Hf : (list_fuel l <= length (rlp_payload l) + 2)%nat).
  { induction Hl as [|y l Hy Hl IH]; cbn [list_fuel rlp_payload].
    - cbn [length]. lia.
    - rewrite app_length. pose proof (rlp_encode_length_pos y). lia. }
  pose proof (rlp_len_prefix_length_pos 192 (blen (rlp_payload l))) as Hp.
  lia.
Qed.

Lemma item_fuel_depth1 x : (item_depth x <= 1)%nat -> (item_fuel x <= S (length (rlp_encode x)))%nat.
Proof.
  destruct x as [b|l]; intro Hd.
  - cbn [item_fuel]. lia.
  - rewrite item_depth_list in Hd. assert (Hd0 : (list_depth l <= 0)%nat) by lia. clear Hd.
    rewrite item_fuel_list, rlp_encode_list, app_length.
    assert (Hf : (list_fuel l <= length (rlp_payload l) + 1)%nat).
    { induction l as [|y l IH]; cbn [list_fuel rlp_payload].
      - cbn [length]. lia.
      - cbn [list_depth] in Hd0. rewrite app_length. pose proof (rlp_encode_length_pos y).
        destruct y as [b|l0]; [|rewrite item_depth_list in Hd0; lia].
        cbn [item_fuel]. assert (IH' : (list_fuel l <= length (rlp_payload l) + 1)%nat) by (apply IH; lia).
        lia. }
    pose proof (rlp_len_prefix_length_pos 192 (blen (rlp_payload l))) as Hp.
    lia.
Qed.

Lemma item_fuel_depth2 x : (item_depth x <= 2)%nat -> (item_fuel x <= S (S (length (rlp_encode x))))%nat.
Proof.
  destruct x as [b|l]; intro Hd.
  - cbn [item_fuel]. lia.
  - apply item_fuel_list_slack. rewrite item_depth_list in Hd.
    assert (Hd1 : (list_depth l <= 1)%nat) by lia. apply list_depth_le in Hd1. clear Hd.
    induction Hd1 as [|y l Hy Hl IH]; constructor; [apply item_fuel_depth1; exact Hy|exact IH].
Qed.

Theorem rlp_decode_encode_shallow x : item_small x -> (item_depth x <= 2)%nat -> rlp_decode (rlp_encode x) = Ok x.
Proof. intros Hs Hd. apply rlp_decode_encode; [exact Hs|apply item_fuel_depth2; exact Hd]. Qed.

(* ------------------------------------------------------------------ *)
(* injectivity *)
Corollary rlp_encode_inj x y : item_small x -> item_small y -> rlp_encode x = rlp_encode y -> x = y.
Proof.
  intros Hx Hy Heq.
  pose proof (rlp_dec_item_encode x Hx [] (Nat.max (item_fuel x) (item_fuel y))) as H1.
  pose proof (rlp_dec_item_encode y Hy [] (Nat.max (item_fuel x) (item_fuel y))) as H2.
  rewrite Heq in H1. rewrite H2 in H1 by lia. specialize (H1 ltac:(lia)).
  injection H1 as ->. reflexivity.
Qed.

Corollary rlp_encode_inj_length x y : blen (rlp_encode x) < 2 ^ 64 -> rlp_encode x = rlp_encode y -> x = y.
Proof.
  intros Hx Heq. apply rlp_encode_inj; [apply item_small_of_length; exact Hx| |exact Heq].
  apply item_small_of_length. rewrite <- Heq. exact Hx.
Qed.

(* concatenations of encodings are uniquely decodable too *)
Corollary rlp_payload_inj l l' : Forall item_small l -> Forall item_small l' -> rlp_payload l = rlp_payload l' -> l = l'.
Proof.
  intros Hl Hl' Heq.
  pose proof (rlp_dec_list_encode l Hl (Nat.max (list_fuel l) (list_fuel l')) ltac:(lia)) as H1.
  pose proof (rlp_dec_list_encode l' Hl' (Nat.max (list_fuel l) (list_fuel l')) ltac:(lia)) as H2.
  rewrite Heq in H1. rewrite H2 in H1. injection H1 as ->. reflexivity.
Qed.

(* ------------------------------------------------------------------ *)
(* the size hypothesis is needed: a string of exactly 2^64 bytes *)
Lemma rlp_len_prefix_big : rlp_len_prefix 128 (2 ^ 64) = [xc0; x01; x00; x00; x00; x00; x00; x00; x00; x00].
Proof. vm_compute. reflexivity. Qed.

Lemma big_string_exists : exists b, blen b = 2 ^ 64.
Proof.
  exists (repeat x00 (N.to_nat (2 ^ 64))). unfold blen. rewrite repeat_length. apply N2Nat.id.
Qed.

Lemma rlp_encode_big_string b : blen b = 2 ^ 64 ->
  rlp_encode (RStr b) = [xc0; x01; x00; x00; x00; x00; x00; x00; x00; x00] ++ b.
Proof.
  intro Hb. destruct (rlp_encode_str_cases b) as [(c & -> & _ & _) | ->].
  - exfalso. rewrite blen_cons, blen_nil, two64 in Hb. lia.
  - rewrite Hb, rlp_len_prefix_big. reflexivity.
Qed.

(* first byte 0xc0: classified as a list, not a string *)
Lemma rlp_encode_big_string_head b : blen b = 2 ^ 64 ->
  exists t, rlp_encode (RStr b) = n2b 192 :: t.
Proof. intro Hb. rewrite (rlp_encode_big_string b Hb). eexists. reflexivity. Qed.

Lemma rlp_decode_big_string b : blen b = 2 ^ 64 -> rlp_decode (rlp_encode (RStr b)) = Err EDecode.
Proof.
  intro Hb. rewrite (rlp_encode_big_string b Hb). unfold rlp_decode. cbn [app].
  rewrite rlp_dec_item_S. cbv zeta.
  change (b2n xc0) with 192.
  change (192 <? 128) with false. change (192 <? 184) with false. change (192 <? 192) with false.
  change (192 <? 248) with true. change (192 - 192) with 0. cbv iota.
  rewrite take_n_0. cbv beta iota. rewrite rlp_dec_list_S_nil. reflexivity.
Qed.

(* ... and injectivity really fails beyond the bound.  With the wrap-around, a string whose length needs
   65 bytes gets the same first byte 0xf8 (= 183+65) as a list whose payload length needs 1 byte (= 247+1).
   Take V = 64 * 256^64.  The one-element list [RStr 0^V] has payload
       f8 . 40 00^64 . 00^V            (0x40 00^64 is be_min V)
   and the list [RList [00 x 64]; 00; 00; ... (V times)] has payload
       f8 . 40 . 00^64 . 00^V          (0x40 is the length of the inner payload 00^64)
   which is the same byte string. *)
Definition bigV : N := 64 * 256 ^ 64.

Lemma rlp_len_prefix_bigV : rlp_len_prefix 128 bigV = xf8 :: x40 :: repeat x00 64.
Proof. vm_compute. reflexivity. Qed.

Lemma rlp_encode_64_zeros : rlp_encode (RList (repeat (RStr [x00]) 64)) = xf8 :: x40 :: repeat x00 64.
Proof. vm_compute. reflexivity. Qed.

Lemma rlp_payload_repeat_zero (n : nat) : rlp_payload (repeat (RStr [x00]) n) = repeat x00 n.
Proof.
  induction n as [|n IH]; cbn [repeat rlp_payload].
  - reflexivity.
  - rewrite IH. reflexivity.
Qed.

Lemma rlp_encode_bigV_string b : blen b = bigV -> rlp_encode (RStr b) = (xf8 :: x40 :: repeat x00 64) ++ b.
Proof.
  intro Hb. destruct (rlp_encode_str_cases b) as [(c & -> & _ & _) | ->].
  - exfalso. rewrite blen_cons, blen_nil in Hb. vm_compute in Hb. discriminate Hb.
  - rewrite Hb, rlp_len_prefix_bigV. reflexivity.
Qed.

Lemma rlp_encode_collision (M : nat) : N.of_nat M = bigV ->
  rlp_encode (RList (RList (repeat (RStr [x00]) 64) :: repeat (RStr [x00]) M)) =
  rlp_encode (RList [RStr (repeat x00 M)]).
Proof.
  intro HM. rewrite !rlp_encode_list.
  assert (Hp : rlp_payload (RList (repeat (RStr [x00]) 64) :: repeat (RStr [x00]) M) =
               rlp_payload [RStr (repeat x00 M)]).
  { cbn [rlp_payload]. rewrite rlp_payload_repeat_zero, app_nil_r, rlp_encode_64_zeros.
    rewrite rlp_encode_bigV_string; [reflexivity|].
    unfold blen. rewrite repeat_length. exact HM. }
  rewrite Hp. reflexivity.
Qed.

Lemma rlp_collision_neq (l0 r : list item) (b : bytes) : RList (RList l0 :: r) <> RList [RStr b].
Proof. intro Heq. injection Heq as Heq _. discriminate Heq. Qed.

Theorem rlp_encode_not_injective : exists x y, x <> y /\ rlp_encode x = rlp_encode y.
Proof.
  exists (RList (RList (repeat (RStr [x00]) 64) :: repeat (RStr [x00]) (N.to_nat bigV))),
         (RList [RStr (repeat x00 (N.to_nat bigV))]).
  split.
  - apply rlp_collision_neq.
  - apply rlp_encode_collision. apply N2Nat.id.
Qed.

Print Assumptions item_ind'.
Print Assumptions item_eqb_eq.
Print Assumptions be_to_N_be_min.
Print Assumptions be_min_nonzero_head.
Print Assumptions item_small_of_length.
Print Assumptions rlp_dec_item_encode.
Print Assumptions rlp_dec_item_out_of_fuel.
Print Assumptions rlp_dec_item_encode_len.
Print Assumptions rlp_decode_encode.
Print Assumptions rlp_decode_encode_iff.
Print Assumptions rlp_decode_encode_shallow.
Print Assumptions rlp_decode_encode_counterexample.
Print Assumptions rlp_encode_inj.
Print Assumptions rlp_encode_inj_length.
Print Assumptions rlp_payload_inj.
Print Assumptions rlp_encode_nonempty.
Print Assumptions rlp_encode_str_head.
Print Assumptions rlp_encode_list_head.
Print Assumptions rlp_decode_big_string.
Print Assumptions big_string_exists.
Print Assumptions rlp_encode_not_injective.
