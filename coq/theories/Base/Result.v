(* Base/Result.v — exceptions and the error monad.  Definitions only. *)
From Coq Require Import List NArith ZArith Bool.
From PyTrie.Base Require Import Bytes.
Import ListNotations.
Open Scope N_scope.

(* An exception is a class tag plus the attributes a property talks about.
   The tags are shared with harness/common.py (EXC_TAGS). *)
Inductive exn := Exn (tag : N) (args : list obs).

Definition T_Validation : N := 1.
Definition T_InvalidNode : N := 2.
Definition T_InvalidNibbles : N := 3.
Definition T_BadTrieProof : N := 4.
Definition T_NodeOverride : N := 5.
Definition T_InvalidKey : N := 6.
Definition T_KeyError : N := 7.
Definition T_MissingTrieNode : N := 8.
Definition T_MissingTraversal : N := 9.
Definition T_TraversedPartial : N := 10.
Definition T_IndexError : N := 11.
Definition T_Assertion : N := 12.
Definition T_TypeError : N := 13.
Definition T_ValueError : N := 14.
Definition T_PerfectVisibility : N := 15.
Definition T_FullDirectional : N := 16.
Definition T_OutOfFuel : N := 17.     (* model only: never produced by the code *)
Definition T_Invariant : N := 18.     (* bare Exception("Invariant...") *)
Definition T_WriteFail : N := 19.     (* injected failure of the backing store *)
Definition T_Abort : N := 20.         (* injected exception inside a batch *)

Definition EValidation := Exn T_Validation [].
Definition EInvalidNode := Exn T_InvalidNode [].
Definition EInvalidNibbles := Exn T_InvalidNibbles [].
Definition EBadTrieProof := Exn T_BadTrieProof [].
Definition ENodeOverride := Exn T_NodeOverride [].
Definition EInvalidKey := Exn T_InvalidKey [].
Definition EKeyError (k : bytes) := Exn T_KeyError [OB k].
Definition EIndexError := Exn T_IndexError [].
Definition EAssertion := Exn T_Assertion [].
Definition ETypeError := Exn T_TypeError [].
Definition EValueError := Exn T_ValueError [].
Definition EPerfectVisibility := Exn T_PerfectVisibility [].
Definition EFullDirectional := Exn T_FullDirectional [].
Definition EOutOfFuel := Exn T_OutOfFuel [].
Definition EInvariant := Exn T_Invariant [].
Definition EWriteFail := Exn T_WriteFail [].
Definition EAbort := Exn T_Abort [].

Definition exn_obs (e : exn) : obs := match e with Exn t a => OE t a end.
Definition exn_tag (e : exn) : N := match e with Exn t _ => t end.

Inductive result (A : Type) := Ok (a : A) | Err (e : exn).
Arguments Ok {A} a.
Arguments Err {A} e.

Definition rbind {A B} (r : result A) (f : A -> result B) : result B :=
  match r with Ok a => f a | Err e => Err e end.
Definition rmap {A B} (f : A -> B) (r : result A) : result B :=
  match r with Ok a => Ok (f a) | Err e => Err e end.

Declare Scope res_scope.
Notation "'let!' x ':=' r 'in' k" := (rbind r (fun x => k))
  (at level 200, x pattern, r at level 100, k at level 200) : res_scope.

Definition res_obs {A} (f : A -> obs) (r : result A) : obs :=
  match r with Ok a => f a | Err e => exn_obs e end.

Fixpoint rmapM {A B} (f : A -> result B) (l : list A) : result (list B) :=
  match l with
  | [] => Ok []
  | x :: l' =>
      match f x with
      | Err e => Err e
      | Ok y => match rmapM f l' with Err e => Err e | Ok ys => Ok (y :: ys) end
      end
  end.
