(* Base/Nibbles_proofs.v — facts about the nibble codec of Base/Nibbles.v *)
From Coq Require Import List NArith Bool Lia Arith.
From Coq.Init Require Import Byte.
From PyTrie.Base Require Import Bytes Bytes_proofs Result Nibbles.
Import ListNotations.
Open Scope N_scope.

(* ------------------------------------------------------------------ *)
(* generic helpers *)

Lemma pair_ind {A} (P : list A -> Prop) :
  P [] -> (forall x, P [x]) -> (forall x y l, P l -> P (x :: y :: l)) -> forall l, P l.
Proof.
  intros H0 H1 H2 l.
  assert (Hboth : P l /\ forall a, P (a :: l)).
  { induction l as [|x l IH].
    - split; [exact H0 | exact H1].
    - destruct IH as [IHa IHb]. split.
      + apply IHb.
      + intro a. apply H2. exact IHa. }
  exact (proj1 Hboth).
Qed.

Lemma odd_negb_even n : Nat.odd n = negb (Nat.even n).
Proof. reflexivity. Qed.

Lemma even_SS n : Nat.even (S (S n)) = Nat.even n.
Proof. reflexivity. Qed.

Lemma odd_SS n : Nat.odd (S (S n)) = Nat.odd n.
Proof. reflexivity. Qed.

(* ------------------------------------------------------------------ *)
(* nibbles_eqb *)

Lemma nibbles_eqb_eq a b : nibbles_eqb a b = true <-> a = b.
Proof.
  revert b. induction a as [|x a IH]; intros [|y b]; cbn [nibbles_eqb]; split; intro Hab;
    try reflexivity; try discriminate.
  - apply andb_true_iff in Hab as [H1 H2]. apply N.eqb_eq in H1. apply IH in H2. congruence.
  - injection Hab as -> ->. rewrite N.eqb_refl. cbn [andb]. apply IH. reflexivity.
Qed.

Lemma nibbles_eqb_refl a : nibbles_eqb a a = true.
Proof. apply nibbles_eqb_eq. reflexivity. Qed.

(* ------------------------------------------------------------------ *)
(* nibs_ok *)

Lemma nibs_ok_cons x l : nibs_ok (x :: l) = (x <? 16) && nibs_ok l.
Proof. reflexivity. Qed.

Lemma nibs_ok_app a b : nibs_ok (a ++ b) = nibs_ok a && nibs_ok b.
Proof. unfold nibs_ok. apply forallb_app. Qed.

Lemma nibs_ok_cons_inv x l : nibs_ok (x :: l) = true -> x < 16 /\ nibs_ok l = true.
Proof.
  rewrite nibs_ok_cons. intro H. apply andb_true_iff in H as [H1 H2].
  apply N.ltb_lt in H1. split; assumption.
Qed.

Lemma nibs_ok_cons_intro x l : x < 16 -> nibs_ok l = true -> nibs_ok (x :: l) = true.
Proof.
  intros Hx Hl. rewrite nibs_ok_cons. apply andb_true_iff. split; [apply N.ltb_lt; exact Hx | exact Hl].
Qed.

(* ------------------------------------------------------------------ *)
(* byte <-> two nibbles arithmetic *)

Lemma byte_hi_lt x : byte_hi x < 16.
Proof.
  unfold byte_hi. apply N.div_lt_upper_bound; [lia|]. pose proof (b2n_lt x) as Hx. lia.
Qed.

Lemma byte_lo_lt x : byte_lo x < 16.
Proof. unfold byte_lo. apply N.mod_lt. lia. Qed.

Lemma byte_hi_lo x : byte_hi x * 16 + byte_lo x = b2n x.
Proof.
  unfold byte_hi, byte_lo. pose proof (N.div_mod (b2n x) 16) as H. lia.
Qed.

Lemma n2b_hi_lo x : n2b (byte_hi x * 16 + byte_lo x) = x.
Proof. rewrite byte_hi_lo. apply n2b_b2n. Qed.

Lemma hi_lo_unique h l h' l' :
  l < 16 -> l' < 16 -> h * 16 + l = h' * 16 + l' -> h = h' /\ l = l'.
Proof.
  intros Hl Hl' Heq. apply (N.div_mod_unique 16); [exact Hl | exact Hl' | lia].
Qed.

Lemma byte_hi_n2b h l : h < 16 -> l < 16 -> byte_hi (n2b (h * 16 + l)) = h.
Proof.
  intros Hh Hl.
  assert (Hb : b2n (n2b (h * 16 + l)) = h * 16 + l) by (apply b2n_n2b; lia).
  pose proof (byte_hi_lo (n2b (h * 16 + l))) as Hd. rewrite Hb in Hd.
  pose proof (byte_lo_lt (n2b (h * 16 + l))) as Hlt.
  apply hi_lo_unique in Hd; [tauto | exact Hlt | exact Hl].
Qed.

Lemma byte_lo_n2b h l : h < 16 -> l < 16 -> byte_lo (n2b (h * 16 + l)) = l.
Proof.
  intros Hh Hl.
  assert (Hb : b2n (n2b (h * 16 + l)) = h * 16 + l) by (apply b2n_n2b; lia).
  pose proof (byte_hi_lo (n2b (h * 16 + l))) as Hd. rewrite Hb in Hd.
  pose proof (byte_lo_lt (n2b (h * 16 + l))) as Hlt.
  apply hi_lo_unique in Hd; [tauto | exact Hlt | exact Hl].
Qed.

(* ------------------------------------------------------------------ *)
(* bytes_to_nibbles *)

Lemma bytes_to_nibbles_ok b : nibs_ok (bytes_to_nibbles b) = true.
Proof.
  induction b as [|x b IH]; [reflexivity|].
  cbn [bytes_to_nibbles].
  apply nibs_ok_cons_intro; [apply byte_hi_lt|].
  apply nibs_ok_cons_intro; [apply byte_lo_lt|]. exact IH.
Qed.

Lemma bytes_to_nibbles_even b : Nat.even (length (bytes_to_nibbles b)) = true.
Proof.
  induction b as [|x b IH]; [reflexivity|].
  cbn [bytes_to_nibbles length]. rewrite even_SS. exact IH.
Qed.

Lemma pack_bytes_to_nibbles b : pack_nibbles (bytes_to_nibbles b) = b.
Proof.
  induction b as [|x b IH]; [reflexivity|].
  cbn [bytes_to_nibbles pack_nibbles]. rewrite n2b_hi_lo, IH. reflexivity.
Qed.

Lemma bytes_to_nibbles_inj a b : bytes_to_nibbles a = bytes_to_nibbles b -> a = b.
Proof.
  intro H. rewrite <- (pack_bytes_to_nibbles a), <- (pack_bytes_to_nibbles b), H. reflexivity.
Qed.

Lemma bytes_to_nibbles_app a b :
  bytes_to_nibbles (a ++ b) = bytes_to_nibbles a ++ bytes_to_nibbles b.
Proof.
  induction a as [|x a IH]; [reflexivity|].
  cbn [bytes_to_nibbles app]. rewrite IH. reflexivity.
Qed.

Lemma nibbles_to_bytes_even ns :
  nibs_ok ns = true -> Nat.even (length ns) = true -> nibbles_to_bytes ns = Ok (pack_nibbles ns).
Proof.
  intros Hok Hev. unfold nibbles_to_bytes. rewrite Hok, odd_negb_even, Hev. reflexivity.
Qed.

Theorem nibbles_bytes_roundtrip b : nibbles_to_bytes (bytes_to_nibbles b) = Ok b.
Proof.
  rewrite nibbles_to_bytes_even.
  - rewrite pack_bytes_to_nibbles. reflexivity.
  - apply bytes_to_nibbles_ok.
  - apply bytes_to_nibbles_even.
Qed.

Lemma bytes_to_nibbles_pack ns :
  nibs_ok ns = true -> Nat.even (length ns) = true -> bytes_to_nibbles (pack_nibbles ns) = ns.
Proof.
  induction ns as [|x|x y l IH] using pair_ind; intros Hok Hev.
  - reflexivity.
  - discriminate Hev.
  - apply nibs_ok_cons_inv in Hok as [Hx Hok]. apply nibs_ok_cons_inv in Hok as [Hy Hok].
    cbn [length] in Hev. rewrite even_SS in Hev.
    cbn [pack_nibbles bytes_to_nibbles].
    rewrite byte_hi_n2b, byte_lo_n2b, IH by assumption. reflexivity.
Qed.

Lemma nibbles_to_bytes_Ok_inv ns b :
  nibbles_to_bytes ns = Ok b ->
  nibs_ok ns = true /\ Nat.even (length ns) = true /\ b = pack_nibbles ns.
Proof.
  unfold nibbles_to_bytes. rewrite odd_negb_even.
  destruct (nibs_ok ns) eqn:Eok; cbn [negb]; [|discriminate].
  destruct (Nat.even (length ns)) eqn:Eev; cbn [negb]; [|discriminate].
  intro H. injection H as <-. auto.
Qed.

Theorem bytes_nibbles_roundtrip ns b : nibbles_to_bytes ns = Ok b -> bytes_to_nibbles b = ns.
Proof.
  intro H. apply nibbles_to_bytes_Ok_inv in H as (Hok & Hev & ->).
  apply bytes_to_nibbles_pack; assumption.
Qed.

(* ------------------------------------------------------------------ *)
(* terminator *)

Lemma is_term_snoc l a : is_nibbles_terminated (l ++ [a]) = (a =? NIBBLE_TERMINATOR).
Proof.
  unfold is_nibbles_terminated. destruct (l ++ [a]) as [|z l'] eqn:E.
  - symmetry in E. apply app_cons_not_nil in E. contradiction.
  - rewrite <- E, last_last. reflexivity.
Qed.

Lemma is_term_ok x : nibs_ok x = true -> is_nibbles_terminated x = false.
Proof.
  intro Hok. destruct x as [|a l]; [reflexivity|].
  assert (Hne : a :: l <> []) by discriminate.
  destruct (exists_last Hne) as [l' [z E]]. rewrite E in *.
  rewrite is_term_snoc. rewrite nibs_ok_app in Hok. apply andb_true_iff in Hok as [_ Hz].
  apply nibs_ok_cons_inv in Hz as [Hz _]. apply N.eqb_neq. unfold NIBBLE_TERMINATOR. lia.
Qed.

Lemma add_term_ok x : nibs_ok x = true -> add_nibbles_terminator x = x ++ [NIBBLE_TERMINATOR].
Proof. intro Hok. unfold add_nibbles_terminator. rewrite (is_term_ok x Hok). reflexivity. Qed.

Lemma remove_term_snoc x : remove_nibbles_terminator (x ++ [NIBBLE_TERMINATOR]) = x.
Proof.
  unfold remove_nibbles_terminator. rewrite is_term_snoc, N.eqb_refl. apply removelast_last.
Qed.

Lemma remove_term_ok x : nibs_ok x = true -> remove_nibbles_terminator x = x.
Proof. intro Hok. unfold remove_nibbles_terminator. rewrite (is_term_ok x Hok). reflexivity. Qed.

Theorem remove_add_terminator x : nibs_ok x = true ->
   remove_nibbles_terminator (add_nibbles_terminator x) = x /\
   is_nibbles_terminated (add_nibbles_terminator x) = true /\
   is_nibbles_terminated x = false.
Proof.
  intro Hok. rewrite (add_term_ok x Hok). repeat split.
  - apply remove_term_snoc.
  - rewrite is_term_snoc. apply N.eqb_refl.
  - apply is_term_ok. exact Hok.
Qed.

(* ------------------------------------------------------------------ *)
(* encode_nibbles / decode_nibbles against HP *)

Lemma hp_pairs_pack x : hp_pairs x = pack_nibbles x.
Proof.
  induction x as [|a|a b l IH] using pair_ind; try reflexivity.
  cbn [hp_pairs pack_nibbles]. rewrite IH. f_equal. f_equal. lia.
Qed.

(* the flag-prefixed nibble list for flag value f (0 or 2) *)
Definition flagged (f : N) (x : nibbles) : nibbles :=
  if Nat.odd (length x) then (f + 1) :: x else f :: 0 :: x.

Definition HPf (f : N) (x : nibbles) : bytes :=
  if Nat.even (length x) then n2b (16 * f) :: hp_pairs x
  else match x with
       | x0 :: rest => n2b (16 * (f + 1) + x0) :: hp_pairs rest
       | [] => []
       end.

Lemma HP_HPf x t : HP x t = HPf (if t then 2 else 0) x.
Proof. reflexivity. Qed.

Lemma encode_unterminated x :
  nibs_ok x = true -> encode_nibbles x = nibbles_to_bytes (flagged 0 x).
Proof.
  intro Hok. unfold encode_nibbles. rewrite (remove_term_ok x Hok), (is_term_ok x Hok). reflexivity.
Qed.

Lemma encode_terminated x :
  encode_nibbles (x ++ [NIBBLE_TERMINATOR]) = nibbles_to_bytes (flagged 2 x).
Proof.
  unfold encode_nibbles. rewrite remove_term_snoc, is_term_snoc, N.eqb_refl. reflexivity.
Qed.

Lemma flagged_ok f x : f + 1 < 16 -> nibs_ok x = true -> nibs_ok (flagged f x) = true.
Proof.
  intros Hf Hok. unfold flagged. destruct (Nat.odd (length x)).
  - apply nibs_ok_cons_intro; [exact Hf | exact Hok].
  - apply nibs_ok_cons_intro; [lia|]. apply nibs_ok_cons_intro; [lia | exact Hok].
Qed.

Lemma flagged_even f x : Nat.even (length (flagged f x)) = true.
Proof.
  unfold flagged. rewrite odd_negb_even. destruct (Nat.even (length x)) eqn:E; cbn [negb length].
  - rewrite even_SS. exact E.
  - rewrite Nat.even_succ, odd_negb_even, E. reflexivity.
Qed.

Lemma pack_flagged f x : pack_nibbles (flagged f x) = HPf f x.
Proof.
  unfold flagged, HPf. rewrite odd_negb_even.
  destruct (Nat.even (length x)) eqn:E; cbn [negb].
  - cbn [pack_nibbles]. rewrite hp_pairs_pack. f_equal. f_equal. lia.
  - destruct x as [|x0 rest]; [discriminate E|].
    cbn [pack_nibbles]. rewrite hp_pairs_pack. f_equal. f_equal. lia.
Qed.

Lemma nibbles_to_bytes_flagged f x :
  f + 1 < 16 -> nibs_ok x = true -> nibbles_to_bytes (flagged f x) = Ok (HPf f x).
Proof.
  intros Hf Hok. rewrite nibbles_to_bytes_even.
  - rewrite pack_flagged. reflexivity.
  - apply flagged_ok; assumption.
  - apply flagged_even.
Qed.

Theorem encode_nibbles_HP x t :
  nibs_ok x = true -> encode_nibbles (with_flag x t) = Ok (HP x t).
Proof.
  intro Hok. rewrite HP_HPf. destruct t; unfold with_flag.
  - rewrite encode_terminated. apply nibbles_to_bytes_flagged; [lia | exact Hok].
  - rewrite (encode_unterminated x Hok). apply nibbles_to_bytes_flagged; [lia | exact Hok].
Qed.

Lemma bytes_to_nibbles_HPf f x :
  f + 1 < 16 -> nibs_ok x = true -> bytes_to_nibbles (HPf f x) = flagged f x.
Proof.
  intros Hf Hok. rewrite <- pack_flagged. apply bytes_to_nibbles_pack.
  - apply flagged_ok; assumption.
  - apply flagged_even.
Qed.

(* decode_nibbles on a flag-prefixed list *)
Lemma decode_flagged b f x :
  bytes_to_nibbles b = flagged f x -> (f = 0 \/ f = 2) ->
  decode_nibbles b = Ok (if f =? 2 then add_nibbles_terminator x else x).
Proof.
  intros Hb Hf. unfold decode_nibbles. rewrite Hb. unfold flagged.
  destruct (Nat.odd (length x)); destruct Hf as [-> | ->]; reflexivity.
Qed.

Theorem decode_nibbles_HP x t :
  nibs_ok x = true -> decode_nibbles (HP x t) = Ok (with_flag x t).
Proof.
  intro Hok. rewrite HP_HPf.
  rewrite (decode_flagged _ (if t then 2 else 0) x).
  - destruct t; cbn [N.eqb Pos.eqb with_flag].
    + rewrite (add_term_ok x Hok). reflexivity.
    + reflexivity.
  - apply bytes_to_nibbles_HPf; [destruct t; lia | exact Hok].
  - destruct t; [right | left]; reflexivity.
Qed.

Lemma with_flag_inj x y t u :
  nibs_ok x = true -> nibs_ok y = true -> with_flag x t = with_flag y u -> x = y /\ t = u.
Proof.
  intros Hx Hy H. unfold with_flag in H. destruct t, u.
  - apply app_inj_tail in H as [H _]. auto.
  - exfalso. rewrite <- H, nibs_ok_app in Hy. apply andb_true_iff in Hy as [_ Hy]. discriminate Hy.
  - exfalso. rewrite H, nibs_ok_app in Hx. apply andb_true_iff in Hx as [_ Hx]. discriminate Hx.
  - auto.
Qed.

Theorem HP_injective x y t u :
  nibs_ok x = true -> nibs_ok y = true -> HP x t = HP y u -> x = y /\ t = u.
Proof.
  intros Hx Hy H. apply (f_equal decode_nibbles) in H.
  rewrite (decode_nibbles_HP x t Hx), (decode_nibbles_HP y u Hy) in H.
  injection H as H. apply with_flag_inj; assumption.
Qed.

Theorem decode_encode_wf b ns :
  hp_wf b = true -> decode_nibbles b = Ok ns -> encode_nibbles ns = Ok b.
Proof.
  intros Hwf Hdec. rewrite <- (nibbles_bytes_roundtrip b).
  destruct b as [|c b']; [discriminate Hwf|].
  unfold hp_wf in Hwf. unfold decode_nibbles in Hdec.
  cbn [bytes_to_nibbles] in *.
  pose proof (bytes_to_nibbles_ok b') as Hok.
  pose proof (bytes_to_nibbles_even b') as Hev.
  pose proof (byte_lo_lt c) as Hp.
  set (h := byte_hi c) in *. set (p := byte_lo c) in *. set (rest := bytes_to_nibbles b') in *.
  clearbody h p rest.
  apply andb_true_iff in Hwf as [Hh Hpad]. apply N.ltb_lt in Hh.
  assert (Hodd : Nat.odd (length rest) = false) by (rewrite odd_negb_even, Hev; reflexivity).
  assert (Hodd' : Nat.odd (length (p :: rest)) = true).
  { cbn [length]. rewrite Nat.odd_succ. exact Hev. }
  assert (Hokp : nibs_ok (p :: rest) = true) by (apply nibs_ok_cons_intro; assumption).
  assert (Hcases : h = 0 \/ h = 1 \/ h = 2 \/ h = 3) by lia.
  destruct Hcases as [-> | [-> | [-> | ->]]];
    cbn [N.eqb Pos.eqb orb tl] in Hdec, Hpad; injection Hdec as <-.
  - apply N.eqb_eq in Hpad. subst p.
    rewrite (encode_unterminated rest Hok). unfold flagged. rewrite Hodd. reflexivity.
  - rewrite (encode_unterminated (p :: rest) Hokp). unfold flagged. rewrite Hodd'. reflexivity.
  - apply N.eqb_eq in Hpad. subst p.
    rewrite (add_term_ok rest Hok), encode_terminated. unfold flagged. rewrite Hodd. reflexivity.
  - rewrite (add_term_ok (p :: rest) Hokp), encode_terminated. unfold flagged. rewrite Hodd'.
    reflexivity.
Qed.

(* ------------------------------------------------------------------ *)
(* byte-string order is nibble-tuple order *)

Lemma byte_ltb_nibbles x y :
  (b2n x <? b2n y) =
  (if byte_hi x <? byte_hi y then true
   else if byte_hi y <? byte_hi x then false
   else byte_lo x <? byte_lo y).
Proof.
  pose proof (byte_hi_lo x) as Hx. pose proof (byte_hi_lo y) as Hy.
  pose proof (byte_lo_lt x) as Hlx. pose proof (byte_lo_lt y) as Hly.
  rewrite <- Hx, <- Hy.
  destruct (N.ltb_spec (byte_hi x) (byte_hi y)) as [H1|H1].
  - apply N.ltb_lt. lia.
  - destruct (N.ltb_spec (byte_hi y) (byte_hi x)) as [H2|H2].
    + apply N.ltb_ge. lia.
    + assert (Heq : byte_hi x = byte_hi y) by lia. rewrite Heq.
      destruct (N.ltb_spec (byte_lo x) (byte_lo y)) as [H3|H3].
      * apply N.ltb_lt. lia.
      * apply N.ltb_ge. lia.
Qed.

Theorem bytes_ltb_nibbles a b :
  bytes_ltb a b = nibbles_ltb (bytes_to_nibbles a) (bytes_to_nibbles b).
Proof.
  revert b. induction a as [|x a IH]; intros [|y b]; try reflexivity.
  cbn [bytes_ltb bytes_to_nibbles nibbles_ltb].
  rewrite (byte_ltb_nibbles x y), (byte_ltb_nibbles y x).
  destruct (N.ltb_spec (byte_hi x) (byte_hi y)) as [H1|H1]; [reflexivity|].
  destruct (N.ltb_spec (byte_hi y) (byte_hi x)) as [H2|H2]; [reflexivity|].
  destruct (N.ltb_spec (byte_lo x) (byte_lo y)) as [H3|H3]; [reflexivity|].
  destruct (N.ltb_spec (byte_lo y) (byte_lo x)) as [H4|H4]; [reflexivity|].
  apply IH.
Qed.

(* ------------------------------------------------------------------ *)
(* key_starts_with / consume_common_prefix *)

Lemma key_starts_with_app partial rest : key_starts_with (partial ++ rest) partial = true.
Proof.
  induction partial as [|p ps IH]; cbn [app].
  - destruct rest; reflexivity.
  - cbn [key_starts_with]. rewrite N.eqb_refl, IH. reflexivity.
Qed.

Lemma key_starts_with_spec full partial :
  key_starts_with full partial = true <-> exists rest, full = partial ++ rest.
Proof.
  split.
  - revert full. induction partial as [|p ps IH]; intros full H.
    + exists full. reflexivity.
    + destruct full as [|f fs]; [discriminate H|].
      cbn [key_starts_with] in H. apply andb_true_iff in H as [H1 H2].
      apply N.eqb_eq in H1. subst f. destruct (IH fs H2) as [rest ->].
      exists rest. reflexivity.
  - intros [rest ->]. apply key_starts_with_app.
Qed.

Lemma common_prefix_spec l : forall r,
  let n := common_prefix_length l r in
  l = firstn n l ++ skipn n l /\ r = firstn n l ++ skipn n r /\
  (match skipn n l, skipn n r with x :: _, y :: _ => x <> y | _, _ => True end).
Proof.
  induction l as [|x l IH]; intros r.
  - cbn. repeat split.
  - destruct r as [|y r].
    + cbn. repeat split.
    + cbn [common_prefix_length]. destruct (x =? y) eqn:E.
      * apply N.eqb_eq in E. subst y. specialize (IH r). cbv zeta in IH.
        destruct IH as (H1 & H2 & H3). cbv zeta. cbn [firstn skipn app].
        repeat split; [f_equal; exact H1 | f_equal; exact H2 | exact H3].
      * apply N.eqb_neq in E. cbv zeta. cbn [firstn skipn app]. repeat split. exact E.
Qed.

Lemma consume_common_prefix_spec l r : let '(c, lr, rr) := consume_common_prefix l r in
   l = c ++ lr /\ r = c ++ rr /\ (match lr, rr with x :: _, y :: _ => x <> y | _, _ => True end).
Proof.
  unfold consume_common_prefix. exact (common_prefix_spec l r).
Qed.

Print Assumptions nibbles_eqb_eq.
Print Assumptions nibbles_eqb_refl.
Print Assumptions bytes_to_nibbles_ok.
Print Assumptions bytes_to_nibbles_inj.
Print Assumptions bytes_to_nibbles_app.
Print Assumptions nibbles_bytes_roundtrip.
Print Assumptions bytes_nibbles_roundtrip.
Print Assumptions encode_nibbles_HP.
Print Assumptions decode_nibbles_HP.
Print Assumptions HP_injective.
Print Assumptions decode_encode_wf.
Print Assumptions remove_add_terminator.
Print Assumptions bytes_ltb_nibbles.
Print Assumptions key_starts_with_spec.
Print Assumptions consume_common_prefix_spec.
