(* Base/Keccak_proofs.v — the one fact proved about the executable Keccak-256 model: output length. *)
From Coq Require Import List NArith Lia.
From Coq.Init Require Import Byte.
From PyTrie.Base Require Import Bytes Keccak.
Import ListNotations.

Lemma le_bytes_length n : forall x, length (le_bytes x n) = n.
Proof.
  induction n as [|n IH]; intro x; cbn [le_bytes length].
  - reflexivity.
  - rewrite IH. reflexivity.
Qed.

Lemma squeeze_length s : length (squeeze s) = 32%nat.
Proof.
  destruct s as [a0 a1 a2 a3 a4 a5 a6 a7 a8 a9 a10 a11 a12 a13 a14 a15 a16 a17 a18 a19 a20 a21 a22 a23 a24].
  unfold squeeze. rewrite !app_length, !le_bytes_length. reflexivity.
Qed.

Theorem keccak256_length m : length (keccak256 m) = 32%nat.
Proof. unfold keccak256. apply squeeze_length. Qed.

Print Assumptions keccak256_length.
