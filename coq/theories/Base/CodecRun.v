(* Base/CodecRun.v — operation language of the C16 correspondence check: each case is
   one call of one codec function; also Keccak-256 and RLP against the third-party
   libraries.  Definitions only. *)
From Coq Require Import List NArith ZArith Bool.
From PyTrie.Base Require Import Bytes Result Nibbles Rlp Keccak.
From PyTrie.Binary Require Import BinEnc.
From PyTrie.Hexary Require Import Raw.
Import ListNotations.

Inductive cop :=
| CEncode (ns : nibbles)
| CDecode (b : bytes)
| CHP (x : nibbles) (t : bool)          (* the Yellow-Paper spec; expected = encode_nibbles of the flagged tuple *)
| CN2B (ns : nibbles)
| CB2N (b : bytes)
| CBinEnc (b : bytes)
| CBinDec (l : bits)
| CKpEnc (l : bits)
| CKpDec (b : bytes)
| CParse (b : bytes)
| CEncKV (p : bits) (child : bytes)
| CEncBranch (l r : bytes)
| CEncLeaf (v : bytes)
| CNodeType (n : item)
| CExtractKey (n : item)
| CLeafKey (ns : nibbles)
| CExtKey (ns : nibbles)
| CKeccak (b : bytes)
| CRlpEnc (x : item)
| CRlpDec (b : bytes).

Definition c16_run (o : cop) : obs :=
  match o with
  | CEncode ns => res_obs OB (encode_nibbles ns)
  | CDecode b => res_obs onibs (decode_nibbles b)
  | CHP x t => OB (HP x t)
  | CN2B ns => res_obs OB (nibbles_to_bytes ns)
  | CB2N b => onibs (bytes_to_nibbles b)
  | CBinEnc b => bits_obs (encode_to_bin b)
  | CBinDec l => OB (decode_from_bin l)
  | CKpEnc l => OB (encode_from_bin_keypath l)
  | CKpDec b => res_obs bits_obs (decode_to_bin_keypath b)
  | CParse b => res_obs bnode_obs (parse_node b)
  | CEncKV p c => res_obs OB (encode_kv_node p c)
  | CEncBranch l r => res_obs OB (encode_branch_node l r)
  | CEncLeaf v => res_obs OB (encode_leaf_node v)
  | CNodeType n => res_obs (fun t => oN (ntype_N t)) (get_node_type n)
  | CExtractKey n => res_obs onibs (extract_key n)
  | CLeafKey ns => res_obs OB (compute_leaf_key ns)
  | CExtKey ns => res_obs OB (compute_extension_key ns)
  | CKeccak b => OB (keccak256 b)
  | CRlpEnc x => OB (rlp_encode x)
  | CRlpDec b => res_obs item_obs (rlp_decode b)
  end.
