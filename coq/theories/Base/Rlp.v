(* Base/Rlp.v — RLP items, the encoder (Yellow Paper Appendix B / rlp.codec.encode_raw)
   and a decoder for what the encoder produces.  Definitions only. *)
From Coq Require Import List NArith Bool.
From Coq.Init Require Import Byte.
From PyTrie.Base Require Import Bytes Result.
Import ListNotations.
Open Scope N_scope.

Inductive item := RStr (b : bytes) | RList (l : list item).

Fixpoint item_eqb (a b : item) {struct a} : bool :=
  match a, b with
  | RStr x, RStr y => bytes_eqb x y
  | RList l, RList l' =>
      (fix go (l l' : list item) : bool :=
         match l, l' with
         | [], [] => true
         | x :: l1, y :: l2 => item_eqb x y && go l1 l2
         | _, _ => false
         end) l l'
  | _, _ => false
  end.

Definition rlp_len_prefix (off : N) (len : N) : bytes :=
  if len <? 56 then [n2b (off + len)]
  else let bl := be_min len in n2b (off + 55 + blen bl) :: bl.

Fixpoint rlp_encode (x : item) : bytes :=
  match x with
  | RStr b =>
      match b with
      | [c] => if b2n c <? 128 then [c] else rlp_len_prefix 128 1 ++ b
      | _ => rlp_len_prefix 128 (blen b) ++ b
      end
  | RList l =>
      let payload := (fix go (l : list item) : bytes :=
                        match l with
                        | [] => []
                        | y :: l' => rlp_encode y ++ go l'
                        end) l in
      rlp_len_prefix 192 (blen payload) ++ payload
  end.

(* ------------------------------------------------------------------ *)
(* decoder: enough to read back what rlp_encode wrote; anything else is an error *)
Definition EDecode := Exn 21 [].   (* rlp DecodingError *)

Definition take_n (n : N) (b : bytes) : result (bytes * bytes) :=
  let k := N.to_nat n in
  if (blen b <? n) then Err EDecode else Ok (firstn k b, skipn k b).

Fixpoint rlp_dec_item (fuel : nat) (b : bytes) {struct fuel} : result (item * bytes) :=
  match fuel with
  | O => Err EOutOfFuel
  | S f =>
      match b with
      | [] => Err EDecode
      | x :: rest =>
          let n := b2n x in
          if n <? 128 then Ok (RStr [x], rest)
          else if n <? 184 then
            match take_n (n - 128) rest with
            | Ok (s, rest') => Ok (RStr s, rest')
            | Err e => Err e
            end
          else if n <? 192 then
            match take_n (n - 183) rest with
            | Ok (lb, rest') =>
                match take_n (be_to_N lb) rest' with
                | Ok (s, rest'') => Ok (RStr s, rest'')
                | Err e => Err e
                end
            | Err e => Err e
            end
          else if n <? 248 then
            match take_n (n - 192) rest with
            | Ok (p, rest') =>
                match rlp_dec_list f p with
                | Ok l => Ok (RList l, rest')
                | Err e => Err e
                end
            | Err e => Err e
            end
          else
            match take_n (n - 247) rest with
            | Ok (lb, rest') =>
                match take_n (be_to_N lb) rest' with
                | Ok (p, rest'') =>
                    match rlp_dec_list f p with
                    | Ok l => Ok (RList l, rest'')
                    | Err e => Err e
                    end
                | Err e => Err e
                end
            | Err e => Err e
            end
      end
  end
with rlp_dec_list (fuel : nat) (b : bytes) {struct fuel} : result (list item) :=
  match fuel with
  | O => Err EOutOfFuel
  | S f =>
      match b with
      | [] => Ok []
      | _ =>
          match rlp_dec_item f b with
          | Ok (it, rest) =>
              match rlp_dec_list f rest with
              | Ok l => Ok (it :: l)
              | Err e => Err e
              end
          | Err e => Err e
          end
      end
  end.

Definition rlp_decode (b : bytes) : result item :=
  match rlp_dec_item (S (S (length b))) b with
  | Ok (it, []) => Ok it
  | Ok (_, _ :: _) => Err EDecode
  | Err e => Err e
  end.

Fixpoint item_obs (x : item) : obs :=
  match x with
  | RStr b => OB b
  | RList l => OL (map item_obs l)
  end.
