(* Base/Bytes_proofs.v *)
From Coq Require Import List NArith ZArith Bool Lia.
From Coq.Strings Require Byte.
From Coq.Init Require Import Byte.
From PyTrie.Base Require Import Bytes.
Import ListNotations.
Open Scope N_scope.

Lemma byte_eqb_eq a b : byte_eqb a b = true <-> a = b.
Proof.
  unfold byte_eqb; split; intro Hab.
  - apply Byte.byte_dec_bl; exact Hab.
  - apply Byte.byte_dec_lb; exact Hab.
Qed.

Lemma byte_eqb_refl a : byte_eqb a a = true.
Proof. apply byte_eqb_eq; reflexivity. Qed.

Lemma bytes_eqb_eq a : forall b, bytes_eqb a b = true <-> a = b.
Proof.
  induction a as [|x a IH]; intros [|y b]; cbn; split; intro Hab; try reflexivity; try discriminate.
  - apply andb_true_iff in Hab as [H1 H2]. apply byte_eqb_eq in H1. apply IH in H2. congruence.
  - injection Hab as -> ->. rewrite byte_eqb_refl. apply IH; reflexivity.
Qed.

Lemma bytes_eqb_refl a : bytes_eqb a a = true.
Proof. apply bytes_eqb_eq; reflexivity. Qed.

Lemma bytes_eqb_neq a b : bytes_eqb a b = false <-> a <> b.
Proof.
  split.
  - intros Hf Heq. apply bytes_eqb_eq in Heq. congruence.
  - intro Hn. destruct (bytes_eqb a b) eqn:E; [|reflexivity].
    apply bytes_eqb_eq in E. contradiction.
Qed.

Lemma bytes_eqb_sym a b : bytes_eqb a b = bytes_eqb b a.
Proof.
  destruct (bytes_eqb a b) eqn:E.
  - apply bytes_eqb_eq in E; subst. symmetry; apply bytes_eqb_refl.
  - symmetry. apply bytes_eqb_neq. apply bytes_eqb_neq in E. congruence.
Qed.

Lemma bytes_eq_dec (a b : bytes) : {a = b} + {a <> b}.
Proof.
  destruct (bytes_eqb a b) eqn:E.
  - left; apply bytes_eqb_eq; exact E.
  - right; apply bytes_eqb_neq; exact E.
Qed.

Lemma b2n_lt x : b2n x < 256.
Proof. unfold b2n. pose proof (Byte.to_N_bounded x). lia. Qed.

Lemma n2b_b2n x : n2b (b2n x) = x.
Proof.
  unfold n2b, b2n. rewrite N.mod_small by (pose proof (Byte.to_N_bounded x); lia).
  rewrite Byte.of_to_N. reflexivity.
Qed.

Lemma b2n_n2b n : n < 256 -> b2n (n2b n) = n.
Proof.
  intro Hn. unfold n2b, b2n. rewrite N.mod_small by exact Hn.
  destruct (Byte.of_N n) as [b|] eqn:E.
  - apply Byte.to_of_N; exact E.
  - apply Byte.of_N_None_iff in E. lia.
Qed.

Lemma b2n_inj x y : b2n x = b2n y -> x = y.
Proof. intro Heq. rewrite <- (n2b_b2n x), <- (n2b_b2n y), Heq. reflexivity. Qed.
