(* Base/Bytes.v — byte strings, literals used by the correspondence harness,
   the observation tree [obs] that model runs and implementation runs are
   compared on.  Definitions only. *)
From Coq Require Import List NArith ZArith Bool.
From Coq.Strings Require Byte.
From Coq.Init Require Import Byte.
Import ListNotations.
Open Scope N_scope.

Definition bytes := list byte.

Definition byte_eqb (a b : byte) : bool := Byte.eqb a b.

Fixpoint bytes_eqb (a b : bytes) : bool :=
  match a, b with
  | [], [] => true
  | x :: a', y :: b' => byte_eqb x y && bytes_eqb a' b'
  | _, _ => false
  end.

Definition b2n (b : byte) : N := Byte.to_N b.
Definition n2b (n : N) : byte :=
  match Byte.of_N (n mod 256) with Some b => b | None => x00 end.

(* lexicographic order on byte strings (Python bytes comparison) *)
Fixpoint bytes_ltb (a b : bytes) : bool :=
  match a, b with
  | [], [] => false
  | [], _ :: _ => true
  | _ :: _, [] => false
  | x :: a', y :: b' =>
      if b2n x <? b2n y then true
      else if b2n y <? b2n x then false
      else bytes_ltb a' b'
  end.

(* Big-endian literal: [B len n] is the [len]-byte big-endian encoding of n.
   Used only by generated case files: a hexadecimal numeral parses quickly. *)
Fixpoint be_bytes_aux (len : nat) (n : N) (acc : bytes) : bytes :=
  match len with
  | O => acc
  | S len' => be_bytes_aux len' (N.shiftr n 8) (n2b (N.land n 255) :: acc)
  end.
Definition B (len : nat) (n : N) : bytes := be_bytes_aux len n [].

(* big-endian integer value of a byte string (eth_utils.to_int / big_endian_to_int) *)
Definition be_to_N (b : bytes) : N :=
  fold_left (fun acc x => acc * 256 + b2n x) b 0.

(* minimal big-endian encoding of a positive number (RLP length-of-length) *)
Fixpoint be_min_aux (fuel : nat) (n : N) (acc : bytes) : bytes :=
  match fuel with
  | O => acc
  | S f => if n =? 0 then acc else be_min_aux f (n / 256) (n2b n :: acc)
  end.
(* fuel: one step per byte; the bit size of n is always enough *)
Definition be_min (n : N) : bytes := be_min_aux (S (N.size_nat n)) n [].

Definition blen (b : bytes) : N := N.of_nat (length b).

Fixpoint repeat_byte (b : byte) (n : nat) : bytes :=
  match n with O => [] | S n' => b :: repeat_byte b n' end.

(* ------------------------------------------------------------------ *)
(* Observation trees: what a run (of the model or of the implementation)
   lets the outside see.  The harness prints the implementation's
   observations as a term of this type. *)
Inductive obs :=
| OB (b : bytes)          (* a byte string *)
| OZ (z : Z)              (* a number *)
| OE (tag : N) (args : list obs)   (* an exception: class tag + attributes *)
| OL (l : list obs)       (* a sequence / tuple *)
| ONone.

Fixpoint obs_eqb (a b : obs) {struct a} : bool :=
  match a, b with
  | OB x, OB y => bytes_eqb x y
  | OZ x, OZ y => Z.eqb x y
  | OE t l, OE t' l' =>
      N.eqb t t' &&
      (fix go (l l' : list obs) : bool :=
         match l, l' with
         | [], [] => true
         | x :: l1, y :: l2 => obs_eqb x y && go l1 l2
         | _, _ => false
         end) l l'
  | OL l, OL l' =>
      (fix go (l l' : list obs) : bool :=
         match l, l' with
         | [], [] => true
         | x :: l1, y :: l2 => obs_eqb x y && go l1 l2
         | _, _ => false
         end) l l'
  | ONone, ONone => true
  | _, _ => false
  end.

Definition obool (b : bool) : obs := OZ (if b then 1 else 0)%Z.
Definition onat (n : nat) : obs := OZ (Z.of_nat n).
Definition oN (n : N) : obs := OZ (Z.of_N n).
Definition onibs (l : list N) : obs := OL (map oN l).

(* indices (from 0) of the cases whose model observation differs from the
   implementation's; [run] is the model, a case is (input, expected). *)
Section Mismatch.
  Context {A : Type} (run : A -> obs).
  Fixpoint mismatches_from (i : N) (cases : list (A * obs)) : list N :=
    match cases with
    | [] => []
    | (a, e) :: rest =>
        if obs_eqb (run a) e then mismatches_from (i + 1) rest
        else i :: mismatches_from (i + 1) rest
    end.
  Definition mismatches := mismatches_from 0.
End Mismatch.

(* positions at which two observation lists differ (debugging aid of the harness) *)
Fixpoint obs_list_diff (i : N) (a b : list obs) : list N :=
  match a, b with
  | [], [] => []
  | x :: a', y :: b' => if obs_eqb x y then obs_list_diff (i + 1) a' b' else i :: obs_list_diff (i + 1) a' b'
  | _, _ => [i]
  end.
Definition obs_diff (a b : obs) : list N :=
  match a, b with
  | OL la, OL lb => obs_list_diff 0 la lb
  | _, _ => if obs_eqb a b then [] else [0]
  end.
