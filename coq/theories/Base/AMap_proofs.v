(* Base/AMap_proofs.v *)
From Coq Require Import List NArith Bool.
From PyTrie.Base Require Import Bytes Bytes_proofs AMap.
Import ListNotations.

Section AMapProofs.
  Context {V : Type}.
  Implicit Types (m : amap V) (k : bytes).

  Lemma aget_aset m k v k' :
    aget (aset m k v) k' = if bytes_eqb k' k then Some v else aget m k'.
  Proof.
    induction m as [|[k0 v0] m IH]; cbn.
    - reflexivity.
    - destruct (bytes_eqb k k0) eqn:E; cbn.
      + apply bytes_eqb_eq in E; subst k0.
        destruct (bytes_eqb k' k); reflexivity.
      + rewrite IH. destruct (bytes_eqb k' k0) eqn:E0; [|reflexivity].
        apply bytes_eqb_eq in E0; subst k0.
        rewrite bytes_eqb_sym, E. reflexivity.
  Qed.

  Lemma aget_adel m k k' :
    aget (adel m k) k' = if bytes_eqb k' k then None else aget m k'.
  Proof.
    induction m as [|[k0 v0] m IH]; cbn.
    - destruct (bytes_eqb k' k); reflexivity.
    - destruct (bytes_eqb k k0) eqn:E; cbn.
      + apply bytes_eqb_eq in E; subst k0. rewrite IH.
        destruct (bytes_eqb k' k); reflexivity.
      + rewrite IH. destruct (bytes_eqb k' k0) eqn:E0; [|reflexivity].
        apply bytes_eqb_eq in E0; subst k0.
        rewrite bytes_eqb_sym, E. reflexivity.
  Qed.

  Lemma aget_In m k v : aget m k = Some v -> In (k, v) m.
  Proof.
    induction m as [|[k0 v0] m IH]; cbn; [discriminate|].
    destruct (bytes_eqb k k0) eqn:E; intro Hg.
    - apply bytes_eqb_eq in E; subst. injection Hg as ->. left; reflexivity.
    - right; apply IH; exact Hg.
  Qed.

  Lemma aget_None_notin m k : aget m k = None -> ~ In k (akeys m).
  Proof.
    induction m as [|[k0 v0] m IH]; cbn; [tauto|].
    destruct (bytes_eqb k k0) eqn:E; [discriminate|].
    intros Hg [Heq|Hin].
    - subst. rewrite bytes_eqb_refl in E. discriminate.
    - apply IH; assumption.
  Qed.

  Lemma akeys_aset_nodup m k v : NoDup (akeys m) -> NoDup (akeys (aset m k v)).
  Proof.
    induction m as [|[k0 v0] m IH]; cbn; intro Hnd.
    - constructor; [tauto|constructor].
    - destruct (bytes_eqb k k0) eqn:E; cbn.
      + exact Hnd.
      + inversion Hnd as [|? ? Hnotin Hnd']; subst. constructor; [|apply IH; exact Hnd'].
        intro Hin. apply Hnotin. clear - Hin E.
        induction m as [|[k1 v1] m IH]; cbn in *.
        * destruct Hin as [Heq|[]]. subst. rewrite bytes_eqb_refl in E. discriminate.
        * destruct (bytes_eqb k k1) eqn:E1; cbn in Hin.
          -- exact Hin.
          -- destruct Hin as [Heq|Hin]; [left; exact Heq|right; apply IH; exact Hin].
  Qed.

  Lemma aget_notin m k : ~ In k (akeys m) -> aget m k = None.
  Proof.
    induction m as [|[k0 v0] m IH]; cbn; intro Hn; [reflexivity|].
    destruct (bytes_eqb k k0) eqn:E.
    - apply bytes_eqb_eq in E. subst. exfalso; apply Hn; left; reflexivity.
    - apply IH. tauto.
  Qed.
End AMapProofs.
