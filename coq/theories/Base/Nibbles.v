(* Base/Nibbles.v — model of trie/utils/nibbles.py, function by function, and the
   Yellow-Paper hex-prefix function HP written independently.  Definitions only. *)
From Coq Require Import List NArith Bool.
From Coq.Init Require Import Byte.
From PyTrie.Base Require Import Bytes Result.
Import ListNotations.
Open Scope N_scope.
Open Scope res_scope.

Definition nibbles := list N.

(* The Python code carries the out-of-range value 16 as the terminator flag inside
   nibble tuples; the model keeps that representation. *)
Definition NIBBLE_TERMINATOR : N := 16.

Definition nibs_ok (ns : nibbles) : bool := forallb (fun n => n <? 16) ns.

Fixpoint nibbles_eqb (a b : nibbles) : bool :=
  match a, b with
  | [], [] => true
  | x :: a', y :: b' => (x =? y) && nibbles_eqb a' b'
  | _, _ => false
  end.

(* Python tuple comparison a < b *)
Fixpoint nibbles_ltb (a b : nibbles) : bool :=
  match a, b with
  | [], [] => false
  | [], _ :: _ => true
  | _ :: _, [] => false
  | x :: a', y :: b' =>
      if x <? y then true else if y <? x then false else nibbles_ltb a' b'
  end.

Definition byte_hi (b : byte) : N := b2n b / 16.
Definition byte_lo (b : byte) : N := b2n b mod 16.

Fixpoint bytes_to_nibbles (b : bytes) : nibbles :=
  match b with
  | [] => []
  | x :: b' => byte_hi x :: byte_lo x :: bytes_to_nibbles b'
  end.

Fixpoint pack_nibbles (ns : nibbles) : bytes :=
  match ns with
  | hi :: lo :: rest => n2b (hi * 16 + lo) :: pack_nibbles rest
  | _ => []
  end.

Definition nibbles_to_bytes (ns : nibbles) : result bytes :=
  if negb (nibs_ok ns) then Err EInvalidNibbles
  else if Nat.odd (length ns) then Err EInvalidNibbles
  else Ok (pack_nibbles ns).

Definition is_nibbles_terminated (ns : nibbles) : bool :=
  match ns with
  | [] => false
  | _ => last ns 0 =? NIBBLE_TERMINATOR
  end.

Definition add_nibbles_terminator (ns : nibbles) : nibbles :=
  if is_nibbles_terminated ns then ns else ns ++ [NIBBLE_TERMINATOR].

Definition remove_nibbles_terminator (ns : nibbles) : nibbles :=
  if is_nibbles_terminated ns then removelast ns else ns.

Definition HP_FLAG_2 : N := 2.
Definition HP_FLAG_0 : N := 0.

Definition encode_nibbles (ns : nibbles) : result bytes :=
  let flag := if is_nibbles_terminated ns then HP_FLAG_2 else HP_FLAG_0 in
  let raw := remove_nibbles_terminator ns in
  let flagged := if Nat.odd (length raw) then (flag + 1) :: raw
                 else flag :: 0 :: raw in
  nibbles_to_bytes flagged.

Definition decode_nibbles (value : bytes) : result nibbles :=
  let nwf := bytes_to_nibbles value in
  match nwf with
  | [] => Err EIndexError
  | flag :: _ =>
      let needs_terminator := (flag =? 2) || (flag =? 3) in
      let is_odd := (flag =? 1) || (flag =? 3) in
      let raw := if is_odd then tl nwf else tl (tl nwf) in
      Ok (if needs_terminator then add_nibbles_terminator raw else raw)
  end.

(* ------------------------------------------------------------------ *)
(* Yellow Paper, Appendix C: HP(x, t).  f(t) = 2 if t else 0.
     even |x|:  16 f(t), 16 x0 + x1, 16 x2 + x3, ...
     odd  |x|:  16 (f(t)+1) + x0, 16 x1 + x2, ...
   Written separately from encode_nibbles (no terminator nibble, no flag nibbles
   list, bytes built pairwise). *)
Fixpoint hp_pairs (x : nibbles) : bytes :=
  match x with
  | a :: b :: rest => n2b (16 * a + b) :: hp_pairs rest
  | _ => []
  end.

Definition HP (x : nibbles) (t : bool) : bytes :=
  let f := if t then 2 else 0 in
  if Nat.even (length x) then n2b (16 * f) :: hp_pairs x
  else match x with
       | x0 :: rest => n2b (16 * (f + 1) + x0) :: hp_pairs rest
       | [] => []
       end.

(* the nibble tuple py-trie hands to encode_nibbles for (x, t) *)
Definition with_flag (x : nibbles) (t : bool) : nibbles :=
  if t then x ++ [NIBBLE_TERMINATOR] else x.

(* well-formed hex-prefix byte strings: first nibble is a flag in 0..3, and an even
   flag is followed by a zero nibble *)
Definition hp_wf (b : bytes) : bool :=
  match bytes_to_nibbles b with
  | flag :: pad :: _ => (flag <? 4) && (if (flag =? 0) || (flag =? 2) then pad =? 0 else true)
  | _ => false
  end.

(* common-prefix helpers of trie/utils/nodes.py *)
Fixpoint common_prefix_length (a b : nibbles) : nat :=
  match a, b with
  | x :: a', y :: b' => if x =? y then S (common_prefix_length a' b') else O
  | _, _ => O
  end.

Definition consume_common_prefix (l r : nibbles) : nibbles * nibbles * nibbles :=
  let n := common_prefix_length l r in
  (firstn n l, skipn n l, skipn n r).

(* key_starts_with(full, partial) *)
Fixpoint key_starts_with (full partial : nibbles) : bool :=
  match partial, full with
  | [], _ => true
  | _ :: _, [] => false
  | p :: partial', f :: full' => (f =? p) && key_starts_with full' partial'
  end.
