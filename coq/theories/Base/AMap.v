(* Base/AMap.v — insertion-ordered finite maps from byte strings (Python dict).
   Definitions only. *)
From Coq Require Import List NArith ZArith Bool.
From PyTrie.Base Require Import Bytes.
Import ListNotations.

Section AMap.
  Context {V : Type}.
  Definition amap := list (bytes * V).

  Fixpoint aget (m : amap) (k : bytes) : option V :=
    match m with
    | [] => None
    | (k', v) :: m' => if bytes_eqb k k' then Some v else aget m' k
    end.

  (* dict[k] = v : replace in place if present, else append at the end *)
  Fixpoint aset (m : amap) (k : bytes) (v : V) : amap :=
    match m with
    | [] => [(k, v)]
    | (k', v') :: m' =>
        if bytes_eqb k k' then (k', v) :: m' else (k', v') :: aset m' k v
    end.

  Fixpoint adel (m : amap) (k : bytes) : amap :=
    match m with
    | [] => []
    | (k', v') :: m' => if bytes_eqb k k' then adel m' k else (k', v') :: adel m' k
    end.

  Definition amem (m : amap) (k : bytes) : bool :=
    match aget m k with Some _ => true | None => false end.

  Definition akeys (m : amap) : list bytes := map fst m.
End AMap.
Arguments amap V : clear implicits.

(* insertion sort of entries by key, for canonical comparison with a Python dict *)
Section Sort.
  Context {V : Type}.
  Fixpoint ains (e : bytes * V) (l : list (bytes * V)) : list (bytes * V) :=
    match l with
    | [] => [e]
    | e' :: l' => if bytes_ltb (fst e') (fst e) then e' :: ains e l' else e :: l
    end.
  Definition asort (m : list (bytes * V)) : list (bytes * V) :=
    fold_right ains [] m.
End Sort.
