(* Properties/C17.v — ScratchDB buffers a batch and commits it atomically or not at
   all.  Only the property theorems, each closed by [exact] of a lemma proved in
   Db/ScratchDb_proofs.v, each followed by Print Assumptions.

   Quantification: every wrapped store [w], every operation list [ops] run inside the
   batch (any length), every key [k], both values of do_deletes; "exit by exception at
   any position" is [ops] being an arbitrary prefix of the block. *)
From Coq Require Import List NArith Bool.
From PyTrie.Base Require Import Bytes Result AMap.
From PyTrie.Db Require Import ScratchDb ScratchDb_proofs.
Import ListNotations.

(* While the batch is open the wrapped database is never written. *)
Theorem C17_no_write_during : forall w ops,
  wrapped (fst (srun (scratch_new w) ops)) = w.
Proof. exact no_write_during. Qed.
Print Assumptions C17_no_write_during.

(* Reads see the latest buffered write; a key whose latest buffered action is a
   delete (or that was never touched) reads through to the wrapped database. *)
Theorem C17_read : forall w ops k,
  sget (fst (srun (scratch_new w) ops)) k =
  match last_action ops k with
  | Some (Some v) => Ok v
  | Some None | None => store_get w k
  end.
Proof. exact read_spec. Qed.
Print Assumptions C17_read.

Theorem C17_contains : forall w ops k,
  scontains (fst (srun (scratch_new w) ops)) k =
  match last_action ops k with
  | Some (Some v) => true
  | Some None | None => store_mem w k
  end.
Proof. exact contains_spec. Qed.
Print Assumptions C17_contains.

(* copy() shows the wrapped entries overlaid by the buffer: the latest buffered write of a key, nothing for a key
   whose latest buffered action is a delete, the wrapped value otherwise (a dict has no duplicate keys: NoDup). *)
Theorem C17_copy : forall w ops k, NoDup (akeys (cells w)) ->
  aget (scopy (fst (srun (scratch_new w) ops))) k =
  match last_action ops k with
  | Some (Some v) => Some v
  | Some None => None
  | None => aget (cells w) k
  end.
Proof. exact copy_spec. Qed.

(* Normal exit: last write wins, deletes applied only if requested, buffer empty. *)
Theorem C17_commit : forall w ops dd,
  budget w = None ->
  let '(s', e) := scommit dd (fst (srun (scratch_new w) ops)) in
  e = None /\ cache s' = [] /\
  forall k, aget (cells (wrapped s')) k =
            match last_action ops k with
            | Some (Some v) => Some v
            | Some None => if dd then None else aget (cells w) k
            | None => aget (cells w) k
            end.
Proof. exact commit_spec. Qed.
Print Assumptions C17_commit.

(* Exit by exception: wrapped database exactly as it was, buffer empty. *)
Theorem C17_abort : forall w ops,
  let s' := sabort (fst (srun (scratch_new w) ops)) in
  wrapped s' = w /\ cache s' = [].
Proof. exact abort_spec. Qed.
Print Assumptions C17_abort.

Theorem C17_buffer_empty_after_commit : forall dd s, cache (fst (scommit dd s)) = [].
Proof. exact commit_clears_cache. Qed.
Print Assumptions C17_buffer_empty_after_commit.

(* The wrapped database may itself be a ScratchDB layer s1 (a squash_changes block opened on a batch trie);
   the inner ScratchDB then wraps what reads through s1 see ([read_view]).  Reads inside the inner batch go
   through both layers; its normal exit replays its buffer into s1's buffer — last write wins, a buffered
   delete becomes a DELETED marker in s1 iff deletes were requested — without touching s1's own wrapped
   store; its exit by exception is C17_abort (s1 is not an argument of it at all). *)
Theorem C17_nested_read : forall s1 ops k, NoDup (akeys (cache s1)) ->
  sget (fst (srun (scratch_new (store_of (read_view s1))) ops)) k =
  match last_action ops k with
  | Some (Some v) => Ok v
  | Some None | None => sget s1 k
  end.
Proof. exact nested_read_spec. Qed.

Theorem C17_nested_commit : forall s1 ops dd, NoDup (akeys (cache s1)) ->
  let s2 := fst (srun (scratch_new (store_of (read_view s1))) ops) in
  let s1' := sreplay dd (cache s2) s1 in
  wrapped s1' = wrapped s1 /\ NoDup (akeys (cache s1')) /\
  forall k, aget (cache s1') k =
            match last_action ops k with
            | Some (Some v) => Some (Some v)
            | Some None => if dd then Some None else aget (cache s1) k
            | None => aget (cache s1) k
            end.
Proof. exact nested_commit_spec. Qed.

(* Non-vacuity: a concrete batch with a pre-existing key deleted, re-read, and a
   new key written; the statements above evaluate to what one expects. *)
Example C17_example :
  let w := store_of [(B 1 0x61, B 2 0x7631)] in
  let ops := [SDel (B 1 0x61); SGet (B 1 0x61); SSet (B 1 0x62) (B 1 0x39)] in
  budget w = None
  /\ sget (fst (srun (scratch_new w) ops)) (B 1 0x61) = Ok (B 2 0x7631)
  /\ cells (wrapped (fst (scommit true (fst (srun (scratch_new w) ops))))) = [(B 1 0x62, B 1 0x39)]
  /\ cells (wrapped (fst (scommit false (fst (srun (scratch_new w) ops)))))
     = [(B 1 0x61, B 2 0x7631); (B 1 0x62, B 1 0x39)].
Proof. vm_compute. repeat split. Qed.
Print Assumptions C17_nested_read.
Print Assumptions C17_nested_commit.
Print Assumptions C17_copy.
