(* Properties/C04.v — non-pruning tries never lose or alter history: old roots stay readable.
   Database-level model; [drun] runs any list of API calls (continuing after failed ones) and
   the store may fail any of its writes ([budget]).  Only the property theorems. *)
From Coq Require Import List NArith Bool.
From Coq.Init Require Import Byte.
From PyTrie.Base Require Import Bytes Result AMap.
From PyTrie.Db Require Import ScratchDb.
From PyTrie.Base Require Import Keccak Bytes_proofs.
From PyTrie.Hexary Require Import Raw D D_safety D_read D_history Run.
From PyTrie.Hexary Require Refine_write.
Import ListNotations.

(* every operation — whatever its outcome, including a failing database write — only adds
   entries keyed by the hash of their value; nothing is removed; an existing entry can only
   be "overwritten" by a body with the same hash *)
Theorem C04_append_only_set : forall H BNH k v t s r t',
  t_prune t = false -> t_pending t = None -> t_db t = DPlain s -> set H BNH k v t = (r, t') ->
  (exists s', t_db t' = DPlain s' /\
     (forall h b, aget (cells s) h = Some b ->
        aget (cells s') h = Some b \/ (exists b', aget (cells s') h = Some b' /\ h = H b')) /\
     (forall h b, aget (cells s') h = Some b -> aget (cells s) h = Some b \/ h = H b)) /\
  t_prune t' = false /\ t_refc t' = t_refc t /\ t_pending t' = None /\
  (forall e, r = Err e -> t_root t' = t_root t).
Proof. exact D_safety.C04_append_only_set. Qed.
Print Assumptions C04_append_only_set.

Theorem C04_append_only_delete : forall H BNH k t s r t',
  t_prune t = false -> t_pending t = None -> t_db t = DPlain s -> delete H BNH k t = (r, t') ->
  (exists s', t_db t' = DPlain s' /\
     (forall h b, aget (cells s) h = Some b ->
        aget (cells s') h = Some b \/ (exists b', aget (cells s') h = Some b' /\ h = H b')) /\
     (forall h b, aget (cells s') h = Some b -> aget (cells s) h = Some b \/ h = H b)) /\
  t_prune t' = false /\ t_refc t' = t_refc t /\ t_pending t' = None /\
  (forall e, r = Err e -> t_root t' = t_root t).
Proof. exact D_safety.C04_append_only_delete. Qed.
Print Assumptions C04_append_only_delete.

(* every history of API calls *)
Theorem C04_append_only_history : forall H BNH ops t s,
  t_prune t = false -> t_pending t = None -> t_db t = DPlain s ->
  let t' := drun H BNH ops t in
  (exists s', t_db t' = DPlain s' /\
     (forall h b, aget (cells s) h = Some b ->
        aget (cells s') h = Some b \/ (exists b', aget (cells s') h = Some b' /\ h = H b')) /\
     (forall h b, aget (cells s') h = Some b -> aget (cells s) h = Some b \/ h = H b)) /\
  t_prune t' = false /\ t_refc t' = t_refc t /\ t_pending t' = None.
Proof. exact D_safety.C04_append_only_run. Qed.
Print Assumptions C04_append_only_history.

(* a whole squash_changes batch on a non-pruning trie, including a commit that fails midway *)
Theorem C04_append_only_batch : forall H BNH outer s ops r t',
  t_prune outer = false -> t_pending outer = None -> t_db outer = DPlain s ->
  batch_commit H BNH outer (drun H BNH ops (batch_begin outer)) = (r, t') ->
  (exists s', t_db t' = DPlain s' /\
     (forall h b, aget (cells s) h = Some b ->
        aget (cells s') h = Some b \/ (exists b', aget (cells s') h = Some b' /\ h = H b')) /\
     (forall h b, aget (cells s') h = Some b -> aget (cells s) h = Some b \/ h = H b)) /\
  t_prune t' = false /\ t_refc t' = t_refc outer /\ t_pending t' = None /\
  (forall e, r = Err e -> t_root t' = t_root outer).
Proof. exact D_safety.C04_append_only_batch. Qed.
Print Assumptions C04_append_only_batch.

(* therefore: whatever could be read from a root on an earlier store reads identically on
   every later (super-)store — from a fresh trie or an at_root snapshot (both are [plain]) *)
Theorem C04_old_roots_readable : forall BNH m1 m2 r k v,
  sub_store m1 m2 -> fst (get BNH k (plain m1 r)) = Ok v -> fst (get BNH k (plain m2 r)) = Ok v.
Proof. exact D_read.read_mono_get. Qed.
Print Assumptions C04_old_roots_readable.

Theorem C04_old_roots_same_or_missing : forall BNH m1 m2 r k,
  sub_store m1 m2 ->
  fst (get BNH k (plain m1 r)) = fst (get BNH k (plain m2 r)) \/
  (exists h p, fst (get BNH k (plain m1 r)) = Err (EMissingTrieNode h r k (Some p)) /\
               aget m1 h = None /\ aget m2 h <> None).
Proof. exact D_read.read_same_or_missing_get. Qed.
Print Assumptions C04_old_roots_same_or_missing.

(* END TO END.  Put together: whatever could be read from ANY root before a history of API calls (each possibly
   aborted by a failing database write at any index) reads identically afterwards - from a freshly opened trie or
   an at_root snapshot, whether the snapshot was opened before or after the writes.  The premise is the explicit
   finite one: no Keccak collision among the bodies of the old and of the new store. *)
Theorem C04_old_roots_after_history : forall H BNH ops t s,
  t_prune t = false -> t_pending t = None -> t_db t = DPlain s ->
  content_addressed H (cells s) ->
  forall s', t_db (drun H BNH ops t) = DPlain s' ->
  cf H (bodies (cells s) ++ bodies (cells s')) ->
  forall r k v, fst (get BNH k (plain (cells s) r)) = Ok v -> fst (get BNH k (plain (cells s') r)) = Ok v.
Proof. exact D_history.old_roots_after_history. Qed.
Print Assumptions C04_old_roots_after_history.

(* the same across a whole squash_changes block, including a commit that fails midway *)
Theorem C04_old_roots_after_batch : forall H BNH outer s ops res t',
  t_prune outer = false -> t_pending outer = None -> t_db outer = DPlain s ->
  content_addressed H (cells s) ->
  batch_commit H BNH outer (drun H BNH ops (batch_begin outer)) = (res, t') ->
  forall s', t_db t' = DPlain s' ->
  cf H (bodies (cells s) ++ bodies (cells s')) ->
  forall r k v, fst (get BNH k (plain (cells s) r)) = Ok v -> fst (get BNH k (plain (cells s') r)) = Ok v.
Proof. exact D_history.old_roots_after_batch. Qed.
Print Assumptions C04_old_roots_after_batch.

(* Non-vacuity with the real Keccak-256: a trie with two hashed leaves, then a history in which the backing store
   fails its 2nd write during an overwrite, followed by a delete that succeeds; the premises hold (checked by
   computation) and the old root still reads its old value while the current root does not. *)
Example C04_end_to_end_example :
  let K := keccak256 in
  let BN := Run.BLANK_NODE_HASH in
  let t0 := drun K BN [DSet (B 2 0x1234) (repeat_byte x61 40); DSet (B 2 0x1256) (repeat_byte x62 40)] (empty_trie BN false) in
  let s := outer_store t0 in
  let t1 := Run.set_budget t0 (Some 1%nat) in
  let t2 := drun K BN [DSet (B 2 0x1234) (repeat_byte x63 40)] t1 in            (* aborted by the failing 2nd write *)
  let t3 := drun K BN [DDelete (B 2 0x1256)] (Run.set_budget t2 None) in
  let s' := outer_store t3 in
  t_root t2 = t_root t0 /\ t_root t3 <> t_root t0 /\
  forallb (fun e : bytes * bytes => bytes_eqb (fst e) (K (snd e))) (cells s) = true /\      (* content-addressed *)
  Refine_write.cf_pairs (map (fun b => (b, K b)) (bodies (cells s) ++ bodies (cells s'))) = true /\
  fst (get BN (B 2 0x1256) (plain (cells s') (t_root t0))) = Ok (repeat_byte x62 40) /\
  fst (get BN (B 2 0x1256) (plain (cells s') (t_root t3))) = Ok [].
Proof. vm_compute. repeat split; try reflexivity; discriminate. Qed.
