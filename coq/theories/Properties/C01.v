(* Properties/C01.v — HexaryTrie behaves as a byte-string map under every history.

   What is proved here (closed, for every operation list and EVERY nibble path [q] —
   the empty key, proper prefixes and extensions of stored keys, paths diverging inside
   a shared path): the tree-level algorithms ([tset] = _set/_set_kv_node/_set_branch_node,
   [tdelete] = _delete/_delete_kv_node/_delete_branch_node/_normalize_branch_node,
   [tget] = _traverse_from + _get, set(k, b"") routed to delete) implement the map.

   FULL STATEMENT (C01_D): for every history of API calls (direct or batched, pruning or
   not) on the database-level machine of Hexary/D.v, [get] returns [Ok (spec k)] and
   never raises.  Proved parts: the tree level below (C01_map, C01_exists), the purity of
   reads and the database-level safety facts in Properties/C04, C05, C07.  The remaining
   link (write refinement: the database-level writes produce a database representing the
   tree-level result) is exercised on every correspondence case by comparing the
   implementation, the D-level model and the T-level model (hexary_run / c01_T_run). *)
From Coq Require Import List NArith Bool.
From PyTrie.Base Require Import Bytes Result Nibbles.
From PyTrie.Base Require Import AMap Rlp.
From PyTrie.Hexary Require Import Raw Tree Tree_aux Tree_map D D_read Refine_read.
Import ListNotations.

Theorem C01_map : forall ops q, ops_ok ops -> nibs_ok q = true -> tget (trun ops) q = spec_run ops q.
Proof. exact C01_map_T. Qed.
Print Assumptions C01_map.

Theorem C01_exists : forall ops q, ops_ok ops -> nibs_ok q = true ->
  texists (trun ops) q = nonempty (spec_run ops q).
Proof. exact C01_exists_T. Qed.
Print Assumptions C01_exists.

(* the one-step laws, over all paths *)
Theorem C01_get_after_set : forall t k v q, wf t = true -> nibs_ok k = true -> nibs_ok q = true ->
  tget (tset t k v) q = if nibbles_eqb q k then v else tget t q.
Proof. exact tget_tset. Qed.
Print Assumptions C01_get_after_set.

Theorem C01_get_after_delete : forall t k q, wf t = true -> nibs_ok k = true -> nibs_ok q = true ->
  tget (tdelete t k) q = if nibbles_eqb q k then [] else tget t q.
Proof. exact tget_tdelete. Qed.
Print Assumptions C01_get_after_delete.

(* READ LINK (database level -> tree level): on a store that represents a tree, the
   database-level get never raises and returns what the tree holds — for every byte-string
   key.  Premises: the representation relation, well-formedness ([wf], [ext_ok]: implied by the
   canonical invariant), the RLP round trip of the tree's own nodes ([decodable]) and no node
   hashing to the blank-node hash ([no_blank_collision], derivable from collision-freeness of the
   finitely many node bodies: Refine_read.no_blank_collision_of_cf).  The premises are satisfiable
   for every tree (Refine_read.represents_store_of_tree) and are checked by computation on a
   concrete tree with the real Keccak-256 (Refine_read.ex_get). *)
Theorem C01_lookup_total_D : forall H BNH, (forall x, length (H x) = 32%nat) -> BNH = H (rlp_encode (RStr [])) ->
  forall m r t, represents H m r t -> wf t = true -> ext_ok t = true -> decodable H t -> no_blank_collision H BNH t ->
  forall k, fst (get BNH k (plain m r)) = Ok (tget t (bytes_to_nibbles k)).
Proof. exact Refine_read.C01_lookup_total_D. Qed.
Print Assumptions C01_lookup_total_D.

Theorem C01_exists_D : forall H BNH, (forall x, length (H x) = 32%nat) -> BNH = H (rlp_encode (RStr [])) ->
  forall m r t, represents H m r t -> wf t = true -> ext_ok t = true -> decodable H t -> no_blank_collision H BNH t ->
  forall k, fst (exists_ BNH k (plain m r)) = Ok (texists t (bytes_to_nibbles k)).
Proof. exact Refine_read.exists_refines. Qed.
Print Assumptions C01_exists_D.

(* non-vacuity: keys "", 12, 1234, 123456, 123457, 13 (as nibbles), lookups of prefixes *)
Example C01_example :
  let ops := [TSet [1;2;3;4;5;6] (B 1 0x61); TSet [1;2;3;4;5;7] (B 1 0x62); TSet [1;2] (B 1 0x63);
              TSet [] (B 1 0x64); TSet [1;3] (B 1 0x65); TDel [1;2;3;4;5;7]; TSet [1;2;3;4] []]%N in
  Forall (fun o => match o with TSet k _ => nibs_ok k = true | TDel k => nibs_ok k = true end) ops
  /\ tget (trun ops) [1]%N = [] /\ tget (trun ops) [1;2]%N = B 1 0x63
  /\ tget (trun ops) [1;2;3;4;5;6]%N = B 1 0x61 /\ tget (trun ops) [1;2;3;4;5;7]%N = [] /\ tget (trun ops) [] = B 1 0x64.
Proof. vm_compute. repeat split; repeat constructor. Qed.
