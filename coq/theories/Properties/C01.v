(* Properties/C01.v — HexaryTrie behaves as a byte-string map under every history.

   What is proved here (closed, for every operation list and EVERY nibble path [q] —
   the empty key, proper prefixes and extensions of stored keys, paths diverging inside
   a shared path): the tree-level algorithms ([tset] = _set/_set_kv_node/_set_branch_node,
   [tdelete] = _delete/_delete_kv_node/_delete_branch_node/_normalize_branch_node,
   [tget] = _traverse_from + _get, set(k, b"") routed to delete) implement the map.

   DATABASE LEVEL (C01_D_nonpruning / C01_D_pruning at the end of this file): for every
   history of direct set / delete / set-to-empty calls on the machine of Hexary/D.v from an
   empty database, pruning off or on, every call succeeds, and afterwards [get k] returns
   [Ok (spec k)] for every byte-string key (write refinement D -> T, Hexary/Refine_write*.v,
   + read refinement + the tree-level map theorem).  Premises: no hash collision among the
   finitely many node bodies the history writes ([hist_bodies], an executable list, which
   includes the intermediate nodes a delete persists before merging them away) and those
   bodies shorter than 2^64 bytes.  NOT covered by a theorem: histories that go through
   squash_changes (a ScratchDB-backed inner trie); for those the link rests on the
   correspondence check (implementation = D-level model = T-level model on every case) and on
   the batch theorems of Properties/C05. *)
From Coq Require Import List NArith ZArith Bool.
From PyTrie.Base Require Import Bytes Result Nibbles.
From PyTrie.Base Require Import AMap Rlp.
From PyTrie.Hexary Require Import Raw Tree Tree_aux Tree_map D D_read Refine_read Refine_write Refine_write_prune Refine_batch.
From PyTrie.Hexary Require Tree_unique.
Import ListNotations.

Theorem C01_map : forall ops q, ops_ok ops -> nibs_ok q = true -> tget (trun ops) q = spec_run ops q.
Proof. exact C01_map_T. Qed.
Print Assumptions C01_map.

Theorem C01_exists : forall ops q, ops_ok ops -> nibs_ok q = true ->
  texists (trun ops) q = nonempty (spec_run ops q).
Proof. exact C01_exists_T. Qed.
Print Assumptions C01_exists.

(* the one-step laws, over all paths *)
Theorem C01_get_after_set : forall t k v q, wf t = true -> nibs_ok k = true -> nibs_ok q = true ->
  tget (tset t k v) q = if nibbles_eqb q k then v else tget t q.
Proof. exact tget_tset. Qed.
Print Assumptions C01_get_after_set.

Theorem C01_get_after_delete : forall t k q, wf t = true -> nibs_ok k = true -> nibs_ok q = true ->
  tget (tdelete t k) q = if nibbles_eqb q k then [] else tget t q.
Proof. exact tget_tdelete. Qed.
Print Assumptions C01_get_after_delete.

(* READ LINK (database level -> tree level): on a store that represents a tree, the
   database-level get never raises and returns what the tree holds — for every byte-string
   key.  Premises: the representation relation, well-formedness ([wf], [ext_ok]: implied by the
   canonical invariant), the RLP round trip of the tree's own nodes ([decodable]) and no node
   hashing to the blank-node hash ([no_blank_collision], derivable from collision-freeness of the
   finitely many node bodies: Refine_read.no_blank_collision_of_cf).  The premises are satisfiable
   for every tree (Refine_read.represents_store_of_tree) and are checked by computation on a
   concrete tree with the real Keccak-256 (Refine_read.ex_get). *)
Theorem C01_lookup_total_D : forall H BNH, (forall x, length (H x) = 32%nat) -> BNH = H (rlp_encode (RStr [])) ->
  forall m r t, represents H m r t -> wf t = true -> ext_ok t = true -> decodable H t -> no_blank_collision H BNH t ->
  forall k, fst (get BNH k (plain m r)) = Ok (tget t (bytes_to_nibbles k)).
Proof. exact Refine_read.C01_lookup_total_D. Qed.
Print Assumptions C01_lookup_total_D.

Theorem C01_exists_D : forall H BNH, (forall x, length (H x) = 32%nat) -> BNH = H (rlp_encode (RStr [])) ->
  forall m r t, represents H m r t -> wf t = true -> ext_ok t = true -> decodable H t -> no_blank_collision H BNH t ->
  forall k, fst (exists_ BNH k (plain m r)) = Ok (texists t (bytes_to_nibbles k)).
Proof. exact Refine_read.exists_refines. Qed.
Print Assumptions C01_exists_D.

(* non-vacuity: keys "", 12, 1234, 123456, 123457, 13 (as nibbles), lookups of prefixes *)
Example C01_example :
  let ops := [TSet [1;2;3;4;5;6] (B 1 0x61); TSet [1;2;3;4;5;7] (B 1 0x62); TSet [1;2] (B 1 0x63);
              TSet [] (B 1 0x64); TSet [1;3] (B 1 0x65); TDel [1;2;3;4;5;7]; TSet [1;2;3;4] []]%N in
  Forall (fun o => match o with TSet k _ => nibs_ok k = true | TDel k => nibs_ok k = true end) ops
  /\ tget (trun ops) [1]%N = [] /\ tget (trun ops) [1;2]%N = B 1 0x63
  /\ tget (trun ops) [1;2;3;4;5;6]%N = B 1 0x61 /\ tget (trun ops) [1;2;3;4;5;7]%N = [] /\ tget (trun ops) [] = B 1 0x64.
Proof. vm_compute. repeat split; repeat constructor. Qed.

(* ---------------- every history, database level ---------------- *)
(* [wrun] runs a list of API writes ((key, Some v) = set, (key, None) = delete) on the D-level
   machine; [top_of] is the corresponding tree-level operation *)
Theorem C01_D_nonpruning : forall H BNH, (forall x, length (H x) = 32%nat) -> BNH = H (rlp_encode (RStr [])) ->
  forall ws : list wop,
  cf H (hist_bodies H ws) -> Forall (fun b => (blen b < 2 ^ 64)%N) (hist_bodies H ws) ->
  let ops := map top_of ws in
  exists m,
    wrun H BNH ws (empty_trie BNH false) = (map (fun _ => Ok tt) ws, plain m (troot H (trun ops))) /\
    represents H m (troot H (trun ops)) (trun ops) /\ content_addressed H m /\
    (forall k, fst (get BNH k (plain m (troot H (trun ops)))) = Ok (spec_run ops (bytes_to_nibbles k))) /\
    (forall J, Tree_unique.good_bindings J -> (forall q, nibs_ok q = true -> lookup J q = spec_run ops q) ->
               t_root (plain m (troot H (trun ops))) = yp_root H J).
Proof. exact Refine_write.C01_D_nonpruning_small. Qed.
Print Assumptions C01_D_nonpruning.

Theorem C01_D_pruning : forall H BNH, (forall x, length (H x) = 32%nat) -> BNH = H (rlp_encode (RStr [])) ->
  forall ws : list wop,
  cf H (hist_bodies H ws) -> Forall (fun b => (blen b < 2 ^ 64)%N) (hist_bodies H ws) ->
  let ops := map top_of ws in
  exists m rc,
    wrun H BNH ws (empty_trie BNH true) = (map (fun _ => Ok tt) ws, pstate H m rc (trun ops)) /\
    represents H m (troot H (trun ops)) (trun ops) /\ content_addressed H m /\
    (forall h, zget rc h = occR H (trun ops) h) /\
    (forall h, amem m h = true <-> Z.lt 0%Z (occR H (trun ops) h)) /\
    (forall k, fst (get BNH k (pstate H m rc (trun ops))) = Ok (spec_run ops (bytes_to_nibbles k))) /\
    (forall J, Tree_unique.good_bindings J -> (forall q, nibs_ok q = true -> lookup J q = spec_run ops q) ->
               t_root (pstate H m rc (trun ops)) = yp_root H J).
Proof. exact Refine_write_prune.C01_D_pruning. Qed.
Print Assumptions C01_D_pruning.

(* histories that mix direct writes with squash_changes blocks, committed or aborted
   ([hop], [hrun], [flat] = the writes that take effect; Hexary/Refine_batch.v): the final state
   is that of the writes that took effect, for both kinds of trie *)
Theorem C01_D_nonpruning_batched : forall H BNH, (forall x, length (H x) = 32%nat) -> BNH = H (rlp_encode (RStr [])) ->
  forall hs : list hop,
  cf H (hist_bodies H (flat hs)) -> Forall (fun b => (blen b < 2 ^ 64)%N) (hist_bodies H (flat hs)) ->
  let ops := map top_of (flat hs) in
  exists m,
    hrun H BNH hs (empty_trie BNH false) = (map hexpect hs, plain m (troot H (trun ops))) /\
    represents H m (troot H (trun ops)) (trun ops) /\ content_addressed H m /\
    (forall k, fst (get BNH k (plain m (troot H (trun ops)))) = Ok (spec_run ops (bytes_to_nibbles k))) /\
    (forall J, Tree_unique.good_bindings J -> (forall q, nibs_ok q = true -> lookup J q = spec_run ops q) ->
               t_root (plain m (troot H (trun ops))) = yp_root H J).
Proof. exact Refine_batch.C01_D_nonpruning_batched. Qed.
Print Assumptions C01_D_nonpruning_batched.

Theorem C01_D_pruning_batched : forall H BNH, (forall x, length (H x) = 32%nat) -> BNH = H (rlp_encode (RStr [])) ->
  forall hs : list hop,
  cf H (hist_bodies H (flat hs)) -> Forall (fun b => (blen b < 2 ^ 64)%N) (hist_bodies H (flat hs)) ->
  let ops := map top_of (flat hs) in
  exists m rc,
    hrun H BNH hs (empty_trie BNH true) = (map hexpect hs, pstate H m rc (trun ops)) /\
    represents H m (troot H (trun ops)) (trun ops) /\ content_addressed H m /\
    (forall h, zget rc h = occR H (trun ops) h) /\
    (forall h, amem m h = true <-> Z.lt 0%Z (occR H (trun ops) h)) /\
    (forall k, fst (get BNH k (pstate H m rc (trun ops))) = Ok (spec_run ops (bytes_to_nibbles k))) /\
    (forall J, Tree_unique.good_bindings J -> (forall q, nibs_ok q = true -> lookup J q = spec_run ops q) ->
               t_root (pstate H m rc (trun ops)) = yp_root H J).
Proof. exact Refine_batch.C01_D_pruning_batched. Qed.
Print Assumptions C01_D_pruning_batched.

(* non-vacuity under Keccak-256: direct writes, three committed batches and one aborted batch *)
Print Assumptions ex_hs_pruning.
Print Assumptions ex_hs_nonpruning.

(* the premises hold of a concrete 10-write history with the real Keccak-256 *)
Print Assumptions ex_ws_theorem.
