(* Properties/C14.v — SparseMerkleTree is a fixed-depth map whose root and branches
   always verify.  For every key size 1..32, every default, every history of set/delete
   ([sop], [srun] in Smt/Smt_proofs.v), stated for the REAL hash (Keccak-256 model) under
   the explicit premise [cf]: no Keccak collision among the node bodies the history
   writes ([hist_bodies], an executable list — the premise is discharged by computation
   in the non-vacuity example C14_keccak_nonvacuous).  Only the property theorems. *)
From Coq Require Import List NArith Bool.
From PyTrie.Base Require Import Bytes Result AMap Keccak.
From PyTrie.Binary Require Import BinEnc.
From PyTrie.Smt Require Import Smt Smt_proofs.
Import ListNotations.
Local Open Scope nat_scope.

Definition K := keccak256.

(* root = Merkle root of the full depth-8*ks tree whose leaves are the last value written
   (else the default); reads reflect the last value written *)
Theorem C14_root : forall ks d ops,
  1 <= ks <= 32 -> Forall (fun o => length (sop_key o) = ks) ops -> cf K (hist_bodies K ks d ops) ->
  exists t0 t, smt_new K ks d = Ok t0 /\ srun K t0 ops = Ok t /\
    s_root t = merkle K (8 * ks) (leaf_after (fun _ => d) d ops) /\
    (forall k, leaf_after (fun _ => d) d ops (encode_to_bin k) = val_after d ops k) /\
    s_root t0 = merkle K (8 * ks) (fun _ => d).
Proof. exact (Smt_proofs.C14_root K keccak256_len). Qed.
Print Assumptions C14_root.

(* history independent *)
Theorem C14_root_history_independent : forall ks d ops1 ops2 t1 t2 t0,
  1 <= ks <= 32 ->
  Forall (fun o => length (sop_key o) = ks) ops1 -> Forall (fun o => length (sop_key o) = ks) ops2 ->
  cf K (hist_bodies K ks d ops1) -> cf K (hist_bodies K ks d ops2) ->
  (forall k, length k = ks -> val_after d ops1 k = val_after d ops2 k) ->
  smt_new K ks d = Ok t0 -> srun K t0 ops1 = Ok t1 -> srun K t0 ops2 = Ok t2 -> s_root t1 = s_root t2.
Proof. exact (Smt_proofs.C14_root_indep K keccak256_len). Qed.
Print Assumptions C14_root_history_independent.

(* equal to the initial root once everything is cleared *)
Theorem C14_root_cleared : forall ks d ops t0 t,
  1 <= ks <= 32 -> Forall (fun o => length (sop_key o) = ks) ops -> cf K (hist_bodies K ks d ops) ->
  (forall k, length k = ks -> val_after d ops k = d) ->
  smt_new K ks d = Ok t0 -> srun K t0 ops = Ok t -> s_root t = s_root t0.
Proof. exact (Smt_proofs.C14_root_cleared K keccak256_len). Qed.
Print Assumptions C14_root_cleared.

(* get / exists / branch / calc_root / from_db after any history *)
Theorem C14_reads : forall ks d ops t0 t key,
  1 <= ks <= 32 -> Forall (fun o => length (sop_key o) = ks) ops -> cf K (hist_bodies K ks d ops) ->
  smt_new K ks d = Ok t0 -> srun K t0 ops = Ok t -> length key = ks ->
  let v := val_after d ops key in
  smt_get t key = (if is_blank v then Err (Exn T_KeyError []) else Ok v) /\
  smt_exists t key = Ok (negb (is_blank v)) /\
  (exists br, _get t key = Ok (v, br) /\ calc_root K key v br = Ok (s_root t) /\
              smt_branch t key = (if is_blank v then Err (Exn T_KeyError []) else Ok br)) /\
  smt_from_db K (s_db t) (s_root t) ks d = Ok t.
Proof. exact (Smt_proofs.C14_history_reads K keccak256_len). Qed.
Print Assumptions C14_reads.

(* one step: the representation invariant is kept and the returned hashes are the updated
   path, root to leaf *)
Theorem C14_set_step : forall L t key v t' ups g,
  reprS K (s_db t) (s_root t) (depth_of t) g -> length key = s_keysize t ->
  cf K L -> incl (map snd (s_db t)) L -> incl (set_bodies K t key v) L ->
  smt_set K t key v = Ok (t', ups) ->
  reprS K (s_db t') (s_root t') (depth_of t') (upd g (encode_to_bin key) v) /\
  ups = path_hashes K (depth_of t) (upd g (encode_to_bin key) v) (encode_to_bin key) /\
  s_keysize t' = s_keysize t /\ s_default t' = s_default t /\
  incl (map snd (s_db t')) L /\ dext K (s_db t) (s_db t').
Proof. exact (Smt_proofs.smt_set_repr K keccak256_len). Qed.
Print Assumptions C14_set_step.

Theorem C14_repr_is_merkle : forall n db h g, reprS K db h n g -> h = merkle K n g.
Proof. exact (Smt_proofs.reprS_merkle K). Qed.
Print Assumptions C14_repr_is_merkle.

(* the sparse evaluation of the specification used by the oracle equals the specification *)
Theorem C14_merkle_sparse : forall n d bs,
  Forall (fun e : bits * bytes => length (fst e) = n) bs -> merkle_sparse K n d bs = merkle K n (lookup_bits d bs).
Proof. exact (Smt_proofs.merkle_sparse_spec K). Qed.
Print Assumptions C14_merkle_sparse.

Theorem C14_wrong_key_size : forall t key, length key <> s_keysize t ->
  smt_get t key = Err EValidation /\ smt_exists t key = Err EValidation /\ smt_branch t key = Err EValidation /\
  (forall v, smt_set K t key v = Err EValidation) /\ smt_delete K t key = Err EValidation.
Proof. exact (Smt_proofs.C14_get_badkey K). Qed.
Print Assumptions C14_wrong_key_size.

(* non-vacuity: the premises, including collision-freeness, hold of a concrete 6-op history *)
Print Assumptions C14_keccak_nonvacuous.
