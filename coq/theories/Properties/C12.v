(* Properties/C12.v — BinaryTrie is a map with a canonical, history-independent root.
   Tree-level model of binary.py's _set / _set_kv_node / _set_branch_node (Binary/BinTree.v:
   [btset] serves set, delete and delete_subtrie; [btapply]: a refused call leaves the trie
   unchanged; [btrun]: any history from the empty trie).  [mrun] is the reference map model
   with the refusal rule.  All statements hold for every history over non-empty keys
   ([bops_ok]) and every hash function H.  Only the property theorems.
   Database level (store, hashes, old roots): tied by the correspondence check; "all earlier
   roots remain readable" is checked by the harness on every case (the binary trie's store is
   append-only by construction: its only write is db[keccak(node)] = node). *)
From Coq Require Import List NArith Bool.
From PyTrie.Base Require Import Bytes Result AMap.
From PyTrie.Binary Require Import BinEnc BinTree BinTree_proofs.
Import ListNotations.

(* get/exists match the map model, for every lookup key incl. prefixes and extensions *)
Theorem C12_map : forall ops, bops_ok ops -> forall q, obtget (btrun ops) q = mget (mrun ops) q.
Proof. exact btrun_model. Qed.
Print Assumptions C12_map.

(* storing under a proper prefix / extension of a stored key is refused, and only then *)
Theorem C12_set : forall t k v, ocanon t = true -> k <> [] -> v <> [] ->
  (oconflict t k -> obtset t k v false = Err ENodeOverride /\ btapply t (BTSet k v) = t) /\
  (~ oconflict t k -> exists t', obtset t k v false = Ok (Some t') /\ btapply t (BTSet k v) = Some t' /\
     forall q, btget t' q = if bits_eqb q k then Some v else obtget t q).
Proof. exact btapply_set. Qed.
Print Assumptions C12_set.

(* delete: removes the key; an absent key changes nothing, whether or not it is refused *)
Theorem C12_delete : forall t k, ocanon t = true -> k <> [] ->
  forall q, obtget (btapply t (BTDel k)) q = if bits_eqb q k then None else obtget t q.
Proof. exact btapply_del. Qed.
Print Assumptions C12_delete.

Theorem C12_delete_refused_only_if_absent : forall t k e, ocanon t = true -> k <> [] ->
  obtset t k [] false = Err e -> e = ENodeOverride /\ obtget t k = None.
Proof. exact btapply_del_refused. Qed.
Print Assumptions C12_delete_refused_only_if_absent.

(* delete_subtrie(p) removes exactly the keys starting with p *)
Theorem C12_delete_subtrie : forall t p, ocanon t = true -> p <> [] ->
  forall q, obtget (btapply t (BTDelSub p)) q = if bstarts q p then None else obtget t q.
Proof. exact btapply_delsub. Qed.
Print Assumptions C12_delete_subtrie.

(* any call that raises leaves the trie (hence root and contents) unchanged *)
Theorem C12_refusal_changes_nothing : forall t o e,
  match o with
  | BTSet k v => obtset t k v false
  | BTDel k => obtset t k [] false
  | BTDelSub k => obtset t k [] true
  end = Err e -> btapply t o = t.
Proof. exact btapply_refused. Qed.
Print Assumptions C12_refusal_changes_nothing.

(* the tree after any history is the canonical construction of its contents; so the root is
   the hash of the canonical kv/branch/leaf encoding, independent of order, blank when empty *)
Theorem C12_canonical : forall ops, bops_ok ops -> btrun ops = btree_of (obtcontents (btrun ops)).
Proof. exact C12_canonical_T. Qed.
Print Assumptions C12_canonical.

Theorem C12_root : forall H ops J, bops_ok ops -> bkeys_prefix_free J -> bvals_nonempty J ->
  (forall q v, In (q, v) J <-> obtget (btrun ops) q = Some v) -> broot H (btrun ops) = bin_root H J.
Proof. exact C12_root_of_bindings. Qed.
Print Assumptions C12_root.

Theorem C12_history_independent : forall H ops1 ops2, bops_ok ops1 -> bops_ok ops2 ->
  (forall q, obtget (btrun ops1) q = obtget (btrun ops2) q) -> broot H (btrun ops1) = broot H (btrun ops2).
Proof. exact C12_history_independent_T. Qed.
Print Assumptions C12_history_independent.

Theorem C12_empty : forall H ops, bops_ok ops -> (forall q, obtget (btrun ops) q = None) -> broot H (btrun ops) = H [].
Proof. exact C12_empty_T. Qed.
Print Assumptions C12_empty.

Theorem C12_stored_keys_prefix_free : forall ops, bops_ok ops -> forall a b,
  obtget (btrun ops) a <> None -> obtget (btrun ops) b <> None -> is_bprefix a b -> a = b.
Proof. exact btrun_prefix_free. Qed.
Print Assumptions C12_stored_keys_prefix_free.
