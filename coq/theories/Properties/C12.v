(* Properties/C12.v — BinaryTrie is a map with a canonical, history-independent root.
   Tree-level model of binary.py's _set / _set_kv_node / _set_branch_node (Binary/BinTree.v:
   [btset] serves set, delete and delete_subtrie; [btapply]: a refused call leaves the trie
   unchanged; [btrun]: any history from the empty trie).  [mrun] is the reference map model
   with the refusal rule.  All statements hold for every history over non-empty keys
   ([bops_ok]) and every hash function H.  Only the property theorems.
   Database level (Binary/BinD.v: store, hashes, bin_set / bin_delete / bin_delete_subtrie): the
   write refinement is proved (Binary/BinD_write.v) — see C12_D_history below: for every history
   the root_hash is broot of the tree-level result (= bin_root of the contents for non-empty
   keys), get/exists answer like the tree, a raising call leaves root and reads unchanged, and
   every earlier root still reads its own contents from the final store.  Premise: no hash
   collision among the node bodies written along the history ([hist_bodies], an executable list;
   a machine-checked counterexample shows that intermediate nodes must be included). *)
From Coq Require Import List NArith Bool.
From PyTrie.Base Require Import Bytes Result AMap.
From PyTrie.Binary Require Import BinEnc BinTree BinTree_proofs BinD BinD_proofs BinD_write.
Import ListNotations.

(* get/exists match the map model, for every lookup key incl. prefixes and extensions *)
Theorem C12_map : forall ops, bops_ok ops -> forall q, obtget (btrun ops) q = mget (mrun ops) q.
Proof. exact btrun_model. Qed.
Print Assumptions C12_map.

(* storing under a proper prefix / extension of a stored key is refused, and only then *)
Theorem C12_set : forall t k v, ocanon t = true -> k <> [] -> v <> [] ->
  (oconflict t k -> obtset t k v false = Err ENodeOverride /\ btapply t (BTSet k v) = t) /\
  (~ oconflict t k -> exists t', obtset t k v false = Ok (Some t') /\ btapply t (BTSet k v) = Some t' /\
     forall q, btget t' q = if bits_eqb q k then Some v else obtget t q).
Proof. exact btapply_set. Qed.
Print Assumptions C12_set.

(* delete: removes the key; an absent key changes nothing, whether or not it is refused *)
Theorem C12_delete : forall t k, ocanon t = true -> k <> [] ->
  forall q, obtget (btapply t (BTDel k)) q = if bits_eqb q k then None else obtget t q.
Proof. exact btapply_del. Qed.
Print Assumptions C12_delete.

Theorem C12_delete_refused_only_if_absent : forall t k e, ocanon t = true -> k <> [] ->
  obtset t k [] false = Err e -> e = ENodeOverride /\ obtget t k = None.
Proof. exact btapply_del_refused. Qed.
Print Assumptions C12_delete_refused_only_if_absent.

(* delete_subtrie(p) removes exactly the keys starting with p *)
Theorem C12_delete_subtrie : forall t p, ocanon t = true -> p <> [] ->
  forall q, obtget (btapply t (BTDelSub p)) q = if bstarts q p then None else obtget t q.
Proof. exact btapply_delsub. Qed.
Print Assumptions C12_delete_subtrie.

(* any call that raises leaves the trie (hence root and contents) unchanged *)
Theorem C12_refusal_changes_nothing : forall t o e,
  match o with
  | BTSet k v => obtset t k v false
  | BTDel k => obtset t k [] false
  | BTDelSub k => obtset t k [] true
  end = Err e -> btapply t o = t.
Proof. exact btapply_refused. Qed.
Print Assumptions C12_refusal_changes_nothing.

(* the tree after any history is the canonical construction of its contents; so the root is
   the hash of the canonical kv/branch/leaf encoding, independent of order, blank when empty *)
Theorem C12_canonical : forall ops, bops_ok ops -> btrun ops = btree_of (obtcontents (btrun ops)).
Proof. exact C12_canonical_T. Qed.
Print Assumptions C12_canonical.

Theorem C12_root : forall H ops J, bops_ok ops -> bkeys_prefix_free J -> bvals_nonempty J ->
  (forall q v, In (q, v) J <-> obtget (btrun ops) q = Some v) -> broot H (btrun ops) = bin_root H J.
Proof. exact C12_root_of_bindings. Qed.
Print Assumptions C12_root.

Theorem C12_history_independent : forall H ops1 ops2, bops_ok ops1 -> bops_ok ops2 ->
  (forall q, obtget (btrun ops1) q = obtget (btrun ops2) q) -> broot H (btrun ops1) = broot H (btrun ops2).
Proof. exact C12_history_independent_T. Qed.
Print Assumptions C12_history_independent.

Theorem C12_empty : forall H ops, bops_ok ops -> (forall q, obtget (btrun ops) q = None) -> broot H (btrun ops) = H [].
Proof. exact C12_empty_T. Qed.
Print Assumptions C12_empty.

Theorem C12_stored_keys_prefix_free : forall ops, bops_ok ops -> forall a b,
  obtget (btrun ops) a <> None -> obtget (btrun ops) b <> None -> is_bprefix a b -> a = b.
Proof. exact btrun_prefix_free. Qed.
Print Assumptions C12_stored_keys_prefix_free.

(* ---------------- database level ---------------- *)
Theorem C12_D_history : forall H BH, (forall x, length (H x) = 32%nat) -> BH = H [] ->
  forall ops, cf H (hist_bodies H (map top_of ops)) ->
  let T := btrun (map top_of ops) in let final := drun H BH ops in
  b_root final = broot H T /\ orepr H (b_db final) T /\ ovalid T = true /\ ca H (b_db final) /\
  incl (map snd (b_db final)) (hist_bodies H (map top_of ops)) /\
  (forall key, bin_get BH final key = Ok (obtget T (encode_to_bin key))) /\
  (forall key, bin_exists BH final key = Ok (match obtget T (encode_to_bin key) with Some _ => true | None => false end)) /\
  (dops_ok ops -> ocanon T = true /\ b_root final = bin_root H (obtcontents T)) /\
  (forall n, let Tn := btrun (map top_of (firstn n ops)) in let trn := drun H BH (firstn n ops) in
     b_root trn = broot H Tn /\ grows (b_db trn) (b_db final) /\ orepr H (b_db final) Tn /\
     forall key, bin_get BH (mkBtrie (b_db final) (b_root trn)) key = Ok (obtget Tn (encode_to_bin key))).
Proof. exact BinD_write.C12_D_history. Qed.
Print Assumptions C12_D_history.

(* a call that raises leaves root and every read unchanged *)
Theorem C12_D_raise : forall H BH, (forall x, length (H x) = 32%nat) -> BH = H [] ->
  forall ops o e, cf H (hist_bodies H (map top_of (ops ++ [o]))) ->
  fst (dstep H BH (drun H BH ops) o) = Err e ->
  btrun (map top_of (ops ++ [o])) = btrun (map top_of ops) /\
  b_root (drun H BH (ops ++ [o])) = b_root (drun H BH ops) /\
  forall key, bin_get BH (drun H BH (ops ++ [o])) key = bin_get BH (drun H BH ops) key.
Proof. exact BinD_write.C12_D_raise. Qed.
Print Assumptions C12_D_raise.

(* the store only grows, by entries keyed by the hash of their value, whatever the outcome *)
Theorem C12_D_append_only : forall H BH fuel h k v ds db r db', _bset H BH fuel h k v ds db = (r, db') ->
  (forall x b, aget db x = Some b -> aget db' x = Some b \/ exists b', aget db' x = Some b' /\ x = H b') /\
  (forall x b, aget db' x = Some b -> aget db x = Some b \/ x = H b).
Proof. exact BinD_write.bset_append_only. Qed.
Print Assumptions C12_D_append_only.

(* non-vacuity with the real Keccak-256: a 12-operation history (overwrite, two refused calls,
   delete of an absent key, delete_subtrie, emptying) satisfies the no-collision premise *)
Print Assumptions C12_D_example.
