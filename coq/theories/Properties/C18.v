(* Properties/C18.v — invalid arguments are rejected up front and change nothing.
   Api/Api.v places each entry point's validation where the source places it, in front of the
   component models; an invalid call returns the SAME state together with the stated
   exception class.  As DESIGN.md says, these theorems are immediate from the definitions —
   the model is where the rule "validated before any effect" is written down; the assurance
   for the code comes from the exhaustive correspondence (every public entry point x
   argument position x ill-typed kind x prior history), which the evidence records.
   HexaryTrieFog / Nibbles: see Properties/C11.v (explore_error_class) and Fog.as_nibbles. *)
From Coq Require Import List NArith ZArith Bool.
From PyTrie.Base Require Import Bytes Result AMap.
From PyTrie.Hexary Require Import Raw D.
From PyTrie.Binary Require Import BinD.
From PyTrie.Smt Require Import Smt.
From PyTrie.Api Require Import Api Api_proofs.
Import ListNotations.

Theorem C18_hexary : forall t o, t_pending t = None -> hapi_invalid t o = true ->
  hapi_step t o = (t, exn_obs (hapi_exn t o)).
Proof. exact hapi_invalid_refused. Qed.
Print Assumptions C18_hexary.

Theorem C18_binary : forall t o, bapi_invalid o = true -> bapi_step t o = (t, exn_obs EValidation).
Proof. exact bapi_invalid_refused. Qed.
Print Assumptions C18_binary.

Theorem C18_smt : forall t o, (1 <= s_keysize t <= 32)%nat -> sapi_invalid t o = true ->
  sapi_step t o = (t, exn_obs EValidation).
Proof. exact sapi_invalid_refused. Qed.
Print Assumptions C18_smt.

(* key size outside 1..32 *)
Theorem C18_smt_key_size : forall H ks d, (ks < 1 \/ 32 < ks)%nat -> smt_new H ks d = Err EValidation.
Proof.
  intros H ks d Hks. unfold smt_new.
  destruct (Nat.leb 1 ks) eqn:E1; destruct (Nat.leb ks 32) eqn:E2; cbn; try reflexivity.
  apply Nat.leb_le in E1. apply Nat.leb_le in E2. exfalso. destruct Hks as [Hl|Hr].
  - apply (Nat.lt_irrefl ks). eapply Nat.lt_le_trans; [exact Hl|exact E1].
  - apply (Nat.lt_irrefl 32). eapply Nat.lt_le_trans; [exact Hr|exact E2].
Qed.
Print Assumptions C18_smt_key_size.
