(* Properties/Findings.v — the four genuine defects found in the pinned code and repaired by
   "fix:" commits in /repo (KNOWN_FINDINGS.json), kept as small executable definitions of the
   PRE-FIX behaviour with machine-checked witnesses that the property fails for them.  The
   models used by the checks follow the repaired source; these definitions exist so that a
   reverted fix is recognised for what it is. *)
From Coq Require Import List NArith ZArith Bool.
From Coq.Init Require Import Byte.
From PyTrie.Base Require Import Bytes Result AMap Nibbles Rlp Keccak.
From PyTrie.Db Require Import ScratchDb.
From PyTrie.Hexary Require Import Raw D Run.
Import ListNotations.
Open Scope N_scope.

Definition BNH := BLANK_NODE_HASH.
Definition run_ops (prune : bool) (ops : list hop) : trie :=
  fold_left (fun t o => fst (hstep t o)) ops (empty_trie BNH prune).

(* D1 (C01): _get raised ValidationError for an extension node returned with remaining key *)
Definition _get_prefix (root_hash : bytes) (trie_key : nibbles) : M bytes :=
  bind (_traverse BNH root_hash trie_key) (fun r =>
  let '(node, remaining) := r in
  bind (lift (get_node_type node)) (fun ty =>
  match ty with
  | TExt => match remaining with _ :: _ => fail EValidation | [] => ret [] end
  | _ => _get BNH root_hash trie_key
  end)).

Example D1_refuted :
  exists ops k, let t := run_ops false ops in
    fst (_get_prefix (t_root t) (bytes_to_nibbles k) t) = Err EValidation     (* pre-fix: raises *)
    /\ fst (get BNH k t) = Ok [].                                             (* the map says: absent *)
Proof.
  exists [OSet (B 3 0x123456) (repeat_byte x61 40); OSet (B 3 0x123457) (repeat_byte x62 40)], (B 1 0x12).
  vm_compute. split; reflexivity.
Qed.

(* D2 (C06): the pruning outer trie shared its counts with the batch and then saved the new root again *)
Definition batch_commit_prefix (outer inner : trie) : result unit * trie :=
  let '(sc', _) := scommit (t_prune outer) (inner_scratch inner) in
  let outer1 := with_refc (with_db outer (DPlain (wrapped sc'))) (t_refc inner) in   (* shared dict *)
  if negb (bytes_eqb (t_root outer) (t_root inner)) then
    match get_node BNH (RStr (t_root inner)) outer1 with
    | (Ok raw, _) => match _set_raw_node keccak256 BNH raw outer1 with
                     | (Ok h, outer2) => (Ok tt, with_root outer2 h)
                     | (Err e, outer2) => (Err e, outer2)
                     end
    | (Err e, _) => (Ok tt, with_root outer1 (t_root inner))
    end
  else (Ok tt, outer1).

Example D2_refuted :
  let outer := run_ops true [OSet (B 4 0x01010101) (repeat_byte x78 40)] in
  let inner := fst (hstep (batch_begin outer) (OSet (B 4 0x02020202) (repeat_byte x79 40))) in
  let t' := snd (batch_commit_prefix outer inner) in
  zget (t_refc t') (t_root t') = 2%Z                                           (* pre-fix count *)
  /\ (exists m, fst (regenerate_ref_count BNH regen_fuel t') = Ok m /\ zget m (t_root t') = 1%Z).   (* true count *)
Proof. vm_compute. split; [reflexivity|eexists; split; reflexivity]. Qed.

(* D3 (C05): an aborted batch left its reference-count mutations behind (shared dict) *)
Definition batch_abort_prefix (outer inner : trie) : trie :=
  with_refc (with_db outer (DPlain (wrapped (sabort (inner_scratch inner))))) (t_refc inner).

Example D3_refuted :
  let outer := run_ops true [OSet (B 2 0x0101) (repeat_byte x61 40); OSet (B 2 0x0102) (repeat_byte x62 40)] in
  let inner := fold_left (fun t o => fst (hstep t o))
                 [OSet (B 2 0x0202) (repeat_byte x63 40); ODelete (B 2 0x0101)] (batch_begin outer) in
  let t' := batch_abort_prefix outer inner in
  t_root t' = t_root outer /\ nonzero (t_refc t') <> nonzero (t_refc outer).
Proof. vm_compute. split; [reflexivity|discriminate]. Qed.

(* D4 (C05, C01): ScratchDB.batch_commit pushed deletes with wrapped_db.pop(key, None).  When the wrapped
   database is itself a ScratchDB — a squash_changes block opened on a batch trie — there is no pop():
   committing an inner block whose buffer holds a DELETED marker raised AttributeError (tag 99), although
   the block had exited normally. *)
Fixpoint sreplay_prefix (do_deletes : bool) (c : amap (option bytes)) (s : scratch) : result scratch :=
  match c with
  | [] => Ok s
  | (k, Some v) :: c' => sreplay_prefix do_deletes c' (sset s k v)
  | (k, None) :: c' => if do_deletes then Err (Exn 99 []) else sreplay_prefix do_deletes c' s
  end.

Example D4_refuted :
  let outer := run_ops false [OSet (B 2 0x0101) (repeat_byte x61 40); OSet (B 2 0x0102) (repeat_byte x62 40)] in
  let b1 := fst (hstep (batch_begin outer) (OSet (B 1 0x02) (repeat_byte x63 40))) in
  let b2 := fold_left (fun t o => fst (hstep t o))
              [OSet (B 1 0x03) (repeat_byte x64 40); ODelete (B 2 0x0101)] (batch_begin b1) in
  sreplay_prefix (t_prune b1) (cache (inner_scratch b2)) (inner_scratch b1) = Err (Exn 99 [])   (* pre-fix: raises *)
  /\ (let '(r, b1') := batch_commit keccak256 BNH b1 b2 in                                       (* repaired *)
      r = Ok tt /\ fst (get BNH (B 1 0x03) b1') = Ok (repeat_byte x64 40)
      /\ fst (get BNH (B 2 0x0101) b1') = Ok [] /\ fst (get BNH (B 1 0x02) b1') = Ok (repeat_byte x63 40)).
Proof. vm_compute. repeat split; reflexivity. Qed.

Print Assumptions D1_refuted.
Print Assumptions D2_refuted.
Print Assumptions D3_refuted.
Print Assumptions D4_refuted.
