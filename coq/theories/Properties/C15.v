(* Properties/C15.v — SparseMerkleProof stays in sync from streamed updates alone.
   Real hash (Keccak-256 model), explicit no-collision premise [cf] over the bodies the
   history writes.  [prun] feeds the proof every update of the tree; each stream element may
   carry a truncation of the node-hash list, constrained by [trunc_ok] to be longer than the
   first differing bit.  Only the property theorems. *)
From Coq Require Import List NArith Bool.
From PyTrie.Base Require Import Bytes Result AMap Keccak.
From PyTrie.Binary Require Import BinEnc.
From PyTrie.Smt Require Import Smt Smt_proofs.
Import ListNotations.
Local Open Scope nat_scope.

Definition K := keccak256.

Theorem C15_stream : forall ks d prior key stream,
  1 <= ks <= 32 ->
  Forall (fun o => length (sop_key o) = ks) prior -> length key = ks ->
  Forall (fun e : sop * option nat => length (sop_key (fst e)) = ks) stream ->
  Forall (trunc_ok key) stream ->
  cf K (hist_bodies K ks d (prior ++ map fst stream)) ->
  exists t0 t v br p t' p',
    smt_new K ks d = Ok t0 /\ srun K t0 prior = Ok t /\
    _get t key = Ok (v, br) /\ proof_new key v br = Ok p /\
    prun K t p stream = Ok (t', p') /\ srun K t (map fst stream) = Ok t' /\
    p_key p' = key /\ _get t' key = Ok (p_value p', p_branch p') /\ proof_root K p' = Ok (s_root t').
Proof. exact (Smt_proofs.C15_history K keccak256_len). Qed.
Print Assumptions C15_stream.

(* one update with a list truncated to any length beyond the first differing bit *)
Theorem C15_sync_truncated : forall L t g p k v t' ups m,
  reprS K (s_db t) (s_root t) (depth_of t) g -> in_sync p t -> length k = s_keysize t ->
  cf K L -> incl (map snd (s_db t)) L -> incl (set_bodies K t k v) L ->
  smt_set K t k v = Ok (t', ups) ->
  (forall bp, first_diff (encode_to_bin (p_key p)) (encode_to_bin k) = Some bp -> bp < m) ->
  exists p', proof_update p k v (firstn m ups) = Ok p' /\ p_key p' = p_key p /\
             in_sync p' t' /\ proof_root K p' = Ok (s_root t').
Proof. exact (Smt_proofs.C15_sync_firstn K keccak256_len). Qed.
Print Assumptions C15_sync_truncated.

(* a shorter list is rejected (proof_update is a pure function: the proof is unchanged) *)
Theorem C15_too_short : forall p k v ups' bp,
  first_diff (encode_to_bin (p_key p)) (encode_to_bin k) = Some bp -> length ups' <= bp ->
  proof_update p k v ups' = Err EValidation.
Proof. exact Smt_proofs.C15_truncated. Qed.
Print Assumptions C15_too_short.

Theorem C15_wrong_key_size : forall p k v ups', length k <> length (p_key p) -> proof_update p k v ups' = Err EValidation.
Proof. exact Smt_proofs.C15_badlen. Qed.
Print Assumptions C15_wrong_key_size.

Print Assumptions C15_keccak_nonvacuous.
