(* Properties/C16.v — path and node encodings are exact bijections matching their
   specifications.  Only the property theorems, each closed by [exact] of a lemma proved
   elsewhere and followed by Print Assumptions.  All statements are unbounded: every
   nibble sequence (each nibble < 16: [nibs_ok]), every bit string, every byte string. *)
From Coq Require Import List NArith Bool.
From PyTrie.Base Require Import Bytes Result Nibbles Nibbles_proofs Rlp.
From PyTrie.Binary Require Import BinEnc BinEnc_proofs.
From PyTrie.Hexary Require Import Raw Raw_proofs.
Import ListNotations.

(* hex-prefix encoding = the Yellow Paper's HP, with ([with_flag x true]) or without terminator *)
Theorem C16_hp_is_yellow_paper : forall x t, nibs_ok x = true -> encode_nibbles (with_flag x t) = Ok (HP x t).
Proof. exact encode_nibbles_HP. Qed.
Print Assumptions C16_hp_is_yellow_paper.

(* ... and decodes back to the same sequence and flag *)
Theorem C16_hp_decodes_back : forall x t, nibs_ok x = true -> decode_nibbles (HP x t) = Ok (with_flag x t).
Proof. exact decode_nibbles_HP. Qed.
Print Assumptions C16_hp_decodes_back.

Theorem C16_hp_injective : forall x y t u, nibs_ok x = true -> nibs_ok y = true -> HP x t = HP y u -> x = y /\ t = u.
Proof. exact HP_injective. Qed.
Print Assumptions C16_hp_injective.

(* every well-formed hex-prefix byte string re-encodes to itself *)
Theorem C16_hp_reencodes : forall b ns, hp_wf b = true -> decode_nibbles b = Ok ns -> encode_nibbles ns = Ok b.
Proof. exact decode_encode_wf. Qed.
Print Assumptions C16_hp_reencodes.

(* bytes <-> nibbles are mutually inverse *)
Theorem C16_nibbles_of_bytes : forall b, nibbles_to_bytes (bytes_to_nibbles b) = Ok b.
Proof. exact nibbles_bytes_roundtrip. Qed.
Print Assumptions C16_nibbles_of_bytes.

Theorem C16_bytes_of_nibbles : forall ns b, nibbles_to_bytes ns = Ok b -> bytes_to_nibbles b = ns.
Proof. exact bytes_nibbles_roundtrip. Qed.
Print Assumptions C16_bytes_of_nibbles.

(* bytes <-> bit strings are mutually inverse *)
Theorem C16_bin_of_bytes : forall b, decode_from_bin (encode_to_bin b) = b.
Proof. exact decode_encode_bin. Qed.
Print Assumptions C16_bin_of_bytes.

Theorem C16_bytes_of_bin : forall l, Nat.modulo (length l) 8 = 0%nat -> encode_to_bin (decode_from_bin l) = l.
Proof. exact encode_decode_bin. Qed.
Print Assumptions C16_bytes_of_bin.

(* the binary-trie key-path packing round-trips every bit string (also the empty one) *)
Theorem C16_keypath_roundtrip : forall l, decode_to_bin_keypath (encode_from_bin_keypath l) = Ok l.
Proof. exact keypath_roundtrip. Qed.
Print Assumptions C16_keypath_roundtrip.

(* binary kv / branch / leaf encodings parse back to their parts *)
Theorem C16_parse_kv : forall p h, p <> [] -> length h = 32%nat ->
  exists b, encode_kv_node p h = Ok b /\ parse_node b = Ok (BKV p h).
Proof. exact parse_encode_kv. Qed.
Print Assumptions C16_parse_kv.

Theorem C16_parse_branch : forall l r, length l = 32%nat -> length r = 32%nat ->
  exists b, encode_branch_node l r = Ok b /\ parse_node b = Ok (BBranch l r).
Proof. exact parse_encode_branch. Qed.
Print Assumptions C16_parse_branch.

Theorem C16_parse_leaf : forall v, v <> [] -> exists b, encode_leaf_node v = Ok b /\ parse_node b = Ok (BLeaf v).
Proof. exact parse_encode_leaf. Qed.
Print Assumptions C16_parse_leaf.

(* exactly the empty string, an unknown type byte and the impossible lengths are rejected with InvalidNode *)
Theorem C16_parse_rejects : forall b,
  parse_node b = Err EInvalidNode <->
  match b with
  | [] => True
  | t :: rest =>
      let n := b2n t in
      (n = 1%N /\ length b <> 65%nat) \/ (n = 0%N /\ (length b <= 33)%nat) \/ (n = 2%N /\ rest = []) \/ (2 < n)%N
  end.
Proof. exact parse_node_invalid. Qed.
Print Assumptions C16_parse_rejects.

(* a hexary node classifies as written and yields the key path it was written with *)
Theorem C16_leaf_classified : forall ns v, nibs_ok ns = true ->
  get_node_type (RList [RStr (HP ns true); v]) = Ok TLeaf /\ extract_key (RList [RStr (HP ns true); v]) = Ok ns.
Proof. exact leaf_classified. Qed.
Print Assumptions C16_leaf_classified.

Theorem C16_extension_classified : forall ns v, nibs_ok ns = true ->
  get_node_type (RList [RStr (HP ns false); v]) = Ok TExt /\ extract_key (RList [RStr (HP ns false); v]) = Ok ns.
Proof. exact extension_classified. Qed.
Print Assumptions C16_extension_classified.

Theorem C16_branch_classified : forall l, length l = 17%nat -> get_node_type (RList l) = Ok TBranch.
Proof. exact branch_classified. Qed.
Print Assumptions C16_branch_classified.

Theorem C16_blank_classified : get_node_type (RStr []) = Ok TBlank.
Proof. exact blank_classified. Qed.
Print Assumptions C16_blank_classified.

Theorem C16_leaf_key_is_HP : forall ns, nibs_ok ns = true -> compute_leaf_key ns = Ok (HP ns true).
Proof. exact compute_leaf_key_HP. Qed.
Print Assumptions C16_leaf_key_is_HP.

Theorem C16_extension_key_is_HP : forall ns, nibs_ok ns = true -> compute_extension_key ns = Ok (HP ns false).
Proof. exact compute_extension_key_HP. Qed.
Print Assumptions C16_extension_key_is_HP.

(* non-vacuity: concrete values *)
Example C16_example :
  HP [1; 2; 3]%N true = B 2 0x3123 /\ HP [1; 2]%N false = B 2 0x0012 /\ HP [] true = B 1 0x20
  /\ encode_from_bin_keypath [true; false; true] = B 1 0x35
  /\ nibs_ok [1; 2; 3]%N = true.
Proof. vm_compute. repeat split. Qed.
