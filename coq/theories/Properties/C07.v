(* Properties/C07.v — missing nodes: operations fail atomically and report the truth.
   Database-level model; [plain m r] = non-pruning trie over store [m]; the atomicity
   theorems hold for ANY trie state (pruning or not, plain or scratch store, i.e. also inside
   squash_changes) and are stated for the real hash: they need [H b <> []] for all b, which is
   proved of keccak256 and is false of a degenerate H (counterexample machine-checked in
   D_safety.C07_degenerate_H).  Only the property theorems.
   Retry convergence is proved for get and traverse (C07_retry_get / C07_retry_traverse) and,
   for non-pruning tries, for set / delete (C07_retry_set / C07_retry_delete, Hexary/
   D_retry_write.v: two runs in lockstep over a sub-store and the complete store).
   For PRUNING tries the lockstep argument over an ARBITRARY pair of stores yields a third
   outcome (the C07_write_outcomes theorems): the model's _complete_pruning turns the KeyError
   of `del db[k]` into ValidationError, which can happen on a store that is not content-
   addressed (D_retry_write.PruneCounterexample).  On the stores a pruning trie really has
   (exact: Refine_write_prune.pinv) that outcome is impossible and the retry loop converges
   (Hexary/D_retry_prune.v: every pending prune key was read or written by the same call) —
   C07_prune_history: after ANY history of writes from the empty pruning trie, for EVERY
   sub-store of its database. *)
From Coq Require Import List NArith ZArith Bool.
From PyTrie.Base Require Import Bytes Result AMap Nibbles Rlp Keccak.
From PyTrie.Hexary Require Import Raw Tree D D_safety D_read D_retry D_retry_write Refine_read Refine_write Refine_write_prune D_retry_prune.
Import ListNotations.

(* same result as on the complete database, or a Missing* error naming a hash that is absent
   here and present there *)
Theorem C07_same_or_missing_get : forall BNH m full r k,
  sub_store m full ->
  fst (get BNH k (plain m r)) = fst (get BNH k (plain full r)) \/
  (exists h p, fst (get BNH k (plain m r)) = Err (EMissingTrieNode h r k (Some p)) /\
               aget m h = None /\ aget full h <> None).
Proof. exact D_read.read_same_or_missing_get. Qed.
Print Assumptions C07_same_or_missing_get.

Theorem C07_same_or_missing_traverse : forall BNH m full r ns,
  sub_store m full ->
  fst (traverse BNH ns (plain m r)) = fst (traverse BNH ns (plain full r)) \/
  (exists h p, fst (traverse BNH ns (plain m r)) = Err (EMissingTraversal h p) /\
               aget m h = None /\ aget full h <> None).
Proof. exact D_read.read_same_or_missing_traverse. Qed.
Print Assumptions C07_same_or_missing_traverse.

(* the report is truthful: hash really absent, correct root and key, and the prefix is the
   exact nibble path from the root to the reference [h] *)
Theorem C07_truthful_get : forall BNH m r k h r' k' p,
  fst (get BNH k (plain m r)) = Err (Exn T_MissingTrieNode [OB h; OB r'; OB k'; OL p]) ->
  aget m h = None /\ r' = r /\ k' = k /\ hashed BNH h /\
  (exists pre post, bytes_to_nibbles k = pre ++ post /\ p = map oN pre /\ ref_at BNH m (RStr r) pre (RStr h)).
Proof. exact D_read.C07_truthful_get. Qed.
Print Assumptions C07_truthful_get.

Theorem C07_truthful_traverse : forall BNH m r ns h p,
  fst (traverse BNH ns (plain m r)) = Err (Exn T_MissingTraversal [OB h; OL p]) ->
  aget m h = None /\ hashed BNH h /\
  (exists pre post, ns = pre ++ post /\ p = map oN pre /\ ref_at BNH m (RStr r) pre (RStr h)).
Proof. exact D_read.C07_truthful_traverse. Qed.
Print Assumptions C07_truthful_traverse.

(* a failed set / delete leaves root, database, reference counts and pending table untouched *)
Theorem C07_atomic_set : forall BNH k v t e t',
  t_pending t = None -> set keccak256 BNH k v t = (Err e, t') -> exn_tag e = T_MissingTrieNode -> t' = t.
Proof. exact D_safety.C07_atomic_set_keccak. Qed.
Print Assumptions C07_atomic_set.

Theorem C07_atomic_delete : forall BNH k t e t',
  t_pending t = None -> delete keccak256 BNH k t = (Err e, t') -> exn_tag e = T_MissingTrieNode -> t' = t.
Proof. exact D_safety.C07_atomic_delete_keccak. Qed.
Print Assumptions C07_atomic_delete.

Theorem C07_report_set : forall BNH k v t e t',
  t_pending t = None -> set keccak256 BNH k v t = (Err e, t') -> exn_tag e = T_MissingTrieNode ->
  exists h, e = EMissingTrieNode h (t_root t) k None.
Proof. exact D_safety.C07_report_set_keccak. Qed.
Print Assumptions C07_report_set.

Theorem C07_report_delete : forall BNH k t e t',
  t_pending t = None -> delete keccak256 BNH k t = (Err e, t') -> exn_tag e = T_MissingTrieNode ->
  exists h, e = EMissingTrieNode h (t_root t) k None.
Proof. exact D_safety.C07_report_delete_keccak. Qed.
Print Assumptions C07_report_delete.

(* reads never change the state *)
Theorem C07_reads_pure : forall BNH key t, snd (get BNH key t) = t.
Proof. exact D_safety.D_reads_pure_get. Qed.
Print Assumptions C07_reads_pure.

(* the loop "on MissingTrieNode h: supply full[h]; retry" converges to the complete-store result,
   asks only for genuinely missing nodes of the key's path, each at most once, at most as many
   times as there are hashed references on the path (itself <= nibbles + 3) *)
Theorem C07_retry_get : forall BNH full m r k, sub_store m full ->
  mh8 (fst (get BNH k (plain full r))) = None ->
  forall fuel, (length (path_refs BNH full r (bytes_to_nibbles k)) < fuel)%nat ->
  let '(res, m', asked) := retry_get BNH fuel full m r k [] in
  res = fst (get BNH k (plain full r)) /\
  fst (get BNH k (plain m' r)) = fst (get BNH k (plain full r)) /\
  NoDup asked /\
  (forall h, In h asked -> aget m h = None /\ aget full h <> None /\ In h (path_refs BNH full r (bytes_to_nibbles k))) /\
  sub_store m m' /\ sub_store m' full /\
  (forall x, aget m' x = if existsb (bytes_eqb x) asked then aget full x else aget m x) /\
  (length asked <= length (path_refs BNH full r (bytes_to_nibbles k)))%nat.
Proof. exact D_retry.C07_retry_get. Qed.
Print Assumptions C07_retry_get.

Theorem C07_retry_path_bound : forall BNH m root tk, (length (path_refs BNH m root tk) <= length tk + 3)%nat.
Proof. exact D_retry.path_refs_len. Qed.
Print Assumptions C07_retry_path_bound.

Theorem C07_retry_traverse : forall BNH full m r ns, sub_store m full ->
  mh9 (fst (traverse BNH ns (plain full r))) = None ->
  forall fuel, (length (path_refs BNH full r ns) < fuel)%nat ->
  let '(res, m', asked) := retry_traverse BNH fuel full m r ns [] in
  res = fst (traverse BNH ns (plain full r)) /\
  fst (traverse BNH ns (plain m' r)) = fst (traverse BNH ns (plain full r)) /\
  NoDup asked /\
  (forall h, In h asked -> aget m h = None /\ aget full h <> None /\ In h (path_refs BNH full r ns)) /\
  sub_store m m' /\ sub_store m' full /\
  (forall x, aget m' x = if existsb (bytes_eqb x) asked then aget full x else aget m x) /\
  (length asked <= length (path_refs BNH full r ns))%nat.
Proof. exact D_retry.C07_retry_traverse. Qed.
Print Assumptions C07_retry_traverse.

(* ---- set / delete over a sub-store (wrel t1 t2: same trie state over plain stores m1 ⊆ m2) ---- *)
Theorem C07_same_or_missing_set : forall BNH k v t1 t2, wrel t1 t2 -> t_prune t1 = false ->
  (fst (set keccak256 BNH k v t1) = fst (set keccak256 BNH k v t2) /\
   wrel (snd (set keccak256 BNH k v t1)) (snd (set keccak256 BNH k v t2)) /\
   t_prune (snd (set keccak256 BNH k v t1)) = false) \/
  (exists h, set keccak256 BNH k v t1 = (Err (EMissingTrieNode h (t_root t1) k None), t1) /\
             aget (tcells t1) h = None /\ aget (tcells t2) h <> None).
Proof. exact D_retry_write.C07_same_or_missing_set. Qed.
Print Assumptions C07_same_or_missing_set.

Theorem C07_same_or_missing_delete : forall BNH k t1 t2, wrel t1 t2 -> t_prune t1 = false ->
  (fst (delete keccak256 BNH k t1) = fst (delete keccak256 BNH k t2) /\
   wrel (snd (delete keccak256 BNH k t1)) (snd (delete keccak256 BNH k t2)) /\
   t_prune (snd (delete keccak256 BNH k t1)) = false) \/
  (exists h, delete keccak256 BNH k t1 = (Err (EMissingTrieNode h (t_root t1) k None), t1) /\
             aget (tcells t1) h = None /\ aget (tcells t2) h <> None).
Proof. exact D_retry_write.C07_same_or_missing_delete. Qed.
Print Assumptions C07_same_or_missing_delete.

(* pruning or not: same result / truthful atomic MissingTrieNode / (pruning only) ValidationError
   caused by a key absent here and present there *)
Theorem C07_write_outcomes_set : forall BNH k v t1 t2, wrel t1 t2 -> (t_prune t1 = false \/ root_ok BNH t1) ->
  (fst (set keccak256 BNH k v t1) = fst (set keccak256 BNH k v t2) /\
   wrel (snd (set keccak256 BNH k v t1)) (snd (set keccak256 BNH k v t2)) /\
   t_prune (snd (set keccak256 BNH k v t1)) = t_prune t1 /\
   (root_ok BNH t1 -> root_ok BNH (snd (set keccak256 BNH k v t1)))) \/
  (exists h, set keccak256 BNH k v t1 = (Err (EMissingTrieNode h (t_root t1) k None), t1) /\
             aget (tcells t1) h = None /\ aget (tcells t2) h <> None) \/
  (exists h, t_prune t1 = true /\ fst (set keccak256 BNH k v t1) = Err EValidation /\
             aget (tcells t1) h = None /\ aget (tcells t2) h <> None).
Proof. exact D_retry_write.C07_write_outcomes_set. Qed.
Print Assumptions C07_write_outcomes_set.

Theorem C07_write_outcomes_delete : forall BNH k t1 t2, wrel t1 t2 -> (t_prune t1 = false \/ root_ok BNH t1) ->
  (fst (delete keccak256 BNH k t1) = fst (delete keccak256 BNH k t2) /\
   wrel (snd (delete keccak256 BNH k t1)) (snd (delete keccak256 BNH k t2)) /\
   t_prune (snd (delete keccak256 BNH k t1)) = t_prune t1 /\
   (root_ok BNH t1 -> root_ok BNH (snd (delete keccak256 BNH k t1)))) \/
  (exists h, delete keccak256 BNH k t1 = (Err (EMissingTrieNode h (t_root t1) k None), t1) /\
             aget (tcells t1) h = None /\ aget (tcells t2) h <> None) \/
  (exists h, t_prune t1 = true /\ fst (delete keccak256 BNH k t1) = Err EValidation /\
             aget (tcells t1) h = None /\ aget (tcells t2) h <> None).
Proof. exact D_retry_write.C07_write_outcomes_delete. Qed.
Print Assumptions C07_write_outcomes_delete.

(* the loop "on MissingTrieNode h: supply full[h]; retry" for set / delete on a non-pruning trie:
   ends with the complete-store result and root, asks only for nodes absent here and present
   there, each once, at most as many as the complete store has keys absent here *)
Theorem C07_retry_set : forall BNH full m r k v, sub_store m full ->
  mh8 (fst (set keccak256 BNH k v (plain full r))) = None ->
  forall fuel, (owed (akeys full) m < fuel)%nat ->
  let '(res, t', asked) := retry_set keccak256 BNH fuel full (plain m r) k v [] in
  let '(want, tw) := set keccak256 BNH k v (plain full r) in
  res = want /\ t_root t' = t_root tw /\ sub_store (tcells t') (tcells tw) /\ wrel t' tw /\
  NoDup asked /\ (forall h, In h asked -> aget m h = None /\ aget full h <> None) /\
  (length asked <= owed (akeys full) m)%nat /\
  (exists mf, set keccak256 BNH k v (plain mf r) = (res, t') /\
     forall x, aget mf x = if existsb (bytes_eqb x) asked then aget full x else aget m x).
Proof. exact D_retry_write.C07_retry_set. Qed.
Print Assumptions C07_retry_set.

Theorem C07_retry_delete : forall BNH full m r k, sub_store m full ->
  mh8 (fst (delete keccak256 BNH k (plain full r))) = None ->
  forall fuel, (owed (akeys full) m < fuel)%nat ->
  let '(res, t', asked) := retry_delete keccak256 BNH fuel full (plain m r) k [] in
  let '(want, tw) := delete keccak256 BNH k (plain full r) in
  res = want /\ t_root t' = t_root tw /\ sub_store (tcells t') (tcells tw) /\ wrel t' tw /\
  NoDup asked /\ (forall h, In h asked -> aget m h = None /\ aget full h <> None) /\
  (length asked <= owed (akeys full) m)%nat /\
  (exists mf, delete keccak256 BNH k (plain mf r) = (res, t') /\
     forall x, aget mf x = if existsb (bytes_eqb x) asked then aget full x else aget m x).
Proof. exact D_retry_write.C07_retry_delete. Qed.
Print Assumptions C07_retry_delete.

(* pruning tries: after any history [ws] of writes from the empty pruning trie (exact store m2,
   counts rc), for EVERY sub-store m1 of m2 and any further write w: the write over m1 either
   succeeds exactly as over m2 (same counts, same root, stores still nested) or is the atomic
   MissingTrieNode report for a node absent from m1 and present in m2 — never ValidationError —
   and the retry loop ends with the complete-store result, each node asked once
   ([after_history], Hexary/D_retry_prune.v) *)
Theorem C07_prune_history : forall (ws : list wop) (w : wop),
  cf keccak256 (hist_bodies keccak256 (ws ++ [w])) ->
  Forall (fun b => (blen b < 2 ^ 64)%N) (hist_bodies keccak256 (ws ++ [w])) ->
  exists m2 rc,
    wrun keccak256 BN ws (empty_trie BN true) =
      (map (fun _ => Ok tt) ws, pstate keccak256 m2 rc (trun (map top_of ws))) /\
    (forall h, amem m2 h = true <-> Z.lt 0%Z (occR keccak256 (trun (map top_of ws)) h)) /\
    after_history keccak256 BN ws w m2 rc.
Proof. exact D_retry_prune.C07_prune_history_keccak. Qed.
Print Assumptions C07_prune_history.

(* non-vacuity for pruning tries (keccak256): two nodes missing on the key's path; a leaf with
   reference count 2 pruned twice by one delete *)
Print Assumptions PruneRetryExample.ex_retry_set.
Print Assumptions PruneRetryExample.ex_retry_delete.
Print Assumptions PruneDuplicateExample.ex_duplicate.

(* non-vacuity (keccak256; a store missing the root and its child on the key's path) *)
Print Assumptions RetryWriteExample.ex_retry_set.
Print Assumptions RetryWriteExample.ex_retry_delete.
