(* Properties/C10.v — NodeIterator enumerates contents in key order; next() is the strict
   successor.  Tree level (Hexary/TreeTraverse.v: [tnodes] = nodes(), [titems] = items(),
   [tnext_key] = _get_next_key, [tkey_after] = _get_key_after, mirrored case by case;
   [least_above] is the specification).  Byte-string key order = nibble tuple order
   (Nibbles_proofs.bytes_ltb_nibbles).  Only the property theorems.
   The fog loop of nodes() with its frontier cache is modelled at database level
   (Fog/Walk.v: iter_nodes) and tied to the code and to [tnodes] by the correspondence check. *)
From Coq Require Import List NArith Bool Sorted.
From PyTrie.Base Require Import Bytes Result Nibbles Nibbles_proofs.
From PyTrie.Hexary Require Import Raw Tree TreeTraverse Tree_aux Tree_map Tree_unique Tree_traverse_proofs.
Import ListNotations.

(* items(): exactly the stored pairs ... *)
Theorem C10_items_are_contents : forall t, canonical_top t = true -> titems t = contents t.
Proof. exact titems_contents. Qed.
Print Assumptions C10_items_are_contents.

Theorem C10_contents : forall t k v, wf t = true ->
  (In (k, v) (contents t) <-> nibs_ok k = true /\ tget t k = v /\ v <> []).
Proof. exact contents_spec. Qed.
Print Assumptions C10_contents.

(* ... each once, in strictly ascending key order *)
Theorem C10_items_sorted : forall t, canonical_top t = true ->
  StronglySorted (fun a b => nibbles_ltb (fst a) (fst b) = true) (contents t).
Proof. exact contents_sorted. Qed.
Print Assumptions C10_items_sorted.

Theorem C10_items_once : forall t, NoDup (map fst (contents t)).
Proof. exact contents_nodup. Qed.
Print Assumptions C10_items_once.

Theorem C10_key_order_is_byte_order : forall a b, bytes_ltb a b = nibbles_ltb (bytes_to_nibbles a) (bytes_to_nibbles b).
Proof. exact bytes_ltb_nibbles. Qed.
Print Assumptions C10_key_order_is_byte_order.

(* next(k): the smallest stored key strictly greater than k — for any k, stored or not *)
Theorem C10_next_after : forall t k, canonical_top t = true -> nibs_ok k = true ->
  match tkey_after t k [] with
  | Some k1 => nibs_ok k1 = true /\ tget t k1 <> [] /\ nibbles_ltb k k1 = true /\
               forall k', nibs_ok k' = true -> tget t k' <> [] -> nibbles_ltb k k' = true -> k' = k1 \/ nibbles_ltb k1 k' = true
  | None => forall k', nibs_ok k' = true -> tget t k' <> [] -> nibbles_ltb k k' = false
  end.
Proof. exact C10_next_after_least. Qed.
Print Assumptions C10_next_after.

(* next(): the smallest key; None exactly when the trie is empty *)
Theorem C10_next_first : forall t, canonical_top t = true ->
  match tnext_key t [] with
  | Some k1 => nibs_ok k1 = true /\ tget t k1 <> [] /\
               forall k', nibs_ok k' = true -> tget t k' <> [] -> k' = k1 \/ nibbles_ltb k1 k' = true
  | None => forall k', nibs_ok k' = true -> tget t k' = []
  end.
Proof. exact C10_next_first_least. Qed.
Print Assumptions C10_next_first.

(* nodes(): every node exactly once, parents before children and left to right (= strictly
   ascending prefixes), each equal to traverse() of its prefix *)
Theorem C10_nodes_are_traverse : forall t, canonical_top t = true ->
  forall p n, In (p, n) (tnodes t []) -> ttraverse t p = TAt n.
Proof. exact tnodes_traverse. Qed.
Print Assumptions C10_nodes_are_traverse.

Theorem C10_nodes_complete : forall t p n, ttraverse t p = TAt n -> n <> NBlank -> In (p, n) (tnodes t []).
Proof. exact tnodes_complete. Qed.
Print Assumptions C10_nodes_complete.

Theorem C10_nodes_preorder : forall t, canonical_top t = true ->
  StronglySorted (fun a b => nibbles_ltb (fst a) (fst b) = true) (tnodes t []).
Proof. exact tnodes_sorted. Qed.
Print Assumptions C10_nodes_preorder.
