(* Properties/C10.v — NodeIterator enumerates contents in key order; next() is the strict
   successor.  Tree level (Hexary/TreeTraverse.v: [tnodes] = nodes(), [titems] = items(),
   [tnext_key] = _get_next_key, [tkey_after] = _get_key_after, mirrored case by case;
   [least_above] is the specification).  Byte-string key order = nibble tuple order
   (Nibbles_proofs.bytes_ltb_nibbles).  Only the property theorems.
   The fog loop of nodes() with its frontier cache, items() and next() are modelled at
   database level (Fog/Walk.v) and proved to refine the tree level in Fog/Walk_proofs.v
   (the C10_D_* theorems at the end). *)
From Coq Require Import List NArith Bool Sorted.
From PyTrie.Base Require Import Bytes Result Nibbles Nibbles_proofs.
From PyTrie.Base Require Import AMap Rlp.
From PyTrie.Hexary Require Import Raw Tree TreeTraverse TreeRun Tree_aux Tree_map Tree_unique Tree_traverse_proofs D D_read Refine_read.
From PyTrie.Fog Require Import Fog Walk Walk_proofs.
Import ListNotations.

(* items(): exactly the stored pairs ... *)
Theorem C10_items_are_contents : forall t, canonical_top t = true -> titems t = contents t.
Proof. exact titems_contents. Qed.
Print Assumptions C10_items_are_contents.

Theorem C10_contents : forall t k v, wf t = true ->
  (In (k, v) (contents t) <-> nibs_ok k = true /\ tget t k = v /\ v <> []).
Proof. exact contents_spec. Qed.
Print Assumptions C10_contents.

(* ... each once, in strictly ascending key order *)
Theorem C10_items_sorted : forall t, canonical_top t = true ->
  StronglySorted (fun a b => nibbles_ltb (fst a) (fst b) = true) (contents t).
Proof. exact contents_sorted. Qed.
Print Assumptions C10_items_sorted.

Theorem C10_items_once : forall t, NoDup (map fst (contents t)).
Proof. exact contents_nodup. Qed.
Print Assumptions C10_items_once.

Theorem C10_key_order_is_byte_order : forall a b, bytes_ltb a b = nibbles_ltb (bytes_to_nibbles a) (bytes_to_nibbles b).
Proof. exact bytes_ltb_nibbles. Qed.
Print Assumptions C10_key_order_is_byte_order.

(* next(k): the smallest stored key strictly greater than k — for any k, stored or not *)
Theorem C10_next_after : forall t k, canonical_top t = true -> nibs_ok k = true ->
  match tkey_after t k [] with
  | Some k1 => nibs_ok k1 = true /\ tget t k1 <> [] /\ nibbles_ltb k k1 = true /\
               forall k', nibs_ok k' = true -> tget t k' <> [] -> nibbles_ltb k k' = true -> k' = k1 \/ nibbles_ltb k1 k' = true
  | None => forall k', nibs_ok k' = true -> tget t k' <> [] -> nibbles_ltb k k' = false
  end.
Proof. exact C10_next_after_least. Qed.
Print Assumptions C10_next_after.

(* next(): the smallest key; None exactly when the trie is empty *)
Theorem C10_next_first : forall t, canonical_top t = true ->
  match tnext_key t [] with
  | Some k1 => nibs_ok k1 = true /\ tget t k1 <> [] /\
               forall k', nibs_ok k' = true -> tget t k' <> [] -> k' = k1 \/ nibbles_ltb k1 k' = true
  | None => forall k', nibs_ok k' = true -> tget t k' = []
  end.
Proof. exact C10_next_first_least. Qed.
Print Assumptions C10_next_first.

(* nodes(): every node exactly once, parents before children and left to right (= strictly
   ascending prefixes), each equal to traverse() of its prefix *)
Theorem C10_nodes_are_traverse : forall t, canonical_top t = true ->
  forall p n, In (p, n) (tnodes t []) -> ttraverse t p = TAt n.
Proof. exact tnodes_traverse. Qed.
Print Assumptions C10_nodes_are_traverse.

Theorem C10_nodes_complete : forall t p n, ttraverse t p = TAt n -> n <> NBlank -> In (p, n) (tnodes t []).
Proof. exact tnodes_complete. Qed.
Print Assumptions C10_nodes_complete.

Theorem C10_nodes_preorder : forall t, canonical_top t = true ->
  StronglySorted (fun a b => nibbles_ltb (fst a) (fst b) = true) (tnodes t []).
Proof. exact tnodes_sorted. Qed.
Print Assumptions C10_nodes_preorder.

(* ---- database level (Fog/Walk.v = trie/iter.py over trie/fog.py and HexaryTrie.traverse /
   traverse_from with the cached-parent shortcut).  On any store that represents a canonical
   tree (which every store produced by set/delete does: C02_D), under a hash without a
   collision on the tree's nodes: *)

(* nodes(): the fog loop with its frontier cache returns exactly the tree's nodes, each
   annotated, in the pre-order of [tnodes] *)
Theorem C10_D_nodes : forall H, (forall x, length (H x) = 32%nat) -> BNH = H (rlp_encode (RStr [])) ->
  forall m r t, represents H m r t -> canonical_top t = true -> decodable H t -> no_blank_collision H BNH t ->
  (length (tnodes t []) < nodes_fuel)%nat ->
  iter_all_nodes (plain m r) = Ok (map (fun e => (fst e, ann_hnode H (snd e))) (tnodes t [])).
Proof. exact iter_nodes_refines. Qed.
Print Assumptions C10_D_nodes.

(* items(): exactly the stored (byte key, value) pairs ... *)
Theorem C10_D_items : forall H, (forall x, length (H x) = 32%nat) -> BNH = H (rlp_encode (RStr [])) ->
  forall m r t, represents H m r t -> canonical_top t = true -> decodable H t -> no_blank_collision H BNH t ->
  even_keys t -> (length (tnodes t []) < nodes_fuel)%nat ->
  iter_items (plain m r) = Ok (bitems t).
Proof. exact iter_items_refines. Qed.
Print Assumptions C10_D_items.

Theorem C10_D_items_spec : forall t k v, wf t = true -> even_keys t ->
  (In (k, v) (bitems t) <-> tget t (bytes_to_nibbles k) = v /\ v <> []).
Proof. exact bitems_spec. Qed.
Print Assumptions C10_D_items_spec.

(* ... in strictly ascending byte-string order *)
Theorem C10_D_items_sorted : forall t, canonical_top t = true -> even_keys t ->
  StronglySorted (fun a b => bytes_ltb (fst a) (fst b) = true) (bitems t).
Proof. exact bitems_sorted. Qed.
Print Assumptions C10_D_items_sorted.

(* every trie built through the byte-key API has keys of even nibble length *)
Theorem C10_D_even_keys : forall ops : list (bytes * option bytes), even_keys (trun (map to_top ops)).
Proof. exact even_keys_trun. Qed.
Print Assumptions C10_D_even_keys.

(* next(k) / next(): the least stored byte key strictly above k / the least stored key *)
Theorem C10_D_next_after : forall H, (forall x, length (H x) = 32%nat) -> BNH = H (rlp_encode (RStr [])) ->
  forall m r t, represents H m r t -> canonical_top t = true -> decodable H t -> no_blank_collision H BNH t ->
  forall k, even_keys t -> (depth t < iter_fuel)%nat ->
  exists res, iter_next (plain m r) (Some k) = Ok res /\
    match res with
    | Some k1 => tget t (bytes_to_nibbles k1) <> [] /\ bytes_ltb k k1 = true /\
                 forall k', tget t (bytes_to_nibbles k') <> [] -> bytes_ltb k k' = true -> k' = k1 \/ bytes_ltb k1 k' = true
    | None => forall k', tget t (bytes_to_nibbles k') <> [] -> bytes_ltb k k' = false
    end.
Proof. exact iter_next_after_least. Qed.
Print Assumptions C10_D_next_after.

Theorem C10_D_next_first : forall H, (forall x, length (H x) = 32%nat) -> BNH = H (rlp_encode (RStr [])) ->
  forall m r t, represents H m r t -> canonical_top t = true -> decodable H t -> no_blank_collision H BNH t ->
  even_keys t -> (depth t < iter_fuel)%nat ->
  exists res, iter_next (plain m r) None = Ok res /\
    match res with
    | Some k1 => tget t (bytes_to_nibbles k1) <> [] /\
                 forall k', tget t (bytes_to_nibbles k') <> [] -> k' = k1 \/ bytes_ltb k1 k' = true
    | None => forall k', tget t (bytes_to_nibbles k') = []
    end.
Proof. exact iter_next_first_least. Qed.
Print Assumptions C10_D_next_first.
