(* Properties/C06.v — pruning is exact: database holds precisely the live nodes, counts are true.

   FULL STATEMENT (C06_exact): for every history of set / delete / squash_changes on a pruning
   trie that started on an empty database, after every call [exact t occ] holds with [occ] the
   occurrence multiset of hashed nodes of the current trie (= what regenerate_ref_count returns).

   PROVED (C06_exact at the end of this file; Hexary/Refine_write_prune.v): exactly that, for
   every history of DIRECT set / delete / set-to-empty calls: reference counts = occurrence
   counts of the tree-level result, database = exactly the nodes of that tree, every key
   readable, under the explicit premises "no hash collision among / size bound on the bodies
   the history writes".  Histories through squash_changes batches are not covered by the
   theorem (they rest on the oracle below, on Properties/C05 and on correspondence).
   ALSO PROVED (database-level model, any hash function): the bookkeeping layer.
   [exact] is preserved by a whole operation GIVEN that its body persisted nodes with
   multiplicities [inc] and requested prunes [dec] (C06_accounting); for the real set / delete
   bodies every hypothesis about [inc] is discharged and the single remaining premise is that
   no node is asked to be pruned more often than it is counted (C06_set_step / C06_delete_step);
   the exact effect of _complete_pruning; regenerate_ref_count only counts nodes it read.
   The run's oracle checks equality with regenerate_ref_count and with the key set of the
   database after EVERY call (batches included); the pre-fix defect D2 is refuted in Findings.v. *)
From Coq Require Import List NArith ZArith Bool.
From PyTrie.Base Require Import Bytes Result AMap.
From PyTrie.Db Require Import ScratchDb.
From PyTrie.Base Require Import Nibbles Rlp.
From PyTrie.Hexary Require Import Raw Tree D D_safety D_read D_prune Refine_read Refine_write Refine_write_prune Refine_batch.
From PyTrie.Hexary Require Tree_unique.
Import ListNotations.
Open Scope Z_scope.

Theorem C06_accounting : forall (body : M unit) t occ s u t1 s1 p1 (inc dec : bytes -> Z),
  exact t occ -> t_prune t = true -> t_db t = DPlain s ->
  body (with_pending t (Some [])) = (Ok u, t1) ->
  t_prune t1 = true -> t_db t1 = DPlain s1 -> t_pending t1 = Some p1 -> NoDup (akeys p1) -> ppos p1 ->
  (forall h, 0 <= inc h) -> (forall h, zget (t_refc t1) h = zget (t_refc t) h + inc h) ->
  (forall h, 0 < inc h -> amem (cells s1) h = true) ->
  (forall h, inc h = 0 -> amem (cells s1) h = amem (cells s) h) ->
  (forall h, pend p1 h = dec h) -> (forall h, dec h <= occ h + inc h) ->
  exists t', _prune_on_success body t = (Ok tt, t') /\ exact t' (fun h => occ h + inc h - dec h) /\
             t_root t' = t_root t1 /\ t_prune t' = true /\ t_pending t' = None.
Proof. exact exact_counts_preserved. Qed.
Print Assumptions C06_accounting.

Theorem C06_set_step : forall H BNH key value t occ s u t1,
  exact t occ -> t_prune t = true -> t_db t = DPlain s -> budget s = None ->
  set_body H BNH key value (with_pending t (Some [])) = (Ok u, t1) ->
  exists s1 p1, inop t1 s1 p1 /\
    ((forall h, pend p1 h <= zget (t_refc t1) h) ->
     exists t', set H BNH key value t = (Ok tt, t') /\ exact t' (fun h => zget (t_refc t1) h - pend p1 h) /\
                t_root t' = t_root t1 /\ t_prune t' = true /\ t_pending t' = None).
Proof. exact set_exact_step. Qed.
Print Assumptions C06_set_step.

Theorem C06_delete_step : forall H BNH key t occ s u t1,
  exact t occ -> t_prune t = true -> t_db t = DPlain s -> budget s = None ->
  delete_body H BNH key (with_pending t (Some [])) = (Ok u, t1) ->
  exists s1 p1, inop t1 s1 p1 /\
    ((forall h, pend p1 h <= zget (t_refc t1) h) ->
     exists t', delete H BNH key t = (Ok tt, t') /\ exact t' (fun h => zget (t_refc t1) h - pend p1 h) /\
                t_root t' = t_root t1 /\ t_prune t' = true /\ t_pending t' = None).
Proof. exact delete_exact_step. Qed.
Print Assumptions C06_delete_step.

(* _complete_pruning: a count reaches max 0 (count - requests); a node is deleted exactly when
   its count reaches <= 0; no zero or negative count is stored *)
Theorem C06_complete_pruning : forall t s p,
  t_db t = DPlain s -> NoDup (akeys p) -> ppos p -> cpos (t_refc t) ->
  (forall k n, In (k, n) p -> zget (t_refc t) k - n <= 0 -> amem (cells s) k = true) ->
  exists t' s', complete_pruning_loop p t = (Ok tt, t') /\ t_db t' = DPlain s' /\ budget s' = budget s /\
    t_root t' = t_root t /\ t_prune t' = t_prune t /\ t_pending t' = t_pending t /\
    (forall h, zget (t_refc t') h = Z.max 0 (zget (t_refc t) h - pend p h)) /\
    (forall h, aget (cells s') h = if (pend p h >? 0) && (zget (t_refc t) h - pend p h <=? 0) then None else aget (cells s) h) /\
    cpos (t_refc t').
Proof. exact complete_pruning_ok_pos. Qed.
Print Assumptions C06_complete_pruning.

(* every node regenerate_ref_count counts was read from the database *)
Theorem C06_regenerate_reads : forall BNH fuel t s m t', t_db t = DPlain s ->
  regenerate_ref_count BNH fuel t = (Ok m, t') ->
  forall h, aget m h <> None -> (32 <= length h)%nat -> aget (cells s) h <> None.
Proof. exact regenerate_keys_present. Qed.
Print Assumptions C06_regenerate_reads.

(* exactness after every history of direct writes on a pruning trie from the empty database *)
Theorem C06_exact : forall H BNH, (forall x, length (H x) = 32%nat) -> BNH = H (rlp_encode (RStr [])) ->
  forall ws : list wop,
  cf H (hist_bodies H ws) -> Forall (fun b => (blen b < 2 ^ 64)%N) (hist_bodies H ws) ->
  let ops := map top_of ws in
  exists m rc,
    wrun H BNH ws (empty_trie BNH true) = (map (fun _ => Ok tt) ws, pstate H m rc (trun ops)) /\
    represents H m (troot H (trun ops)) (trun ops) /\ content_addressed H m /\
    (forall h, zget rc h = occR H (trun ops) h) /\                          (* counts = occurrences *)
    (forall h, amem m h = true <-> Z.lt 0%Z (occR H (trun ops) h)) /\            (* db = exactly the live nodes *)
    (forall k, fst (get BNH k (pstate H m rc (trun ops))) = Ok (spec_run ops (bytes_to_nibbles k))) /\
    (forall J, Tree_unique.good_bindings J -> (forall q, nibs_ok q = true -> lookup J q = spec_run ops q) ->
               t_root (pstate H m rc (trun ops)) = yp_root H J).
Proof. exact Refine_write_prune.C01_D_pruning. Qed.
Print Assumptions C06_exact.

(* ... and after every history that also contains squash_changes blocks, committed or aborted *)
Theorem C06_exact_batched : forall H BNH, (forall x, length (H x) = 32%nat) -> BNH = H (rlp_encode (RStr [])) ->
  forall hs : list hop,
  cf H (hist_bodies H (flat hs)) -> Forall (fun b => (blen b < 2 ^ 64)%N) (hist_bodies H (flat hs)) ->
  let ops := map top_of (flat hs) in
  exists m rc,
    hrun H BNH hs (empty_trie BNH true) = (map hexpect hs, pstate H m rc (trun ops)) /\
    represents H m (troot H (trun ops)) (trun ops) /\ content_addressed H m /\
    (forall h, zget rc h = occR H (trun ops) h) /\
    (forall h, amem m h = true <-> Z.lt 0%Z (occR H (trun ops) h)) /\
    (forall k, fst (get BNH k (pstate H m rc (trun ops))) = Ok (spec_run ops (bytes_to_nibbles k))) /\
    (forall J, Tree_unique.good_bindings J -> (forall q, nibs_ok q = true -> lookup J q = spec_run ops q) ->
               t_root (pstate H m rc (trun ops)) = yp_root H J).
Proof. exact Refine_batch.C01_D_pruning_batched. Qed.
Print Assumptions C06_exact_batched.

(* one API write preserves the exactness invariant [pinv] *)
Print Assumptions write_refines_ps.

(* non-vacuity: a concrete pruning history creating a node shared by two identical sub-tries,
   then deleting one of them; [exact] holds with the regenerated counts after every call *)
Print Assumptions C06_examples.C06_shared_node_history.
