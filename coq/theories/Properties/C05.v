(* Properties/C05.v — squash_changes is an all-or-nothing batch (code as repaired by the two
   "fix:" commits).  Database-level model.  Only the property theorems.

   Proved: leaving the block by an exception at ANY point restores the outer trie entirely
   (root, database, reference counts) (C05_abort); a commit that fails on a non-pruning trie
   leaves the root and keeps every earlier entry (C05_commit_fail_root etc.); the commit of a
   non-pruning trie removes nothing (C04_append_only_batch).
   NOT yet proved (rests on this run's correspondence cases and the reachable-set oracle):
   after a normal exit every node needed for the new root is present and no node that served
   only intermediate states was added (this needs the exactness of the inner pruning trie,
   i.e. property C06 for a trie whose counts do not cover pre-existing nodes). *)
From Coq Require Import List NArith Bool.
From PyTrie.Base Require Import Bytes Result AMap.
From PyTrie.Db Require Import ScratchDb.
From PyTrie.Hexary Require Import Raw D D_safety.
Import ListNotations.

Theorem C05_abort : forall H BNH outer s ops,
  t_db outer = DPlain s -> batch_abort outer (drun H BNH ops (batch_begin outer)) = outer.
Proof. exact D_safety.C05_abort_restores. Qed.
Print Assumptions C05_abort.

Theorem C05_commit_fail_root : forall H BNH outer inner e t',
  t_prune outer = false -> batch_commit H BNH outer inner = (Err e, t') -> t_root t' = t_root outer.
Proof. exact D_safety.C05_commit_fail_root. Qed.
Print Assumptions C05_commit_fail_root.

Theorem C05_commit_nonpruning_keeps_everything : forall H BNH outer s ops r t',
  t_prune outer = false -> t_pending outer = None -> t_db outer = DPlain s ->
  batch_commit H BNH outer (drun H BNH ops (batch_begin outer)) = (r, t') ->
  (exists s', t_db t' = DPlain s' /\
     (forall h b, aget (cells s) h = Some b ->
        aget (cells s') h = Some b \/ (exists b', aget (cells s') h = Some b' /\ h = H b')) /\
     (forall h b, aget (cells s') h = Some b -> aget (cells s) h = Some b \/ h = H b)) /\
  t_prune t' = false /\ t_refc t' = t_refc outer /\ t_pending t' = None /\
  (forall e, r = Err e -> t_root t' = t_root outer).
Proof. exact D_safety.C04_append_only_batch. Qed.
Print Assumptions C05_commit_nonpruning_keeps_everything.
