(* Properties/C05.v — squash_changes is an all-or-nothing batch (code as repaired by the two
   "fix:" commits).  Database-level model.  Only the property theorems.

   Proved: leaving the block by an exception at ANY point restores the outer trie entirely
   (root, database, reference counts) (C05_abort); a commit that fails on a non-pruning trie
   leaves the root and keeps every earlier entry (C05_commit_fail_root etc.); the commit of a
   non-pruning trie removes nothing (C04_append_only_batch).
   The commit clause (Hexary/Refine_batch.v, by a simulation between the ScratchDB-backed batch
   trie and an exact pruning trie): after a normal exit the outer trie is exactly the trie of
   the block's writes applied in order — for a pruning outer trie counts and database stay
   exact (C05_commit_pruning); for a non-pruning outer trie the new store represents the new
   tree, contains the old store, and every key it ADDS is a node of the FINAL tree, so no node
   that served only an intermediate state is added (C05_commit_nonpruning).  An aborted block
   inside any history changes nothing (C05_abort_in_history). *)
From Coq Require Import List NArith ZArith Bool.
From PyTrie.Base Require Import Bytes Result AMap Nibbles Rlp.
From PyTrie.Db Require Import ScratchDb.
From PyTrie.Hexary Require Import Raw Tree D D_safety D_read Refine_read Refine_write Refine_write_prune Refine_batch.
Import ListNotations.

Theorem C05_abort : forall H BNH outer s ops,
  t_db outer = DPlain s -> batch_abort outer (drun H BNH ops (batch_begin outer)) = outer.
Proof. exact D_safety.C05_abort_restores. Qed.
Print Assumptions C05_abort.

(* the same for a block opened on a batch trie (squash_changes inside squash_changes): leaving it by an
   exception leaves the enclosing batch trie — its buffer, root and reference counts — exactly as it was *)
Theorem C05_abort_nested : forall H BNH outer osc ops,
  t_db outer = DScratch osc -> batch_abort outer (drun H BNH ops (batch_begin outer)) = outer.
Proof. exact D_safety.C05_abort_nested. Qed.
Print Assumptions C05_abort_nested.

(* ... and its normal exit cannot fail: the block's buffer is replayed into the enclosing buffer (sreplay; its
   effect on every key is C17_nested_commit), the enclosing layer's wrapped store is untouched, root and
   counts are adopted.  That the resulting batch trie is again the trie of the writes that took effect is
   tied by correspondence for nested blocks (DESIGN 10.2). *)
Theorem C05_commit_nested : forall H BNH outer osc inner,
  t_db outer = DScratch osc -> t_prune outer = true ->
  batch_commit H BNH outer inner =
  (Ok tt, with_root (with_refc (with_db outer (DScratch (sreplay true (cache (inner_scratch inner)) osc)))
                               (t_refc inner)) (t_root inner)).
Proof. exact D_safety.C05_commit_nested. Qed.
Print Assumptions C05_commit_nested.

Theorem C05_commit_fail_root : forall H BNH outer inner e t',
  t_prune outer = false -> batch_commit H BNH outer inner = (Err e, t') -> t_root t' = t_root outer.
Proof. exact D_safety.C05_commit_fail_root. Qed.
Print Assumptions C05_commit_fail_root.

Theorem C05_commit_nonpruning_keeps_everything : forall H BNH outer s ops r t',
  t_prune outer = false -> t_pending outer = None -> t_db outer = DPlain s ->
  batch_commit H BNH outer (drun H BNH ops (batch_begin outer)) = (r, t') ->
  (exists s', t_db t' = DPlain s' /\
     (forall h b, aget (cells s) h = Some b ->
        aget (cells s') h = Some b \/ (exists b', aget (cells s') h = Some b' /\ h = H b')) /\
     (forall h b, aget (cells s') h = Some b -> aget (cells s) h = Some b \/ h = H b)) /\
  t_prune t' = false /\ t_refc t' = t_refc outer /\ t_pending t' = None /\
  (forall e, r = Err e -> t_root t' = t_root outer).
Proof. exact D_safety.C04_append_only_batch. Qed.
Print Assumptions C05_commit_nonpruning_keeps_everything.

(* ---- the commit clause ---- *)
(* [SB] is a finite set of node bodies on which H has no collision and which contains the bodies
   of every intermediate tree of the block; [pinv] is the exactness invariant of C06 *)
Theorem C05_commit_pruning : forall H BNH, (forall x, length (H x) = 32%nat) -> BNH = H (rlp_encode (RStr [])) ->
  forall SB, cf H SB -> In (rlp_encode (RStr [])) SB ->
  forall (ws : list wop) t m rc,
  pinv H SB m rc t -> canonical_top t = true -> decodable H t -> no_blank_collision H BNH t -> inS H SB t ->
  incl (flat_map (tree_bodies H) (hist_trees t (map top_of ws))) SB ->
  Forall (decodable H) (hist_trees t (map top_of ws)) ->
  let t' := fold_left tapply (map top_of ws) t in
  exists inner m' rc',
    wrun H BNH ws (batch_begin (pstate H m rc t)) = (map (fun _ => Ok tt) ws, inner) /\
    batch_commit H BNH (pstate H m rc t) inner = (Ok tt, pstate H m' rc' t') /\
    pinv H SB m' rc' t' /\ canonical_top t' = true /\ decodable H t' /\ no_blank_collision H BNH t' /\ inS H SB t'.
Proof. exact Refine_batch.batch_commit_ps. Qed.
Print Assumptions C05_commit_pruning.

Theorem C05_commit_nonpruning : forall H BNH, (forall x, length (H x) = 32%nat) -> BNH = H (rlp_encode (RStr [])) ->
  forall SB, cf H SB -> In (rlp_encode (RStr [])) SB ->
  forall (ws : list wop) t m,
  represents H m (troot H t) t -> within H SB m -> canonical_top t = true -> decodable H t ->
  no_blank_collision H BNH t -> inS H SB t ->
  incl (flat_map (tree_bodies H) (hist_trees t (map top_of ws))) SB ->
  Forall (decodable H) (hist_trees t (map top_of ws)) ->
  let t' := fold_left tapply (map top_of ws) t in
  exists inner m',
    wrun H BNH ws (batch_begin (plain m (troot H t))) = (map (fun _ => Ok tt) ws, inner) /\
    batch_commit H BNH (plain m (troot H t)) inner = (Ok tt, plain m' (troot H t')) /\
    represents H m' (troot H t') t' /\ within H SB m' /\
    sub_store m m' /\                                                            (* nothing removed *)
    (forall k, amem m' k = true -> amem m k = false -> Z.lt 0%Z (occR H t' k)) /\   (* only nodes of the final tree added *)
    canonical_top t' = true /\ decodable H t' /\ no_blank_collision H BNH t' /\ inS H SB t'.
Proof. exact Refine_batch.batch_commit_np. Qed.
Print Assumptions C05_commit_nonpruning.

(* an aborted block, as a step of a history *)
Theorem C05_abort_in_history : forall H BNH ws s st,
  t_db s = DPlain st -> hstep H BNH (Batch ws true) s = (Err EAbort, s).
Proof. exact Refine_batch.hstep_abort. Qed.
Print Assumptions C05_abort_in_history.

(* non-vacuity under Keccak-256, incl. a DELETED marker on a key the wrapped store still holds *)
Print Assumptions ex_hs_eval.
Print Assumptions ex_read_through.
