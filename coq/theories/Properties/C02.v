(* Properties/C02.v — HexaryTrie root hash is the canonical Ethereum MPT root of its contents.

   Proved here, closed, for every history and EVERY hash function H (so in particular for
   Keccak-256; no collision premise is needed because the statements are equalities of
   trees, hence of their encodings):
     * the tree after any history is canonical (C02_canonical);
     * a canonical tree is determined by its lookup function (C02_canonical_unique), hence the
       root depends only on the contents (C02_history_independent) and the empty mapping has
       the blank root H(rlp "") (C02_empty);
     * the operational tree IS the Yellow-Paper construction c(J,0) of its contents
       ([yp_tree], written top-down from the bindings alone), hence root = yp_root
       (C02_yellow_paper).
   These are statements about the tree-level algorithms (Hexary/Tree.v) with [troot] the
   hex-prefix / RLP / "< 32 bytes embedded, root always hashed" encoding.  DATABASE LEVEL:
   C02_D below — after every history of direct writes, pruning off or on, the root_hash
   attribute of the D-level machine is yp_root of the contents (write refinement proved;
   premises: no collision among / size bound on the bodies the history writes).  Histories
   through squash_changes: correspondence (implementation root = D-level root =
   troot keccak256 (T-level run) = yp_root keccak256 (mapping), evaluated in Coq on every case). *)
From Coq Require Import List NArith Bool.
From PyTrie.Base Require Import Bytes Result Nibbles Rlp Keccak.
From PyTrie.Base Require Import AMap.
From PyTrie.Hexary Require Import Raw Tree Tree_aux Tree_map Tree_unique TreeRun D D_read Refine_read Refine_write Refine_write_prune Refine_batch.
From PyTrie.Hexary Require Tree_canon.
Import ListNotations.

Theorem C02_canonical : forall ops, ops_ok ops -> canonical_top (trun ops) = true.
Proof. exact Tree_canon.C02_canonical. Qed.
Print Assumptions C02_canonical.

Theorem C02_canonical_unique : forall a b, canonical_top a = true -> canonical_top b = true ->
  (forall q, nibs_ok q = true -> tget a q = tget b q) -> a = b.
Proof. exact canonical_unique. Qed.
Print Assumptions C02_canonical_unique.

Theorem C02_history_independent : forall H ops1 ops2, ops_ok ops1 -> ops_ok ops2 ->
  (forall q, nibs_ok q = true -> spec_run ops1 q = spec_run ops2 q) ->
  troot H (trun ops1) = troot H (trun ops2).
Proof. exact Tree_unique.C02_history_independent. Qed.
Print Assumptions C02_history_independent.

Theorem C02_empty : forall H ops, ops_ok ops -> (forall q, nibs_ok q = true -> spec_run ops q = []) ->
  troot H (trun ops) = H (rlp_encode (RStr [])).
Proof. exact Tree_unique.C02_empty. Qed.
Print Assumptions C02_empty.

Theorem C02_yp_is_canonical : forall J, good_bindings J -> canonical_top (yp_tree J) = true.
Proof. exact yp_canonical. Qed.
Print Assumptions C02_yp_is_canonical.

Theorem C02_yp_contents : forall J q, good_bindings J -> nibs_ok q = true -> tget (yp_tree J) q = lookup J q.
Proof. exact yp_lookup. Qed.
Print Assumptions C02_yp_contents.

Theorem C02_yellow_paper : forall H ops J, ops_ok ops -> good_bindings J ->
  (forall q, nibs_ok q = true -> lookup J q = spec_run ops q) -> troot H (trun ops) = yp_root H J.
Proof. exact Tree_unique.C02_yellow_paper. Qed.
Print Assumptions C02_yellow_paper.

(* database level: the root_hash attribute after any history of direct writes *)
Theorem C02_D : forall H BNH, (forall x, length (H x) = 32%nat) -> BNH = H (rlp_encode (RStr [])) ->
  forall (prune : bool) (ws : list wop),
  cf H (hist_bodies H ws) -> Forall (fun b => (blen b < 2 ^ 64)%N) (hist_bodies H ws) ->
  let ops := map top_of ws in
  forall J, good_bindings J -> (forall q, nibs_ok q = true -> lookup J q = spec_run ops q) ->
  t_root (snd (wrun H BNH ws (empty_trie BNH prune))) = yp_root H J.
Proof.
  intros H BNH Hlen Hbnh prune ws Hcf Hsmall ops J HJ Hlook. destruct prune.
  - destruct (Refine_write_prune.C01_D_pruning H BNH Hlen Hbnh ws Hcf Hsmall) as (m & rc & Hrun & _ & _ & _ & _ & _ & Hroot).
    rewrite Hrun. cbn [snd]. apply Hroot; assumption.
  - destruct (Refine_write.C01_D_nonpruning_small H BNH Hlen Hbnh ws Hcf Hsmall) as (m & Hrun & _ & _ & _ & Hroot).
    rewrite Hrun. cbn [snd]. apply Hroot; assumption.
Qed.
Print Assumptions C02_D.

(* ... and after any history mixing direct writes with squash_changes blocks (committed or
   aborted): the root is the Yellow-Paper root of the mapping left by the writes that took effect *)
Theorem C02_D_batched : forall H BNH, (forall x, length (H x) = 32%nat) -> BNH = H (rlp_encode (RStr [])) ->
  forall (prune : bool) (hs : list hop),
  cf H (hist_bodies H (flat hs)) -> Forall (fun b => (blen b < 2 ^ 64)%N) (hist_bodies H (flat hs)) ->
  let ops := map top_of (flat hs) in
  forall J, good_bindings J -> (forall q, nibs_ok q = true -> lookup J q = spec_run ops q) ->
  t_root (snd (hrun H BNH hs (empty_trie BNH prune))) = yp_root H J.
Proof.
  intros H BNH Hlen Hbnh prune hs Hcf Hsmall ops J HJ Hlook. destruct prune.
  - destruct (Refine_batch.C01_D_pruning_batched H BNH Hlen Hbnh hs Hcf Hsmall) as (m & rc & Hrun & _ & _ & _ & _ & _ & Hroot).
    rewrite Hrun. cbn [snd]. apply Hroot; assumption.
  - destruct (Refine_batch.C01_D_nonpruning_batched H BNH Hlen Hbnh hs Hcf Hsmall) as (m & Hrun & _ & _ & _ & Hroot).
    rewrite Hrun. cbn [snd]. apply Hroot; assumption.
Qed.
Print Assumptions C02_D_batched.

(* non-vacuity, and external anchors for my reading of the Yellow Paper: ethereum/tests
   trieanyorder vectors evaluated with the real Keccak-256 *)
Print Assumptions C02_example.

Definition ascii_bytes (l : list N) : bytes := map n2b l.
Example C02_vector_foo :
  (* {foo: bar, food: bass} -> 17beaa16...c4c3 *)
  c02_yp_run [(B 3 0x666f6f, B 3 0x626172); (B 4 0x666f6f64, B 4 0x62617373)]
  = OB (B 32 0x17beaa1648bafa633cda809c90c04af50fc8aed3cb40d16efbddee6fdf63c4c3).
Proof. vm_compute. reflexivity. Qed.

Example C02_vector_dogs :
  (* {doe: reindeer, dog: puppy, dogglesworth: cat} -> 8aad789d...68d3 *)
  c02_yp_run [(B 3 0x646f65, B 8 0x7265696e64656572); (B 3 0x646f67, B 5 0x7075707079);
              (B 12 0x646f67676c6573776f727468, B 3 0x636174)]
  = OB (B 32 0x8aad789dff2f538bca5d8ea56e8abe10f4c7ba3a5dea95fea4cd6e7c3a1168d3).
Proof. vm_compute. reflexivity. Qed.
