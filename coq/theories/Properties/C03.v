(* Properties/C03.v — Hexary Merkle proofs are complete and sound.
   Database-level model (Hexary/D.v), any hash function H; collision-freeness is an explicit
   premise [cf] on the finite list of byte strings involved (bodies of the honest store and
   encodings of the offered nodes) — never injectivity.  [plain m r] is a non-pruning trie
   over the store [m] with root [r].  Only the property theorems (proved in D_read.v).
   Counterexamples showing that every premise of C03_complete is needed are machine-checked
   in D_read.Counterexamples. *)
From Coq Require Import List NArith Bool.
From PyTrie.Base Require Import Bytes Result AMap Nibbles Rlp.
From PyTrie.Hexary Require Import Raw D D_read.
Import ListNotations.

(* soundness against ANY list of well-formed nodes (removed, altered, reordered,
   duplicated, foreign) and any root: the true value or BadTrieProof, nothing else *)
Theorem C03_sound : forall H BNH m r k (proof : list item) v,
  content_addressed H m ->
  Forall (fun n => validate_is_node n = Ok tt) proof ->
  cf H (bodies m ++ map rlp_encode proof) ->
  fst (get BNH k (plain m r)) = Ok v ->
  get_from_proof H BNH r k proof = Ok v \/ get_from_proof H BNH r k proof = Err EBadTrieProof.
Proof. exact D_read.C03_sound. Qed.
Print Assumptions C03_sound.

(* a hashed node on the key's path is withheld => BadTrieProof *)
Theorem C03_withheld : forall H BNH m r k (proof : list item) h,
  content_addressed H m ->
  Forall (fun n => validate_is_node n = Ok tt) proof ->
  cf H (bodies m ++ map rlp_encode proof) ->
  reads_entry BNH m r k h ->
  (forall n, In n proof -> H (rlp_encode n) <> h) ->
  get_from_proof H BNH r k proof = Err EBadTrieProof.
Proof. exact D_read.C03_withheld. Qed.
Print Assumptions C03_withheld.

(* completeness: the proof produced by get_proof verifies to exactly get(key) *)
Theorem C03_complete : forall H BNH m r k (proof : list item) v,
  content_addressed H m -> canonical_bodies m -> BNH = H (rlp_encode (RStr [])) ->
  Forall (fun n => validate_is_node n = Ok tt) proof ->
  cf H (bodies m ++ map rlp_encode proof) ->
  fst (get BNH k (plain m r)) = Ok v ->
  fst (get_proof BNH k (plain m r)) = Ok proof ->
  get_from_proof H BNH r k proof = Ok v.
Proof. exact D_read.C03_complete. Qed.
Print Assumptions C03_complete.

(* get_proof contains only nodes on the key's path *)
Theorem C03_on_path : forall BNH m r k (proof : list item),
  fst (get_proof BNH k (plain m r)) = Ok proof ->
  forall n, In n proof ->
  exists pre post ref, bytes_to_nibbles k = pre ++ post /\ ref_at BNH m (RStr r) pre ref /\
                       fst (get_node BNH ref (plain m r)) = Ok n.
Proof. exact D_read.C03_on_path. Qed.
Print Assumptions C03_on_path.

(* the lemma behind soundness: successful reads over content-addressed stores agree *)
Theorem C03_reads_deterministic : forall H BNH m1 m2 r k v1 v2,
  content_addressed H m1 -> content_addressed H m2 -> cf H (bodies m1 ++ bodies m2) ->
  fst (get BNH k (plain m1 r)) = Ok v1 -> fst (get BNH k (plain m2 r)) = Ok v2 -> v1 = v2.
Proof. exact D_read.read_deterministic_get_eq. Qed.
Print Assumptions C03_reads_deterministic.
