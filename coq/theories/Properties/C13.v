(* Properties/C13.v — binary-trie branches and witnesses are sufficient, exact and unforgeable.
   Database-level model of trie/branches.py (Binary/BinD.v) against the tree it represents
   ([brepr H db t]: the store holds the encoding of every sub-tree of t under its hash), for any
   hash function H with 32-byte outputs; collision-freeness only as the explicit finite premise
   [cf] where forged input is involved; [no_blank_collision]: no node of the trie hashes to the
   blank hash.  Only the property theorems (Binary/BinD_proofs.v). *)
From Coq Require Import List NArith Bool.
From PyTrie.Base Require Import Bytes Result AMap.
From PyTrie.Binary Require Import BinEnc BinTree BinD BinTree_proofs BinD_proofs.
Import ListNotations.

(* get_branch: refusal only for an absent key that is prefix-related to a stored key; otherwise
   nodes of the trie from which if_branch_valid confirms the trie's own answer (value or absence) *)
Theorem C13_get_branch : forall H BH, (forall x, length (H x) = 32%nat) ->
  forall db t key, brepr H db t -> bvalid t = true -> no_blank_collision H BH t ->
  let k := encode_to_bin key in
  (get_branch BH db (bhash H t) key = Err EInvalidKey /\ btget t k = None /\ bconflict t k) \/
  (exists br, get_branch BH db (bhash H t) key = Ok br /\ br <> [] /\
     (forall n, In n br -> exists s, In s (bsubs t) /\ n = benc H s) /\
     if_branch_valid H BH br (bhash H t) key (btget t k) = Ok true).
Proof. exact BinD_proofs.C13_get_branch. Qed.
Print Assumptions C13_get_branch.

(* ANY list of byte strings offered as a branch (altered, truncated, for another key, foreign)
   validates only the answer the trie really gives *)
Theorem C13_unforgeable : forall H BH, (forall x, length (H x) = 32%nat) ->
  forall db t br key v, brepr H db t -> bvalid t = true -> no_blank_collision H BH t ->
  cf H (map snd db ++ br) ->
  if_branch_valid H BH br (bhash H t) key v = Ok true -> v = btget t (encode_to_bin key).
Proof. exact BinD_proofs.C13_unforgeable. Qed.
Print Assumptions C13_unforgeable.

(* check_if_branch_exist(p) is true exactly when some stored key starts with p *)
Theorem C13_branch_exist : forall H BH, (forall x, length (H x) = 32%nat) ->
  forall db t prefix, brepr H db t -> bvalid t = true -> no_blank_collision H BH t ->
  exists b, check_if_branch_exist BH db (bhash H t) prefix = Ok b /\
            (b = true <-> exists q, btget t (encode_to_bin prefix ++ q) <> None).
Proof. exact BinD_proofs.C13_check_if_branch_exist. Qed.
Print Assumptions C13_branch_exist.

(* get_trie_nodes returns exactly the nodes reachable from the root (preorder) *)
Theorem C13_trie_nodes : forall H (BH : bytes), (forall x, length (H x) = 32%nat) ->
  forall db t, brepr H db t -> bvalid t = true -> (bdepth t < nodes_fuel)%nat ->
  get_trie_nodes db (bhash H t) = Ok (map (benc H) (bsubs t)).
Proof. exact BinD_proofs.C13_get_trie_nodes. Qed.
Print Assumptions C13_trie_nodes.

(* a witness contains only nodes of the trie and suffices to answer get(k) for every key k
   starting with the prefix; it is refused only when the prefix runs past a stored key *)
Theorem C13_witness : forall H BH, (forall x, length (H x) = 32%nat) ->
  forall db t prefix, brepr H db t -> bvalid t = true -> no_blank_collision H BH t ->
  (bdepth t < nodes_fuel)%nat -> (bdepth t < bfuel prefix)%nat ->
  (forall w, get_witness_for_key_prefix db (bhash H t) prefix = Ok w ->
     (forall n, In n w -> exists s, In s (bsubs t) /\ n = benc H s) /\
     (forall key r, key = prefix ++ r ->
        bin_get BH (mkBtrie (rebuild H w) (bhash H t)) key = Ok (btget t (encode_to_bin key)))) /\
  (forall e, get_witness_for_key_prefix db (bhash H t) prefix = Err e ->
     e = EInvalidKey /\
     exists s, btget t s <> None /\ s <> encode_to_bin prefix /\ is_bprefix s (encode_to_bin prefix)).
Proof. exact BinD_proofs.C13_get_witness_for_key_prefix. Qed.
Print Assumptions C13_witness.

(* the representation premise is satisfiable for every tree whose nodes do not collide *)
Theorem C13_store_exists : forall H t, cf H (map (benc H) (bsubs t)) -> brepr H (store_of_bt H t) t.
Proof. exact store_of_bt_repr. Qed.
Print Assumptions C13_store_exists.

(* non-vacuity with the real Keccak-256: a concrete 3-key trie, its store, a validated branch,
   truncated / foreign branches failing to validate *)
Print Assumptions C13_example.
