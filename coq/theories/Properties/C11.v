(* Properties/C11.v — HexaryTrieFog is an immutable, order-independent record of
   unexplored prefixes.  Only the property theorems (proved in Fog/Fog_proofs.v).
   The fog is modelled as a sorted list; every function is pure, so "the receiver is
   never modified" and "rejected without effect" hold of the model by construction (the
   harness observes them on the implementation). *)
From Coq Require Import List NArith Bool Sorted.
From PyTrie.Base Require Import Bytes Result Nibbles.
From PyTrie.Fog Require Import Fog Fog_proofs.
Import ListNotations.

Theorem C11_init : fog_inv fog_init.
Proof. exact fog_inv_init. Qed.
Print Assumptions C11_init.

(* explore replaces the explored prefix by its continuations and keeps the invariant
   "strictly sorted, valid nibbles, no member starts with another" *)
Theorem C11_explore : forall f p segs f', fog_inv f -> explore f p segs = Ok f' ->
  fog_inv f' /\ (forall x, In x f' <-> (In x f /\ x <> p) \/ (exists s, In s segs /\ x = p ++ s)).
Proof. exact explore_inv. Qed.
Print Assumptions C11_explore.

(* every fog reachable from a fresh one satisfies the invariant, for every sequence *)
Theorem C11_reachable : forall (ops : list (nibbles * list nibbles)) f,
  fold_left (fun acc o => match acc with Ok g => explore g (fst o) (snd o) | Err e => Err e end)
            ops (Ok fog_init) = Ok f -> fog_inv f.
Proof. exact reachable_inv. Qed.
Print Assumptions C11_reachable.

Theorem C11_reachable_ops : forall ops f, fog_inv f -> fog_inv (frun_state f ops).
Proof. exact frun_state_inv. Qed.
Print Assumptions C11_reachable_ops.

(* exactly the invalid calls are rejected *)
Theorem C11_rejects : forall f p segs, fog_inv f ->
  (exists e, explore f p segs = Err e) <->
  (nibs_ok p = false \/ (exists s, In s segs /\ nibs_ok s = false) \/ ~ In p f \/ ~ NoDup segs
   \/ (exists s1 s2, In s1 segs /\ In s2 segs /\ s1 <> s2 /\ is_prefix s1 s2)).
Proof. exact explore_rejects. Qed.
Print Assumptions C11_rejects.

(* independent explorations commute *)
Theorem C11_commute : forall f p1 s1 p2 s2, fog_inv f -> p1 <> p2 -> In p1 f -> In p2 f ->
  (let r12 := match explore f p1 s1 with Ok f1 => explore f1 p2 s2 | Err e => Err e end in
   let r21 := match explore f p2 s2 with Ok f2 => explore f2 p1 s1 | Err e => Err e end in
   forall f12, r12 = Ok f12 -> r21 = Ok f12).
Proof. exact explore_commute. Qed.
Print Assumptions C11_commute.

Theorem C11_mark_all_complete : forall f ps,
  mark_all_complete f ps =
  fold_left (fun acc p => match acc with Ok g => explore g p [] | Err e => Err e end) ps (Ok f).
Proof. exact mark_all_complete_spec. Qed.
Print Assumptions C11_mark_all_complete.

Theorem C11_is_complete : forall f, is_complete f = true <-> f = [].
Proof. exact is_complete_iff. Qed.
Print Assumptions C11_is_complete.

Theorem C11_roundtrip : forall f, fog_inv f -> exists l, serialize f = Ok l /\ deserialize l = Ok f.
Proof. exact serialize_roundtrip. Qed.
Print Assumptions C11_roundtrip.

(* nearest_unknown: a member; the prefix containing the key if there is one; otherwise adjacent;
   PerfectVisibility exactly when nothing is unexplored *)
Theorem C11_nearest_unknown : forall f k, fog_inv f -> nibs_ok k = true ->
  (f = [] <-> nearest_unknown f k = Err EPerfectVisibility) /\
  (forall x, nearest_unknown f k = Ok x ->
     In x f /\ (forall p, In p f -> is_prefix p k -> x = p) /\
     (forall y, In y f ->
        ~ (nibbles_ltb x y = true /\ nibbles_ltb y k = true) /\
        ~ (nibbles_ltb k y = true /\ nibbles_ltb y x = true))).
Proof. exact nearest_unknown_spec. Qed.
Print Assumptions C11_nearest_unknown.

(* nearest_right: the prefix containing the key, else the closest member to the right;
   FullDirectionalVisibility exactly when nothing contains the key and nothing lies to the right *)
Theorem C11_nearest_right : forall f k, fog_inv f -> nibs_ok k = true ->
  (f = [] <-> nearest_right f k = Err EPerfectVisibility) /\
  (nearest_right f k = Err EFullDirectional <->
     f <> [] /\ (forall p, In p f -> ~ is_prefix p k) /\
     (forall p, In p f -> nibbles_ltb k p = false)) /\
  (forall x, nearest_right f k = Ok x ->
     In x f /\
     (is_prefix x k \/
      ((forall p, In p f -> ~ is_prefix p k) /\ nibbles_ltb k x = true /\
       forall y, In y f -> nibbles_ltb k y = true -> y = x \/ nibbles_ltb x y = true))).
Proof. exact nearest_right_spec. Qed.
Print Assumptions C11_nearest_right.

(* non-vacuity: a reachable, non-trivial fog *)
Example C11_example :
  exists f, explore fog_init [] [[1]; [2; 3]]%N = Ok f /\ f = [[1]; [2; 3]]%N
            /\ nearest_right f [1; 5]%N = Ok [1]%N /\ nearest_right f [3]%N = Err EFullDirectional.
Proof. eexists. vm_compute. repeat split. Qed.
