(* Properties/C09.v — a fog-guided walk finds everything, even while the trie changes.
   Tree-level labelled transition system (Fog/TWalk.v).  A SCHEDULE is any list of events:
   [EStep p i] takes the unexplored prefix p (whatever query and key produced it) and reads it
   in version i of the trie — 0 the current one, i > 0 an older one, which is what a traversal
   through a stale TrieFrontierCache entry sees (by C08_from, traverse_from through a cached
   node describes the cached version at that prefix); a partial traversal uses the simulated
   node ([describe]); [EMutate o] is a set / delete between steps.  All theorems quantify over
   every schedule, every initial canonical trie, every exploration order.  Only the property
   theorems (Fog/TWalk_proofs.v).
   Database-level walk (db reads, the concrete cache, pruning + MissingTraversalNode retry):
   modelled in Fog/Walk.v and tied to the code by the correspondence check. *)
From Coq Require Import List NArith Bool.
From PyTrie.Base Require Import Bytes Result Nibbles.
From PyTrie.Hexary Require Import Raw Tree TreeTraverse.
From PyTrie.Fog Require Import Fog Fog_proofs TWalk TWalk_proofs.
Import ListNotations.

(* the invariant behind everything: a stable key is met, or still covered by the fog *)
Theorem C09_invariant : forall t0 s w, canonical_top t0 = true -> sched_ok s ->
  trun_walk (twalk_init t0) s = Some w ->
  fog_inv (tw_fog w) /\ versions_ok w /\
  forall k v, stable w k v -> In (k, v) (tw_met w) \/ exists p, In p (tw_fog w) /\ is_prefix p k.
Proof. exact TWalk_proofs.C09_invariant. Qed.
Print Assumptions C09_invariant.

(* when the fog is complete every key whose value stayed the same for the whole walk was met with that value *)
Theorem C09_complete : forall t0 s w, canonical_top t0 = true -> sched_ok s ->
  trun_walk (twalk_init t0) s = Some w -> tw_fog w = [] ->
  forall k v, stable w k v -> In (k, v) (tw_met w).
Proof. exact TWalk_proofs.C09_complete. Qed.
Print Assumptions C09_complete.

(* nothing is met that was never stored *)
Theorem C09_no_ghosts : forall t0 s w, canonical_top t0 = true -> sched_ok s ->
  trun_walk (twalk_init t0) s = Some w ->
  forall k v, In (k, v) (tw_met w) -> v <> [] /\ exists t, In t (tw_versions w) /\ tget t k = v.
Proof. exact TWalk_proofs.C09_no_ghosts. Qed.
Print Assumptions C09_no_ghosts.

(* on an unchanging trie the pairs met are exactly the contents, each once *)
Theorem C09_static : forall t0 s w, canonical_top t0 = true ->
  (forall e, In e s -> exists p i, e = EStep p i) ->
  trun_walk (twalk_init t0) s = Some w -> tw_fog w = [] ->
  (forall k v, In (k, v) (tw_met w) <-> In (k, v) (contents t0)) /\ NoDup (tw_met w).
Proof. exact TWalk_proofs.C09_static. Qed.
Print Assumptions C09_static.

(* a step at any unexplored prefix, reading any version, is always possible (explore never rejects
   what a traversal describes) *)
Theorem C09_step_enabled : forall w p i t, fog_inv (tw_fog w) -> versions_ok w -> In p (tw_fog w) ->
  nth_error (tw_versions w) i = Some t -> exists w', tevent_step w (EStep p i) = Some w'.
Proof. exact TWalk_proofs.C09_step_enabled. Qed.
Print Assumptions C09_step_enabled.

(* termination: any schedule contains at most 17^(L+1) walk steps, L bounding the key lengths
   of the initial trie and of the mutations; and from every reachable state the walk can be
   driven to a complete fog *)
Theorem C09_step_bound : forall L t0 s w, canonical_top t0 = true -> sched_ok s ->
  keys_bounded L t0 -> sched_bounded L s -> trun_walk (twalk_init t0) s = Some w ->
  (N.of_nat (count_steps s) + fog_potential L (tw_fog w) <= pow17 (S L))%N.
Proof. exact TWalk_proofs.C09_terminates. Qed.
Print Assumptions C09_step_bound.

Theorem C09_can_finish : forall t0 s w, canonical_top t0 = true -> sched_ok s ->
  trun_walk (twalk_init t0) s = Some w ->
  exists s' w', steps_only s' /\ trun_walk w s' = Some w' /\ tw_fog w' = [].
Proof. exact TWalk_proofs.C09_can_finish. Qed.
Print Assumptions C09_can_finish.

(* non-vacuity: a concrete schedule with a delete collapsing a branch, an insert splitting a
   leaf, stale-version steps and a simulated node, reaching a complete fog *)
Print Assumptions C09_example.
