(* Properties/C09.v — a fog-guided walk finds everything, even while the trie changes.
   Tree-level labelled transition system (Fog/TWalk.v).  A SCHEDULE is any list of events:
   [EStep p i] takes the unexplored prefix p (whatever query and key produced it) and reads it
   in version i of the trie — 0 the current one, i > 0 an older one, which is what a traversal
   through a stale TrieFrontierCache entry sees (by C08_from, traverse_from through a cached
   node describes the cached version at that prefix); a partial traversal uses the simulated
   node ([describe]); [EMutate o] is a set / delete between steps.  All theorems quantify over
   every schedule, every initial canonical trie, every exploration order.  Only the property
   theorems (Fog/TWalk_proofs.v).
   Database-level walk (db reads, the concrete TrieFrontierCache incl. simulated parents,
   pruning + the MissingTraversalNode stutter): modelled in Fog/Walk.v (tied to the code by the
   correspondence check) and PROVED to refine the tree-level system in Fog/DWalk_proofs.v — the
   C09_D theorems at the end transfer every theorem above to runs of the database-level walk
   (keccak256, explicit executable no-collision premise over the bodies the history writes). *)
From Coq Require Import List NArith Bool.
From PyTrie.Base Require Import Bytes Result Nibbles.
From PyTrie.Base Require Import AMap Rlp.
From PyTrie.Hexary Require Import Raw Tree TreeTraverse D D_read Run Refine_read Refine_write.
From PyTrie.Fog Require Import Fog Fog_proofs TWalk TWalk_proofs Walk DWalk_proofs.
Import ListNotations.

(* the invariant behind everything: a stable key is met, or still covered by the fog *)
Theorem C09_invariant : forall t0 s w, canonical_top t0 = true -> sched_ok s ->
  trun_walk (twalk_init t0) s = Some w ->
  fog_inv (tw_fog w) /\ versions_ok w /\
  forall k v, stable w k v -> In (k, v) (tw_met w) \/ exists p, In p (tw_fog w) /\ is_prefix p k.
Proof. exact TWalk_proofs.C09_invariant. Qed.
Print Assumptions C09_invariant.

(* when the fog is complete every key whose value stayed the same for the whole walk was met with that value *)
Theorem C09_complete : forall t0 s w, canonical_top t0 = true -> sched_ok s ->
  trun_walk (twalk_init t0) s = Some w -> tw_fog w = [] ->
  forall k v, stable w k v -> In (k, v) (tw_met w).
Proof. exact TWalk_proofs.C09_complete. Qed.
Print Assumptions C09_complete.

(* nothing is met that was never stored *)
Theorem C09_no_ghosts : forall t0 s w, canonical_top t0 = true -> sched_ok s ->
  trun_walk (twalk_init t0) s = Some w ->
  forall k v, In (k, v) (tw_met w) -> v <> [] /\ exists t, In t (tw_versions w) /\ tget t k = v.
Proof. exact TWalk_proofs.C09_no_ghosts. Qed.
Print Assumptions C09_no_ghosts.

(* on an unchanging trie the pairs met are exactly the contents, each once *)
Theorem C09_static : forall t0 s w, canonical_top t0 = true ->
  (forall e, In e s -> exists p i, e = EStep p i) ->
  trun_walk (twalk_init t0) s = Some w -> tw_fog w = [] ->
  (forall k v, In (k, v) (tw_met w) <-> In (k, v) (contents t0)) /\ NoDup (tw_met w).
Proof. exact TWalk_proofs.C09_static. Qed.
Print Assumptions C09_static.

(* a step at any unexplored prefix, reading any version, is always possible (explore never rejects
   what a traversal describes) *)
Theorem C09_step_enabled : forall w p i t, fog_inv (tw_fog w) -> versions_ok w -> In p (tw_fog w) ->
  nth_error (tw_versions w) i = Some t -> exists w', tevent_step w (EStep p i) = Some w'.
Proof. exact TWalk_proofs.C09_step_enabled. Qed.
Print Assumptions C09_step_enabled.

(* termination: any schedule contains at most 17^(L+1) walk steps, L bounding the key lengths
   of the initial trie and of the mutations; and from every reachable state the walk can be
   driven to a complete fog *)
Theorem C09_step_bound : forall L t0 s w, canonical_top t0 = true -> sched_ok s ->
  keys_bounded L t0 -> sched_bounded L s -> trun_walk (twalk_init t0) s = Some w ->
  (N.of_nat (count_steps s) + fog_potential L (tw_fog w) <= pow17 (S L))%N.
Proof. exact TWalk_proofs.C09_terminates. Qed.
Print Assumptions C09_step_bound.

Theorem C09_can_finish : forall t0 s w, canonical_top t0 = true -> sched_ok s ->
  trun_walk (twalk_init t0) s = Some w ->
  exists s' w', steps_only s' /\ trun_walk w s' = Some w' /\ tw_fog w' = [].
Proof. exact TWalk_proofs.C09_can_finish. Qed.
Print Assumptions C09_can_finish.

(* non-vacuity: a concrete schedule with a delete collapsing a branch, an insert splitting a
   leaf, stale-version steps and a simulated node, reaching a complete fog *)
Print Assumptions C09_example.

(* ---------------- database level ---------------- *)
(* [w_init prune use ws0]: the trie built by the writes ws0 (pruning or not), a fresh fog, an empty
   frontier cache, cache used or not; [ops]: any list of walk steps (either query, any key), set /
   delete between steps, cache resets and iterator reads ([allowed]); [writes_of ops] the writes
   among them; [mets ops outs] the (key, value) pairs the steps reported. *)

(* every run of the database-level walk is a schedule of the tree-level system: same fog, same
   pairs met, same number of steps *)
Theorem C09_D_refines : forall prune use ws0 ops, Forall allowed ops ->
  cf K (hist_bodies K (ws0 ++ writes_of ops)) ->
  Forall (fun b => (blen b < 2 ^ 64)%N) (hist_bodies K (ws0 ++ writes_of ops)) ->
  let t0 := trun (map top_of ws0) in let w0 := w_init prune use ws0 in
  canonical_top t0 = true /\
  exists s tw, sched_ok s /\ trun_walk (twalk_init t0) s = Some tw /\
    wrel (hist_bodies K (ws0 ++ writes_of ops)) (wfinal w0 ops) tw /\
    sched_muts s = map top_of (writes_of ops) /\
    tw_versions tw = vers_after [t0] (map top_of (writes_of ops)) /\
    count_steps s = steps_done ops (wrun w0 ops) /\
    map met_pair_obs (tw_met tw) = mets ops (wrun w0 ops).
Proof. exact DWalk_proofs.wrun_refines. Qed.
Print Assumptions C09_D_refines.

(* hence, for the database-level walk: stable keys are met or still covered; a complete fog means
   every stable key was met; nothing is met that was never stored; no key twice; on an
   unchanging trie the pairs met are exactly the contents, each once *)
Theorem C09_D : forall prune use ws0 ops, Forall allowed ops ->
  cf K (hist_bodies K (ws0 ++ writes_of ops)) ->
  Forall (fun b => (blen b < 2 ^ 64)%N) (hist_bodies K (ws0 ++ writes_of ops)) ->
  let t0 := trun (map top_of ws0) in let w0 := w_init prune use ws0 in
  let versions := vers_after [t0] (map top_of (writes_of ops)) in
  exists met : bindings,
    mets ops (wrun w0 ops) = map met_pair_obs met /\
    fog_inv (w_fog (wfinal w0 ops)) /\
    (forall k v, v <> [] -> nibs_ok k = true -> (forall t, In t versions -> tget t k = v) ->
       In (k, v) met \/ exists p, In p (w_fog (wfinal w0 ops)) /\ is_prefix p k) /\
    (w_fog (wfinal w0 ops) = [] ->
       forall k v, v <> [] -> nibs_ok k = true -> (forall t, In t versions -> tget t k = v) -> In (k, v) met) /\
    (forall k v, In (k, v) met -> v <> [] /\ nibs_ok k = true /\ exists t, In t versions /\ tget t k = v) /\
    NoDup (map fst met) /\
    (writes_of ops = [] -> w_fog (wfinal w0 ops) = [] ->
       (forall k v, In (k, v) met <-> In (k, v) (contents t0)) /\ NoDup met).
Proof. exact DWalk_proofs.wrun_C09. Qed.
Print Assumptions C09_D.

(* termination: at most 17^(L+1) successful steps, and from any reached state finitely many
   steps complete the fog — pruning or not, whatever the cache holds *)
Theorem C09_D_step_bound : forall L prune use ws0 ops, Forall allowed ops ->
  cf K (hist_bodies K (ws0 ++ writes_of ops)) ->
  Forall (fun b => (blen b < 2 ^ 64)%N) (hist_bodies K (ws0 ++ writes_of ops)) ->
  keys_bounded L (trun (map top_of ws0)) ->
  Forall (fun wo : Refine_write.wop => (2 * length (fst wo) <= L)%nat) (writes_of ops) ->
  (N.of_nat (steps_done ops (wrun (w_init prune use ws0) ops)) <= pow17 (S L))%N.
Proof. exact DWalk_proofs.wrun_step_bound. Qed.
Print Assumptions C09_D_step_bound.

Theorem C09_D_can_finish : forall prune use ws0 ops, Forall allowed ops ->
  cf K (hist_bodies K (ws0 ++ writes_of ops)) ->
  Forall (fun b => (blen b < 2 ^ 64)%N) (hist_bodies K (ws0 ++ writes_of ops)) ->
  exists n, w_fog (wfinal (w_init prune use ws0) (ops ++ repeat (WStep true []) n)) = [].
Proof. exact DWalk_proofs.wrun_can_finish. Qed.
Print Assumptions C09_D_can_finish.

(* non-vacuity with the real keccak256: sets, steps, a delete collapsing a branch, stale-cache reads,
   a MissingTraversalNode stutter on the pruning trie, a simulated node; plus the machine-checked
   counterexample showing that the frontier cache can hold a SIMULATED parent *)
Print Assumptions ex_run_nonpruning.
Print Assumptions ex_run_pruning.
Print Assumptions ex_C09.
Print Assumptions ex_cache_holds_simulated_node.
