(* Properties/C08.v — traverse / traverse_from describe the canonical node at every nibble path.
   Tree level (Hexary/TreeTraverse.v: [ttraverse] = _traverse_from with the references erased;
   [annotate] = annotate_node; [simulated] = TraversedPartialPath.simulated_node; [describe] =
   what a caller sees at a path).  For every canonical trie and every valid nibble path, of
   any length.  Only the property theorems (Tree_traverse_proofs.v).
   Database level: the read refinement (a store that represents a tree is traversed exactly
   like the tree) is in Hexary/Refine_read.v; "reads at most one database entry per child hop" is
   C08_reads_one_per_hop / C08_reads_only (Hexary/D_reads.v), whose read list the harness compares
   with the reads counted on the implementation through a proxy database. *)
From Coq Require Import List NArith Bool Sorted.
From PyTrie.Base Require Import Bytes Result Nibbles.
From PyTrie.Base Require Import AMap Rlp.
From PyTrie.Hexary Require Import Raw Tree TreeTraverse Tree_aux Tree_map Tree_unique Tree_traverse_proofs D D_read D_reads Refine_read.
From PyTrie.Fog Require Import Walk Walk_proofs.
Import ListNotations.

(* blank exactly when no stored key starts with the path *)
Theorem C08_blank : forall t p, canonical_top t = true -> nibs_ok p = true ->
  (ttraverse t p = TAt NBlank <-> forall q, nibs_ok q = true -> tget t (p ++ q) = []).
Proof. exact Tree_traverse_proofs.C08_blank. Qed.
Print Assumptions C08_blank.

(* the node found at a path IS the canonical trie of the keys below the path ... *)
Theorem C08_node_is_subtrie : forall t p n, wf t = true -> nibs_ok p = true -> ttraverse t p = TAt n ->
  forall q, nibs_ok q = true -> tget n q = tget t (p ++ q).
Proof. exact ttraverse_at. Qed.
Print Assumptions C08_node_is_subtrie.

Theorem C08_node_canonical : forall t p n, canonical_top t = true -> nibs_ok p = true ->
  ttraverse t p = TAt n -> canonical_top n = true.
Proof. exact ttraverse_canonical. Qed.
Print Assumptions C08_node_canonical.

(* ... so what a caller sees at p is the annotation of THE canonical node for the keys below p
   (m is any canonical tree with those contents, e.g. the Yellow-Paper construction) — this
   covers both the exact and the partial (simulated node) outcome *)
Theorem C08_describe : forall t p m, canonical_top t = true -> nibs_ok p = true -> canonical_top m = true ->
  (forall q, nibs_ok q = true -> tget m q = tget t (p ++ q)) -> describe t p = annotate m.
Proof. exact Tree_traverse_proofs.C08_describe. Qed.
Print Assumptions C08_describe.

(* what the annotation of a canonical node says: leaf / extension / branch *)
Theorem C08_annotation : forall n, canonical n = true ->
  let a := annotate n in
  match a_type a with
  | TBlank => False
  | TLeaf => a_segs a = [] /\ a_value a <> [] /\ nibs_ok (a_suffix a) = true /\
      forall q, tget n q = if nibbles_eqb q (a_suffix a) then a_value a else []
  | TExt => a_suffix a = [] /\ a_value a = [] /\ tget n [] = [] /\
      exists p, a_segs a = [p] /\ p <> [] /\ nibs_ok p = true /\
        (forall q, Tree_unique.stored n q -> exists r, q = p ++ r) /\
        exists r1 r2, Tree_unique.stored n (p ++ r1) /\ Tree_unique.stored n (p ++ r2) /\ hd_error r1 <> hd_error r2
  | TBranch => a_suffix a = [] /\ a_value a = tget n [] /\ StronglySorted nkey_lt (a_segs a) /\
      (forall s, In s (a_segs a) <-> exists i, s = [i] /\ exists q, Tree_unique.stored n (i :: q)) /\
      two_heads n
  end.
Proof. exact annotate_spec. Qed.
Print Assumptions C08_annotation.

(* coverage: every stored key below a node is its own value/suffix or continues under exactly one sub-segment *)
Theorem C08_cover : forall n q, canonical n = true -> nibs_ok q = true -> tget n q <> [] ->
  (q = a_suffix (annotate n) /\ a_value (annotate n) = tget n q) \/
  (exists s, In s (a_segs (annotate n)) /\ s <> [] /\ exists r, q = s ++ r).
Proof. exact annotate_cover. Qed.
Print Assumptions C08_cover.

(* TraversedPartialPath: reached ++ tail = path, the node is the enclosing leaf / extension at
   [reached], and the simulated node describes what lies below the path *)
Theorem C08_partial : forall t p reached n tail, wf t = true -> nibs_ok p = true ->
  ttraverse t p = TPartial reached n tail ->
  reached ++ tail = p /\ tail <> [] /\ (exists pp v, n = NLeaf pp v \/ exists c, n = NExt pp c) /\
  (forall q, nibs_ok q = true -> tget (simulated n tail) q = tget t (p ++ q)) /\
  (forall q, nibs_ok q = true -> tget n q = tget t (reached ++ q)).
Proof. exact ttraverse_partial. Qed.
Print Assumptions C08_partial.

(* traverse_from(node at prefix, segment) = traverse(prefix ++ segment) *)
Theorem C08_from : forall t pre seg n, wf t = true -> nibs_ok pre = true -> nibs_ok seg = true ->
  ttraverse t pre = TAt n ->
  ttraverse t (pre ++ seg) =
  match ttraverse_from n seg [] with
  | TAt m => TAt m
  | TPartial reached m tail => TPartial (pre ++ reached) m tail
  end.
Proof. exact Tree_traverse_proofs.C08_from. Qed.
Print Assumptions C08_from.

(* root_node = traverse(()) *)
Theorem C08_root : forall t, ttraverse t [] = TAt t.
Proof. exact Tree_traverse_proofs.C08_root. Qed.
Print Assumptions C08_root.

(* database level: on a store that represents a tree, traverse(path) returns exactly the
   annotation of the tree-level result (sub_segments, value, suffix, raw node, type), and a
   partial traversal raises TraversedPartialPath with exactly the tree-level fields and
   simulated node *)
Theorem C08_traverse_refines : forall H BNH, (forall x, length (H x) = 32%nat) -> BNH = H (rlp_encode (RStr [])) ->
  forall m r t, represents H m r t -> wf t = true -> ext_ok t = true -> decodable H t -> no_blank_collision H BNH t ->
  forall p, nibs_ok p = true -> fst (traverse BNH p (plain m r)) = traverse_spec H t p.
Proof. exact Refine_read.traverse_refines. Qed.
Print Assumptions C08_traverse_refines.

(* traverse_from(parent, seg) on the node reached at prefix p returns exactly the annotation of
   the tree-level traversal of seg below that node (hence agrees with traverse(p ++ seg), by
   C08_from) *)
Theorem C08_traverse_from_refines : forall H, (forall x, length (H x) = 32%nat) ->
  forall m r t, represents H m r t -> canonical_top t = true -> decodable H t -> no_blank_collision H Walk.BNH t ->
  forall p n seg, nibs_ok p = true -> ttraverse t p = TAt n -> nibs_ok seg = true ->
  fst (traverse_from Walk.BNH (enc H n) seg (plain m r)) = traverse_spec H n seg.
Proof. exact Walk_proofs.traverse_from_refines. Qed.
Print Assumptions C08_traverse_from_refines.

(* traverse_from reads at most one database entry per child hop: [traverse_from_reads] lists the keys it
   looks up (none for a blank or embedded reference, one for a hashed one), for EVERY store, start node and
   segment ... *)
Theorem C08_reads_one_per_hop : forall BNH m r raw seg,
  (length (traverse_from_reads BNH (traverse_fuel seg) raw seg (plain m r))
   <= traverse_from_hops BNH (traverse_fuel seg) raw seg (plain m r))%nat.
Proof. exact traverse_from_reads_one_per_hop. Qed.
Print Assumptions C08_reads_one_per_hop.

(* hence never more than |segment| + 2 reads, whatever the database holds (malformed nodes included) *)
Theorem C08_reads_bound : forall BNH m r raw seg,
  (length (traverse_from_reads BNH (traverse_fuel seg) raw seg (plain m r)) <= S (S (length seg)))%nat.
Proof. exact traverse_from_reads_bound. Qed.
Print Assumptions C08_reads_bound.

(* ... and that list really is everything the traversal reads: on any other database that agrees with this one
   at the listed keys (e.g. one from which every other entry has been deleted), traverse_from returns the same
   node / raises the same exception, and looks up the same keys *)
Theorem C08_reads_only : forall BNH m m' r r' raw seg,
  (forall h, In h (traverse_from_reads BNH (traverse_fuel seg) raw seg (plain m r)) -> aget m' h = aget m h) ->
  fst (traverse_from BNH raw seg (plain m' r')) = fst (traverse_from BNH raw seg (plain m r)) /\
  traverse_from_reads BNH (traverse_fuel seg) raw seg (plain m' r') =
  traverse_from_reads BNH (traverse_fuel seg) raw seg (plain m r).
Proof. exact traverse_from_reads_only. Qed.
Print Assumptions C08_reads_only.
