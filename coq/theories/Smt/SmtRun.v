(* Smt/SmtRun.v — operation language of the C14 / C15 correspondence checks,
   instantiated with Keccak-256.  Definitions only. *)
From Coq Require Import List NArith ZArith Bool.
From Coq.Init Require Import Byte.
From PyTrie.Base Require Import Bytes Result AMap Keccak.
From PyTrie.Binary Require Import BinEnc.
From PyTrie.Smt Require Import Smt.
Import ListNotations.

Inductive mop :=
| MSet (k v : bytes) | MDelete (k : bytes) | MGet (k : bytes) | MExists (k : bytes)
| MBranch (k : bytes)
| MCalcRoot (k : bytes)        (* calc_root(k, get(k), branch(k)) *)
| MFromDbGet (k : bytes)       (* from_db(db, root, key_size, default).get(k) *)
| MReopen                       (* continue with from_db(db, root, key_size, default) as the tree *)
| MRoot.

Definition K := keccak256.
Definition obl (l : list bytes) : obs := OL (map OB l).

Definition mstep (t : smt) (o : mop) : smt * obs :=
  match o with
  | MSet k v => match smt_set K t k v with
                | Ok (t', ups) => (t', obl ups)
                | Err e => (t, exn_obs e)
                end
  | MDelete k => match smt_delete K t k with
                 | Ok (t', ups) => (t', obl ups)
                 | Err e => (t, exn_obs e)
                 end
  | MGet k => (t, res_obs OB (smt_get t k))
  | MExists k => (t, res_obs obool (smt_exists t k))
  | MBranch k => (t, res_obs obl (smt_branch t k))
  | MCalcRoot k =>
      (t, match smt_get t k, smt_branch t k with
          | Ok v, Ok br => res_obs OB (calc_root K k v br)
          | Err e, _ => exn_obs e
          | _, Err e => exn_obs e
          end)
  | MFromDbGet k =>
      (t, match smt_from_db K (s_db t) (s_root t) (s_keysize t) (s_default t) with
          | Ok t2 => res_obs OB (smt_get t2 k)
          | Err e => exn_obs e
          end)
  | MReopen =>
      match smt_from_db K (s_db t) (s_root t) (s_keysize t) (s_default t) with
      | Ok t2 => (t2, ONone)
      | Err e => (t, exn_obs e)
      end
  | MRoot => (t, OB (s_root t))
  end.

Fixpoint mrun (t : smt) (ops : list mop) : list obs :=
  match ops with
  | [] => []
  | o :: ops' => let '(t', x) := mstep t o in x :: mrun t' ops'
  end.

Definition c14_run (c : nat * bytes * list mop) : obs :=
  let '(ks, d, ops) := c in
  match smt_new K ks d with
  | Ok t => OL (OB (s_root t) :: mrun t ops)
  | Err e => exn_obs e
  end.

(* The specification root, from the final mapping alone.  [merkle_sparse] recomputes the
   default sub-roots at every empty subtree; [merkle_sparse_fast] looks them up in a table
   computed once (proved equal in Smt_proofs). *)
Fixpoint default_roots (n : nat) (d : bytes) : list bytes :=   (* index i = default_root i d, i <= n *)
  match n with
  | O => [K d]
  | S n' => let l := default_roots n' d in
            let h := last l [] in l ++ [K (h ++ h)]
  end.

Fixpoint merkle_sparse_fast (tbl : list bytes) (n : nat) (d : bytes) (bs : list (bits * bytes)) : bytes :=
  match bs with
  | [] => nth n tbl []
  | _ =>
      match n with
      | O => K (match bs with (_, v) :: _ => v | [] => d end)
      | S n' =>
          let '(l, r) := split_bindings bs in
          K (merkle_sparse_fast tbl n' d l ++ merkle_sparse_fast tbl n' d r)
      end
  end.

Definition c14_spec_root (c : nat * bytes * list (bytes * bytes)) : obs :=
  let '(ks, d, bindings) := c in
  let n := (8 * ks)%nat in
  OB (merkle_sparse_fast (default_roots n d) n d
        (map (fun e : bytes * bytes => (encode_to_bin (fst e), snd e)) bindings)).

(* the slow, directly specified version on the same input (used on small depths) *)
Definition c14_spec_root_slow (c : nat * bytes * list (bytes * bytes)) : obs :=
  let '(ks, d, bindings) := c in
  OB (merkle_sparse K (8 * ks) d (map (fun e : bytes * bytes => (encode_to_bin (fst e), snd e)) bindings)).

(* C15: a proof tracked through a stream of updates *)
Inductive pop :=
| PUpdate (k v : bytes) (truncate : option nat)   (* tree.set(k, v); proof.update(k, v, updates[:truncate]) *)
| PDelete (k : bytes) (truncate : option nat).

Definition proof_obs (p : sproof) : obs :=
  OL [OB (p_value p); obl (p_branch p); res_obs OB (proof_root K p)].

Fixpoint prun (t : smt) (p : sproof) (ops : list pop) : list obs :=
  match ops with
  | [] => []
  | o :: ops' =>
      let '(k, r, tr) := match o with
                         | PUpdate k v tr => (k, (smt_set K t k v, v), tr)
                         | PDelete k tr => (k, (smt_delete K t k, s_default t), tr)
                         end in
      match r with
      | (Ok (t', ups), v) =>
          let ups' := match tr with Some n => firstn n ups | None => ups end in
          match proof_update p k v ups' with
          | Ok p' => OL [ONone; proof_obs p'; OB (s_root t')] :: prun t' p' ops'
          | Err e =>
              (* rejected: the proof is unchanged; the holder then re-creates it from the tree *)
              let p2 := match _get t' (p_key p) with
                        | Ok (v2, br2) => match proof_new (p_key p) v2 br2 with Ok q => q | Err _ => p end
                        | Err _ => p
                        end in
              OL [exn_obs e; proof_obs p; OB (s_root t')] :: prun t' p2 ops'
          end
      | (Err e, _) => OL [exn_obs e] :: prun t p ops'
      end
  end.

(* key_size, default, prior ops, tracked key, stream *)
Definition c15_run (c : nat * bytes * list mop * bytes * list pop) : obs :=
  let '(ks, d, prior, key, stream) := c in
  match smt_new K ks d with
  | Err e => exn_obs e
  | Ok t0 =>
      let t := fold_left (fun t o => fst (mstep t o)) prior t0 in
      match _get t key with
      | Err e => exn_obs e
      | Ok (v, br) =>
          match proof_new key v br with
          | Err e => exn_obs e
          | Ok p => OL (proof_obs p :: prun t p stream)
          end
      end
  end.
