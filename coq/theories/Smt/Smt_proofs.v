(* Smt/Smt_proofs.v — proofs of C14 / C15 for the SparseMerkleTree model.
   The hash function is abstract and NEVER assumed injective: every theorem that
   needs collision-freeness takes an explicit premise [cf L] over a finite list [L]
   of node bodies (the bodies in / written to the store). *)
From Coq Require Import List NArith ZArith Bool Arith Lia ZifyBool.
From Coq.Init Require Import Byte.
From PyTrie.Base Require Import Bytes Bytes_proofs Result AMap AMap_proofs.
From PyTrie.Binary Require Import BinEnc.
From PyTrie.Smt Require Import Smt.
Import ListNotations.
Open Scope res_scope.

(* ------------------------------------------------------------------ *)
(* bit strings *)

Lemma bits_eqb_eq a : forall b, bits_eqb a b = true <-> a = b.
Proof.
  induction a as [|x a IH]; intros [|y b]; cbn; split; intro Hab;
    try reflexivity; try discriminate.
  - apply andb_true_iff in Hab as [H1 H2]. apply eqb_prop in H1. apply IH in H2. congruence.
  - injection Hab as -> ->. rewrite eqb_reflx. apply IH; reflexivity.
Qed.

Lemma bits_eqb_refl a : bits_eqb a a = true.
Proof. apply bits_eqb_eq; reflexivity. Qed.

Lemma bits_eqb_neq a b : a <> b -> bits_eqb a b = false.
Proof.
  intro Hn. destruct (bits_eqb a b) eqn:E; [|reflexivity].
  apply bits_eqb_eq in E. contradiction.
Qed.

Lemma byte_to_bits_N x : bits_to_N (byte_to_bits x) = b2n x.
Proof. destruct x; vm_compute; reflexivity. Qed.

Lemma byte_to_bits_inj x y : byte_to_bits x = byte_to_bits y -> x = y.
Proof.
  intro Heq. apply b2n_inj. rewrite <- !byte_to_bits_N, Heq. reflexivity.
Qed.

Lemma byte_to_bits_surj (a7 a6 a5 a4 a3 a2 a1 a0 : bool) :
  exists x, byte_to_bits x = [a7; a6; a5; a4; a3; a2; a1; a0].
Proof.
  exists (n2b (bits_to_N [a7; a6; a5; a4; a3; a2; a1; a0])).
  destruct a7, a6, a5, a4, a3, a2, a1, a0; vm_compute; reflexivity.
Qed.

Lemma encode_to_bin_length k : length (encode_to_bin k) = (8 * length k)%nat.
Proof.
  induction k as [|x k IH]; [reflexivity|].
  cbn [encode_to_bin]. rewrite app_length, IH. unfold byte_to_bits. cbn [length]. lia.
Qed.

Lemma encode_to_bin_inj a : forall b, encode_to_bin a = encode_to_bin b -> a = b.
Proof.
  induction a as [|x a IH]; intros [|y b] Heq.
  - reflexivity.
  - cbn [encode_to_bin] in Heq. unfold byte_to_bits in Heq. cbn [app] in Heq. discriminate.
  - cbn [encode_to_bin] in Heq. unfold byte_to_bits in Heq. cbn [app] in Heq. discriminate.
  - cbn [encode_to_bin] in Heq.
    assert (Hb : byte_to_bits x = byte_to_bits y /\ encode_to_bin a = encode_to_bin b).
    { unfold byte_to_bits in *. cbn [app] in Heq.
      injection Heq as E7 E6 E5 E4 E3 E2 E1 E0 Et.
      split; [congruence|exact Et]. }
    destruct Hb as [Hx Ht]. apply byte_to_bits_inj in Hx. apply IH in Ht. congruence.
Qed.

Lemma bits_eqb_encode a b : bits_eqb (encode_to_bin a) (encode_to_bin b) = bytes_eqb a b.
Proof.
  destruct (bytes_eqb a b) eqn:E.
  - apply bytes_eqb_eq in E. subst. apply bits_eqb_refl.
  - apply bits_eqb_neq. intro Heq. apply encode_to_bin_inj in Heq.
    apply bytes_eqb_neq in E. contradiction.
Qed.

Lemma encode_to_bin_surj ks : forall p, length p = (8 * ks)%nat ->
  exists k, length k = ks /\ encode_to_bin k = p.
Proof.
  induction ks as [|ks IH]; intros p Hp.
  - destruct p; [|discriminate]. exists []. split; reflexivity.
  - destruct p as [|a7 [|a6 [|a5 [|a4 [|a3 [|a2 [|a1 [|a0 p]]]]]]]]; try (cbn in Hp; lia).
    destruct (IH p) as (k & Hk & He); [cbn in Hp; lia|].
    destruct (byte_to_bits_surj a7 a6 a5 a4 a3 a2 a1 a0) as [x Hx].
    exists (x :: k). split; [cbn; lia|].
    cbn [encode_to_bin]. rewrite Hx, He. reflexivity.
Qed.

Lemma firstn_skipn_app {A} (l r : list A) n :
  length l = n -> firstn n (l ++ r) = l /\ skipn n (l ++ r) = r.
Proof.
  revert n. induction l as [|x l IH]; intros n Hn; cbn in Hn; subst n; cbn.
  - split; reflexivity.
  - destruct (IH (length l) eq_refl) as [H1 H2]. rewrite H1, H2. split; reflexivity.
Qed.

(* ------------------------------------------------------------------ *)
Section SmtProofs.
  Variable H : bytes -> bytes.
  Hypothesis H_len : forall x, length (H x) = 32%nat.

  (* point update of a leaf function *)
  Definition upd (g : bits -> bytes) (bs : bits) (v : bytes) : bits -> bytes :=
    fun p => if bits_eqb p bs then v else g p.

  Lemma upd_same g bs v : upd g bs v bs = v.
  Proof. unfold upd. rewrite bits_eqb_refl. reflexivity. Qed.

  Lemma upd_other g bs v p : p <> bs -> upd g bs v p = g p.
  Proof. intro Hn. unfold upd. rewrite bits_eqb_neq by exact Hn. reflexivity. Qed.

  (* ---------------- the specification function [merkle] ---------------- *)
  Lemma merkle_ext_len n : forall g g',
    (forall p, length p = n -> g p = g' p) -> merkle H n g = merkle H n g'.
  Proof.
    induction n as [|n IH]; intros g g' Hg; cbn [merkle].
    - rewrite (Hg [] eq_refl). reflexivity.
    - f_equal. f_equal; apply IH; intros p Hp; apply Hg; cbn; lia.
  Qed.

  Lemma merkle_ext n g g' : (forall p, g p = g' p) -> merkle H n g = merkle H n g'.
  Proof. intro Hg. apply merkle_ext_len. intros p _. apply Hg. Qed.

  Lemma merkle_len n g : length (merkle H n g) = 32%nat.
  Proof. destruct n; cbn [merkle]; apply H_len. Qed.

  Lemma default_root_merkle n d : default_root H n d = merkle H n (fun _ => d).
  Proof.
    induction n as [|n IH]; cbn [default_root merkle]; [reflexivity|].
    rewrite IH. reflexivity.
  Qed.

  (* siblings (root to leaf) of the path [bs] in the tree with leaf function [g] *)
  Fixpoint sibs (n : nat) (g : bits -> bytes) (bs : bits) : list bytes :=
    match n, bs with
    | S n', b :: bs' =>
        merkle H n' (fun p => g (negb b :: p)) :: sibs n' (fun p => g (b :: p)) bs'
    | _, _ => []
    end.

  (* hashes of the nodes on the path [bs] at depths 1..n (root excluded), root to leaf *)
  Fixpoint path_hashes (n : nat) (g : bits -> bytes) (bs : bits) : list bytes :=
    match n, bs with
    | S n', b :: bs' =>
        merkle H n' (fun p => g (b :: p)) :: path_hashes n' (fun p => g (b :: p)) bs'
    | _, _ => []
    end.

  Lemma sibs_length : forall bs n g, length bs = n -> length (sibs n g bs) = n.
  Proof.
    induction bs as [|b bs IH]; intros n g Hl; cbn in Hl; subst n; cbn [sibs length].
    - reflexivity.
    - rewrite IH; reflexivity.
  Qed.

  Lemma path_hashes_length : forall bs n g, length bs = n -> length (path_hashes n g bs) = n.
  Proof.
    induction bs as [|b bs IH]; intros n g Hl; cbn in Hl; subst n; cbn [path_hashes length].
    - reflexivity.
    - rewrite IH; reflexivity.
  Qed.

  Lemma sibs_upd : forall bs n g v, sibs n (upd g bs v) bs = sibs n g bs.
  Proof.
    induction bs as [|b bs IH]; intros n g v; destruct n as [|n]; try reflexivity.
    cbn [sibs]. f_equal.
    - destruct b; reflexivity.
    - rewrite <- (IH n (fun p => g (b :: p)) v). destruct b; reflexivity.
  Qed.

  (* ---------------- representation invariant ---------------- *)
  Fixpoint reprS (db : amap bytes) (h : bytes) (n : nat) (g : bits -> bytes) : Prop :=
    match n with
    | O => h = H (g []) /\ aget db h = Some (g [])
    | S n' => exists l r, h = H (l ++ r) /\ aget db h = Some (l ++ r) /\
              reprS db l n' (fun p => g (false :: p)) /\
              reprS db r n' (fun p => g (true :: p))
    end.

  Lemma reprS_merkle : forall n db h g, reprS db h n g -> h = merkle H n g.
  Proof.
    induction n as [|n IH]; intros db h g Hr; cbn [reprS merkle] in *.
    - destruct Hr as [Hh _]. exact Hh.
    - destruct Hr as (l & r & Hh & _ & Hl & Hr).
      apply IH in Hl. apply IH in Hr. subst. reflexivity.
  Qed.

  Lemma reprS_len n db h g : reprS db h n g -> length h = 32%nat.
  Proof. intro Hr. apply reprS_merkle in Hr. subst. apply merkle_len. Qed.

  Lemma reprS_ext_fun : forall n db h g g',
    (forall p, g p = g' p) -> reprS db h n g -> reprS db h n g'.
  Proof.
    induction n as [|n IH]; intros db h g g' Hg Hr; cbn [reprS] in *.
    - rewrite <- (Hg []). exact Hr.
    - destruct Hr as (l & r & Hh & Ha & Hl & Hr). exists l, r.
      repeat split; try assumption.
      + eapply IH; [|exact Hl]. intro p; apply Hg.
      + eapply IH; [|exact Hr]. intro p; apply Hg.
  Qed.

  (* [descend] under the invariant *)
  Lemma descend_spec : forall bs n g db h,
    reprS db h n g -> length bs = n ->
    descend db h bs = Ok (H (g bs), sibs n g bs) /\ aget db (H (g bs)) = Some (g bs).
  Proof.
    induction bs as [|b bs IH]; intros n g db h Hr Hl; cbn in Hl; subst n.
    - cbn in Hr. destruct Hr as [Hh Hg]. subst h. cbn. split; [reflexivity|exact Hg].
    - cbn [reprS] in Hr. destruct Hr as (l & r & Hh & Ha & Hrl & Hrr).
      cbn [descend]. unfold db_lookup. rewrite Ha. cbn [rbind].
      destruct (firstn_skipn_app l r 32 (reprS_len _ _ _ _ Hrl)) as [Hf Hs].
      rewrite Hf, Hs.
      pose proof (reprS_merkle _ _ _ _ Hrl) as Hml.
      pose proof (reprS_merkle _ _ _ _ Hrr) as Hmr.
      destruct b.
      + destruct (IH (length bs) _ db r Hrr eq_refl) as [Hd Hg].
        rewrite Hd. cbn [rbind sibs negb]. rewrite <- Hml. split; [reflexivity|exact Hg].
      + destruct (IH (length bs) _ db l Hrl eq_refl) as [Hd Hg].
        rewrite Hd. cbn [rbind sibs negb]. rewrite <- Hmr. split; [reflexivity|exact Hg].
  Qed.

  (* ---------------- collision freeness, store extension ---------------- *)
  Definition cf (L : list bytes) : Prop :=
    forall x y, In x L -> In y L -> H x = H y -> x = y.

  Lemma cf_incl L L' : incl L' L -> cf L -> cf L'.
  Proof. intros Hi Hc x y Hx Hy. apply Hc; apply Hi; assumption. Qed.

  (* every content-addressed entry of [db] is still there in [db'] *)
  Definition dext (db db' : amap bytes) : Prop :=
    forall y, aget db (H y) = Some y -> aget db' (H y) = Some y.

  Lemma dext_refl db : dext db db.
  Proof. intros y Hy; exact Hy. Qed.

  Lemma dext_trans a b c : dext a b -> dext b c -> dext a c.
  Proof. intros Hab Hbc y Hy. apply Hbc, Hab, Hy. Qed.

  Lemma aget_In_snd (db : amap bytes) k v : aget db k = Some v -> In v (map snd db).
  Proof. intro Hg. apply aget_In in Hg. apply (in_map snd) in Hg. exact Hg. Qed.

  Lemma aget_aset_same (db : amap bytes) k x : aget (aset db k x) k = Some x.
  Proof. rewrite aget_aset, bytes_eqb_refl. reflexivity. Qed.

  Lemma aset_dext L db x :
    cf L -> incl (map snd db) L -> In x L -> dext db (aset db (H x) x).
  Proof.
    intros Hc Hi Hx y Hy. rewrite aget_aset.
    destruct (bytes_eqb (H y) (H x)) eqn:E; [|exact Hy].
    apply bytes_eqb_eq in E. f_equal. symmetry. apply Hc; try assumption.
    apply Hi. eapply aget_In_snd; exact Hy.
  Qed.

  Lemma aset_incl L (db : amap bytes) k x :
    incl (map snd db) L -> In x L -> incl (map snd (aset db k x)) L.
  Proof.
    intros Hi Hx. induction db as [|[k0 v0] db IH]; cbn in *.
    - intros y [Hy|[]]. subst; exact Hx.
    - destruct (bytes_eqb k k0); cbn.
      + intros y [Hy|Hy]; [subst; exact Hx|]. apply Hi. right; exact Hy.
      + intros y [Hy|Hy]; [apply Hi; left; exact Hy|].
        apply IH; [|exact Hy]. intros z Hz. apply Hi. right; exact Hz.
  Qed.

  Lemma reprS_dext : forall n db db' h g, dext db db' -> reprS db h n g -> reprS db' h n g.
  Proof.
    induction n as [|n IH]; intros db db' h g Hd Hr; cbn [reprS] in *.
    - destruct Hr as [Hh Ha]. split; [exact Hh|]. subst h. apply Hd. exact Ha.
    - destruct Hr as (l & r & Hh & Ha & Hl & Hr). exists l, r.
      repeat split; try assumption.
      + subst h. apply Hd. exact Ha.
      + eapply IH; eassumption.
      + eapply IH; eassumption.
  Qed.

  (* ---------------- the rebuild of set(), top-down ---------------- *)
  (* returns the new hash of the subtree root, the hashes below it on the path (root to
     leaf) and the store, with the subtree root itself written *)
  Fixpoint set_td (v : bytes) (bs : bits) (sb : list bytes) (db : amap bytes)
    : bytes * list bytes * amap bytes :=
    match bs, sb with
    | b :: bs', s :: sb' =>
        let '(h, ups, db') := set_td v bs' sb' db in
        let body := if b then s ++ h else h ++ s in
        (H body, h :: ups, aset db' (H body) body)
    | _, _ => (H v, [], aset db (H v) v)
    end.

  Lemma rebuild_app : forall rb rs node db b s,
    length rb = length rs ->
    rebuild H node (rb ++ [b]) (rs ++ [s]) db =
    let '(top, ups, db') := rebuild H node rb rs db in
    ((if b then s ++ H top else H top ++ s), ups ++ [H top], aset db' (H top) top).
  Proof.
    induction rb as [|x rb IH]; intros [|y rs] node db b s Hlen; try discriminate.
    - reflexivity.
    - cbn [app rebuild]. rewrite IH by (cbn in Hlen; lia).
      destruct (rebuild H (if x then y ++ H node else H node ++ y) rb rs
                  (aset db (H node) node)) as [[top ups] db'].
      reflexivity.
  Qed.

  Lemma rebuild_set_td : forall bs sb, length bs = length sb -> forall v db,
    let '(top, ups, db') := rebuild H v (rev bs) (rev sb) db in
    set_td v bs sb db = (H top, rev ups, aset db' (H top) top).
  Proof.
    induction bs as [|b bs IH]; intros [|s sb] Hlen v db; try discriminate.
    - reflexivity.
    - cbn [rev]. rewrite rebuild_app by (rewrite !rev_length; cbn in Hlen; lia).
      specialize (IH sb ltac:(cbn in Hlen; lia) v db).
      destruct (rebuild H v (rev bs) (rev sb) db) as [[top ups] db'].
      cbn [set_td]. rewrite IH. rewrite rev_unit. reflexivity.
  Qed.

  (* the node bodies written by one set(), from its inputs and returned hashes *)
  Fixpoint bodies_of (v : bytes) (bs : bits) (sb ups : list bytes) : list bytes :=
    match bs, sb, ups with
    | b :: bs', s :: sb', u :: ups' => (if b then s ++ u else u ++ s) :: bodies_of v bs' sb' ups'
    | _, _, _ => [v]
    end.

  Lemma set_td_spec L db v :
    cf L -> incl (map snd db) L ->
    forall bs n g h0, reprS db h0 n g -> length bs = n ->
    forall h ups db',
      set_td v bs (sibs n g bs) db = (h, ups, db') ->
      incl (bodies_of v bs (sibs n g bs) ups) L ->
      dext db db' /\ incl (map snd db') L /\
      reprS db' h n (upd g bs v) /\ ups = path_hashes n (upd g bs v) bs.
  Proof.
    intros Hc Hi. induction bs as [|b bs IH]; intros n g h0 Hr Hl h ups db' Hs Hb;
      cbn in Hl; subst n.
    - cbn in Hs. injection Hs as <- <- <-. cbn in Hb.
      assert (Hv : In v L) by (apply Hb; left; reflexivity).
      split; [eapply aset_dext; eassumption|].
      split; [apply aset_incl; assumption|].
      split; [|reflexivity].
      cbn. split; [reflexivity|apply aget_aset_same].
    - cbn [reprS] in Hr. destruct Hr as (l & r & Hh & Ha & Hrl & Hrr).
      pose proof (reprS_merkle _ _ _ _ Hrl) as Hml.
      pose proof (reprS_merkle _ _ _ _ Hrr) as Hmr.
      cbn [sibs set_td] in Hs.
      destruct (set_td v bs (sibs (length bs) (fun p => g (b :: p)) bs) db)
        as [[h1 ups1] db1] eqn:E1.
      injection Hs as <- <- <-.
      cbn [sibs bodies_of] in Hb.
      apply incl_cons_inv in Hb. destruct Hb as [Hbody Hb].
      destruct b; cbn [negb] in *.
      + destruct (IH _ _ r Hrr eq_refl _ _ _ E1 Hb) as (Hd1 & Hi1 & Hr1 & Hu1).
        rewrite <- Hml in *.
        assert (Hd2 : dext db1 (aset db1 (H (l ++ h1)) (l ++ h1)))
          by (eapply aset_dext; eassumption).
        split; [eapply dext_trans; eassumption|].
        split; [apply aset_incl; assumption|].
        split.
        * cbn [reprS]. exists l, h1. split; [reflexivity|].
          split; [apply aget_aset_same|]. split.
          -- eapply reprS_dext; [|exact Hrl]. eapply dext_trans; eassumption.
          -- eapply reprS_dext; [exact Hd2|exact Hr1].
        * cbn [path_hashes]. f_equal; [|exact Hu1].
          apply reprS_merkle in Hr1. exact Hr1.
      + destruct (IH _ _ l Hrl eq_refl _ _ _ E1 Hb) as (Hd1 & Hi1 & Hr1 & Hu1).
        rewrite <- Hmr in *.
        assert (Hd2 : dext db1 (aset db1 (H (h1 ++ r)) (h1 ++ r)))
          by (eapply aset_dext; eassumption).
        split; [eapply dext_trans; eassumption|].
        split; [apply aset_incl; assumption|].
        split.
        * cbn [reprS]. exists h1, r. split; [reflexivity|].
          split; [apply aget_aset_same|]. split.
          -- eapply reprS_dext; [exact Hd2|exact Hr1].
          -- eapply reprS_dext; [|exact Hrr]. eapply dext_trans; eassumption.
        * cbn [path_hashes]. f_equal; [|exact Hu1].
          apply reprS_merkle in Hr1. exact Hr1.
  Qed.

  (* ---------------- __init__ ---------------- *)
  (* bodies written by smt_new: the default leaf and the n default nodes above it *)
  Fixpoint init_bodies (n : nat) (node : bytes) : list bytes :=
    node :: match n with O => [] | S n' => init_bodies n' (H node ++ H node) end.

  (* [node] is the body of the all-default subtree of depth k whose strict
     descendants are already in [db] *)
  Definition node_ok (d : bytes) (k : nat) (node : bytes) (db : amap bytes) : Prop :=
    match k with
    | O => node = d
    | S k' => exists h, node = h ++ h /\ reprS db h k' (fun _ => d)
    end.

  Lemma node_ok_write L d k node db :
    cf L -> incl (map snd db) L -> In node L -> node_ok d k node db ->
    reprS (aset db (H node) node) (H node) k (fun _ => d).
  Proof.
    intros Hc Hi Hn Hk. destruct k as [|k]; cbn in Hk.
    - subst node. cbn. split; [reflexivity|apply aget_aset_same].
    - destruct Hk as (h & -> & Hr). cbn [reprS]. exists h, h.
      split; [reflexivity|]. split; [apply aget_aset_same|].
      assert (Hd : dext db (aset db (H (h ++ h)) (h ++ h))) by (eapply aset_dext; eassumption).
      split; eapply reprS_dext; eassumption.
  Qed.

  Lemma init_chain_spec L d :
    cf L ->
    forall n k node db top db',
      incl (map snd db) L -> incl (init_bodies n node) L ->
      node_ok d k node db ->
      init_chain H n node db = (top, db') ->
      incl (map snd db') L /\ In top L /\ node_ok d (n + k) top db'.
  Proof.
    intros Hc. induction n as [|n IH]; intros k node db top db' Hi Hb Hk He.
    - cbn in He. injection He as <- <-. cbn in Hb.
      split; [exact Hi|]. split; [apply Hb; left; reflexivity|exact Hk].
    - cbn [init_chain] in He. cbn [init_bodies] in Hb.
      apply incl_cons_inv in Hb. destruct Hb as [Hn Hb].
      replace (S n + k)%nat with (n + S k)%nat by lia.
      eapply IH; [| exact Hb | | exact He].
      + apply aset_incl; assumption.
      + cbn [node_ok]. exists (H node). split; [reflexivity|].
        eapply node_ok_write; eassumption.
  Qed.

  Lemma smt_new_ok ks d :
    (1 <= ks <= 32)%nat -> exists t, smt_new H ks d = Ok t.
  Proof.
    intros Hks. unfold smt_new.
    replace (Nat.leb 1 ks && Nat.leb ks 32)%bool with true by lia.
    destruct (init_chain H (8 * ks) d []) as [node db]. eexists; reflexivity.
  Qed.

  Lemma smt_new_fields ks d t :
    smt_new H ks d = Ok t -> s_keysize t = ks /\ s_default t = d /\ (1 <= ks <= 32)%nat.
  Proof.
    unfold smt_new. destruct (Nat.leb 1 ks && Nat.leb ks 32)%bool eqn:E; [|discriminate].
    destruct (init_chain H (8 * ks) d []) as [node db]. intro Heq.
    injection Heq as <-. cbn. repeat split; lia.
  Qed.

  (* NOTE: needs collision freeness of the 8*ks+1 default bodies (see the counterexample
     [smt_new_repr_needs_cf] at the end of the file) *)
  Theorem smt_new_repr L ks d t :
    cf L -> incl (init_bodies (8 * ks) d) L ->
    smt_new H ks d = Ok t ->
    reprS (s_db t) (s_root t) (8 * ks) (fun _ => d) /\ incl (map snd (s_db t)) L.
  Proof.
    intros Hc Hb. unfold smt_new.
    destruct (Nat.leb 1 ks && Nat.leb ks 32)%bool; [|discriminate].
    destruct (init_chain H (8 * ks) d []) as [node db] eqn:E. intro Heq.
    injection Heq as <-. cbn [s_db s_root].
    destruct (init_chain_spec L d Hc (8 * ks) 0 d [] node db) as (Hi & Hn & Hk);
      [intros x []|exact Hb|reflexivity|exact E|].
    rewrite Nat.add_0_r in Hk.
    split; [eapply node_ok_write; eassumption|apply aset_incl; assumption].
  Qed.

  (* ---------------- reads ---------------- *)
  Lemma validate_key_ok t key : length key = s_keysize t -> validate_key t key = Ok tt.
  Proof. intro Hl. unfold validate_key. rewrite Hl, Nat.eqb_refl. reflexivity. Qed.

  Lemma validate_key_bad t key : length key <> s_keysize t -> validate_key t key = Err EValidation.
  Proof.
    intro Hl. unfold validate_key. destruct (Nat.eqb_spec (length key) (s_keysize t)); [contradiction|reflexivity].
  Qed.

  Lemma key_bits_length t key :
    length key = s_keysize t -> length (encode_to_bin key) = depth_of t.
  Proof. intro Hl. rewrite encode_to_bin_length, Hl. reflexivity. Qed.

  Lemma get_spec t key g :
    reprS (s_db t) (s_root t) (depth_of t) g -> length key = s_keysize t ->
    _get t key = Ok (g (encode_to_bin key), sibs (depth_of t) g (encode_to_bin key)).
  Proof.
    intros Hr Hl. unfold _get. rewrite validate_key_ok by exact Hl. cbn [rbind].
    destruct (descend_spec _ _ _ _ _ Hr (key_bits_length t key Hl)) as [Hd Ha].
    rewrite Hd. cbn [rbind]. unfold db_lookup. rewrite Ha. reflexivity.
  Qed.

  Definition is_blank (v : bytes) : bool := match v with [] => true | _ => false end.

  (* C14: get / exists / branch in terms of the leaf function *)
  Theorem C14_get t key g :
    reprS (s_db t) (s_root t) (depth_of t) g -> length key = s_keysize t ->
    smt_get t key =
      (if is_blank (g (encode_to_bin key)) then Err (Exn T_KeyError [])
       else Ok (g (encode_to_bin key))) /\
    smt_exists t key = Ok (negb (is_blank (g (encode_to_bin key)))) /\
    smt_branch t key =
      (if is_blank (g (encode_to_bin key)) then Err (Exn T_KeyError [])
       else Ok (sibs (depth_of t) g (encode_to_bin key))).
  Proof.
    intros Hr Hl. pose proof (get_spec t key g Hr Hl) as Hg.
    unfold smt_exists, smt_get, smt_branch. rewrite validate_key_ok by exact Hl.
    rewrite Hg. cbn [rbind].
    destruct (g (encode_to_bin key)) as [|x v]; cbn; repeat split; reflexivity.
  Qed.

  Theorem C14_get_badkey t key :
    length key <> s_keysize t ->
    smt_get t key = Err EValidation /\ smt_exists t key = Err EValidation /\
    smt_branch t key = Err EValidation /\
    (forall v, smt_set H t key v = Err EValidation) /\ smt_delete H t key = Err EValidation.
  Proof.
    intro Hl. unfold smt_get, smt_exists, smt_branch, smt_set, smt_delete, _get.
    rewrite validate_key_bad by exact Hl. cbn. repeat split; reflexivity.
  Qed.

  (* ---------------- calc_root ---------------- *)
  Lemma fold_root_app : forall rb rs h b s,
    length rb = length rs ->
    fold_root H h (rb ++ [b]) (rs ++ [s]) =
    H (if b then s ++ fold_root H h rb rs else fold_root H h rb rs ++ s).
  Proof.
    induction rb as [|x rb IH]; intros [|y rs] h b s Hlen; try discriminate.
    - reflexivity.
    - cbn [app fold_root]. rewrite IH by (cbn in Hlen; lia). reflexivity.
  Qed.

  Lemma fold_root_spec : forall bs n g, length bs = n ->
    fold_root H (H (g bs)) (rev bs) (rev (sibs n g bs)) = merkle H n g.
  Proof.
    induction bs as [|b bs IH]; intros n g Hl; cbn in Hl; subst n.
    - reflexivity.
    - cbn [sibs rev length]. rewrite fold_root_app
        by (rewrite !rev_length, sibs_length; reflexivity).
      pose proof (IH (length bs) (fun p => g (b :: p)) eq_refl) as IHb. cbn beta in IHb.
      destruct b; cbn [negb merkle]; (f_equal; f_equal; exact IHb).
  Qed.

  Lemma calc_root_spec key g v :
    calc_root H key v (sibs (8 * length key) g (encode_to_bin key)) =
    Ok (merkle H (8 * length key) (upd g (encode_to_bin key) v)).
  Proof.
    unfold calc_root.
    rewrite sibs_length by apply encode_to_bin_length. rewrite Nat.eqb_refl.
    f_equal. rewrite <- (sibs_upd (encode_to_bin key) _ g v).
    rewrite <- (upd_same g (encode_to_bin key) v) at 1.
    apply fold_root_spec. apply encode_to_bin_length.
  Qed.

  (* C14: calc_root(key, value, branch(key)) is the current root *)
  Theorem C14_branch t key g v br :
    reprS (s_db t) (s_root t) (depth_of t) g -> length key = s_keysize t ->
    _get t key = Ok (v, br) ->
    calc_root H key v br = Ok (s_root t).
  Proof.
    intros Hr Hl Hg. rewrite (get_spec t key g Hr Hl) in Hg. injection Hg as <- <-.
    unfold depth_of. rewrite <- Hl. rewrite calc_root_spec.
    f_equal. rewrite (reprS_merkle _ _ _ _ Hr). unfold depth_of. rewrite <- Hl.
    apply merkle_ext. intro p. unfold upd.
    destruct (bits_eqb p (encode_to_bin key)) eqn:E; [|reflexivity].
    apply bits_eqb_eq in E. subst p. reflexivity.
  Qed.

  Corollary C14_branch' t key g v br :
    reprS (s_db t) (s_root t) (depth_of t) g -> length key = s_keysize t ->
    smt_get t key = Ok v -> smt_branch t key = Ok br ->
    calc_root H key v br = Ok (s_root t).
  Proof.
    intros Hr Hl Hv Hb. destruct (C14_get t key g Hr Hl) as (Hg1 & _ & Hg3).
    rewrite Hg1 in Hv. rewrite Hg3 in Hb.
    destruct (is_blank (g (encode_to_bin key))); [discriminate|].
    injection Hv as <-. injection Hb as <-.
    eapply C14_branch; [exact Hr|exact Hl|]. apply get_spec; assumption.
  Qed.

  (* ---------------- set / delete ---------------- *)
  (* bodies written by [smt_set t key v] (executable) *)
  Definition set_bodies (t : smt) (key v : bytes) : list bytes :=
    match _get t key, smt_set H t key v with
    | Ok (_, br), Ok (_, ups) => bodies_of v (encode_to_bin key) br ups
    | _, _ => []
    end.

  Theorem smt_set_ok t key v g :
    reprS (s_db t) (s_root t) (depth_of t) g -> length key = s_keysize t ->
    exists t' ups, smt_set H t key v = Ok (t', ups).
  Proof.
    intros Hr Hl. unfold smt_set. rewrite validate_key_ok by exact Hl.
    rewrite (get_spec t key g Hr Hl). cbn [rbind].
    destruct (rebuild H v _ _ _) as [[top ups] db']. eexists _, _. reflexivity.
  Qed.

  Theorem smt_set_repr L t key v t' ups g :
    reprS (s_db t) (s_root t) (depth_of t) g -> length key = s_keysize t ->
    cf L -> incl (map snd (s_db t)) L -> incl (set_bodies t key v) L ->
    smt_set H t key v = Ok (t', ups) ->
    reprS (s_db t') (s_root t') (depth_of t') (upd g (encode_to_bin key) v) /\
    ups = path_hashes (depth_of t) (upd g (encode_to_bin key) v) (encode_to_bin key) /\
    s_keysize t' = s_keysize t /\ s_default t' = s_default t /\
    incl (map snd (s_db t')) L /\ dext (s_db t) (s_db t').
  Proof.
    intros Hr Hl Hc Hi Hb Hs. unfold set_bodies in Hb. rewrite Hs in Hb.
    rewrite (get_spec t key g Hr Hl) in Hb.
    unfold smt_set in Hs. rewrite validate_key_ok in Hs by exact Hl.
    rewrite (get_spec t key g Hr Hl) in Hs. cbn [rbind] in Hs.
    pose proof (key_bits_length t key Hl) as Hbl.
    pose proof (rebuild_set_td (encode_to_bin key) (sibs (depth_of t) g (encode_to_bin key))
                  ltac:(rewrite sibs_length by exact Hbl; exact Hbl) v (s_db t)) as Htd.
    destruct (rebuild H v _ _ _) as [[top ups0] db0].
    injection Hs as <- <-. cbn [s_db s_root s_keysize s_default depth_of].
    destruct (set_td_spec L (s_db t) v Hc Hi _ _ _ _ Hr Hbl _ _ _ Htd Hb)
      as (Hd & Hi' & Hr' & Hu).
    repeat split; assumption.
  Qed.

  Lemma smt_delete_eq t key : smt_delete H t key = smt_set H t key (s_default t).
  Proof.
    unfold smt_delete, smt_set. destruct (validate_key t key) as [[]|e]; reflexivity.
  Qed.

  (* ---------------- from_db ---------------- *)
  Theorem C14_from_db t g :
    reprS (s_db t) (s_root t) (depth_of t) g -> (1 <= s_keysize t <= 32)%nat ->
    smt_from_db H (s_db t) (s_root t) (s_keysize t) (s_default t) = Ok t.
  Proof.
    intros Hr Hks. unfold smt_from_db.
    destruct (smt_new_ok (s_keysize t) (s_default t) Hks) as [t0 Ht0]. rewrite Ht0. cbn [rbind].
    rewrite (reprS_len _ _ _ _ Hr). cbn. destruct t; reflexivity.
  Qed.

  (* ---------------- histories of set / delete ---------------- *)
  Inductive sop := SSet (k v : bytes) | SDel (k : bytes).
  Definition sop_key (o : sop) : bytes := match o with SSet k _ => k | SDel k => k end.
  Definition sop_val (d : bytes) (o : sop) : bytes := match o with SSet _ v => v | SDel _ => d end.

  Definition sstep (t : smt) (o : sop) : result (smt * list bytes) :=
    match o with SSet k v => smt_set H t k v | SDel k => smt_delete H t k end.

  Fixpoint srun (t : smt) (ops : list sop) : result smt :=
    match ops with
    | [] => Ok t
    | o :: ops' => let! (t', _) := sstep t o in srun t' ops'
    end.

  Lemma sstep_eq t o : sstep t o = smt_set H t (sop_key o) (sop_val (s_default t) o).
  Proof. destruct o as [k v|k]; cbn; [reflexivity|apply smt_delete_eq]. Qed.

  (* all node bodies written by running [ops] from [t] (executable) *)
  Fixpoint run_bodies (t : smt) (ops : list sop) : list bytes :=
    match ops with
    | [] => []
    | o :: ops' =>
        set_bodies t (sop_key o) (sop_val (s_default t) o) ++
        match sstep t o with Ok (t', _) => run_bodies t' ops' | Err _ => [] end
    end.

  Definition hist_bodies (ks : nat) (d : bytes) (ops : list sop) : list bytes :=
    init_bodies (8 * ks) d ++
    match smt_new H ks d with Ok t => run_bodies t ops | Err _ => [] end.

  (* the leaf function after a history *)
  Fixpoint leaf_after (g : bits -> bytes) (d : bytes) (ops : list sop) : bits -> bytes :=
    match ops with
    | [] => g
    | o :: ops' => leaf_after (upd g (encode_to_bin (sop_key o)) (sop_val d o)) d ops'
    end.

  (* the last value written to key [k], if any *)
  Fixpoint last_write (d : bytes) (ops : list sop) (k : bytes) : option bytes :=
    match ops with
    | [] => None
    | o :: ops' =>
        match last_write d ops' k with
        | Some v => Some v
        | None => if bytes_eqb k (sop_key o) then Some (sop_val d o) else None
        end
    end.

  Definition val_after (d : bytes) (ops : list sop) (k : bytes) : bytes :=
    match last_write d ops k with Some v => v | None => d end.

  Lemma leaf_after_key d : forall ops g k,
    leaf_after g d ops (encode_to_bin k) =
    match last_write d ops k with Some v => v | None => g (encode_to_bin k) end.
  Proof.
    induction ops as [|o ops IH]; intros g k; cbn [leaf_after last_write]; [reflexivity|].
    rewrite IH. destruct (last_write d ops k) as [v|]; [reflexivity|].
    unfold upd. rewrite bits_eqb_encode. destruct (bytes_eqb k (sop_key o)); reflexivity.
  Qed.

  Lemma leaf_after_default d ops k :
    leaf_after (fun _ => d) d ops (encode_to_bin k) = val_after d ops k.
  Proof. rewrite leaf_after_key. reflexivity. Qed.

  Definition tree_inv (L : list bytes) (ks : nat) (d : bytes) (t : smt) (g : bits -> bytes) : Prop :=
    reprS (s_db t) (s_root t) (8 * ks) g /\ s_keysize t = ks /\ s_default t = d /\
    incl (map snd (s_db t)) L.

  Lemma sstep_inv L ks d t g o t' ups :
    cf L -> tree_inv L ks d t g -> length (sop_key o) = ks ->
    incl (set_bodies t (sop_key o) (sop_val (s_default t) o)) L ->
    sstep t o = Ok (t', ups) ->
    tree_inv L ks d t' (upd g (encode_to_bin (sop_key o)) (sop_val d o)) /\
    ups = path_hashes (8 * ks) (upd g (encode_to_bin (sop_key o)) (sop_val d o))
            (encode_to_bin (sop_key o)).
  Proof.
    intros Hc (Hr & Hks & Hd & Hi) Hl Hb Hs. rewrite sstep_eq in Hs.
    assert (Hr0 : reprS (s_db t) (s_root t) (depth_of t) g)
      by (unfold depth_of; rewrite Hks; exact Hr).
    assert (Hl0 : length (sop_key o) = s_keysize t) by lia.
    destruct (smt_set_repr L t _ _ t' ups g Hr0 Hl0 Hc Hi Hb Hs)
      as (Hr' & Hu & Hks' & Hd' & Hi' & _).
    unfold depth_of in *. rewrite Hks', Hks, Hd in *.
    split; [|exact Hu]. repeat split; assumption.
  Qed.

  Lemma srun_inv L ks d : cf L ->
    forall ops t g,
      tree_inv L ks d t g ->
      Forall (fun o => length (sop_key o) = ks) ops ->
      incl (run_bodies t ops) L ->
      exists t', srun t ops = Ok t' /\ tree_inv L ks d t' (leaf_after g d ops).
  Proof.
    intros Hc. induction ops as [|o ops IH]; intros t g Hinv Hf Hb.
    - exists t. split; [reflexivity|exact Hinv].
    - pose proof (Forall_inv Hf) as Hl. pose proof (Forall_inv_tail Hf) as Hf'. cbn beta in Hl.
      cbn [run_bodies] in Hb. apply incl_app_inv in Hb. destruct Hb as [Hb1 Hb2].
      destruct Hinv as (Hr & Hks & Hd & Hi).
      assert (Hr0 : reprS (s_db t) (s_root t) (depth_of t) g)
        by (unfold depth_of; rewrite Hks; exact Hr).
      assert (Hl0 : length (sop_key o) = s_keysize t) by lia.
      destruct (smt_set_ok t (sop_key o) (sop_val (s_default t) o) g Hr0 Hl0)
        as (t1 & ups & Hs).
      rewrite <- sstep_eq in Hs. cbn [srun leaf_after]. rewrite Hs. rewrite Hs in Hb2. cbn [rbind].
      destruct (sstep_inv L ks d t g o t1 ups Hc) as [Hinv1 _]; try assumption.
      { repeat split; assumption. }
      apply IH; assumption.
  Qed.

  (* C14, history level: from smt_new, any history of set/delete with keys of the right
     length runs without error and ends in a tree representing "last value written,
     else default", provided the bodies written along the way are collision free. *)
  Theorem C14_history ks d ops :
    (1 <= ks <= 32)%nat ->
    Forall (fun o => length (sop_key o) = ks) ops ->
    cf (hist_bodies ks d ops) ->
    exists t0 t,
      smt_new H ks d = Ok t0 /\ srun t0 ops = Ok t /\
      tree_inv (hist_bodies ks d ops) ks d t (leaf_after (fun _ => d) d ops) /\
      s_root t0 = merkle H (8 * ks) (fun _ => d).
  Proof.
    intros Hks Hf Hc. destruct (smt_new_ok ks d Hks) as [t0 Ht0].
    pose proof (smt_new_fields ks d t0 Ht0) as (Hk0 & Hd0 & _).
    assert (Hib : incl (init_bodies (8 * ks) d) (hist_bodies ks d ops))
      by (unfold hist_bodies; apply incl_appl, incl_refl).
    destruct (smt_new_repr _ ks d t0 Hc Hib Ht0) as [Hr0 Hi0].
    destruct (srun_inv _ ks d Hc ops t0 (fun _ => d)) as (t & Hrun & Hinv).
    - repeat split; assumption.
    - exact Hf.
    - unfold hist_bodies. rewrite Ht0. apply incl_appr, incl_refl.
    - exists t0, t. repeat split; try assumption; try apply Hinv.
      apply (reprS_merkle _ _ _ _ Hr0).
  Qed.

  (* the root is the Merkle root of the full tree whose leaf at encode_to_bin k holds
     the last value written to k, else the default *)
  Theorem C14_root ks d ops :
    (1 <= ks <= 32)%nat ->
    Forall (fun o => length (sop_key o) = ks) ops ->
    cf (hist_bodies ks d ops) ->
    exists t0 t,
      smt_new H ks d = Ok t0 /\ srun t0 ops = Ok t /\
      s_root t = merkle H (8 * ks) (leaf_after (fun _ => d) d ops) /\
      (forall k, leaf_after (fun _ => d) d ops (encode_to_bin k) = val_after d ops k) /\
      s_root t0 = merkle H (8 * ks) (fun _ => d).
  Proof.
    intros Hks Hf Hc.
    destruct (C14_history ks d ops Hks Hf Hc) as (t0 & t & Hn & Hr & (Hrep & _) & H0).
    exists t0, t. repeat split; try assumption.
    - apply (reprS_merkle _ _ _ _ Hrep).
    - intro k. apply leaf_after_default.
  Qed.

  Lemma merkle_keys ks g g' :
    (forall k, length k = ks -> g (encode_to_bin k) = g' (encode_to_bin k)) ->
    merkle H (8 * ks) g = merkle H (8 * ks) g'.
  Proof.
    intro Hg. apply merkle_ext_len. intros p Hp.
    destruct (encode_to_bin_surj ks p Hp) as (k & Hk & <-). apply Hg. exact Hk.
  Qed.

  (* history independence: two histories with the same final key->value mapping have
     the same root *)
  Theorem C14_root_indep ks d ops1 ops2 t1 t2 t0 :
    (1 <= ks <= 32)%nat ->
    Forall (fun o => length (sop_key o) = ks) ops1 ->
    Forall (fun o => length (sop_key o) = ks) ops2 ->
    cf (hist_bodies ks d ops1) -> cf (hist_bodies ks d ops2) ->
    (forall k, length k = ks -> val_after d ops1 k = val_after d ops2 k) ->
    smt_new H ks d = Ok t0 -> srun t0 ops1 = Ok t1 -> srun t0 ops2 = Ok t2 ->
    s_root t1 = s_root t2.
  Proof.
    intros Hks Hf1 Hf2 Hc1 Hc2 Hv Hn Hr1 Hr2.
    destruct (C14_root ks d ops1 Hks Hf1 Hc1) as (ta & tb & Hna & Hra & Hroot1 & _).
    destruct (C14_root ks d ops2 Hks Hf2 Hc2) as (tc & td & Hnc & Hrc & Hroot2 & _).
    rewrite Hn in Hna, Hnc. injection Hna as <-. injection Hnc as <-.
    rewrite Hr1 in Hra. rewrite Hr2 in Hrc. injection Hra as <-. injection Hrc as <-.
    rewrite Hroot1, Hroot2. apply merkle_keys. intros k Hk.
    rewrite !leaf_after_default. apply Hv. exact Hk.
  Qed.

  (* once everything is cleared the root is the initial root *)
  Theorem C14_root_cleared ks d ops t0 t :
    (1 <= ks <= 32)%nat ->
    Forall (fun o => length (sop_key o) = ks) ops ->
    cf (hist_bodies ks d ops) ->
    (forall k, length k = ks -> val_after d ops k = d) ->
    smt_new H ks d = Ok t0 -> srun t0 ops = Ok t ->
    s_root t = s_root t0.
  Proof.
    intros Hks Hf Hc Hv Hn Hr.
    destruct (C14_root ks d ops Hks Hf Hc) as (ta & tb & Hna & Hra & Hroot & _ & Hroot0).
    rewrite Hn in Hna. injection Hna as <-. rewrite Hr in Hra. injection Hra as <-.
    rewrite Hroot, Hroot0. apply merkle_keys. intros k Hk.
    rewrite leaf_after_default. apply Hv. exact Hk.
  Qed.

  (* reads after a history *)
  Theorem C14_history_reads ks d ops t0 t key :
    (1 <= ks <= 32)%nat ->
    Forall (fun o => length (sop_key o) = ks) ops ->
    cf (hist_bodies ks d ops) ->
    smt_new H ks d = Ok t0 -> srun t0 ops = Ok t -> length key = ks ->
    let v := val_after d ops key in
    smt_get t key = (if is_blank v then Err (Exn T_KeyError []) else Ok v) /\
    smt_exists t key = Ok (negb (is_blank v)) /\
    (exists br, _get t key = Ok (v, br) /\ calc_root H key v br = Ok (s_root t) /\
       smt_branch t key = (if is_blank v then Err (Exn T_KeyError []) else Ok br)) /\
    smt_from_db H (s_db t) (s_root t) ks d = Ok t.
  Proof.
    intros Hks Hf Hc Hn Hr Hl v.
    destruct (C14_history ks d ops Hks Hf Hc) as (ta & tb & Hna & Hra & (Hrep & Hk & Hd & _) & _).
    rewrite Hn in Hna. injection Hna as <-. rewrite Hr in Hra. injection Hra as <-.
    assert (Hr0 : reprS (s_db t) (s_root t) (depth_of t) (leaf_after (fun _ => d) d ops))
      by (unfold depth_of; rewrite Hk; exact Hrep).
    assert (Hl' : length key = s_keysize t) by lia.
    destruct (C14_get t key _ Hr0 Hl') as (Hg1 & Hg2 & Hg3).
    rewrite leaf_after_default in Hg1, Hg2, Hg3. fold v in Hg1, Hg2, Hg3.
    pose proof (get_spec t key _ Hr0 Hl') as Hget. rewrite leaf_after_default in Hget. fold v in Hget.
    split; [exact Hg1|]. split; [exact Hg2|]. split.
    - eexists. split; [exact Hget|]. split; [|exact Hg3].
      eapply C14_branch; eassumption.
    - rewrite <- Hk, <- Hd. eapply C14_from_db; [exact Hr0|lia].
  Qed.

  (* ---------------- merkle_sparse ---------------- *)
  (* value bound to the bit path [p] in [bs] (first binding wins), else the default *)
  Definition lookup_bits (d : bytes) (bs : list (bits * bytes)) (p : bits) : bytes :=
    match find (fun e : bits * bytes => bits_eqb p (fst e)) bs with
    | Some e => snd e
    | None => d
    end.

  Lemma lookup_split_l d bs p :
    lookup_bits d (fst (split_bindings bs)) p = lookup_bits d bs (false :: p).
  Proof.
    unfold lookup_bits, split_bindings. cbn [fst].
    induction bs as [|[k v] bs IH]; [reflexivity|].
    destruct k as [|[|] k]; cbn [flat_map fst snd app find bits_eqb Bool.eqb andb].
    - exact IH.
    - exact IH.
    - destruct (bits_eqb p k); [reflexivity|exact IH].
  Qed.

  Lemma lookup_split_r d bs p :
    lookup_bits d (snd (split_bindings bs)) p = lookup_bits d bs (true :: p).
  Proof.
    unfold lookup_bits, split_bindings. cbn [snd].
    induction bs as [|[k v] bs IH]; [reflexivity|].
    destruct k as [|[|] k]; cbn [flat_map fst snd app find bits_eqb Bool.eqb andb].
    - exact IH.
    - destruct (bits_eqb p k); [reflexivity|exact IH].
    - exact IH.
  Qed.

  Lemma split_bindings_len n (bs : list (bits * bytes)) :
    Forall (fun e => length (fst e) = S n) bs ->
    Forall (fun e : bits * bytes => length (fst e) = n) (fst (split_bindings bs)) /\
    Forall (fun e : bits * bytes => length (fst e) = n) (snd (split_bindings bs)).
  Proof.
    unfold split_bindings. cbn [fst snd].
    induction bs as [|[k v] bs IH]; intro Hf; [split; constructor|].
    pose proof (Forall_inv Hf) as Hk. cbn [fst] in Hk.
    destruct (IH (Forall_inv_tail Hf)) as [IHl IHr].
    destruct k as [|[|] k]; cbn [flat_map fst snd app]; [discriminate| |];
      (split; [try exact IHl|try exact IHr]);
      (constructor; [cbn in *; lia|assumption]).
  Qed.

  (* no distinctness is needed: with duplicate paths the first binding wins on both sides *)
  Theorem merkle_sparse_spec : forall n d (bs : list (bits * bytes)),
    Forall (fun e => length (fst e) = n) bs ->
    merkle_sparse H n d bs = merkle H n (lookup_bits d bs).
  Proof.
    induction n as [|n IH]; intros d bs Hf.
    - destruct bs as [|[k v] bs]; [reflexivity|].
      pose proof (Forall_inv Hf) as Hk. cbn [fst] in Hk.
      destruct k; [|discriminate]. reflexivity.
    - destruct bs as [|e bs].
      + cbn [merkle_sparse]. rewrite default_root_merkle. reflexivity.
      + change (merkle_sparse H (S n) d (e :: bs)) with
          (H (merkle_sparse H n d (fst (split_bindings (e :: bs))) ++
              merkle_sparse H n d (snd (split_bindings (e :: bs))))).
        destruct (split_bindings_len n (e :: bs) Hf) as [Hl Hr].
        rewrite (IH d _ Hl), (IH d _ Hr). cbn [merkle]. f_equal. f_equal.
        * apply merkle_ext. intro p. apply lookup_split_l.
        * apply merkle_ext. intro p. apply lookup_split_r.
  Qed.

  (* ---------------- C15: SparseMerkleProof ---------------- *)
  Definition in_sync (p : sproof) (t : smt) : Prop :=
    _get t (p_key p) = Ok (p_value p, p_branch p).

  Lemma get_ok_len t key x : _get t key = Ok x -> length key = s_keysize t.
  Proof.
    unfold _get, validate_key.
    destruct (Nat.eqb_spec (length key) (s_keysize t)) as [Heq|Hne]; [intros _; exact Heq|].
    cbn. discriminate.
  Qed.

  Lemma first_diff_None : forall a b : bits,
    length a = length b -> first_diff a b = None -> a = b.
  Proof.
    induction a as [|x a IH]; intros [|y b] Hl Hf; try discriminate; [reflexivity|].
    cbn [first_diff] in Hf. destruct (Bool.eqb x y) eqn:E; [|discriminate].
    apply eqb_prop in E. subst y.
    destruct (first_diff a b) eqn:E1; [discriminate|].
    f_equal. apply IH; [cbn in Hl; lia|exact E1].
  Qed.

  Lemma first_diff_Some_lt : forall (a b : bits) bp,
    first_diff a b = Some bp -> (bp < length a)%nat /\ (bp < length b)%nat.
  Proof.
    induction a as [|x a IH]; intros [|y b] bp Hf; try discriminate.
    cbn [first_diff] in Hf. destruct (Bool.eqb x y).
    - destruct (first_diff a b) as [q|] eqn:E1; [|discriminate].
      cbn in Hf. injection Hf as <-. destruct (IH b q E1). cbn [length]. lia.
    - injection Hf as <-. cbn [length]. lia.
  Qed.

  (* effect of an update at path [c] on the siblings of a different path [a] *)
  Lemma sibs_upd_other : forall (a c : bits) n g v bp,
    length a = n -> length c = n -> first_diff a c = Some bp ->
    upd g c v a = g a /\
    exists u, nth_error (path_hashes n (upd g c v) c) bp = Some u /\
              sibs n (upd g c v) a = list_set' (sibs n g a) bp u.
  Proof.
    induction a as [|x a IH]; intros [|y c] n g v bp Ha Hc Hf; try discriminate.
    cbn in Ha. subst n. cbn [first_diff] in Hf.
    destruct (Bool.eqb x y) eqn:E.
    - apply eqb_prop in E. subst y.
      destruct (first_diff a c) as [q|] eqn:E1; [|discriminate].
      cbn in Hf. injection Hf as <-.
      destruct (IH c (length a) (fun p => g (x :: p)) v q eq_refl ltac:(cbn in Hc; lia) E1)
        as (Hv & u & Hn & Hs).
      destruct x.
      + split; [exact Hv|]. exists u. split; [exact Hn|].
        cbn [sibs list_set' negb]. f_equal. exact Hs.
      + split; [exact Hv|]. exists u. split; [exact Hn|].
        cbn [sibs list_set' negb]. f_equal. exact Hs.
    - injection Hf as <-.
      destruct x, y; try discriminate E.
      + split; [reflexivity|]. eexists. split; reflexivity.
      + split; [reflexivity|]. eexists. split; reflexivity.
  Qed.

  Lemma nth_error_firstn {A} (l : list A) m i : (i < m)%nat -> nth_error (firstn m l) i = nth_error l i.
  Proof.
    revert m i. induction l as [|x l IH]; intros m i Hi.
    - rewrite firstn_nil. reflexivity.
    - destruct m as [|m]; [lia|]. destruct i as [|i]; [reflexivity|].
      cbn. apply IH. lia.
  Qed.

  (* one update of the tree, mirrored on the proof *)
  Theorem C15_sync L t g p k v t' ups ups' :
    reprS (s_db t) (s_root t) (depth_of t) g ->
    in_sync p t -> length k = s_keysize t ->
    cf L -> incl (map snd (s_db t)) L -> incl (set_bodies t k v) L ->
    smt_set H t k v = Ok (t', ups) ->
    (forall bp, first_diff (encode_to_bin (p_key p)) (encode_to_bin k) = Some bp ->
                nth_error ups' bp = nth_error ups bp) ->
    exists p', proof_update p k v ups' = Ok p' /\ p_key p' = p_key p /\
               in_sync p' t' /\ proof_root H p' = Ok (s_root t').
  Proof.
    intros Hr Hsync Hl Hc Hi Hb Hs Hups.
    pose proof (get_ok_len _ _ _ Hsync) as Hlp.
    unfold in_sync in Hsync. rewrite (get_spec t (p_key p) g Hr Hlp) in Hsync.
    injection Hsync as Hpv Hpb.
    destruct (smt_set_repr L t k v t' ups g Hr Hl Hc Hi Hb Hs)
      as (Hr' & Hu & Hks' & Hd' & _ & _).
    assert (Hlp' : length (p_key p) = s_keysize t') by lia.
    assert (Hdep : depth_of t' = depth_of t) by (unfold depth_of; rewrite Hks'; reflexivity).
    pose proof (get_spec t' (p_key p) _ Hr' Hlp') as Hget'. rewrite Hdep in Hget'.
    assert (Hgoal : forall p', p_key p' = p_key p ->
              _get t' (p_key p) = Ok (p_value p', p_branch p') ->
              p_key p' = p_key p /\ in_sync p' t' /\ proof_root H p' = Ok (s_root t')).
    { intros p' Hk' Hg'. split; [exact Hk'|]. unfold in_sync, proof_root. rewrite Hk'.
      split; [exact Hg'|]. eapply C14_branch; eassumption. }
    unfold proof_update.
    replace (Nat.eqb (length k) (length (p_key p))) with true
      by (symmetry; apply Nat.eqb_eq; lia).
    cbn [negb].
    pose proof (key_bits_length t _ Hlp) as Hbl1. pose proof (key_bits_length t _ Hl) as Hbl2.
    destruct (first_diff (encode_to_bin (p_key p)) (encode_to_bin k)) as [bp|] eqn:Efd.
    - destruct (sibs_upd_other _ _ (depth_of t) g v bp Hbl1 Hbl2 Efd) as (Hv & u & Hn & Hsb).
      rewrite (Hups bp eq_refl), Hu, Hn.
      eexists. split; [reflexivity|]. apply Hgoal; [reflexivity|].
      cbn [p_value p_branch]. rewrite Hget', Hv, Hsb, Hpv, Hpb. reflexivity.
    - apply first_diff_None in Efd; [|lia].
      eexists. split; [reflexivity|]. apply Hgoal; [reflexivity|].
      cbn [p_value p_branch]. rewrite Hget', <- Efd, upd_same, sibs_upd, Hpb. reflexivity.
  Qed.

  Corollary C15_sync_full L t g p k v t' ups :
    reprS (s_db t) (s_root t) (depth_of t) g ->
    in_sync p t -> length k = s_keysize t ->
    cf L -> incl (map snd (s_db t)) L -> incl (set_bodies t k v) L ->
    smt_set H t k v = Ok (t', ups) ->
    exists p', proof_update p k v ups = Ok p' /\ p_key p' = p_key p /\
               in_sync p' t' /\ proof_root H p' = Ok (s_root t').
  Proof. intros. eapply C15_sync; try eassumption. reflexivity. Qed.

  (* only the hashes down to the first differing bit are needed *)
  Corollary C15_sync_firstn L t g p k v t' ups m :
    reprS (s_db t) (s_root t) (depth_of t) g ->
    in_sync p t -> length k = s_keysize t ->
    cf L -> incl (map snd (s_db t)) L -> incl (set_bodies t k v) L ->
    smt_set H t k v = Ok (t', ups) ->
    (forall bp, first_diff (encode_to_bin (p_key p)) (encode_to_bin k) = Some bp -> (bp < m)%nat) ->
    exists p', proof_update p k v (firstn m ups) = Ok p' /\ p_key p' = p_key p /\
               in_sync p' t' /\ proof_root H p' = Ok (s_root t').
  Proof.
    intros Hr Hsy Hl Hc Hi Hb Hs Hm. eapply C15_sync; try eassumption.
    intros bp Hbp. apply nth_error_firstn. apply Hm. exact Hbp.
  Qed.

  (* a list that stops at or before the first differing bit is rejected; the proof
     object is unchanged since [proof_update] is a pure function of its arguments *)
  Theorem C15_truncated p k v ups' bp :
    first_diff (encode_to_bin (p_key p)) (encode_to_bin k) = Some bp ->
    (length ups' <= bp)%nat ->
    proof_update p k v ups' = Err EValidation.
  Proof.
    intros Hf Hlen. unfold proof_update.
    destruct (negb (Nat.eqb (length k) (length (p_key p)))); [reflexivity|].
    rewrite Hf. apply nth_error_None in Hlen. rewrite Hlen. reflexivity.
  Qed.

  Theorem C15_badlen p k v ups' :
    length k <> length (p_key p) -> proof_update p k v ups' = Err EValidation.
  Proof.
    intro Hl. unfold proof_update.
    destruct (Nat.eqb_spec (length k) (length (p_key p))); [contradiction|reflexivity].
  Qed.

  (* creating the proof from the tree's current value and branch *)
  Lemma proof_new_sync t g key v br :
    reprS (s_db t) (s_root t) (depth_of t) g ->
    _get t key = Ok (v, br) ->
    exists p, proof_new key v br = Ok p /\ p_key p = key /\ in_sync p t /\
              proof_root H p = Ok (s_root t).
  Proof.
    intros Hr Hg. pose proof (get_ok_len _ _ _ Hg) as Hl.
    pose proof Hg as Hg0. rewrite (get_spec t key g Hr Hl) in Hg0. injection Hg0 as Hv Hb.
    unfold proof_new. rewrite <- Hb.
    rewrite sibs_length by (apply key_bits_length; exact Hl).
    unfold depth_of. rewrite <- Hl, Nat.eqb_refl. eexists. split; [reflexivity|].
    split; [reflexivity|]. unfold in_sync, proof_root. cbn [p_key p_value p_branch].
    rewrite Hl. fold (depth_of t). rewrite Hb. split; [exact Hg|].
    eapply C14_branch; eassumption.
  Qed.

  (* the update stream: each element is a set/delete of the tree, with the returned
     hashes optionally truncated before they are given to the proof *)
  Definition trunc (tr : option nat) (ups : list bytes) : list bytes :=
    match tr with Some m => firstn m ups | None => ups end.

  Definition trunc_ok (kp : bytes) (e : sop * option nat) : Prop :=
    match snd e with
    | None => True
    | Some m => forall bp,
        first_diff (encode_to_bin kp) (encode_to_bin (sop_key (fst e))) = Some bp -> (bp < m)%nat
    end.

  Fixpoint prun (t : smt) (p : sproof) (ops : list (sop * option nat)) : result (smt * sproof) :=
    match ops with
    | [] => Ok (t, p)
    | (o, tr) :: ops' =>
        let! (t', ups) := sstep t o in
        let! p' := proof_update p (sop_key o) (sop_val (s_default t) o) (trunc tr ups) in
        prun t' p' ops'
    end.

  Theorem C15_stream L ks d : cf L ->
    forall ops t g p,
      tree_inv L ks d t g -> in_sync p t ->
      Forall (fun e => length (sop_key (fst e)) = ks) ops ->
      Forall (trunc_ok (p_key p)) ops ->
      incl (run_bodies t (map fst ops)) L ->
      exists t' p',
        prun t p ops = Ok (t', p') /\ srun t (map fst ops) = Ok t' /\
        tree_inv L ks d t' (leaf_after g d (map fst ops)) /\
        p_key p' = p_key p /\ in_sync p' t' /\ proof_root H p' = Ok (s_root t').
  Proof.
    intros Hc. induction ops as [|[o tr] ops IH]; intros t g p Hinv Hsync Hf Htr Hb.
    - exists t, p. split; [reflexivity|]. split; [reflexivity|]. split; [exact Hinv|].
      split; [reflexivity|]. split; [exact Hsync|].
      destruct Hinv as (Hr & Hks & _ & _).
      unfold in_sync in Hsync. unfold proof_root.
      eapply C14_branch; [| |exact Hsync].
      + unfold depth_of. rewrite Hks. exact Hr.
      + eapply get_ok_len; exact Hsync.
    - pose proof (Forall_inv Hf) as Hl. pose proof (Forall_inv_tail Hf) as Hf'.
      pose proof (Forall_inv Htr) as Htr1. pose proof (Forall_inv_tail Htr) as Htr'.
      cbn [fst snd] in Hl. unfold trunc_ok in Htr1. cbn [fst snd] in Htr1.
      cbn [map fst run_bodies] in Hb. apply incl_app_inv in Hb. destruct Hb as [Hb1 Hb2].
      pose proof Hinv as (Hr & Hks & Hd & Hi).
      assert (Hr0 : reprS (s_db t) (s_root t) (depth_of t) g)
        by (unfold depth_of; rewrite Hks; exact Hr).
      assert (Hl0 : length (sop_key o) = s_keysize t) by lia.
      destruct (smt_set_ok t (sop_key o) (sop_val (s_default t) o) g Hr0 Hl0)
        as (t1 & ups & Hs).
      assert (Hsync1 : exists p1,
                 proof_update p (sop_key o) (sop_val (s_default t) o) (trunc tr ups) = Ok p1 /\
                 p_key p1 = p_key p /\ in_sync p1 t1 /\ proof_root H p1 = Ok (s_root t1)).
      { destruct tr as [m|]; cbn [trunc].
        - eapply C15_sync_firstn; eassumption.
        - eapply C15_sync_full; eassumption. }
      destruct Hsync1 as (p1 & Hpu & Hk1 & Hsy1 & _).
      rewrite <- sstep_eq in Hs. rewrite Hs in Hb2.
      destruct (sstep_inv L ks d t g o t1 ups Hc Hinv Hl Hb1 Hs) as [Hinv1 _].
      rewrite <- Hk1 in Htr'.
      destruct (IH t1 _ p1 Hinv1 Hsy1 Hf' Htr' Hb2)
        as (t' & p' & Hpr & Hsr & Hinv' & Hk' & Hsy' & Hroot').
      exists t', p'. cbn [prun map fst srun leaf_after]. rewrite Hs. cbn [rbind].
      rewrite Hpu. cbn [rbind].
      repeat split; try assumption; try apply Hinv'. congruence.
  Qed.

  (* C15 from scratch: any prior history, proof created from the tree's current value and
     branch, then any update stream *)
  Lemma run_bodies_prefix : forall ops1 t ops2,
    incl (run_bodies t ops1) (run_bodies t (ops1 ++ ops2)).
  Proof.
    induction ops1 as [|o ops1 IH]; intros t ops2; [intros x []|].
    cbn [app run_bodies]. apply incl_app; [apply incl_appl, incl_refl|].
    apply incl_appr. destruct (sstep t o) as [[t1 u]|e]; [apply IH|intros x []].
  Qed.

  Lemma run_bodies_app : forall ops1 t ops2 t',
    srun t ops1 = Ok t' ->
    run_bodies t (ops1 ++ ops2) = run_bodies t ops1 ++ run_bodies t' ops2.
  Proof.
    induction ops1 as [|o ops1 IH]; intros t ops2 t' Hr.
    - cbn in Hr. injection Hr as <-. reflexivity.
    - cbn [app run_bodies srun] in *. destruct (sstep t o) as [[t1 u]|e]; [|discriminate].
      cbn [rbind] in Hr. rewrite (IH t1 ops2 t' Hr). rewrite app_assoc. reflexivity.
  Qed.

  Theorem C15_history ks d prior key stream :
    (1 <= ks <= 32)%nat ->
    Forall (fun o => length (sop_key o) = ks) prior -> length key = ks ->
    Forall (fun e => length (sop_key (fst e)) = ks) stream ->
    Forall (trunc_ok key) stream ->
    cf (hist_bodies ks d (prior ++ map fst stream)) ->
    exists t0 t v br p t' p',
      smt_new H ks d = Ok t0 /\ srun t0 prior = Ok t /\
      _get t key = Ok (v, br) /\ proof_new key v br = Ok p /\
      prun t p stream = Ok (t', p') /\ srun t (map fst stream) = Ok t' /\
      p_key p' = key /\ _get t' key = Ok (p_value p', p_branch p') /\
      proof_root H p' = Ok (s_root t').
  Proof.
    intros Hks Hf1 Hl Hf2 Htr Hc.
    set (L := hist_bodies ks d (prior ++ map fst stream)) in *.
    destruct (smt_new_ok ks d Hks) as [t0 Ht0].
    pose proof (smt_new_fields ks d t0 Ht0) as (Hk0 & Hd0 & _).
    assert (Hib : incl (init_bodies (8 * ks) d) L)
      by (unfold L, hist_bodies; apply incl_appl, incl_refl).
    assert (Hrb : incl (run_bodies t0 (prior ++ map fst stream)) L)
      by (unfold L, hist_bodies; rewrite Ht0; apply incl_appr, incl_refl).
    destruct (smt_new_repr L ks d t0 Hc Hib Ht0) as [Hr0 Hi0].
    destruct (srun_inv L ks d Hc prior t0 (fun _ => d)) as (t & Hrun & Hinv).
    { repeat split; assumption. }
    { exact Hf1. }
    { eapply incl_tran; [apply run_bodies_prefix|exact Hrb]. }
    rewrite (run_bodies_app prior t0 (map fst stream) t Hrun) in Hrb.
    apply incl_app_inv in Hrb. destruct Hrb as [_ Hrb].
    pose proof Hinv as (Hr & Hkt & Hdt & Hit).
    assert (Hrt : reprS (s_db t) (s_root t) (depth_of t) (leaf_after (fun _ => d) d prior))
      by (unfold depth_of; rewrite Hkt; exact Hr).
    assert (Hlt : length key = s_keysize t) by lia.
    pose proof (get_spec t key _ Hrt Hlt) as Hget.
    destruct (proof_new_sync t _ key _ _ Hrt Hget) as (p & Hpn & Hpk & Hsy & _).
    rewrite <- Hpk in Htr.
    destruct (C15_stream L ks d Hc stream t _ p Hinv Hsy Hf2 Htr Hrb)
      as (t' & p' & Hpr & Hsr & _ & Hk' & Hsy' & Hroot').
    exists t0, t. eexists _, _. exists p, t', p'. unfold in_sync in Hsy'. rewrite Hk', Hpk in Hsy'.
    repeat split; try eassumption. congruence.
  Qed.

  (* boolean check of the collision-freeness premise *)
  Definition cfb (L : list bytes) : bool :=
    let hs := map (fun x => (x, H x)) L in
    forallb (fun a : bytes * bytes =>
      forallb (fun b : bytes * bytes =>
        implb (bytes_eqb (snd a) (snd b)) (bytes_eqb (fst a) (fst b))) hs) hs.

  Lemma cfb_cf L : cfb L = true -> cf L.
  Proof.
    unfold cfb. intros Hb x y Hx Hy Heq.
    rewrite forallb_forall in Hb.
    specialize (Hb (x, H x) (in_map (fun x => (x, H x)) L x Hx)).
    rewrite forallb_forall in Hb.
    specialize (Hb (y, H y) (in_map (fun x => (x, H x)) L y Hy)).
    cbn [fst snd] in Hb. rewrite Heq, bytes_eqb_refl in Hb. cbn [implb] in Hb.
    apply bytes_eqb_eq. exact Hb.
  Qed.

End SmtProofs.

(* ------------------------------------------------------------------ *)
(* The collision premise of [smt_new_repr] cannot be dropped: with a constant "hash"
   every write lands on the same slot, the default leaf is lost and get() returns a
   node body instead of the default. *)
Definition H_const (_ : bytes) : bytes := repeat x00 32.

Lemma H_const_len x : length (H_const x) = 32%nat.
Proof. reflexivity. Qed.

Example smt_new_repr_needs_cf :
  exists t, smt_new H_const 1 [x01] = Ok t /\
            smt_get t [x00] = Ok (repeat x00 64) /\
            ~ reprS H_const (s_db t) (s_root t) 8 (fun _ => [x01]).
Proof.
  eexists. split; [vm_compute; reflexivity|]. split; [vm_compute; reflexivity|].
  intro Hr.
  destruct (descend_spec H_const H_const_len (repeat false 8) 8 _ _ _ Hr eq_refl) as [_ Ha].
  vm_compute in Ha. discriminate.
Qed.

(* ------------------------------------------------------------------ *)
(* Non-vacuity: the premises hold for Keccak-256 on a concrete run. *)
From PyTrie.Base Require Import Keccak.

Lemma le_bytes_length : forall n x, length (le_bytes x n) = n.
Proof. induction n as [|n IH]; intro x; cbn [le_bytes length]; [reflexivity|rewrite IH; reflexivity]. Qed.

Lemma keccak256_len m : length (keccak256 m) = 32%nat.
Proof.
  unfold keccak256, squeeze.
  destruct (absorb_all _ kzero (kpad m)) as
    [a0 a1 a2 a3 a4 a5 a6 a7 a8 a9 a10 a11 a12 a13 a14 a15 a16 a17 a18 a19 a20 a21 a22 a23 a24].
  rewrite !app_length, !le_bytes_length. reflexivity.
Qed.

Definition ex_prior : list sop := [SSet [x01] [x05]; SSet [x80] [x09]].
Definition ex_stream : list (sop * option nat) :=
  [(SSet [x02] [x06], Some 7%nat); (SDel [x01], None); (SSet [x01] [x07], Some 0%nat);
   (SSet [x80] [], Some 1%nat)].

Example C14_keccak_nonvacuous :
  exists t0 t,
    smt_new keccak256 1 [x00] = Ok t0 /\
    srun keccak256 t0 (ex_prior ++ map fst ex_stream) = Ok t /\
    s_root t = merkle keccak256 8
                 (leaf_after (fun _ => [x00]) [x00] (ex_prior ++ map fst ex_stream)) /\
    (forall k, leaf_after (fun _ => [x00]) [x00] (ex_prior ++ map fst ex_stream) (encode_to_bin k)
               = val_after [x00] (ex_prior ++ map fst ex_stream) k) /\
    s_root t0 = merkle keccak256 8 (fun _ => [x00]).
Proof.
  apply (C14_root keccak256 keccak256_len).
  - lia.
  - repeat constructor.
  - apply cfb_cf. vm_compute. reflexivity.
Qed.

Example C15_keccak_nonvacuous :
  exists t0 t v br p t' p',
    smt_new keccak256 1 [x00] = Ok t0 /\ srun keccak256 t0 ex_prior = Ok t /\
    _get t [x01] = Ok (v, br) /\ proof_new [x01] v br = Ok p /\
    prun keccak256 t p ex_stream = Ok (t', p') /\
    srun keccak256 t (map fst ex_stream) = Ok t' /\
    p_key p' = [x01] /\ _get t' [x01] = Ok (p_value p', p_branch p') /\
    proof_root keccak256 p' = Ok (s_root t').
Proof.
  apply (C15_history keccak256 keccak256_len).
  - lia.
  - repeat constructor.
  - reflexivity.
  - repeat constructor.
  - repeat (apply Forall_cons;
      [unfold trunc_ok; cbn [fst snd sop_key]; try exact I; intros bp Hbp;
       vm_compute in Hbp; try discriminate; injection Hbp as <-; lia|]).
    apply Forall_nil.
  - apply cfb_cf. vm_compute. reflexivity.
Qed.

Print Assumptions reprS_merkle.
Print Assumptions smt_new_repr.
Print Assumptions descend_spec.
Print Assumptions smt_set_repr.
Print Assumptions C14_history.
Print Assumptions C14_root.
Print Assumptions C14_root_indep.
Print Assumptions C14_root_cleared.
Print Assumptions C14_get.
Print Assumptions C14_branch.
Print Assumptions C14_from_db.
Print Assumptions C14_history_reads.
Print Assumptions merkle_sparse_spec.
Print Assumptions C15_sync.
Print Assumptions C15_sync_firstn.
Print Assumptions C15_truncated.
Print Assumptions C15_stream.
Print Assumptions C15_history.
Print Assumptions smt_new_repr_needs_cf.
Print Assumptions C14_keccak_nonvacuous.
Print Assumptions C15_keccak_nonvacuous.
