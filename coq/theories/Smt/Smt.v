(* Smt/Smt.v — model of trie/smt.py: SparseMerkleTree, calc_root, SparseMerkleProof,
   and the full-tree Merkle specification.  Definitions only. *)
From Coq Require Import List NArith ZArith Bool.
From Coq.Init Require Import Byte.
From PyTrie.Base Require Import Bytes Result AMap.
From PyTrie.Binary Require Import BinEnc.
Import ListNotations.
Open Scope res_scope.

Section WithHash.
  Variable H : bytes -> bytes.

  Record smt := mkSmt { s_db : amap bytes; s_root : bytes; s_keysize : nat; s_default : bytes }.

  Definition depth_of (t : smt) : nat := 8 * s_keysize t.

  (* __init__: one branch of default nodes, leaf to root *)
  Fixpoint init_chain (n : nat) (node : bytes) (db : amap bytes) : bytes * amap bytes :=
    match n with
    | O => (node, db)
    | S n' => let h := H node in init_chain n' (h ++ h) (aset db h node)
    end.

  Definition smt_new (key_size : nat) (default : bytes) : result smt :=
    if (Nat.leb 1 key_size && Nat.leb key_size 32)%bool then
      let '(node, db) := init_chain (8 * key_size) default [] in
      let root := H node in
      Ok (mkSmt (aset db root node) root key_size default)
    else Err EValidation.

  Definition db_lookup (db : amap bytes) (k : bytes) : result bytes :=
    match aget db k with Some v => Ok v | None => Err (EKeyError k) end.

  (* the descent of _get: bits MSB first; collects siblings root -> leaf *)
  Fixpoint descend (db : amap bytes) (node_hash : bytes) (bs : bits) : result (bytes * list bytes) :=
    match bs with
    | [] => Ok (node_hash, [])
    | b :: bs' =>
        let! node := db_lookup db node_hash in
        let left := firstn 32 node in
        let right := skipn 32 node in
        let! (leaf, branch) := descend db (if b then right else left) bs' in
        Ok (leaf, (if b then left else right) :: branch)
    end.

  Definition validate_key (t : smt) (key : bytes) : result unit :=
    if Nat.eqb (length key) (s_keysize t) then Ok tt else Err EValidation.

  Definition _get (t : smt) (key : bytes) : result (bytes * list bytes) :=
    let! _ := validate_key t key in
    let! (leaf_hash, branch) := descend (s_db t) (s_root t) (encode_to_bin key) in
    let! v := db_lookup (s_db t) leaf_hash in
    Ok (v, branch).

  Definition smt_get (t : smt) (key : bytes) : result bytes :=
    let! (v, _) := _get t key in
    match v with [] => Err (Exn T_KeyError []) | _ => Ok v end.

  Definition smt_branch (t : smt) (key : bytes) : result (list bytes) :=
    let! (v, br) := _get t key in
    match v with [] => Err (Exn T_KeyError []) | _ => Ok br end.

  Definition smt_exists (t : smt) (key : bytes) : result bool :=
    let! _ := validate_key t key in
    match smt_get t key with
    | Ok _ => Ok true
    | Err (Exn 7 _) => Ok false
    | Err e => Err e
    end.

  (* the leaf -> root rebuild of set(): rbits and rbranch are the key bits and the branch,
     both reversed (leaf first). Returns the final node body, the hashes appended to
     proof_update (leaf first) and the database. *)
  Fixpoint rebuild (node : bytes) (rbits : bits) (rbranch : list bytes) (db : amap bytes)
    : bytes * list bytes * amap bytes :=
    match rbits, rbranch with
    | b :: rbits', sib :: rbranch' =>
        let h := H node in
        let db' := aset db h node in
        let '(top, ups, db'') := rebuild (if b then sib ++ h else h ++ sib) rbits' rbranch' db' in
        (top, h :: ups, db'')
    | _, _ => (node, [], db)
    end.

  Definition smt_set (t : smt) (key value : bytes) : result (smt * list bytes) :=
    let! _ := validate_key t key in
    let! (_, branch) := _get t key in
    let '(top, ups, db') := rebuild value (rev (encode_to_bin key)) (rev branch) (s_db t) in
    let root := H top in
    Ok (mkSmt (aset db' root top) root (s_keysize t) (s_default t), rev ups).

  Definition smt_delete (t : smt) (key : bytes) : result (smt * list bytes) :=
    let! _ := validate_key t key in
    smt_set t key (s_default t).

  (* calc_root(key, value, branch) *)
  Fixpoint fold_root (h : bytes) (rbits : bits) (rbranch : list bytes) : bytes :=
    match rbits, rbranch with
    | b :: rbits', sib :: rbranch' => fold_root (H (if b then sib ++ h else h ++ sib)) rbits' rbranch'
    | _, _ => h
    end.

  Definition calc_root (key value : bytes) (branch : list bytes) : result bytes :=
    if Nat.eqb (length branch) (8 * length key) then
      Ok (fold_root (H value) (rev (encode_to_bin key)) (rev branch))
    else Err EValidation.

  Definition smt_from_db (db : amap bytes) (root : bytes) (key_size : nat) (default : bytes) : result smt :=
    let! t := smt_new key_size default in
    if Nat.eqb (length root) 32 then Ok (mkSmt db root key_size default) else Err EValidation.

  (* ---------------- SparseMerkleProof ---------------- *)
  Record sproof := mkProof { p_key : bytes; p_value : bytes; p_branch : list bytes }.

  Definition proof_new (key value : bytes) (branch : list bytes) : result sproof :=
    if Nat.eqb (length branch) (8 * length key) then Ok (mkProof key value branch) else Err EValidation.

  Definition proof_root (p : sproof) : result bytes := calc_root (p_key p) (p_value p) (p_branch p).

  (* index (MSB first) of the first bit where two equally long bit strings differ *)
  Fixpoint first_diff (a b : bits) : option nat :=
    match a, b with
    | x :: a', y :: b' => if Bool.eqb x y then option_map S (first_diff a' b') else Some O
    | _, _ => None
    end.

  Fixpoint list_set' {A} (l : list A) (i : nat) (x : A) : list A :=
    match l, i with
    | [], _ => []
    | _ :: l', O => x :: l'
    | y :: l', S i' => y :: list_set' l' i' x
    end.

  Definition proof_update (p : sproof) (key value : bytes) (updates : list bytes) : result sproof :=
    if negb (Nat.eqb (length key) (length (p_key p))) then Err EValidation
    else
      match first_diff (encode_to_bin (p_key p)) (encode_to_bin key) with
      | None => Ok (mkProof (p_key p) value (p_branch p))
      | Some bp =>
          match nth_error updates bp with
          | None => Err EValidation
          | Some u => Ok (mkProof (p_key p) (p_value p) (list_set' (p_branch p) bp u))
          end
      end.

  (* ---------------- the specification ---------------- *)
  (* Merkle root of the full binary tree of depth n whose leaf at bit-path p (MSB
     first) holds the value [leaf p] *)
  Fixpoint merkle (n : nat) (leaf : bits -> bytes) : bytes :=
    match n with
    | O => H (leaf [])
    | S n' => H (merkle n' (fun p => leaf (false :: p)) ++ merkle n' (fun p => leaf (true :: p)))
    end.

  (* the same root computed sparsely from the finitely many non-default bindings *)
  Fixpoint default_root (n : nat) (d : bytes) : bytes :=
    match n with
    | O => H d
    | S n' => let h := default_root n' d in H (h ++ h)
    end.

  Definition split_bindings (bs : list (bits * bytes)) : list (bits * bytes) * list (bits * bytes) :=
    (flat_map (fun e : bits * bytes => match fst e with false :: p => [(p, snd e)] | _ => [] end) bs,
     flat_map (fun e : bits * bytes => match fst e with true :: p => [(p, snd e)] | _ => [] end) bs).

  Fixpoint merkle_sparse (n : nat) (d : bytes) (bs : list (bits * bytes)) : bytes :=
    match bs with
    | [] => default_root n d
    | _ =>
        match n with
        | O => H (match bs with (_, v) :: _ => v | [] => d end)
        | S n' =>
            let '(l, r) := split_bindings bs in
            H (merkle_sparse n' d l ++ merkle_sparse n' d r)
        end
    end.
End WithHash.
