(* Db/ScratchDb.v — model of trie/utils/db.py (ScratchDB) over a backing store that
   may be made to fail its n-th write.  Definitions only. *)
From Coq Require Import List NArith ZArith Bool.
From PyTrie.Base Require Import Bytes Result AMap.
Import ListNotations.
Open Scope res_scope.

(* The backing store: a Python dict; [budget = Some n] makes the (n+1)-th
   __setitem__ raise (the harness uses a dict subclass that does the same). *)
Record store := mkStore { cells : amap bytes; budget : option nat }.

Definition store_of (m : amap bytes) : store := mkStore m None.

Definition store_get (s : store) (k : bytes) : result bytes :=
  match aget (cells s) k with Some v => Ok v | None => Err (EKeyError k) end.

Definition store_mem (s : store) (k : bytes) : bool := amem (cells s) k.

Definition store_set (s : store) (k v : bytes) : result store :=
  match budget s with
  | Some O => Err EWriteFail
  | Some (S n) => Ok (mkStore (aset (cells s) k v) (Some n))
  | None => Ok (mkStore (aset (cells s) k v) None)
  end.

(* del d[k] *)
Definition store_del (s : store) (k : bytes) : result store :=
  if amem (cells s) k then Ok (mkStore (adel (cells s) k) (budget s))
  else Err (EKeyError k).

(* d.pop(k, None) *)
Definition store_pop (s : store) (k : bytes) : store :=
  mkStore (adel (cells s) k) (budget s).

(* ------------------------------------------------------------------ *)
(* ScratchDB: cache value [None] is the DELETED marker *)
Record scratch := mkScratch { wrapped : store; cache : amap (option bytes) }.

Definition scratch_new (w : store) : scratch := mkScratch w [].

Definition sget (s : scratch) (k : bytes) : result bytes :=
  match aget (cache s) k with
  | Some (Some v) => Ok v
  | Some None => store_get (wrapped s) k
  | None => store_get (wrapped s) k
  end.

Definition sset (s : scratch) (k v : bytes) : scratch :=
  mkScratch (wrapped s) (aset (cache s) k (Some v)).

Definition sdel (s : scratch) (k : bytes) : scratch :=
  mkScratch (wrapped s) (aset (cache s) k None).

Definition scontains (s : scratch) (k : bytes) : bool :=
  match aget (cache s) k with
  | Some (Some _) => true
  | _ => store_mem (wrapped s) k
  end.

(* copy(): merge(wrapped, cache) without the DELETED entries, as a set of bindings.
   (dict order: wrapped's keys first, then new cache keys; compared sorted.) *)
Definition scopy (s : scratch) : amap bytes :=
  let merged :=
    fold_left (fun (acc : amap (option bytes)) (e : bytes * option bytes) =>
                 aset acc (fst e) (snd e))
              (cache s)
              (map (fun e : bytes * bytes => (fst e, Some (snd e))) (cells (wrapped s))) in
  flat_map (fun e : bytes * option bytes =>
              match snd e with Some v => [(fst e, v)] | None => [] end) merged.

(* The else-branch of batch_commit: apply the cache in insertion order.
   Returns the store reached and the exception, if a write failed. *)
Fixpoint apply_cache (do_deletes : bool) (c : amap (option bytes)) (w : store)
  : store * option exn :=
  match c with
  | [] => (w, None)
  | (k, Some v) :: c' =>
      match store_set w k v with
      | Ok w' => apply_cache do_deletes c' w'
      | Err e => (w, Some e)
      end
  | (k, None) :: c' =>
      if do_deletes then apply_cache do_deletes c' (store_pop w k)
      else apply_cache do_deletes c' w
  end.

(* normal exit of the with-block *)
Definition scommit (do_deletes : bool) (s : scratch) : scratch * option exn :=
  let '(w, e) := apply_cache do_deletes (cache s) (wrapped s) in
  (mkScratch w [], e).

(* exit by exception *)
Definition sabort (s : scratch) : scratch := mkScratch (wrapped s) [].

(* A ScratchDB whose wrapped database is itself a ScratchDB (a batch opened inside a batch).
   [read_view s]: what reads THROUGH the layer s see — the wrapped cells overlaid by the buffered
   writes (a DELETED marker reads through to the wrapped value).  The inner layer is modelled as
   a scratch over [store_of (read_view s)].
   [sreplay]: the else-branch of batch_commit when the wrapped database is the layer s: buffered
   writes become writes into s's buffer, buffered deletes become DELETED markers in it (after
   the repair of D4: `del wrapped[key]`; ScratchDB has no pop()); nothing can fail. *)
Definition read_view (s : scratch) : amap bytes :=
  fold_left (fun (acc : amap bytes) (e : bytes * option bytes) =>
               match snd e with Some v => aset acc (fst e) v | None => acc end)
            (cache s) (cells (wrapped s)).

Fixpoint sreplay (do_deletes : bool) (c : amap (option bytes)) (s : scratch) : scratch :=
  match c with
  | [] => s
  | (k, Some v) :: c' => sreplay do_deletes c' (sset s k v)
  | (k, None) :: c' => if do_deletes then sreplay do_deletes c' (sdel s k) else sreplay do_deletes c' s
  end.

(* ------------------------------------------------------------------ *)
(* The state machine used by property C17 and its correspondence check *)
Inductive sop :=
| SGet (k : bytes) | SSet (k v : bytes) | SDel (k : bytes) | SContains (k : bytes) | SCopy.

Definition omap (m : amap bytes) : obs :=
  OL (map (fun e : bytes * bytes => OL [OB (fst e); OB (snd e)]) (asort m)).

Definition sstep (s : scratch) (o : sop) : scratch * obs :=
  match o with
  | SGet k => (s, res_obs OB (sget s k))
  | SSet k v => (sset s k v, ONone)
  | SDel k => (sdel s k, ONone)
  | SContains k => (s, obool (scontains s k))
  | SCopy => (s, omap (scopy s))
  end.

Fixpoint srun (s : scratch) (ops : list sop) : scratch * list obs :=
  match ops with
  | [] => (s, [])
  | o :: ops' =>
      let '(s1, x) := sstep s o in
      let '(s2, xs) := srun s1 ops' in
      (s2, x :: xs)
  end.


(* One whole batch, as the correspondence check drives it:
   exit = Some do_deletes : leave the with-block normally;  None : leave by exception
   (the harness truncates [ops] at the raise position). Observed: per-op results, the
   wrapped store just before exit, the wrapped store afterwards, size of the cache. *)
Definition c17_run (c : amap bytes * list sop * option bool) : obs :=
  let '(init, ops, exit) := c in
  let s0 := scratch_new (store_of init) in
  let '(s1, outs) := srun s0 ops in
  let s2 := match exit with
            | Some dd => fst (scommit dd s1)
            | None => sabort s1
            end in
  OL [OL outs; omap (cells (wrapped s1)); omap (cells (wrapped s2));
      onat (length (cache s2))].
