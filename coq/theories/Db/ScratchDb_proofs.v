(* Db/ScratchDb_proofs.v — proofs about the ScratchDB model *)
From Coq Require Import List NArith Bool.
From PyTrie.Base Require Import Bytes Bytes_proofs Result AMap AMap_proofs.
From PyTrie.Db Require Import ScratchDb.
Import ListNotations.

(* The specification the property is stated against: the last buffered action on a
   key in an operation list ([Some (Some v)] = set v, [Some None] = delete). *)
Fixpoint last_action (ops : list sop) (k : bytes) : option (option bytes) :=
  match ops with
  | [] => None
  | o :: ops' =>
      match last_action ops' k with
      | Some a => Some a
      | None =>
          match o with
          | SSet k' v => if bytes_eqb k k' then Some (Some v) else None
          | SDel k' => if bytes_eqb k k' then Some None else None
          | _ => None
          end
      end
  end.

(* last action, starting from a cache that already holds some *)
Definition overlay (c : amap (option bytes)) (ops : list sop) (k : bytes) :=
  match last_action ops k with Some a => Some a | None => aget c k end.

Lemma sstep_wrapped s o : wrapped (fst (sstep s o)) = wrapped s.
Proof. destruct o; reflexivity. Qed.

Lemma srun_wrapped ops : forall s, wrapped (fst (srun s ops)) = wrapped s.
Proof.
  induction ops as [|o ops IH]; intro s; cbn [srun]; [reflexivity|].
  destruct (sstep s o) as [s1 x] eqn:E1. destruct (srun s1 ops) as [s2 xs] eqn:E2. cbn.
  specialize (IH s1). rewrite E2 in IH. cbn in IH. rewrite IH.
  pose proof (sstep_wrapped s o) as Hw. rewrite E1 in Hw. exact Hw.
Qed.

Lemma srun_cache ops : forall s k,
  aget (cache (fst (srun s ops))) k = overlay (cache s) ops k.
Proof.
  unfold overlay.
  induction ops as [|o ops IH]; intros s k; cbn [srun last_action]; [reflexivity|].
  destruct (sstep s o) as [s1 x] eqn:E1. destruct (srun s1 ops) as [s2 xs] eqn:E2. cbn [fst].
  specialize (IH s1 k). rewrite E2 in IH. cbn [fst] in IH. rewrite IH.
  destruct (last_action ops k) as [a|]; [reflexivity|].
  destruct o; cbn in E1; injection E1 as <- _; unfold sset, sdel; cbn [cache]; try reflexivity.
  - rewrite aget_aset. destruct (bytes_eqb k k0); reflexivity.
  - rewrite aget_aset. destruct (bytes_eqb k k0); reflexivity.
Qed.

Lemma srun_cache_nodup ops : forall s,
  NoDup (akeys (cache s)) -> NoDup (akeys (cache (fst (srun s ops)))).
Proof.
  induction ops as [|o ops IH]; intros s Hnd; cbn [srun]; [exact Hnd|].
  destruct (sstep s o) as [s1 x] eqn:E1. destruct (srun s1 ops) as [s2 xs] eqn:E2. cbn [fst].
  specialize (IH s1). rewrite E2 in IH. cbn [fst] in IH. apply IH.
  destruct o; cbn in E1; injection E1 as <- _; unfold sset, sdel; cbn [cache]; try exact Hnd;
    apply akeys_aset_nodup; exact Hnd.
Qed.

(* reads inside the batch *)
Lemma sget_spec s k :
  sget s k = match aget (cache s) k with
             | Some (Some v) => Ok v
             | _ => store_get (wrapped s) k
             end.
Proof. unfold sget. destruct (aget (cache s) k) as [[v|]|]; reflexivity. Qed.

(* commit on a store that does not fail *)
Lemma apply_cache_spec dd c : forall w,
  budget w = None -> NoDup (akeys c) ->
  let '(w', e) := apply_cache dd c w in
  e = None /\ budget w' = None /\
  forall k, aget (cells w') k =
            match aget c k with
            | Some (Some v) => Some v
            | Some None => if dd then None else aget (cells w) k
            | None => aget (cells w) k
            end.
Proof.
  induction c as [|[k0 [v0|]] c IH]; intros w Hb Hnd; cbn [apply_cache].
  - repeat split; try assumption. 
  - unfold store_set. rewrite Hb.
    inversion Hnd as [|? ? Hnotin Hnd']; subst.
    specialize (IH (mkStore (aset (cells w) k0 v0) None) eq_refl Hnd').
    destruct (apply_cache dd c (mkStore (aset (cells w) k0 v0) None)) as [w' e].
    destruct IH as (He & Hb' & Hget). repeat split; try assumption.
    intro k. rewrite Hget. cbn [aget cells].
    destruct (bytes_eqb k k0) eqn:E.
    + apply bytes_eqb_eq in E; subst k0.
      rewrite (aget_notin c k Hnotin). rewrite aget_aset, bytes_eqb_refl. reflexivity.
    + rewrite aget_aset, E. reflexivity.
  - inversion Hnd as [|? ? Hnotin Hnd']; subst.
    destruct dd.
    + specialize (IH (store_pop w k0) Hb Hnd').
      destruct (apply_cache true c (store_pop w k0)) as [w' e].
      destruct IH as (He & Hb' & Hget). repeat split; try assumption.
      intro k. rewrite Hget. cbn [aget store_pop cells].
      destruct (bytes_eqb k k0) eqn:E.
      * apply bytes_eqb_eq in E; subst k0.
        rewrite (aget_notin c k Hnotin). rewrite aget_adel, bytes_eqb_refl. reflexivity.
      * rewrite aget_adel, E. reflexivity.
    + specialize (IH w Hb Hnd').
      destruct (apply_cache false c w) as [w' e].
      destruct IH as (He & Hb' & Hget). repeat split; try assumption.
      intro k. rewrite Hget. cbn [aget].
      destruct (bytes_eqb k k0) eqn:E.
      * apply bytes_eqb_eq in E; subst k0.
        rewrite (aget_notin c k Hnotin). reflexivity.
      * reflexivity.
Qed.

(* --- the four statements of property C17 ---------------------------------- *)

Lemma no_write_during w ops :
  wrapped (fst (srun (scratch_new w) ops)) = w.
Proof. rewrite srun_wrapped. reflexivity. Qed.

Lemma read_spec w ops k :
  sget (fst (srun (scratch_new w) ops)) k =
  match last_action ops k with
  | Some (Some v) => Ok v
  | Some None | None => store_get w k
  end.
Proof.
  rewrite sget_spec, srun_cache, srun_wrapped. unfold overlay. cbn [scratch_new cache wrapped aget].
  destruct (last_action ops k) as [[v|]|]; reflexivity.
Qed.

Lemma contains_spec w ops k :
  scontains (fst (srun (scratch_new w) ops)) k =
  match last_action ops k with
  | Some (Some v) => true
  | Some None | None => store_mem w k
  end.
Proof.
  unfold scontains. rewrite srun_cache, srun_wrapped. unfold overlay. cbn [scratch_new cache wrapped aget].
  destruct (last_action ops k) as [[v|]|]; reflexivity.
Qed.

Lemma commit_spec w ops dd :
  budget w = None ->
  let '(s', e) := scommit dd (fst (srun (scratch_new w) ops)) in
  e = None /\ cache s' = [] /\
  forall k, aget (cells (wrapped s')) k =
            match last_action ops k with
            | Some (Some v) => Some v
            | Some None => if dd then None else aget (cells w) k
            | None => aget (cells w) k
            end.
Proof.
  intro Hb. unfold scommit.
  remember (fst (srun (scratch_new w) ops)) as s1 eqn:Hs1.
  assert (Hw : wrapped s1 = w) by (subst s1; apply srun_wrapped).
  assert (Hnd : NoDup (akeys (cache s1)))
    by (subst s1; apply srun_cache_nodup; constructor).
  assert (Hc : forall k, aget (cache s1) k = last_action ops k).
  { intro k. subst s1. rewrite srun_cache. unfold overlay. cbn [scratch_new cache aget].
    destruct (last_action ops k); reflexivity. }
  pose proof (apply_cache_spec dd (cache s1) (wrapped s1)) as Hs.
  rewrite Hw in *. specialize (Hs Hb Hnd).
  destruct (apply_cache dd (cache s1) w) as [w' e].
  destruct Hs as (He & _ & Hget). cbn [wrapped cache]. repeat split; try assumption.
  intro k. rewrite Hget, Hc.
  destruct (last_action ops k) as [[v|]|]; reflexivity.
Qed.

(* exit by exception at any position: [ops] is whatever prefix of the block ran *)
Lemma abort_spec w ops :
  let s' := sabort (fst (srun (scratch_new w) ops)) in
  wrapped s' = w /\ cache s' = [].
Proof. cbn. rewrite srun_wrapped. split; reflexivity. Qed.

(* the buffer is empty after a commit even when a write of the commit fails *)
Lemma commit_clears_cache dd s : cache (fst (scommit dd s)) = [].
Proof. unfold scommit. destruct (apply_cache dd (cache s) (wrapped s)). reflexivity. Qed.

(* ------------------------------------------------------------------ *)
(* A ScratchDB whose wrapped database is itself a ScratchDB (a squash_changes block opened on
   a batch trie): the inner layer over [store_of (read_view s1)], committed into the layer s1
   by [sreplay]. *)

Lemma aget_overlay_fold (c : amap (option bytes)) : NoDup (akeys c) -> forall (acc : amap bytes) k,
  aget (fold_left (fun (acc : amap bytes) (e : bytes * option bytes) =>
                     match snd e with Some v => aset acc (fst e) v | None => acc end) c acc) k
  = match aget c k with Some (Some v) => Some v | _ => aget acc k end.
Proof.
  induction c as [|[k0 a] c IH]; intros Hnd acc k; cbn [fold_left aget]; [reflexivity|].
  cbn [akeys map fst] in Hnd. inversion Hnd as [|? ? Hnotin Hnd']; subst.
  rewrite (IH Hnd'). cbn [snd fst].
  destruct (bytes_eqb k k0) eqn:E.
  - apply bytes_eqb_eq in E. subst k0. rewrite (aget_notin c k Hnotin).
    destruct a as [v|]; [|reflexivity]. rewrite aget_aset, bytes_eqb_refl. reflexivity.
  - destruct (aget c k) as [[v|]|]; try reflexivity;
      destruct a as [v0|]; try reflexivity; rewrite aget_aset, E; reflexivity.
Qed.

(* what reads through a layer see: its buffered writes, else (also at a DELETED marker) the wrapped store *)
Lemma aget_read_view s k : NoDup (akeys (cache s)) ->
  aget (read_view s) k = match aget (cache s) k with
                         | Some (Some v) => Some v
                         | _ => aget (cells (wrapped s)) k
                         end.
Proof. intro Hnd. unfold read_view. apply aget_overlay_fold. exact Hnd. Qed.

Lemma store_get_read_view s k : NoDup (akeys (cache s)) ->
  store_get (store_of (read_view s)) k = sget s k.
Proof.
  intro Hnd. unfold store_get, store_of. cbn [cells]. rewrite (aget_read_view s k Hnd), sget_spec.
  unfold store_get. destruct (aget (cache s) k) as [[v|]|]; reflexivity.
Qed.

Lemma sreplay_spec dd c : NoDup (akeys c) -> forall s,
  wrapped (sreplay dd c s) = wrapped s /\
  forall k, aget (cache (sreplay dd c s)) k =
            match aget c k with
            | Some (Some v) => Some (Some v)
            | Some None => if dd then Some None else aget (cache s) k
            | None => aget (cache s) k
            end.
Proof.
  induction c as [|[k0 a] c IH]; intros Hnd s; cbn [sreplay aget]; [split; reflexivity|].
  cbn [akeys map fst] in Hnd. inversion Hnd as [|? ? Hnotin Hnd']; subst.
  assert (Hstep : forall s', wrapped s' = wrapped s ->
            (forall k, aget (cache s') k = if bytes_eqb k k0 then
                                             match a with
                                             | Some v => Some (Some v)
                                             | None => if dd then Some None else aget (cache s) k
                                             end
                                           else aget (cache s) k) ->
            wrapped (sreplay dd c s') = wrapped s /\
            forall k, aget (cache (sreplay dd c s')) k =
                      if bytes_eqb k k0
                      then match a with
                           | Some v => Some (Some v)
                           | None => if dd then Some None else aget (cache s) k
                           end
                      else match aget c k with
                           | Some (Some v) => Some (Some v)
                           | Some None => if dd then Some None else aget (cache s) k
                           | None => aget (cache s) k
                           end).
  { intros s' Hw Hc. destruct (IH Hnd' s') as [Hw' Hc']. split; [rewrite Hw'; exact Hw|].
    intro k. rewrite (Hc' k), (Hc k).
    destruct (bytes_eqb k k0) eqn:E.
    - apply bytes_eqb_eq in E. subst k0. rewrite (aget_notin c k Hnotin). reflexivity.
    - reflexivity. }
  assert (Hfin : forall s', wrapped s' = wrapped s ->
            (forall k, aget (cache s') k = if bytes_eqb k k0 then
                                             match a with
                                             | Some v => Some (Some v)
                                             | None => if dd then Some None else aget (cache s) k
                                             end
                                           else aget (cache s) k) ->
            wrapped (sreplay dd c s') = wrapped s /\
            forall k, aget (cache (sreplay dd c s')) k =
                      match (if bytes_eqb k k0 then Some a else aget c k) with
                      | Some (Some v) => Some (Some v)
                      | Some None => if dd then Some None else aget (cache s) k
                      | None => aget (cache s) k
                      end).
  { intros s' Hw Hc. destruct (Hstep s' Hw Hc) as [A B]. split; [exact A|].
    intro k. rewrite (B k). destruct (bytes_eqb k k0); [|reflexivity]. destruct a; reflexivity. }
  destruct a as [v|].
  - apply Hfin; [reflexivity|]. intro k. unfold sset. cbn [cache]. rewrite aget_aset. reflexivity.
  - destruct dd.
    + apply Hfin; [reflexivity|]. intro k. unfold sdel. cbn [cache]. rewrite aget_aset. reflexivity.
    + apply Hfin; [reflexivity|]. intro k. destruct (bytes_eqb k k0) eqn:E; reflexivity.
Qed.

Lemma sreplay_nodup dd c : forall s, NoDup (akeys (cache s)) -> NoDup (akeys (cache (sreplay dd c s))).
Proof.
  induction c as [|[k0 a] c IH]; intros s Hnd; cbn [sreplay]; [exact Hnd|].
  destruct a as [v|]; [|destruct dd].
  - apply IH. unfold sset. cbn [cache]. apply akeys_aset_nodup. exact Hnd.
  - apply IH. unfold sdel. cbn [cache]. apply akeys_aset_nodup. exact Hnd.
  - apply IH. exact Hnd.
Qed.

(* the inner block: reads go through both layers *)
Lemma nested_read_spec s1 ops k : NoDup (akeys (cache s1)) ->
  sget (fst (srun (scratch_new (store_of (read_view s1))) ops)) k =
  match last_action ops k with
  | Some (Some v) => Ok v
  | Some None | None => sget s1 k
  end.
Proof. intro Hnd. rewrite read_spec, (store_get_read_view s1 k Hnd). reflexivity. Qed.

(* normal exit of the inner block: its buffer is replayed into the enclosing layer's buffer — last write wins,
   deletes become DELETED markers there iff requested — and the enclosing layer's own wrapped store is not
   touched; the inner buffer ends empty by commit_clears_cache *)
Lemma nested_commit_spec s1 ops dd : NoDup (akeys (cache s1)) ->
  let s2 := fst (srun (scratch_new (store_of (read_view s1))) ops) in
  let s1' := sreplay dd (cache s2) s1 in
  wrapped s1' = wrapped s1 /\ NoDup (akeys (cache s1')) /\
  forall k, aget (cache s1') k =
            match last_action ops k with
            | Some (Some v) => Some (Some v)
            | Some None => if dd then Some None else aget (cache s1) k
            | None => aget (cache s1) k
            end.
Proof.
  intros Hnd s2 s1'.
  assert (Hnd2 : NoDup (akeys (cache s2))).
  { unfold s2. apply srun_cache_nodup. constructor. }
  destruct (sreplay_spec dd (cache s2) Hnd2 s1) as [Hw Hc].
  split; [exact Hw|]. split; [apply sreplay_nodup; exact Hnd|].
  intro k. unfold s1'. rewrite (Hc k). unfold s2. rewrite srun_cache. unfold overlay.
  cbn [scratch_new cache aget]. destruct (last_action ops k) as [[v|]|]; reflexivity.
Qed.

(* ------------------------------------------------------------------ *)
(* copy(): the wrapped entries overlaid by the buffer, DELETED entries left out *)
Lemma aget_map_some (m : amap bytes) k :
  aget (map (fun e : bytes * bytes => (fst e, Some (snd e))) m) k =
  match aget m k with Some v => Some (Some v) | None => None end.
Proof.
  induction m as [|[k0 v0] m IH]; cbn [map aget fst snd]; [reflexivity|].
  destruct (bytes_eqb k k0); [reflexivity|exact IH].
Qed.

Lemma akeys_map_some (m : amap bytes) :
  akeys (map (fun e : bytes * bytes => (fst e, Some (snd e))) m) = akeys m.
Proof. unfold akeys. rewrite map_map. reflexivity. Qed.

Lemma fold_aset_spec (c : amap (option bytes)) : forall (acc : amap (option bytes)) k,
  NoDup (akeys c) ->
  aget (fold_left (fun (acc : amap (option bytes)) (e : bytes * option bytes) => aset acc (fst e) (snd e)) c acc) k =
  match aget c k with Some a => Some a | None => aget acc k end.
Proof.
  induction c as [|[k0 a] c IH]; intros acc k Hnd; cbn [fold_left aget fst snd]; [reflexivity|].
  cbn [akeys map fst] in Hnd. inversion Hnd as [|? ? Hnotin Hnd']; subst.
  rewrite (IH _ k Hnd'). destruct (bytes_eqb k k0) eqn:E.
  - apply bytes_eqb_eq in E. subst k0. rewrite (aget_notin c k Hnotin), aget_aset, bytes_eqb_refl. reflexivity.
  - destruct (aget c k); [reflexivity|]. rewrite aget_aset, E. reflexivity.
Qed.

Lemma fold_aset_nodup (c : amap (option bytes)) : forall (acc : amap (option bytes)),
  NoDup (akeys acc) ->
  NoDup (akeys (fold_left (fun (acc : amap (option bytes)) (e : bytes * option bytes) => aset acc (fst e) (snd e)) c acc)).
Proof.
  induction c as [|[k0 a] c IH]; intros acc Hnd; cbn [fold_left]; [exact Hnd|].
  apply IH. apply akeys_aset_nodup. exact Hnd.
Qed.

Lemma aget_filter_some (m : amap (option bytes)) k : NoDup (akeys m) ->
  aget (flat_map (fun e : bytes * option bytes => match snd e with Some v => [(fst e, v)] | None => [] end) m) k =
  match aget m k with Some (Some v) => Some v | _ => None end.
Proof.
  induction m as [|[k0 a] m IH]; intro Hnd; cbn [flat_map aget fst snd]; [reflexivity|].
  cbn [akeys map fst] in Hnd. inversion Hnd as [|? ? Hnotin Hnd']; subst.
  destruct a as [v|]; cbn [app aget].
  - destruct (bytes_eqb k k0); [reflexivity|exact (IH Hnd')].
  - rewrite (IH Hnd'). destruct (bytes_eqb k k0) eqn:E; [|reflexivity].
    apply bytes_eqb_eq in E. subst k0. rewrite (aget_notin m k Hnotin). reflexivity.
Qed.

Lemma scopy_spec s k : NoDup (akeys (cells (wrapped s))) -> NoDup (akeys (cache s)) ->
  aget (scopy s) k = match aget (cache s) k with
                     | Some (Some v) => Some v
                     | Some None => None
                     | None => aget (cells (wrapped s)) k
                     end.
Proof.
  intros Hw Hc. unfold scopy. rewrite aget_filter_some.
  - rewrite (fold_aset_spec (cache s) _ k Hc), aget_map_some.
    destruct (aget (cache s) k) as [[v|]|]; try reflexivity.
    destruct (aget (cells (wrapped s)) k); reflexivity.
  - apply fold_aset_nodup. rewrite akeys_map_some. exact Hw.
Qed.

(* property C17: what copy() returns inside a batch *)
Lemma copy_spec w ops k : NoDup (akeys (cells w)) ->
  aget (scopy (fst (srun (scratch_new w) ops))) k =
  match last_action ops k with
  | Some (Some v) => Some v
  | Some None => None
  | None => aget (cells w) k
  end.
Proof.
  intro Hw. rewrite scopy_spec.
  - rewrite srun_cache, srun_wrapped. unfold overlay. cbn [scratch_new cache wrapped aget].
    destruct (last_action ops k) as [[v|]|]; reflexivity.
  - rewrite srun_wrapped. exact Hw.
  - apply srun_cache_nodup. constructor.
Qed.
