import json, os, shutil
NEEDS = {
 "C03": ("get_from_proof remembers, per root hash, the root node body an earlier proof genuinely hashed to (class-level cache) and pre-seeds later verifications with it: after one honest verification against root R, a proof WITHOUT the root node (even the empty proof) is accepted",
         ["C03 - strengthened (first only a correspondence break: a true answer to a corrupted proof was accepted as sound; a withheld node that is referenced by hash must now give BadTrieProof, offered right after the honest proof in the same process)"]),
 "C04": ("_set_raw_node of a non-pruning trie records the blank root as db[BLANK_NODE_HASH] = b'' (the node, not its encoding 0x80): an entry not keyed by the keccak of its value, overwriting a canonical record", ["C04"]),
 "C07": ("_raise_missing_node passes (missing_hash, key, root_hash) - key and root transposed - to MissingTrieNode on the write path", ["C07"]),
 "C08": ("TraversedPartialPath.__init__ strips the untraversed tail off nibbles_traversed when the traversed path happens to end with the same nibbles", ["C08"]),
 "C11": ("HexaryTrieFog.serialize compacts the list text with .replace(', ', ','), which also runs inside the bytes literals: a prefix whose encoding contains the bytes 0x2c 0x20 loses a byte in the round trip",
         ["C11 - strengthened (missed: random prefixes practically never contain the byte pair; a serialization sweep over every single byte, every pair of format-significant bytes at both alignments and random strings of such bytes was added)"]),
 "C13": ("_get_witness_for_key_prefix handles a prefix ending at a node where the walk descends; the branch arm assumes one more prefix bit: with a branch root and the EMPTY prefix only the right subtrie is returned", ["C13"]),
 "C16": ("validate_is_bytes tests `type(value) is not bytes`: instances of a bytes subclass (hexbytes.HexBytes) are refused by the node encoders",
         ["C16 - strengthened (missed: arguments were always plain bytes; every codec call is repeated with bytes-subclass arguments and must agree)", "C01 (histories repeated with bytes-subclass keys and values; added at the same time)"]),
 "C17": ("batch_commit applies a buffered write only `if key not in self.wrapped_db` ('records are keyed by the hash of their body'): an overwrite of an existing key is lost at commit", ["C17"]),
 "C18": ("SparseMerkleTree.set drops its own argument checks and calls _get(key) first: a non-bytes value on a tree whose database lacks a path node ends in KeyError instead of ValidationError",
         ["C18 - strengthened (missed: refusals were only provoked on complete databases; the byte-string argument sweep of all three structures is repeated on a database with every node removed and must give the same refusals)"]),
}
for sid, (needs, caught) in NEEDS.items():
    src = f"/tmp/seed_out10/{sid}"
    dst = f"/verif/seeded/{sid}-10"
    os.makedirs(dst, exist_ok=True)
    for f in ("patch.diff", "demo.py", "notes.md"):
        shutil.copy(os.path.join(src, f), os.path.join(dst, f))
    log = open(f"/tmp/r10v_{sid}.log").read() if os.path.exists(f"/tmp/r10v_{sid}.log") else ""
    log = "\n".join(l for l in log.splitlines() if "conda" not in l)
    meta = {"property": sid, "round": 10,
            "breaks": open(f"/tmp/seed_out10/prop_{sid}.txt").read().split("\n")[0],
            "needs_to_manifest": needs, "caught_by": caught,
            "written_by": "fresh sub-agent given only the property text, its own git worktree of /repo and one-line descriptions of the nine earlier seeded changes for that property",
            "verified": {"how": "tools/round10.sh (scratch worktree: demo passes without / fails with the patch; pinned suite with the patch: 215 passed, same known failures); checks run against a scratch worktree via VERIF_REPO_OVERRIDE with no harness change between the agent's report and the first run",
                         "log": log[-1500:]}}
    json.dump(meta, open(os.path.join(dst, "meta.json"), "w"), indent=1)
print("ok")
