import json, os, shutil
NEEDS = {
 "C01": ("ScratchDB.batch_commit pushes a buffered write down only `if key not in self.wrapped_db`: with a ScratchDB underneath (nested blocks) __contains__ reads through a DELETED marker, the marker survives, and the pruning outer commit deletes a node the final root references", ["C01, C02, C05, C06 (the nested there-and-back family of round 5)"]),
 "C02": ("two cooperating edits in _delete_branch_node: deleting the value held in a branch's 17th slot no longer normalises the branch, and a guard returns BLANK for an all-empty branch: a single-child branch survives - lookups right, root not canonical", ["C02", "C01 (correspondence)"]),
 "C03": ("_get_proof leaves out a terminal LEAF whose remaining key differs from the rest of the requested key ('a leaf of another key proves nothing'): for an absent key ending in another key's hashed leaf the honest proof is rejected with BadTrieProof", ["C03"]),
 "C04": ("at_root hands back the live trie itself when asked for the trie's CURRENT root: a snapshot held open across a write of its parent reads the new contents",
         ["C04 - strengthened (missed: snapshots were only read, never held across writes of the trie they came from; that scenario is now run, Python-side oracle)"]),
 "C05": ("ScratchDB.__delitem__ drops a key's buffered write instead of recording DELETED: in nested blocks a node created by the outer block and dereferenced twice by the inner one is committed although the final root does not need it", ["C05", "C06"]),
 "C06": ("_normalize_branch_node persists the surviving BRANCH child again (`self._persist_node(sub_node)` instead of the reference it already has): its count is one too high, and garbage stays after the next change", ["C06"]),
 "C07": ("get() fetches the root node itself and reports a missing root through _raise_missing_node: MissingTrieNode.prefix is None instead of () for lookups when the ROOT body is the absent node", ["C07"]),
 "C08": ("`if not trie_key: return self.root_node` fast path copied from traverse() into traverse_from(): an empty segment returns the ROOT instead of the start node, and costs a database read",
         ["C08 - strengthened (missed: traverse_from was never called with an empty segment; now it is, also in the reuse check and the read count)"]),
 "C09": ("_traverse_from settles a freshly fetched LEAF child on the spot (equal -> leaf, else blank) and forgets the case 'rest of the key ends inside the leaf': blank instead of TraversedPartialPath for non-root leaves; a walk after mid-walk deletes drops a stable key", ["C09", "C08"]),
 "C10": ("root_node memoised on the trie, cleared only by _set_root_node: NodeIterator.next() / next(k) start from trie.root_node and search the previous trie after a committed squash_changes block",
         ["C10 - strengthened (missed: the iterator was only ever used after direct writes; cases now have a second phase - more writes, often as one squash_changes block - after which the questions are asked again)"]),
 "C11": ("FullDirectionalVisibility made a subclass of PerfectVisibility (again, by another agent and presented as a docstring fix)", ["C11"]),
 "C12": ("BinaryTrie.exists re-implemented with check_if_branch_exist (prefix semantics): exists(p) is True for a never-stored proper prefix of a stored key", ["C12"]),
 "C13": ("_check_if_branch_exist: `key_prefix in left_child` (substring) instead of a prefix comparison inside a kv node: prefixes whose bits occur later in a stored key's path are reported as existing",
         ["C13 - strengthened (prefixes made of a stored key's bits shifted by 1..7 positions were added to make this deterministic)"]),
 "C14": ("SparseMerkleTree.exists returns True at once when the default is non-blank: a key last written with b'' (get raises KeyError) exists", ["C14"]),
 "C15": ("calc_root hashes a blank leaf as BLANK_NODE_HASH = keccak(rlp(b'')) instead of keccak(b''): the proof's root is wrong while the tracked key holds the blank value (tree root unaffected)", ["C15"]),
 "C16": ("encode_nibbles(()) returns b'' and decode_nibbles(b'') returns (): round trips still hold, but HP of the empty sequence without terminator is b'\\x00' in the Yellow Paper", ["C16"]),
 "C17": ("batch_commit applies buffered deletes whenever the wrapped database is a ScratchDB, also with do_deletes=False", ["C17"]),
 "C18": ("trie/smt.py imports ValidationError from eth_utils instead of trie.exceptions: a key size outside 1..32 is refused with a same-named but unrelated class, which `except trie.exceptions.ValidationError` does not catch",
         ["C18 - strengthened (missed: exceptions were observed by class NAME; the module of the class is now part of the observation)"]),
}
for sid, (needs, caught) in NEEDS.items():
    src = f"/tmp/seed_out6/{sid}"
    dst = f"/verif/seeded/{sid}-6"
    os.makedirs(dst, exist_ok=True)
    for f in ("patch.diff", "demo.py", "notes.md"):
        shutil.copy(os.path.join(src, f), os.path.join(dst, f))
    log = open(f"/tmp/r6v_{sid}.log").read() if os.path.exists(f"/tmp/r6v_{sid}.log") else ""
    log = "\n".join(l for l in log.splitlines() if "conda" not in l)
    meta = {"property": sid, "round": 6,
            "breaks": open(f"/tmp/seed_out6/prop_{sid}.txt").read().split("\n")[0],
            "needs_to_manifest": needs, "caught_by": caught,
            "written_by": "fresh sub-agent given only the property text, its own git worktree of /repo and one-line descriptions of the five earlier seeded changes (to differ from in mechanism and code site)",
            "verified": {"how": "tools/round6.sh (scratch worktree: demo passes without / fails with the patch; pinned suite with the patch: 215 passed, same known failures); checks run against a scratch worktree via VERIF_REPO_OVERRIDE",
                         "log": log[-1500:]}}
    json.dump(meta, open(os.path.join(dst, "meta.json"), "w"), indent=1)
print("ok")
