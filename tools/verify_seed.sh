#!/bin/bash
# tools/verify_seed.sh <id> <dir with patch.diff + demo.py> : confirm a seeded change in a scratch worktree
id="$1"; dir="$2"; wt=/tmp/vs_$id
KNOWN='test_install_local_wheel|test_fixtures_exist|tests/core/test_iter.py'
git -C /repo worktree remove --force $wt 2>/dev/null
git -C /repo worktree add -q --detach $wt HEAD || exit 2
cd $wt
echo "== demo WITHOUT patch (expect exit 0)"; /venv/bin/python $dir/demo.py >/tmp/vs_$id.base.log 2>&1; echo "exit=$?"
git apply $dir/patch.diff || { echo "PATCH DOES NOT APPLY"; exit 2; }
echo "== demo WITH patch (expect non-zero)"; /venv/bin/python $dir/demo.py >/tmp/vs_$id.patched.log 2>&1; echo "exit=$?"; tail -2 /tmp/vs_$id.patched.log | cut -c1-300
echo "== test suite WITH patch"
/venv/bin/python -m pytest -q -p no:cacheprovider --timeout=900 --continue-on-collection-errors > /tmp/vs_$id.suite.log 2>&1
tail -1 /tmp/vs_$id.suite.log
extra=$(grep -E "^(FAILED|ERROR) (tests|scripts)/" /tmp/vs_$id.suite.log | grep -vE "$KNOWN" | sed 's/^[A-Z]* //; s/ - .*//')
for t in $extra; do
  echo "-- extra failure $t: re-running alone (3x) to tell a timing flake from a real failure"
  for i in 1 2 3; do /venv/bin/python -m pytest -q -p no:cacheprovider --timeout=900 "$t" 2>&1 | tail -1; done
done
cd /; git -C /repo worktree remove --force $wt
