import json, os, shutil
NEEDS = {
 "C01": ("consume_common_prefix rewritten as a chunked scan (32 nibbles at a time) that forgets to add the skipped chunks to the mismatch index: a new key sharing at least 16 BYTES with a stored path and then diverging replaces the old sub-node", ["C01", "C02"]),
 "C02": ("_set_branch_node re-persists a child slot only `if new_node is not sub_node_ref`: an EMBEDDED child branch is mutated in place, so the embed-vs-hash decision is frozen while it was small and it stays embedded after growing to 32 bytes or more",
         ["C02 - (caught; a harness crash in the order-independence re-insertion was turned into a concrete violation)"]),
 "C03": ("_traverse_from raises ValidationError when an extension's child is not a branch: a CRAFTED proof of well-formed nodes with correct hash links (extension -> leaf) makes get_from_proof raise instead of returning the value / BadTrieProof",
         ["C03 - strengthened (missed: altered proofs were only derived from honest ones; crafted non-canonical but well-formed tries - ext->leaf, ext->ext->leaf, hashed and embedded - are offered now; the D-level model agrees with the code on them)"]),
 "C04": ("non-pruning tries remember the keys they have stored (`_stored_keys`, recorded BEFORE the write) and skip re-writing them: after a failing write the retried operation skips the node that never reached the database",
         ["C04 - strengthened (first only after several escalation runs: the operation aborted by a failing write is now retried on the same object)"]),
 "C05": ("ScratchDB.batch_commit rolls a failed commit back by deleting the keys it wrote - also pre-existing, content-identical nodes", ["C05"]),
 "C06": ("a block opened on a batch trie shares the enclosing batch's count table instead of copying it: an abandoned inner block leaves its count changes in the enclosing batch", ["C06", "C05"]),
 "C07": ("_prune_node reads `self._ref_count[prune_key]` (a defaultdict) for a sanity check: on a pruning trie opened over an existing database a write that later fails has inserted zero-valued entries into the count table",
         ["C07 - strengthened (missed: pruning tries were always built from an empty database, so every path node was tracked; a pruning trie re-opened on the existing database is probed now and the raw table compared)"]),
 "C08": ("TraversedPartialPath memoises the simulated node in a class-level dict keyed by (type, sub_segments, value, suffix, tail) - not by the raw body: two extensions with the same path but different children share one simulated node",
         ["C08 - strengthened (first only a correspondence break: the oracle now requires the simulated node's raw body to carry the enclosing node's value / child reference)"]),
 "C09": ("_make_simulated_node returns the leaf itself when the tail is as long as its suffix: the simulated leaf keeps an untrimmed suffix and the walk meets a key that was never stored", ["C09", "C08"]),
 "C10": ("NodeIterator.next returns `nibbles_to_bytes(k) if k else None`: the empty key b'' (an empty, falsy tuple) is reported as 'no key'", ["C10"]),
 "C11": ("explore() discards the old prefix and validates by a size check at the end: an unknown prefix that is an ancestor of unexplored prefixes is accepted when exactly one listed child collides with an existing prefix", ["C11"]),
 "C12": ("BinaryTrie write-through value cache filled BEFORE _set runs and not rolled back when it raises: after a refused set(p, v), get(p) returns v", ["C12"]),
 "C13": ("_get_trie_nodes rewritten with an explicit stack; the missing-hash `return` now ends the whole walk instead of one sub-walk: on a partial database reachable nodes after a missing left child are dropped",
         ["C13 - strengthened (missed: results on partial databases were ignored; they must now be exactly the nodes reachable in that database)"]),
 "C14": ("set() does not store the blank leaf ('seeded at construction') - true only for a blank default: with a non-blank default, set(k, b'') leaves a dangling leaf and the next write of k raises KeyError", ["C14"]),
 "C15": ("trie/smt.py imports ValidationError from eth_utils: a too-short node list is rejected with a same-named foreign class", ["C15 (exception classes are observed with their module since round 6)"]),
 "C16": ("decode_node raises InvalidNode for anything that does not decode to a list: the blank node's own record rlp(b'') = 0x80 no longer classifies as blank",
         ["C16 - strengthened (missed: decode_node was only exercised through the trie, which never reads the blank record; the stored records of all four node kinds are decoded and classified now)"]),
 "C17": ("ScratchDB.__delitem__ keeps a DELETED marker only when the key is in the wrapped database at that moment: a delete buffered while the key is absent is lost although another writer stores the key before the commit",
         ["C17 - strengthened (missed: the wrapped database never changed under an open batch; writes by another party are interleaved now, Python-side oracle)"]),
 "C18": ("Nibbles() converts elements with int() before the range check: (1.5,), ('1',), (b'2',) are accepted as nibbles", ["C18 - strengthened (missed: elements that merely convert to a nibble were not among the malformed kinds)"]),
}
for sid, (needs, caught) in NEEDS.items():
    src = f"/tmp/seed_out9/{sid}"
    dst = f"/verif/seeded/{sid}-9"
    os.makedirs(dst, exist_ok=True)
    for f in ("patch.diff", "demo.py", "notes.md"):
        shutil.copy(os.path.join(src, f), os.path.join(dst, f))
    log = open(f"/tmp/r9v_{sid}.log").read() if os.path.exists(f"/tmp/r9v_{sid}.log") else ""
    log = "\n".join(l for l in log.splitlines() if "conda" not in l)
    meta = {"property": sid, "round": 9,
            "breaks": open(f"/tmp/seed_out9/prop_{sid}.txt").read().split("\n")[0],
            "needs_to_manifest": needs, "caught_by": caught,
            "written_by": "fresh sub-agent given only the property text, its own git worktree of /repo and one-line descriptions of the earlier seeded changes for that property",
            "verified": {"how": "tools/round9.sh (scratch worktree: demo passes without / fails with the patch; pinned suite with the patch: 215 passed, same known failures); checks run against a scratch worktree via VERIF_REPO_OVERRIDE with no harness change between the agent's report and the first run",
                         "log": log[-1500:]}}
    json.dump(meta, open(os.path.join(dst, "meta.json"), "w"), indent=1)
print("ok")
