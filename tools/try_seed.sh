#!/bin/bash
# tools/try_seed.sh <patch.diff> <check ids...> : apply a seeded change to /repo, run the checks, undo it
set -u
patch="$1"; shift
cd /repo || exit 2
if ! git diff --quiet; then echo "/repo has local changes; refusing"; exit 2; fi
git apply "$patch" || { echo "patch does not apply"; exit 2; }
cd /verif
for c in "$@"; do
  ./check "$c" --tier quick 2>&1 | grep -v conda | grep -E "VIOLATION|KNOWN-FINDING|^\[C" 
done
git -C /repo checkout -- .
git -C /repo status --short | head -3
