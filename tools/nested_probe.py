import os, sys, random
sys.path.insert(0, os.getcwd())
from trie import HexaryTrie
import trie
print(trie.__file__)
ALPHA=[0,1,0x10,0x11,0x12]
def gk(r): return bytes(r.choice(ALPHA) for _ in range(r.choice([0,1,1,2,2,3])))
def gv(r): return bytes([r.choice([0x61,0x62])])*r.choice([1,5,31,32,33,40])
class Abort(Exception): pass
def reach(db, root):
    import rlp
    from trie.constants import BLANK_NODE_HASH
    seen=set()
    def walk(ref):
        if ref==b'' or ref==BLANK_NODE_HASH: return
        if isinstance(ref,list): node=ref
        else:
            if len(ref)<32: return
            if ref in seen: return
            seen.add(ref); node=rlp.decode(db[ref])
        if node==b'': return
        if len(node)==17:
            for c in node[:16]: walk(c)
        else:
            flag=node[0][0]>>4
            if not flag&2: walk(node[1])
    walk(root); return seen
def view(db):
    from trie.utils.db import ScratchDB, DELETED
    if isinstance(db, ScratchDB):
        d = view(db.wrapped_db)
        w = dict(d[1]) if isinstance(d, tuple) else dict(d)
        for k, v in db.cache.items():
            if v is DELETED: w.pop(k, None)
            else: w[k] = v
        return ('S', w, {k:(None if v is DELETED else v) for k,v in db.cache.items()}, d)
    return dict(db)
def run_ops(r, t, m, depth):
    for _ in range(r.randint(1,5)):
        x=r.random()
        if x<0.5:
            k,v=gk(r),gv(r); t[k]=v; m[k]=v
        elif x<0.7:
            k = r.choice(sorted(m)) if m and r.random()<0.7 else gk(r)
            del t[k]; m.pop(k,None)
        elif depth<3:
            m2=dict(m); ab = r.random()<0.3
            snap=(t.root_hash, view(t.db), dict(t._ref_count) if t._ref_count is not None else None)
            try:
                with t.squash_changes() as b:
                    run_ops(r,b,m2,depth+1)
                    if ab: raise Abort()
                m.clear(); m.update(m2)
            except Abort:
                now=(t.root_hash, view(t.db), dict(t._ref_count) if t._ref_count is not None else None)
                nz=lambda d: None if d is None else {k:c for k,c in d.items() if c}
                assert now[0]==snap[0] and now[1]==snap[1] and nz(now[2])==nz(snap[2]), "abort did not restore (depth %d)"%depth
        for k in list(m)[:4]+[gk(r)]:
            assert t[k]==m.get(k,b''), (k,t[k],m.get(k))
bad=0
for seed in range(3000):
    r=random.Random(seed); prune=r.random()<0.5
    db={}; t=HexaryTrie(db,prune=prune); m={}
    try:
        for _ in range(r.randint(1,4)):
            run_ops(r,t,m,0)
            ref=HexaryTrie({});
            for k,v in m.items(): ref[k]=v
            assert t.root_hash==ref.root_hash, "root not canonical"
            if prune:
                assert set(db)==reach(db,t.root_hash), ("db != reachable", len(db), len(reach(db,t.root_hash)))
                rc={k:c for k,c in t.ref_count.items() if c}; rg={k:c for k,c in t.regenerate_ref_count().items() if c}
                assert rc==rg, "refcount != regenerate"
            else:
                assert reach(db,t.root_hash) <= set(db)
    except AssertionError as e:
        bad+=1
        if bad<4: print("seed",seed,"prune",prune,"ASSERT",e)
    except Exception as e:
        bad+=1
        if bad<2:
            import traceback; traceback.print_exc()
print("bad",bad)
