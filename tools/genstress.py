import sys, random, traceback
sys.path.insert(0,'/verif'); sys.path.insert(0,'/repo')
from harness import common as C
C.import_trie()
from harness.props import c01, c02, c03, c04, c05, c06, c07, c08, c09, c10, c11, c12, c13, c14, c15, c16, c17
bad=0
for seed in range(int(sys.argv[1]), int(sys.argv[2])):
    rng=random.Random(seed)
    for name,f in (("c01",lambda: c01.gen_history(rng,"thorough")),("c02t",lambda: c02.threshold_history(rng)),("c04",lambda: c04.gen_case(rng,"thorough")),
                   ("c04o",lambda: c04.gen_overlap(rng)),("c04s",lambda: c04.gen_snapshot(rng)),("c05",lambda: c05.gen_base(rng,"thorough")),
                   ("c06",lambda: c06.gen_case(rng,"thorough")),("c07",lambda: c07.gen_case(rng,"thorough")),("c08",lambda: c08.gen_case(rng,"thorough")),
                   ("c10",lambda: c10.gen_case(rng,"thorough")),("c11",lambda: c11.gen_case(rng,"thorough")),("c12",lambda: c12.gen_history(rng,"thorough")),
                   ("c12s",lambda: c12.spine_history(rng)),("c12t",lambda: c12.twin_history(rng)),("c14",lambda: c14.gen_case(rng,"thorough")),
                   ("c14n",lambda: c14.nodelike_case(rng)),("c15",lambda: c15.gen_case(rng,"thorough")),("c17",lambda: c17.gen_case(rng)),
                   ("c03",lambda: c03.gen_case(rng,"thorough")),("c09",lambda: c09.drive(rng,"quick"))):
        try: f()
        except Exception as e:
            bad+=1
            if bad<6: print(seed,name,type(e).__name__,e); traceback.print_exc(limit=3)
print("generator crashes:",bad)
