"""register round-3 seeds from /tmp/seed_out3 into /verif/seeded/<id>-3/"""
import json, os, shutil
NEEDS = {
 "C01": ("HexaryTrie.exists decides presence from the node reached by _traverse and forgets that a leaf's remaining path must be empty: an absent key that is a proper prefix of exactly one stored key and ends where that key's leaf begins reads exists() = True, get() = b''", ["C01"]),
 "C02": ("embed-vs-hash decision by a size estimate that forgets the 1-byte RLP list header: a non-root leaf whose encoding is exactly 32 bytes (2+-byte hex-prefix key, len(hp key) + len(value) == 29) is embedded instead of hashed; only the root hash is wrong. (The agent's first attempt - an extension with an empty path on insert - was rejected: the suite's hypothesis walk tests caught it in my verification run.)", ["C02"]),
 "C03": ("_get_proof accumulates into a mutable default argument: the first get_proof of a process is right, every later one returns all earlier proofs' nodes too (get_from_proof round trips still pass)", ["C03 (first only through a runaway correspondence run; an independent on-path oracle for get_proof and an early exit once concrete violations are in hand were added)"]),
 "C04": ("_delete_kv_node persists the extension's child only when it stays a branch but still prunes a collapsed leaf/extension child: in a squash_changes block on a non-pruning trie a byte-identical leaf set earlier in the block is marked deleted and never written; later roots raise MissingTrieNode", ["C04", "C05", "C06", "C01"]),
 "C05": ("_pending_prune_keys becomes a set: a node pruned twice within one delete (two byte-identical sibling leaves that are the only children of their branch; deleting one prunes the leaf and the collapsing merge prunes its twin) loses only one count and is committed as garbage by the batch", ["C06", "C05 (after the shared-leaf family, with and without a third key, was added to the batch generator)"]),
 "C06": ("squash_changes on a pruning trie merges the batch's counts with dict.update: nodes whose count dropped to 0 inside the batch keep their old positive count", ["C06", "C05"]),
 "C07": ("_set_kv_node reads an extension's child up front: a set whose key diverges inside (or ends inside) an extension raises MissingTrieNode for the absent child, which is not on the key's path", ["C07 (first only as correspondence; the oracle now checks that a failing write's reported node is the reference reached by a prefix of the key, or - for delete - a sibling of one)"]),
 "C08": ("root_node memoised; _set_root_node resets the cache but squash_changes assigns root_hash directly: root_node read, then a committed batch, then root_node again is stale (traverse(()) is right)", ["C08 (after root_node is read half-way through the writes and the second half is applied as a batch half of the time)"]),
 "C09": ("FullDirectionalVisibility made a subclass of PerfectVisibility: a walker's `except PerfectVisibility: done` handler stops a nearest_right sweep while prefixes remain on the left", ["C11", "C09 (after exceptions are observed together with WHICH library handlers catch them, and the C09 driver concludes like such a walker)"]),
 "C10": ("_get_next_key never returns a value stored on a branch: next() / next(k) skips a key that is a proper prefix of another stored key", ["C10"]),
 "C11": ("explore fast path for the root prefix skips the membership check: explore((), segs) on a fog that has moved past the root is accepted and drops all progress", ["C11"]),
 "C12": ("_set_branch_node does not pass if_delete_subtrie into the right child: delete_subtrie(p) through a 1-side branch behaves like delete(p)", ["C12"]),
 "C13": ("_get_trie_nodes follows a leaf's value as if it were a child hash: a stored value equal to the hash of a node in the same db (e.g. an old root) drags unreachable nodes into get_trie_nodes / witnesses", ["C13 (after values that are hashes of stored nodes were added; the same family now also feeds the hexary histories)"]),
 "C14": ("SparseMerkleTree.set pops the replaced leaf from the db: two keys holding the same value share one leaf entry, overwriting one makes the other unreadable", ["C14"]),
 "C15": ("SparseMerkleProof.root_hash cached; update() clears the cache only in the other-key arm: root read, update of the tracked key, root read again is stale", ["C15"]),
 "C16": ("is_extension_node rewritten as 'not blank and not leaf': a 17-item branch classifies as both branch and extension", ["C16 (after the four classification predicates were checked against get_node_type on every node shape)"]),
 "C17": ("ScratchDB.batch_commit clears the buffer only on normal exit: a batch left by an exception leaves its writes visible and the next batch commits them", ["C17"]),
 "C18": ("SparseMerkleTree.from_db builds the object with __new__ and skips the 1..32 key-size check", ["C18 (after from_db was added to the key-size sweep)"]),
}
for sid, (needs, caught) in NEEDS.items():
    src = f"/tmp/seed_out3/{sid}"
    dst = f"/verif/seeded/{sid}-3"
    os.makedirs(dst, exist_ok=True)
    for f in ("patch.diff", "demo.py", "notes.md"):
        shutil.copy(os.path.join(src, f), os.path.join(dst, f))
    log = open(f"/tmp/r3v_{sid}.log").read() if os.path.exists(f"/tmp/r3v_{sid}.log") else ""
    log = "\n".join(l for l in log.splitlines() if "conda" not in l)
    meta = {"property": sid, "round": 3,
            "breaks": open(f"/tmp/seed_out/prop_{sid}.txt").read().split("\n")[0],
            "needs_to_manifest": needs, "caught_by": caught,
            "written_by": "fresh sub-agent given only the property text, its own git worktree of /repo and one-line descriptions of the two earlier seeded changes to avoid",
            "verified": {"how": "tools/verify_seed.sh (scratch worktree: demo passes without / fails with the patch; pinned suite with the patch: 215 passed, same known failures); "
                                "checks run with tools/try_seed_wt.sh (scratch worktree via VERIF_REPO_OVERRIDE)",
                         "log": log[-1200:]}}
    json.dump(meta, open(os.path.join(dst, "meta.json"), "w"), indent=1)
    print("registered", sid)
