"""register round-2 seeds from /tmp/seed_out2 into /verif/seeded/<id>-2/"""
import json, os, re, shutil
NEEDS = {
 "C01": ("write side: _delete_kv_node prunes a deleted leaf twice; needs two byte-identical hashed leaves (same remaining path, same >= 32-byte value) under different branch slots, a third key keeping the branch, a pruning path (prune=True or a squash_changes batch) and removal of one of the pair: the other key becomes unreadable", ["C01", "C06 (both after the shared-leaf family was added to the generators)"]),
 "C02": ("_normalize_branch_node builds the merged hex-prefix key with a byte-level helper that leaves a stale nibble in the padding slot: a delete collapsing a branch onto a child with an odd-length path not starting with nibble 0, under the root or a branch (lookups stay correct, root non-canonical)", ["C02"]),
 "C03": ("soundness: get_from_proof stores a short (< 32-byte) first proof node under the caller-supplied root hash without hashing it: withheld root / foreign single-entry trie returns a value instead of BadTrieProof", ["C03"]),
 "C04": ("ScratchDB.batch_commit rolls back a failed commit by popping the keys it wrote, also pre-existing ones: a non-pruning batch that re-creates an existing node, then a failing later commit write", ["C04"]),
 "C05": ("pruning outer trie merges the batch's counts with dict.update (deletions not carried over): a node pruned by an earlier batch reappearing transiently in a later batch is committed as garbage", ["C05", "C06"]),
 "C06": ("_delete_kv_node no longer prunes a collapsed child that is an extension: extension over a two-child branch (leaf + sub-branch), delete the leaf's key", ["C06"]),
 "C07": ("_normalize_branch_node swallows the KeyError for the last remaining child on a non-pruning trie: a delete emptying one of two slots whose other slot is a missing hashed leaf/extension succeeds with a wrong trie instead of raising", ["C07 (after the oracle compared the root of successful writes with the complete-database reference)"]),
 "C08": ("traverse_from returns blank early when the sub-key does not start with any sub-segment: start node is an extension and the segment ends strictly inside its key", ["C08"]),
 "C09": ("simulated EXTENSION node reports the embedded child branch's sub-segments and drops that branch's own value: mid-walk deletes make an extension span an unexplored prefix, child branch embedded, a key ends exactly at that branch", ["C09 (after the collapse family and tiny-value mode were added)"]),
 "C10": ("_get_key_after compares only the first nibble of a sub-segment: a non-stored query reaching an extension of path length >= 2, equal first nibble, greater later", ["C10 (after neighbour queries were added)"]),
 "C11": ("mark_all_complete validates all prefixes against the receiver up front: a batch naming the same unexplored prefix twice is accepted", ["C11"]),
 "C12": ("refusal rule: set under a proper prefix of a stored key whose bits end inside a kv path is accepted (stored key lost / value unreadable)", ["C12"]),
 "C13": ("if_branch_valid turns a KeyError (missing node) into 'found None': any truncated / other-key branch validates ABSENCE of a stored key", ["C13"]),
 "C14": ("delete writes the default only if the key exists: non-blank default, key last written with b'', then delete", ["C14"]),
 "C15": ("branch point computed with float log2: keys of >= 7 bytes whose xor is close to the next power of two (complementary tails)", ["C15 (after the complement-key family, key sizes 7-9 and proof re-sync after a rejection were added)"]),
 "C16": ("is_nibbles_terminated compares a slice with a tuple: a terminated nibble sequence passed as a LIST is no longer recognised", ["C16 (after list/tuple container variation was added)"]),
 "C17": ("__setitem__ skips buffering a write equal to the wrapped value, ignoring a pending buffered write of another value: s[k]=X; s[k]=W with wrapped[k]=W", ["C17"]),
 "C18": ("HexaryTrie.__init__ tests `not ref_count` instead of `is None`: an EMPTY reference count handed to a non-pruning trie is accepted", ["C18"]),
}
log = open("/tmp/verify_r2.log").read()
for sid, (needs, caught) in NEEDS.items():
    src = f"/tmp/seed_out2/{sid}"
    if not os.path.exists(os.path.join(src, "patch.diff")):
        print("missing", sid); continue
    dst = f"/verif/seeded/{sid}-2"
    os.makedirs(dst, exist_ok=True)
    for f in ("patch.diff", "demo.py", "notes.md"):
        if os.path.exists(os.path.join(src, f)):
            shutil.copy(os.path.join(src, f), os.path.join(dst, f))
    m = re.search(r"##### %s\n(.*?)(?=\n##### |\Z)" % sid, log, re.S)
    meta = {"property": sid, "round": 2,
            "breaks": open(f"/tmp/seed_out/prop_{sid}.txt").read().split("\n")[0],
            "needs_to_manifest": needs, "caught_by": caught,
            "written_by": "fresh sub-agent given only the property text, its own git worktree of /repo and a hint to avoid the round-1 mechanism",
            "verified": {"how": "tools/verify_seed.sh (scratch worktree: demo passes without / fails with the patch; pinned suite with the patch: 215 passed, same known failures); "
                                "checks run with tools/try_seed_wt.sh (scratch worktree via VERIF_REPO_OVERRIDE) and for a sample with tools/try_seed.sh on /repo itself, undone afterwards",
                         "log": (m.group(1).strip()[-1200:] if m else "")}}
    json.dump(meta, open(os.path.join(dst, "meta.json"), "w"), indent=1)
print(sorted(os.listdir("/verif/seeded")))
