#!/bin/bash
# tools/round4.sh <id> <check ids...> : verify a round-10 seeded change (/tmp/seed_out10/<id>) in a scratch worktree,
# then run the named checks against it (scratch worktree via VERIF_REPO_OVERRIDE). Logs: /tmp/r10v_<id>.log, /tmp/r10c_<id>.log
id="$1"; shift
dir=/tmp/seed_out10/$id; wt=/tmp/vs10_$id
KNOWN='test_install_local_wheel|test_fixtures_exist|tests/core/test_iter.py'
{
git -C /repo worktree remove --force $wt 2>/dev/null
git -C /repo worktree add -q --detach $wt HEAD || exit 2
cd $wt
echo "== demo WITHOUT patch (expect exit 0)"; PYTHONPATH=$wt /venv/bin/python $dir/demo.py >/tmp/vs10_$id.base.log 2>&1; echo "exit=$?"
git apply $dir/patch.diff || { echo "PATCH DOES NOT APPLY"; exit 2; }
echo "== demo WITH patch (expect non-zero)"; PYTHONPATH=$wt /venv/bin/python $dir/demo.py >/tmp/vs10_$id.patched.log 2>&1; echo "exit=$?"; tail -2 /tmp/vs10_$id.patched.log | cut -c1-400
echo "== test suite WITH patch"
/venv/bin/python -m pytest -q -p no:cacheprovider --timeout=900 --continue-on-collection-errors > /tmp/vs10_$id.suite.log 2>&1
tail -1 /tmp/vs10_$id.suite.log
extra=$(grep -E "^(FAILED|ERROR) (tests|scripts)/" /tmp/vs10_$id.suite.log | grep -vE "$KNOWN" | sed 's/^[A-Z]* //; s/ - .*//')
for t in $extra; do
  echo "-- extra failure $t: re-running alone (3x)"
  for i in 1 2 3; do /venv/bin/python -m pytest -q -p no:cacheprovider --timeout=900 "$t" 2>&1 | tail -1; done
done
} 2>&1 | grep -v conda > /tmp/r10v_$id.log
cd /verif
: > /tmp/r10c_$id.log
for c in "$@"; do
  VERIF_REPO_OVERRIDE=$wt VERIF_DEV_BUILD=${wt}_build timeout 3000 ./check "$c" --tier quick 2>&1 | grep -v conda | grep -E "VIOLATION|KNOWN-FINDING|^\[C" >> /tmp/r10c_$id.log
done
mkdir -p /tmp/r10_replays/$id; cp ${wt}_build/replays/* /tmp/r10_replays/$id/ 2>/dev/null; rm -rf ${wt}_build
git -C /repo worktree remove --force $wt
cat /tmp/r10v_$id.log /tmp/r10c_$id.log
