import re, subprocess, sys, os, shutil
sid = sys.argv[1]
pre = f"/tmp/rb_pre_{sid}"; cur = f"/tmp/rb_cur_{sid}"
for d in (pre, cur):
    subprocess.run(["git", "-C", "/repo", "worktree", "remove", "--force", d], capture_output=True)
subprocess.run(["git", "-C", "/repo", "worktree", "add", "-q", "--detach", pre, "HEAD~1"], check=True)
subprocess.run(["git", "-C", "/repo", "worktree", "add", "-q", "--detach", cur, "HEAD"], check=True)
orig = f"/verif/seeded/{sid}/patch_pre_d4.diff" if os.path.exists(f"/verif/seeded/{sid}/patch_pre_d4.diff") else f"/verif/seeded/{sid}/patch.diff"
subprocess.run(["git", "apply", orig], cwd=pre, check=True)
src = open(f"{pre}/trie/utils/db.py").read()
def repl(m):
    ind = m.group(1)
    return (f"{ind}elif do_deletes:\n{ind}    # The wrapped database can itself be a ScratchDB (a batch opened\n"
            f"{ind}    # inside a batch), which supports deletion but not pop().\n"
            f"{ind}    try:\n{ind}        del self.wrapped_db[key]\n{ind}    except KeyError:\n{ind}        pass\n")
new, n = re.subn(r"([ \t]+)elif do_deletes:\n[ \t]+self\.wrapped_db\.pop\(key, None\)\n", repl, src)
assert n == 1, n
open(f"{cur}/trie/utils/db.py", "w").write(new)
diff = subprocess.run(["git", "diff"], cwd=cur, capture_output=True, text=True).stdout
if not os.path.exists(f"/verif/seeded/{sid}/patch_pre_d4.diff"):
    shutil.copy(f"/verif/seeded/{sid}/patch.diff", f"/verif/seeded/{sid}/patch_pre_d4.diff")
open(f"/verif/seeded/{sid}/patch.diff", "w").write(diff)
# demo: without (HEAD clean) and with
subprocess.run(["git", "checkout", "--", "."], cwd=cur)
r0 = subprocess.run(["/venv/bin/python", f"/verif/seeded/{sid}/demo.py"], cwd=cur, env=dict(os.environ, PYTHONPATH=cur), capture_output=True).returncode
subprocess.run(["git", "apply", f"/verif/seeded/{sid}/patch.diff"], cwd=cur, check=True)
r1 = subprocess.run(["/venv/bin/python", f"/verif/seeded/{sid}/demo.py"], cwd=cur, env=dict(os.environ, PYTHONPATH=cur), capture_output=True).returncode
print(sid, "demo without:", r0, "with:", r1, "lines:", len(diff.splitlines()))
for d in (pre, cur):
    subprocess.run(["git", "-C", "/repo", "worktree", "remove", "--force", d], capture_output=True)
