#!/bin/bash
# tools/try_seed_wt.sh <patch.diff> <check ids...> : like try_seed.sh, but in a scratch worktree of /repo
# (VERIF_REPO_OVERRIDE), so that /repo itself is not touched while other runs are using it.
set -u
patch="$1"; shift
wt=/tmp/tsw_$$
git -C /repo worktree add -q --detach $wt HEAD || exit 2
( cd $wt && git apply "$patch" ) || { echo "patch does not apply"; git -C /repo worktree remove --force $wt; exit 2; }
cd /verif
for c in "$@"; do
  VERIF_REPO_OVERRIDE=$wt VERIF_DEV_BUILD=${wt}_build ./check "$c" --tier quick 2>&1 | grep -v conda | grep -E "VIOLATION|KNOWN-FINDING|^\[C"
done
git -C /repo worktree remove --force $wt
mkdir -p /tmp/r3_replays; cp ${wt}_build/replays/* /tmp/r3_replays/ 2>/dev/null; rm -rf ${wt}_build
