#!/bin/bash
# tools/try_seed_wt.sh <patch.diff> <check ids...> : like try_seed.sh, but in a scratch worktree of /repo
# (VERIF_REPO_OVERRIDE), so that /repo itself is not touched while other runs are using it.
set -u
patch="$1"; shift
wt=/tmp/tsw_$$
git -C /repo worktree add -q --detach $wt HEAD || exit 2
( cd $wt && git apply "$patch" ) || { echo "patch does not apply"; git -C /repo worktree remove --force $wt; exit 2; }
cd /verif
for c in "$@"; do
  VERIF_REPO_OVERRIDE=$wt ./check "$c" --tier quick 2>&1 | grep -v conda | grep -E "VIOLATION|KNOWN-FINDING|^\[C"
done
git -C /repo worktree remove --force $wt
