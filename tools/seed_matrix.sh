#!/bin/bash
# tools/seed_matrix.sh [jobs] : run, for every seeded change under /verif/seeded/<id>/, the quick check of the property it
# breaks (scratch worktree of /repo via VERIF_REPO_OVERRIDE; /repo itself is not touched) and print one line per seed:
#   <seed id> <check> detected|MISSED <first line of the verdict>
# Results: /tmp/seed_matrix/<id>.log
jobs="${1:-4}"
mkdir -p /tmp/seed_matrix
one() {
  sid="$1"; prop="${sid:0:3}"; wt=/tmp/sm_$sid
  git -C /repo worktree remove --force $wt 2>/dev/null
  git -C /repo worktree add -q --detach $wt HEAD || { echo "$sid worktree failed"; return; }
  if ( cd $wt && git apply /verif/seeded/$sid/patch.diff 2>/dev/null ); then
    ( cd /verif && VERIF_REPO_OVERRIDE=$wt VERIF_DEV_BUILD=${wt}_build timeout 3000 ./check $prop --tier quick 2>&1 | grep -v conda | grep -E "VIOLATION|KNOWN-FINDING|^\[C" > /tmp/seed_matrix/$sid.log )
    if grep -q "^VIOLATION property=$prop" /tmp/seed_matrix/$sid.log; then
      v=$(grep -c "no-failing-input-found" /tmp/seed_matrix/$sid.log)
      c=$(grep -c "^VIOLATION" /tmp/seed_matrix/$sid.log)
      runs=$(grep -c "^\[$prop\] \(ok\|FAIL\)" /tmp/seed_matrix/$sid.log)
      if [ "$v" = "$c" ]; then echo "$sid $prop detected(correspondence-only) runs=$runs"; else echo "$sid $prop detected runs=$runs"; fi
    else
      echo "$sid $prop MISSED"
    fi
  else
    echo "$sid $prop PATCH-DOES-NOT-APPLY"
  fi
  rm -rf ${wt}_build; git -C /repo worktree remove --force $wt
}
export -f one
ls /verif/seeded | xargs -P "$jobs" -I{} bash -c 'one {}' | sort
