import json, os, shutil
NEEDS = {
 "C01": ("memo of the decoded ROOT node (filled by every lookup, returned by get_node for the same hash while it is in the db): set / delete mutate that list in place, so after writes that restore exactly an earlier mapping - with no lookup in between - lookups walk a stale node (root_hash stays right)",
         ["C01 - strengthened (first only a correspondence break in an escalation run: reads after every single write kept replacing the memo; histories now also change the trie and restore the earlier mapping without any lookup in between, then read)"]),
 "C02": ("_create_node_to_db_mapping embeds only 2-item nodes: a BRANCH whose encoding is under 32 bytes (two tiny sibling leaves) is hashed and stored instead of embedded - everything stays self-consistent, only the root is not the Yellow-Paper root",
         ["C02 - strengthened (first only in an escalation run: a tiny-values mode - all values 1..3 bytes, whole sub-tries embedded - is now chosen for a share of all hexary histories)"]),
 "C03": ("get_proof memoised per (root, key) with lru_cache; the cached tuple holds the decoded nodes as mutable lists: once a caller alters a returned node in place (as tests/core/test_proof.py does), every later get_proof of that key returns the altered nodes",
         ["C03 - strengthened (missed: the harness now overwrites every list a call returned - proof nodes, HexaryTrieNode.raw - after observing it, and asks each proof twice)"]),
 "C04": ("squash_changes reuses ONE ScratchDB per trie object: with two blocks open at once on the same trie, abandoning the second wipes the first one's buffer, whose normal exit then moves the root to a node that was never stored",
         ["C04 - strengthened (missed: overlapping blocks on one trie object - second abandoned or committed before the first ends - are now run, Python-side oracle)"]),
 "C05": ("ScratchDB.batch_commit skips a buffered write when `key in wrapped_db`: __contains__ is True for a key marked DELETED in an enclosing ScratchDB while it is still underneath, so an inner block that re-creates a node the enclosing block dereferenced does not replace the marker and the outer commit deletes a live node",
         ["C05, C06, C01 - strengthened (missed: nested 'there and back' family - the enclosing block overwrites / deletes a key, an inner block sets the old value again)"]),
 "C06": ("ScratchDB.batch_commit reads wrapped_db[key] and skips the write when the value is equal: reads go through a DELETED marker of an enclosing ScratchDB to the real db, same consequence as C05-5", ["C06, C05 - strengthened (same family)"]),
 "C07": ("one _pending_prune_keys table per pruning trie, cleared only by _complete_pruning: a set / delete that raised MissingTrieNode leaves its prune requests behind and the next successful call applies them (a shared node is pruned twice after a retry)", ["C07"]),
 "C08": ("TraversedPartialPath._make_simulated_node builds the simulated node by overwriting node.raw[0] in place: a HexaryTrieNode the caller keeps as the start of traverse_from calls is corrupted by a call that ends inside a leaf / extension embedded in it",
         ["C08 - strengthened (first only a correspondence break: one node obtained at a prefix is now REUSED for many traverse_from calls, twice over, each compared with traverse(prefix + segment))", "C09"]),
 "C09": ("root_node memoised, cleared only by _set_root_node: after squash_changes (or a root_hash assignment) root_node is stale, so a walk descending through traverse_from(trie.root_node, prefix) sees the old contents", ["C08", "C09 (correspondence)"]),
 "C10": ("NodeIterator.nodes takes its TrieFrontierCache as a mutable DEFAULT argument: all walks of all iterators share one cache keyed by prefix only; two walks over different tries advanced alternately feed each other's parents",
         ["C10 - strengthened (first a harness crash: two iterators over related tries are now advanced in lockstep - items() and nodes() - and each compared with its own trie)"]),
 "C11": ("nearest_unknown memoised per fog, memo handed on by explore (filtered) and by mark_all_complete (NOT filtered): a fog returned by mark_all_complete answers an earlier key with a prefix it no longer contains",
         ["C11 - strengthened (first only in an escalation run: the same questions are now asked immediately before and after every explore / mark_all_complete)"]),
 "C12": ("_set_kv_node deletes the transient sub-node from the database after a kv-into-kv merge: the database is keyed by content, so the 'transient' node can be a live node elsewhere (two keys with the same value and the same tail bits) or of an earlier root",
         ["C12 - strengthened (first only a correspondence break: twin-tail family, every stored key read back after every operation, unreadable earlier roots reported instead of crashing the harness)"]),
 "C13": ("get_trie_nodes caches its result per node hash at module level: a call on a PARTIAL database (root present, descendants missing) poisons later calls on the complete database",
         ["C13 - strengthened (missed: the functions are now first called on a partial database built from one branch)"]),
 "C14": ("SparseMerkleTree lookup memo declared in the CLASS body and only replaced per instance by set(): every tree that has not written yet (fresh trees, from_db views) shares one dict keyed by key bytes only", ["C14"]),
 "C15": ("SparseMerkleTree.set remembers, per key, the last value and the hash tuple it returned, and returns the remembered tuple when the same value is written again - stale once another key changed in between", ["C14", "C15 - strengthened (the proof check missed it: streams now repeat the same write around real changes of a neighbour inside the sibling subtree)"]),
 "C16": ("parse_node rejects kv nodes longer than 66 bytes ('at most 256 path bits'): parse_node(encode_kv_node(path, h)) raises InvalidNode for key paths of 261 bits or more (binary-trie keys over 32 bytes)",
         ["C16 - strengthened (missed: kv key paths were at most 40 bits; now up to 700 bits, fixed cases around 256; C12 uses 33 / 40-byte keys now and then)"]),
 "C17": ("ScratchDB.__getitem__ stores values read through from the wrapped database in the write buffer: reading a key whose latest action is a delete replaces the DELETED marker, and the delete is not applied at commit", ["C17"]),
 "C18": ("at_root refuses a pruning trie only when its db is not a ScratchDB: the (pruning) batch trie of squash_changes hands out snapshots instead of raising ValidationError",
         ["C18 - strengthened (missed: at_root is now also called on the batch trie and on a nested batch trie)"]),
}
for sid, (needs, caught) in NEEDS.items():
    src = f"/tmp/seed_out5/{sid}"
    dst = f"/verif/seeded/{sid}-5"
    os.makedirs(dst, exist_ok=True)
    for f in ("patch.diff", "demo.py", "notes.md"):
        shutil.copy(os.path.join(src, f), os.path.join(dst, f))
    log = open(f"/tmp/r5v_{sid}.log").read() if os.path.exists(f"/tmp/r5v_{sid}.log") else ""
    log = "\n".join(l for l in log.splitlines() if "conda" not in l)
    meta = {"property": sid, "round": 5,
            "breaks": open(f"/tmp/seed_out5/prop_{sid}.txt").read().split("\n")[0],
            "needs_to_manifest": needs, "caught_by": caught,
            "written_by": "fresh sub-agent given only the property text, its own git worktree of /repo, one-line descriptions of the four earlier seeded changes to avoid, and a request for state that survives between calls / aliasing / rarely used public paths / cooperating edits / call-order dependence",
            "verified": {"how": "tools/round5.sh (scratch worktree: demo passes without / fails with the patch; pinned suite with the patch: 215 passed, same known failures - a few runs under heavy machine load showed hypothesis deadline flakes that passed when re-run alone); checks run against a scratch worktree via VERIF_REPO_OVERRIDE",
                         "log": log[-1500:]}}
    json.dump(meta, open(os.path.join(dst, "meta.json"), "w"), indent=1)
    print("registered", sid)
