import json, os, shutil
NEEDS = {
 "C01": ("squash_changes on a non-pruning trie adopts the batch's root only `if not is_blank_node(raw_root_node)`: a batch that removes every key leaves the outer trie at its old root - all removed keys read their old values again", ["C01", "C02"]),
 "C02": ("squash_changes on a non-pruning trie adopts the new root only when `new_root_hash in self.db`: the blank root has no stored node, so a batch that empties the trie keeps the old root hash (same consequence as C01-7, other guard)", ["C02", "C01"]),
 "C03": ("get_from_proof raises BadTrieProof up front for an EMPTY proof: for the empty trie (blank root) the honest proof of any key is () and must verify to b''",
         ["C03 - strengthened (tries had at least two writes: the never-written and the emptied trie are now in the fixed corpus)"]),
 "C04": ("ScratchDB.__init__ 'flattens' a ScratchDB built on a ScratchDB: it copies the enclosing buffer (DELETED markers included) and wraps the enclosing layer's OWN database, so an inner block's commit (do_deletes=True, the batch trie prunes) deletes from the real database of a non-pruning trie",
         ["C04 - strengthened (blocks in C04 histories were never nested; a share of them now contains an inner block)", "C05"]),
 "C05": ("ScratchDB.cache becomes a CLASS attribute (one dict for every instance; batch_commit ends with .clear()): two blocks open at once - nested, or on unrelated tries - commit and wipe each other's buffers", ["C05", "C06"]),
 "C06": ("HexaryTrie.set no longer validates the VALUE up front (validate_is_node catches it later): a non-bytes value under a key that splits an existing leaf / extension is refused after the moved-down remainder was already persisted and counted - garbage for ever",
         ["C18, C06 - strengthened (missed: ill-typed values were only tried under one fixed key; C18 now uses keys that split existing nodes, C06 histories contain refused calls)"]),
 "C07": ("_prune_node decrements the count of a node referenced more than once immediately instead of queueing it: a write that then fails at a missing node below has already changed the reference counts, and the retry dereferences the shared node twice",
         ["C07 - strengthened (missed: needs byte-identical SUB-TRIES, every node referenced twice, above the missing node; in the fixed corpus now, every single node removed in turn)"]),
 "C08": ("_traverse_from loads (and discards) the child of an extension when the key ends inside the extension's path: one extra database read for zero / one hop (results unchanged)", ["C08 (read accounting of session 4)"]),
 "C09": ("TrieFrontierCache.__init__(self, frontier={}): every cache built without arguments shares ONE dict; two walks over different tries advanced alternately descend into each other's sub-tries",
         ["C09 - (a second independent walker, advanced alternately, was added on this report)"]),
 "C10": ("_get_next_key raises ValidationError('trie was modified during iteration') for a node with neither value nor sub-segments: next() on a trie with NO key raises instead of returning None",
         ["C10 - strengthened (missed as a concrete violation: the harness crashed on the exception; empty and emptied tries are in the fixed cases now and an exception from next() is an observation)"]),
 "C11": ("explore() builds its result as union(children) then remove(old_prefix): explore(p, [()]) - the single empty continuation, which replaces p by itself - makes p disappear", ["C11 - strengthened (the empty sub-segment was never generated; now it is, alone and together with others)"]),
 "C12": ("set / delete / delete_subtrie run on a ChainMap overlay of self.db that is flushed and restored WITHOUT try/finally: after one refused call self.db stays the overlay and later roots never reach the caller's database",
         ["C12 - strengthened (earlier roots were re-read through t.db - the leaked overlay; they are now read from the database object the caller passed in)"]),
 "C13": ("_get_witness_for_key_prefix returns instead of raising InvalidKeyError when the prefix runs past a leaf: the witness lacks the leaf and cannot answer get(k) below the prefix", ["C13"]),
 "C14": ("SparseMerkleTree.branch raises KeyError also when the value equals a NON-BLANK default: readable (cleared / unwritten) keys have no branch", ["C14"]),
 "C15": ("SparseMerkleProof keeps a reference to the caller's branch list until its first other-key update (copy on write): a caller that reuses its list changes the proof",
         ["C15 - strengthened (the harness passed tuples; it now passes lists and overwrites them after the call, also the node-hash lists given to update())"]),
 "C16": ("is_branch_node additionally requires every child slot to be bytes of length 0 or 32: a branch with an EMBEDDED child classifies as nothing at all", ["C16"]),
 "C17": ("ScratchDB.__contains__ answers False for a key whose buffered action is DELETED instead of reading through to the wrapped database", ["C17"]),
 "C18": ("_prune_on_success resets the pending table only on MissingTrieNode or success: a ValidationError for an ill-typed argument (raised inside the with-block) leaves the 'operation in progress' marker set, and the next VALID write on that pruning trie fails",
         ["C18 - strengthened (refusals were only followed by reads; valid writes after the refusals - on the trie and on a batch trie - are now required to work)"]),
}
for sid, v in NEEDS.items():
    if v is None:
        continue
    needs, caught = v
    src = f"/tmp/seed_out7/{sid}"
    dst = f"/verif/seeded/{sid}-7"
    os.makedirs(dst, exist_ok=True)
    for f in ("patch.diff", "demo.py", "notes.md"):
        shutil.copy(os.path.join(src, f), os.path.join(dst, f))
    log = open(f"/tmp/r7v_{sid}.log").read() if os.path.exists(f"/tmp/r7v_{sid}.log") else ""
    log = "\n".join(l for l in log.splitlines() if "conda" not in l)
    meta = {"property": sid, "round": 7,
            "breaks": open(f"/tmp/seed_out7/prop_{sid}.txt").read().split("\n")[0],
            "needs_to_manifest": needs, "caught_by": caught,
            "written_by": "fresh sub-agent given only the property text, its own git worktree of /repo and one-line descriptions of the six earlier seeded changes (to differ from in mechanism and code site)",
            "verified": {"how": "tools/round7.sh (scratch worktree: demo passes without / fails with the patch; pinned suite with the patch: 215 passed (214 in two runs under heavy load, the extra failure a hypothesis deadline flake that passes alone), same known failures); checks run against a scratch worktree via VERIF_REPO_OVERRIDE",
                         "log": log[-1500:]}}
    json.dump(meta, open(os.path.join(dst, "meta.json"), "w"), indent=1)
print("ok")
