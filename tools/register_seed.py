"""tools/register_seed.py: copy verified seeds from /tmp/seed_out into /verif/seeded/<id>/ with meta.json"""
import json, os, re, shutil, sys

NEEDS = {
 "C01": ("get/exists of an ABSENT key that ends exactly where an extension node starts, the branch behind the extension holding a value; "
         "that shape only arises after an insert + delete merged a branch back into an extension", ["C01", "C03"]),
 "C02": ("a delete that empties one slot of a two-slot branch sitting under an extension while the surviving sibling is a branch/extension "
         "(keys 1200, 1210, 1211; delete 1200): lookups stay right, only the root becomes non-canonical", ["C02", "C01 (correspondence)"]),
 "C03": ("get_proof for a key ending exactly at the end of an extension whose child branch is stored by hash (two other keys share the key as a proper prefix)", ["C03"]),
 "C04": ("a squash_changes batch on a non-pruning trie whose commit hits a failing database write from the second write on", ["C04", "C05"]),
 "C05": ("same site as C04 (adoption of the batch result moved inside the commit block; re-indentation only): failing commit write #2+", ["C05", "C04"]),
 "C06": ("a delete collapsing a branch whose only two children are the SAME hashed leaf (identical remaining path and >= 32-byte value)", ["C06"]),
 "C07": ("a missing node that sits exactly at the end of the requested key / path (used_key slice with -0)", ["C07"]),
 "C08": ("two cooperating sites (hexary._traverse_from leaf case + exceptions._make_simulated_node): a path that runs past the end of a leaf's key", ["C08", "C09"]),
 "C09": ("same two sites (written independently): a walk in which a prefix key collapses into a leaf above the fog frontier after its longer keys were deleted mid-walk", ["C09", "C08"]),
 "C10": ("the empty key b'' stored AND the query next(b'')", ["C10"]),
 "C11": ("explore with sub-segments of >= 3 distinct lengths where the nesting is between the two longer ones", ["C11 (after the generator gained 3-length nesting)"]),
 "C12": ("deleting a key that differs from another stored key only in its final bit (kv-into-kv merge skipped): root no longer canonical", ["C12"]),
 "C13": ("get_witness_for_key_prefix for an ABSENT prefix that ends inside a kv node's path and diverges from it", ["C13 (after the oracle probed absent keys below the prefix)"]),
 "C14": ("non-blank default + instance obtained through from_db + a later delete", ["C14 (after the reopen operation was added)"]),
 "C15": ("an update for another key with a node-hash list truncated at the leaf end but still long enough", ["C15"]),
 "C16": ("a malformed binary node whose type byte is exactly 0x03", ["C16"]),
 "C17": ("set then delete of a key that pre-exists in the wrapped db, committed with do_deletes=True", ["C17"]),
 "C18": ("HexaryTrie.set(key, bytearray()) (an empty bytearray compares equal to b'' and is treated as a deletion before validation)", ["C18 (after falsy/empty look-alike kinds were added)"]),
}

log = open("/tmp/verify_all.log").read() if os.path.exists("/tmp/verify_all.log") else ""
for sid in sys.argv[1:]:
    src = f"/tmp/seed_out/{sid}"
    dst = f"/verif/seeded/{sid}"
    os.makedirs(dst, exist_ok=True)
    for f in ("patch.diff", "demo.py", "notes.md"):
        if os.path.exists(os.path.join(src, f)):
            shutil.copy(os.path.join(src, f), os.path.join(dst, f))
    m = re.search(r"##### %s\n(.*?)(?=\n##### |\Z)" % sid, log, re.S)
    verified = m.group(1).strip() if m else "see /verif/DESIGN.md section 11"
    meta = {
        "property": sid,
        "breaks": open(f"/tmp/seed_out/prop_{sid}.txt").read().split("\n")[0],
        "needs_to_manifest": NEEDS[sid][0],
        "caught_by": NEEDS[sid][1],
        "written_by": "fresh sub-agent given only the property text and its own git worktree of /repo",
        "verified": {
            "how": "tools/verify_seed.sh: scratch worktree of /repo; demo.py without the patch (exit 0), with the patch (non-zero), "
                   "pinned test suite with the patch (215 passed, same known failures); then tools/try_seed.sh <patch> <check ids> on /repo, undone afterwards",
            "log": verified[-1500:],
        },
    }
    json.dump(meta, open(os.path.join(dst, "meta.json"), "w"), indent=1)
    print("registered", sid)
