import json, os, shutil
NEEDS = {
 "C02": ("_normalize_branch_node links a surviving child by a one-nibble extension instead of folding it in when the pruning reference count of that child is above 1 (two byte-identical leaves / extensions): the root depends on pruning and batching", ["C02", "C01"]),
 "C03": ("get_from_proof's `except MissingTrieNode` handler indexes the key's nibbles at len(e.prefix) to build a nicer message: when the withheld node sits exactly at the END of the key the index is out of range and IndexError escapes instead of BadTrieProof", ["C03"]),
 "C04": ("ScratchDB.__setitem__ drops a write when this layer has no entry for the key and the wrapped db 'already holds' the same value - seen THROUGH a pending delete of the layer below: three nested blocks (set / delete / set again) move the root to a node that is never stored", ["C04", "C05"]),
 "C05": ("squash_changes copies the reference counts only `if batch_ref_count:` - an EMPTY dict is falsy, so the batch of an empty pruning trie (or a nested batch before its first write) works on the outer dict and an abandoned block leaves its counts behind", ["C05", "C06"]),
 "C06": ("squash_changes commits with do_deletes = is_pruning and not isinstance(self.db, ScratchDB): an inner block's deletions are dropped while its counts (0 for the dereferenced nodes) are adopted - garbage after the outermost commit", ["C06", "C05"]),
 "C07": ("exists() no longer goes through get(): it calls _get and converts MissingTraversalNode with the write-path helper, which always passes prefix=None", ["C07"]),
 "C08": ("traverse() returns a blank node at once for paths longer than 64 nibbles ('keys are 32-byte hashes')",
         ["C08 - strengthened (missed: hexary key pools were 20 or 32 bytes wide; pools of 33 / 40-byte keys with forks in the last byte / nibble are used now)"]),
 "C09": ("HexaryTrieFog.explore silently drops new prefixes deeper than 64 nibbles: the fog completes without ever visiting nodes below two > 32-byte keys that share more than 64 nibbles",
         ["C09 - strengthened (same blind spot: long key pools + a deep-fork family)"]),
 "C10": ("the fog's SortedSet gets a packed-integer sort key padded to 64 nibbles: deeper prefixes sort after every shallower one, so nodes() / keys() / items() come out of order for keys longer than 32 bytes",
         ["C10 - strengthened (same blind spot)"]),
 "C11": ("explore() checks for duplicate sub-segments only when all segments have the same length: a repeated segment in a mixed-length list is accepted", ["C11"]),
 "C12": ("_set_kv_node 'grouped by case': when the new key ends right after the diverging bit it assumes the old kv path ends there too - with keys of different lengths the rest of the old path (and the key below it) is lost", ["C12"]),
 "C13": ("_get_branch compares only the LENGTH of the consumed kv path, not its bits: a key diverging inside a kv path but long enough is walked on and refused with InvalidKeyError although it is neither a prefix nor an extension of a stored key", ["C13"]),
 "C14": ("set() skips hashing 'all-default' subtrees with a flag recomputed per level as `value == default and sibling == default_hash` (instead of `is_default and ...`): clearing a key next to a populated one drops the neighbour", ["C14", "C15"]),
 "C15": ("SparseMerkleProof.update, own-key arm: refuses a non-empty node-hash list whose last element is not keccak(value) - true only of FULL lists; a list pruned to any shorter length is rejected and the proof keeps its old value",
         ["C15 - strengthened (missed: own-key updates were streamed with the empty or the full list only; pruned lists of every length are used now)"]),
 "C16": ("encode_branch_node validates only the total length (65) instead of each child: children of 31 + 33 or 0 + 64 bytes are encoded and parse back as other children", ["C16"]),
 "C17": ("ScratchDB.copy() builds its view with ChainMap(wrapped, cache) - first mapping wins - instead of merge(wrapped, cache): the wrapped value hides a buffered write", ["C17"]),
 "C18": ("check_if_branch_exist returns False for the blank root BEFORE validating the key prefix: ill-typed prefixes are accepted on an empty trie", ["C18"]),
}
for sid, (needs, caught) in NEEDS.items():
    src = f"/tmp/seed_out8/{sid}"
    dst = f"/verif/seeded/{sid}-8"
    os.makedirs(dst, exist_ok=True)
    for f in ("patch.diff", "demo.py", "notes.md"):
        shutil.copy(os.path.join(src, f), os.path.join(dst, f))
    log = open(f"/tmp/r8v_{sid}.log").read() if os.path.exists(f"/tmp/r8v_{sid}.log") else ""
    log = "\n".join(l for l in log.splitlines() if "conda" not in l)
    meta = {"property": sid, "round": 8,
            "breaks": open(f"/tmp/seed_out8/prop_{sid}.txt").read().split("\n")[0],
            "needs_to_manifest": needs, "caught_by": caught,
            "written_by": "fresh sub-agent given only the property text, its own git worktree of /repo and one-line descriptions of the seven earlier seeded changes (to differ from in mechanism and code site); no seed was produced for C01 in this round (three attempts, each caught by the pinned suite)",
            "verified": {"how": "tools/round8.sh (scratch worktree: demo passes without / fails with the patch; pinned suite with the patch: 215 passed, same known failures; 214 in two runs under heavy load - a hypothesis deadline flake that passes alone); checks run against a scratch worktree via VERIF_REPO_OVERRIDE, this time with NO harness change made between the agent's report and the first run",
                         "log": log[-1500:]}}
    json.dump(meta, open(os.path.join(dst, "meta.json"), "w"), indent=1)
print("ok")
