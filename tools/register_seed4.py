"""register round-4 seeds from /tmp/seed_out4 into /verif/seeded/<id>-4/ (verification logs: /tmp/r4v_<id>.log)"""
import json, os, shutil, sys
NEEDS = {
 "C01": ("_set_kv_node 'shortcut' when the key ends exactly at the end of an extension and the branch behind it already holds a value of the same length: it writes into the decoded child and returns the old extension; for a HASHED child branch the write is lost (set succeeds, root unchanged, get returns the old value)",
         ["C01, C02 (first only in an extra run after the source fingerprint differed; histories now overwrite stored keys with a different value of the SAME length, and the shape is in the fixed corpus)"]),
 "C02": ("_normalize_branch_node catches the KeyError of a missing last child and falls back to a one-nibble extension pointing at its hash: a delete collapsing a branch onto a hashed leaf / extension whose body is absent succeeds with a non-canonical root (complete databases behave as before)",
         ["C07", "C02 (after deletes on copies of the final database lacking one node were added: a write there must raise or give the canonical root)"]),
 "C03": ("get_from_proof skips non-root proof nodes whose encoding is <= 32 bytes ('they are embedded'): a node of EXACTLY 32 bytes is referenced by hash, so the honest proof of a key passing through it is rejected with BadTrieProof", ["C03"]),
 "C04": ("_set_root_node assigns root_hash before the root node is written (refactoring into a pure mapping helper + write): a plain set / delete whose LAST database write fails leaves the trie pointing at a root that was never stored", ["C04"]),
 "C05": ("ScratchDB.batch_commit commits in `finally` guarded by a flag that only `except Exception` clears: a block left by KeyboardInterrupt / SystemExit / GeneratorExit (not Exception subclasses) flushes the half-finished batch, popping pre-existing nodes of a pruning trie",
         ["C05, C17 (missed at first: the harness only left blocks by an Exception subclass; blocks are now also left by a BaseException and by GeneratorExit from closing a generator that holds the block)"]),
 "C06": ("ScratchDB.__delitem__ drops a cache entry written in this batch instead of recording the DELETED marker: a batch on a pruning trie that re-writes a pre-existing node and later dereferences it commits without deleting it (garbage left; counts still agree with regenerate)", ["C06", "C05"]),
 "C07": ("_set_db_value on a pruning trie skips the database write when the node's count is already positive: with the body of a live node absent, a write elsewhere that creates a byte-identical node succeeds without storing it",
         ["C07 (first only as a correspondence break in an extra run; the oracle now requires every node of the new trie that the call stores on the complete database to be present afterwards, and the twin-leaf shape is in the fixed corpus)"]),
 "C08": ("traverse_from does not raise TraversedPartialPath when the remaining key equals the reached leaf's suffix: traverse_from(node at p, s) with p+s ending exactly at a stored key whose leaf has a non-empty suffix returns the leaf instead of the partial result traverse(p+s) gives", ["C08"]),
 "C09": ("traverse_from returns blank early when the key starts with none of the parent's sub-segments (leaf parents exempt): from an EXTENSION parent a key ending inside its segment is blank instead of partial; a walker reaching prefixes with traverse_from(root_node, prefix) drops the subtree after a mid-walk delete turned the root into an extension",
         ["C08", "C09 (after the driver makes 'from the root' descents through traverse_from(trie.root_node, prefix) in a share of the walks)"]),
 "C10": ("_get_key_after returns None as soon as the query key is used up, before the leaf-suffix test: next(k) for a non-stored k that is a proper prefix of exactly one stored key whose leaf hangs right at the end of k skips that key", ["C10"]),
 "C11": ("nearest_right (and nearest_unknown) short-cut 'only one prefix left': with a single unexplored prefix p and a key to the right of and outside p, nearest_right returns p instead of raising FullDirectionalVisibility", ["C11", "C09 (correspondence)"]),
 "C12": ("BinaryTrie._get loses the 'key path exhausted' guard at branch nodes: a never-stored proper prefix p whose bits end exactly at a branch under which an all-ones spine of eight branches ends in a leaf (nine dense keys p+7f..p+ff) reads the value of p+ff",
         ["C12 (missed at first: sparse key sets always put a kv node on the path; a dense 'spine' family, ones and zeros side, was added)"]),
 "C13": ("if_branch_valid stores the first branch node under the CLAIMED root hash without hashing it: a branch whose first node is forged validates absence / another value / another trie's answer", ["C13"]),
 "C14": ("SparseMerkleTree._get stops at any hash found in the initial all-default tree, whatever its height: two sibling keys both set to the 64-byte value keccak(default)*2 make their parent hash to an empty-subtree hash, so they read as absent and later writes diverge",
         ["C14 (missed at first: values that are byte-for-byte bodies of internal nodes, on aligned sibling groups, were added)"]),
 "C15": ("SparseMerkleTree.delete of a key that already holds the default returns the SIBLING list from _get instead of the path hashes: a proof tracking another key overwrites its sibling with a wrong hash and silently diverges", ["C15", "C14"]),
 "C16": ("parse_node computes the child-hash offset as len(node) - 32 and rejects only an empty key-path slice: kv nodes of 17..31 bytes (negative offset) are parsed instead of raising InvalidNode",
         ["C16 (missed at first: impossible lengths were probed only around the boundaries 33/34/65/66; every length 1..70 x type byte x decodable and undecodable bodies is now swept)"]),
 "C17": ("ScratchDB.batch_commit decides 'the block failed' from sys.exc_info() in a finally clause: a batch opened while the CALLER is handling an exception (inside an except block) and exiting normally is not committed",
         ["C17, C05 (missed at first: every batch is now also run while the caller is handling an exception)"]),
 "C18": ("the key checks of SparseMerkleTree._get are moved up into get/exists but not into branch(): branch(key) accepts over-long keys, bytearrays and ints, and raises KeyError / TypeError for others, instead of ValidationError", ["C18"]),
}
for sid, v in NEEDS.items():
    if v is None:
        continue
    needs, caught = v
    src = f"/tmp/seed_out4/{sid}"
    dst = f"/verif/seeded/{sid}-4"
    os.makedirs(dst, exist_ok=True)
    for f in ("patch.diff", "demo.py", "notes.md"):
        shutil.copy(os.path.join(src, f), os.path.join(dst, f))
    log = open(f"/tmp/r4v_{sid}.log").read() if os.path.exists(f"/tmp/r4v_{sid}.log") else ""
    log = "\n".join(l for l in log.splitlines() if "conda" not in l)
    meta = {"property": sid, "round": 4,
            "breaks": open(f"/tmp/seed_out4/prop_{sid}.txt").read().split("\n")[0],
            "needs_to_manifest": needs, "caught_by": caught,
            "written_by": "fresh sub-agent given only the property text, its own git worktree of /repo and one-line descriptions of the three earlier seeded changes to avoid",
            "verified": {"how": "tools/round4.sh (scratch worktree: demo passes without / fails with the patch, run with PYTHONPATH = the worktree; pinned suite with the patch: 215 passed, same known failures); "
                                "checks run against a scratch worktree via VERIF_REPO_OVERRIDE",
                         "log": log[-1500:]}}
    json.dump(meta, open(os.path.join(dst, "meta.json"), "w"), indent=1)
    print("registered", sid)
