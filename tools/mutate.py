"""tools/mutate.py — development aid: first-order mutants of /repo/trie/*.py, run against the checks' Python oracles
(VERIF_DEV_ORACLE_ONLY) in scratch worktrees, to find blind spots of the generators/oracles.
usage: /venv/bin/python tools/mutate.py <file under trie/> <n mutants> <seed> <checks...>"""
import ast, copy, json, os, random, subprocess, sys
from concurrent.futures import ThreadPoolExecutor

REPO = "/repo"


class Collector(ast.NodeVisitor):
    def __init__(self):
        self.sites = []

    def generic_visit(self, node):
        if isinstance(node, ast.Compare) and len(node.ops) == 1:
            self.sites.append(("cmp", node))
        elif isinstance(node, ast.BinOp) and isinstance(node.op, (ast.Add, ast.Sub)):
            self.sites.append(("binop", node))
        elif isinstance(node, ast.BoolOp):
            self.sites.append(("boolop", node))
        elif isinstance(node, ast.UnaryOp) and isinstance(node.op, ast.Not):
            self.sites.append(("not", node))
        elif isinstance(node, ast.Constant) and isinstance(node.value, int) and not isinstance(node.value, bool) and 0 <= node.value <= 33:
            self.sites.append(("const", node))
        elif isinstance(node, ast.Expr) and isinstance(node.value, ast.Call):
            self.sites.append(("delcall", node))
        elif isinstance(node, ast.If):
            self.sites.append(("ifneg", node))
        super().generic_visit(node)


SWAP = {ast.Lt: ast.LtE, ast.LtE: ast.Lt, ast.Gt: ast.GtE, ast.GtE: ast.Gt, ast.Eq: ast.NotEq, ast.NotEq: ast.Eq,
        ast.In: ast.NotIn, ast.NotIn: ast.In, ast.Is: ast.IsNot, ast.IsNot: ast.Is}


def mutants(src):
    tree = ast.parse(src)
    c = Collector()
    c.visit(tree)
    out = []
    for idx, (kind, _) in enumerate(c.sites):
        t2 = copy.deepcopy(tree)
        c2 = Collector()
        c2.visit(t2)
        kind, node = c2.sites[idx]
        desc = f"{kind}@{getattr(node, 'lineno', '?')}"
        if kind == "cmp":
            op = type(node.ops[0])
            if op not in SWAP:
                continue
            node.ops = [SWAP[op]()]
        elif kind == "binop":
            node.op = ast.Sub() if isinstance(node.op, ast.Add) else ast.Add()
        elif kind == "boolop":
            node.op = ast.Or() if isinstance(node.op, ast.And) else ast.And()
        elif kind == "not":
            # replace `not x` by `x`
            for parent in ast.walk(t2):
                for f, v in ast.iter_fields(parent):
                    if v is node:
                        setattr(parent, f, node.operand)
                    elif isinstance(v, list) and node in v:
                        v[v.index(node)] = node.operand
        elif kind == "const":
            node.value = node.value + 1
        elif kind == "delcall":
            node.value = ast.Constant(value=None)
        elif kind == "ifneg":
            node.test = ast.UnaryOp(op=ast.Not(), operand=node.test)
        try:
            out.append((desc, ast.unparse(t2)))
        except Exception:
            pass
    return out


def run_one(args):
    i, desc, code, rel, checks = args
    wt = f"/tmp/mut_{os.getpid()}_{i}"
    subprocess.run(["git", "-C", REPO, "worktree", "add", "-q", "--detach", wt, "HEAD"], check=True, capture_output=True)
    try:
        open(os.path.join(wt, rel), "w").write(code)
        killed = []
        env = dict(os.environ, VERIF_REPO_OVERRIDE=wt, VERIF_DEV_SKIP_GATE="1", VERIF_DEV_BUILD=wt + "_build")
        if not os.environ.get("MUTATE_FULL"):
            env["VERIF_DEV_ORACLE_ONLY"] = "1"     # default: Python oracles only (fast); MUTATE_FULL=1 also runs the Coq model comparison
        # does it even import?
        r = subprocess.run(["/venv/bin/python", "-c", "import sys; sys.path.insert(0, %r); import trie" % wt], capture_output=True)
        if r.returncode:
            return desc, ["import-error"]
        for c in checks:
            try:
                r = subprocess.run(["/verif/check", c, "--tier", "quick"], env=env, capture_output=True, text=True, timeout=900)
                if r.returncode != 0:
                    killed.append(c)
                    break
            except subprocess.TimeoutExpired:
                killed.append(c + "(timeout)")
                break
        return desc, killed
    finally:
        subprocess.run(["git", "-C", REPO, "worktree", "remove", "--force", wt], capture_output=True)
        subprocess.run(["rm", "-rf", wt + "_build"])


def main():
    rel, n, seed = sys.argv[1], int(sys.argv[2]), int(sys.argv[3])
    checks = sys.argv[4:]
    src = open(os.path.join(REPO, rel)).read()
    ms = mutants(src)
    random.Random(seed).shuffle(ms)
    ms = ms[:n]
    only = os.environ.get("MUTATE_ONLY")           # comma-separated descriptions (kind@line) to re-run
    if only:
        ms = [m for m in ms if m[0] in only.split(",")]
    print(f"{len(ms)} mutants of {rel}")
    with ThreadPoolExecutor(max_workers=int(os.environ.get('MUTATE_WORKERS', '6'))) as ex:
        for desc, killed in ex.map(run_one, [(i, d, c, rel, checks) for i, (d, c) in enumerate(ms)]):
            print(("KILLED  " if killed else "SURVIVED"), desc, killed, flush=True)


if __name__ == "__main__":
    main()
