"""tools/fingerprint.py [--update] : per-function AST fingerprints of the modelled source (/repo/trie).

The Gallina models were written by hand against a particular source text.  harness/source_fingerprint.json records,
for every modelled file, a hash of each top-level function / method body (AST dump without docstrings, so comments
and formatting do not matter).  Every check compares the current /repo with it (harness/common.source_changed): a
difference is NOT a violation - it means the correspondence has to be re-established for changed code, so the check
then spends more effort (extra seeds) before it concludes.  --update rewrites the file from /repo (done when the
models are brought in line with an accepted source change, e.g. after the fix: commits)."""
import ast
import hashlib
import json
import os
import sys

FILES = ["trie/hexary.py", "trie/binary.py", "trie/branches.py", "trie/smt.py", "trie/fog.py", "trie/iter.py",
         "trie/exceptions.py", "trie/validation.py", "trie/typing.py", "trie/constants.py",
         "trie/utils/nibbles.py", "trie/utils/nodes.py", "trie/utils/binaries.py", "trie/utils/db.py",
         "trie/utils/sha3.py", "trie/__init__.py"]


def _strip_doc(node):
    for n in ast.walk(node):
        body = getattr(n, "body", None)
        if isinstance(body, list) and body and isinstance(body[0], ast.Expr) and isinstance(getattr(body[0], "value", None), ast.Constant) \
                and isinstance(body[0].value.value, str):
            n.body = body[1:] or [ast.Pass()]
    return node


def fingerprint_file(path):
    out = {}
    try:
        tree = _strip_doc(ast.parse(open(path).read()))
    except (OSError, SyntaxError) as e:
        return {"<unreadable>": repr(e)}

    def h(node):
        return hashlib.sha256(ast.unparse(node).encode()).hexdigest()[:16]

    rest = []
    for node in tree.body:
        if isinstance(node, (ast.FunctionDef, ast.AsyncFunctionDef)):
            out[node.name] = h(node)
        elif isinstance(node, ast.ClassDef):
            crest = []
            for sub in node.body:
                if isinstance(sub, (ast.FunctionDef, ast.AsyncFunctionDef)):
                    key = f"{node.name}.{sub.name}"
                    while key in out:          # property getter / setter pairs share a name
                        key += "'"
                    out[key] = h(sub)
                else:
                    crest.append(ast.unparse(sub))
            out[f"{node.name}.<class body>"] = hashlib.sha256(("|".join(crest) + "|"
                                                              + "|".join(ast.unparse(b) for b in node.bases) + "|"
                                                              + "|".join(ast.unparse(d) for d in node.decorator_list)).encode()).hexdigest()[:16]
        else:
            rest.append(ast.unparse(node))
    out["<module level>"] = hashlib.sha256("|".join(rest).encode()).hexdigest()[:16]
    return out


def fingerprint(repo):
    out = {f: fingerprint_file(os.path.join(repo, f)) for f in FILES if os.path.exists(os.path.join(repo, f))}
    # source files the models know nothing about (a new module) count as a change
    for root, dirs, files in os.walk(os.path.join(repo, "trie")):
        dirs[:] = [d for d in dirs if d not in ("tools", "__pycache__")]
        for fn in files:
            rel = os.path.relpath(os.path.join(root, fn), repo)
            if fn.endswith(".py") and rel not in out and rel != "trie/utils/__init__.py":
                out[rel] = fingerprint_file(os.path.join(repo, rel))
    return out


def diff(recorded, current):
    """-> {file: [names that were added, removed or changed]}"""
    out = {}
    for f in sorted(set(recorded) | set(current)):
        a, b = recorded.get(f, {}), current.get(f, {})
        names = sorted(n for n in set(a) | set(b) if a.get(n) != b.get(n))
        if names:
            out[f] = names
    return out


if __name__ == "__main__":
    here = os.path.dirname(os.path.dirname(os.path.abspath(__file__)))
    target = os.path.join(here, "harness", "source_fingerprint.json")
    cur = fingerprint("/repo")
    if "--update" in sys.argv:
        json.dump(cur, open(target, "w"), indent=1, sort_keys=True)
        print("written", target)
    else:
        print(json.dumps(diff(json.load(open(target)), cur), indent=1))
