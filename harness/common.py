"""Shared machinery of the correspondence checks (see DESIGN.md section 4).

Everything random derives from one `random.Random(seed)`; the implementation under
test is imported from /repo (asserted); the model is evaluated by coqc/vm_compute on
generated case files.
"""
import fcntl
import hashlib
import json
import os
import random
import re
import shutil
import subprocess
import sys
import time
from concurrent.futures import ThreadPoolExecutor

VERIF = os.path.dirname(os.path.dirname(os.path.abspath(__file__)))
COQ = os.path.join(VERIF, "coq")
BUILD = os.environ.get("VERIF_DEV_BUILD") or os.path.join(VERIF, "build")   # override: development only (parallel mutation runs)
OUT = os.environ.get("VERIF_DEV_BUILD") or VERIF                             # where evidence/ and replays/ go
REPO = os.environ.get("VERIF_REPO_OVERRIDE") or "/repo"   # override: development only (trying seeded changes in a scratch worktree)
NCPU = min(16, os.cpu_count() or 4)

TRUSTED_BASE = [
    "Coq 8.16.1 kernel (coqc); vm_compute for evaluating the model and finite sweeps; no native_compute",
    "no axioms: every property theorem is 'Closed under the global context' (Print Assumptions parsed on every run)",
    "hand-written Gallina model of the modelled source (coq/theories); tied to /repo by this run's correspondence cases",
    "correspondence harness (harness/*.py): generators, observation canonicalisation, Gallina literal printer, Python oracles",
    "third party, tested not proved: rlp.decode(encode_raw x)=x on node-shaped items, eth_hash keccak = Gallina keccak256, CPython dict/sortedcontainers semantics",
    "source fingerprint (tools/fingerprint.py, harness/source_fingerprint.json): only decides how MUCH is sampled (extra seeds when the modelled source text changed); never a verdict",
]

# ---------------------------------------------------------------------------
# implementation import (always /repo's working tree)

def import_trie():
    if REPO not in sys.path:
        sys.path.insert(0, REPO)
    import trie  # noqa
    assert os.path.realpath(trie.__file__).startswith(REPO + "/"), trie.__file__
    return trie


# ---------------------------------------------------------------------------
# source fingerprint (tools/fingerprint.py): has the modelled source changed since the models were written?

RELEVANT = {   # modelled file -> properties whose model follows it
    "trie/hexary.py": "C01 C02 C03 C04 C05 C06 C07 C08 C09 C10 C18",
    "trie/utils/nodes.py": "C01 C02 C03 C04 C05 C06 C07 C08 C09 C10 C12 C13 C16",
    "trie/utils/nibbles.py": "C01 C02 C03 C04 C05 C06 C07 C08 C09 C10 C11 C16",
    "trie/utils/db.py": "C04 C05 C06 C17 C01",
    "trie/exceptions.py": "C03 C07 C08 C09 C10 C11 C12 C13",
    "trie/fog.py": "C09 C10 C11 C18",
    "trie/iter.py": "C10",
    "trie/binary.py": "C12 C13 C18",
    "trie/branches.py": "C13 C18",
    "trie/utils/binaries.py": "C12 C13 C16",
    "trie/smt.py": "C14 C15 C18",
    "trie/typing.py": "C08 C09 C10 C11 C18",
}
ESCALATION = {"changed": {}, "previous_runs": []}


def source_changed(prop):
    """{file: [changed functions]} for the modelled files relevant to `prop` (files not listed in RELEVANT, e.g.
    validation.py, constants.py or a new module, are relevant to every property). Empty on the unchanged tree."""
    sys.path.insert(0, os.path.join(VERIF, "tools"))
    try:
        import fingerprint as FP
    finally:
        sys.path.pop(0)
    try:
        recorded = json.load(open(os.path.join(VERIF, "harness", "source_fingerprint.json")))
    except (OSError, ValueError):
        return {"harness/source_fingerprint.json": ["<missing>"]}
    d = FP.diff(recorded, FP.fingerprint(REPO))
    return {f: names for f, names in d.items() if prop in RELEVANT.get(f, prop)}


# exception tags, shared with coq/theories/Base/Result.v
EXC_TAGS = {
    "ValidationError": 1, "InvalidNode": 2, "InvalidNibbles": 3, "BadTrieProof": 4,
    "NodeOverrideError": 5, "InvalidKeyError": 6, "KeyError": 7, "MissingTrieNode": 8,
    "MissingTraversalNode": 9, "TraversedPartialPath": 10, "IndexError": 11,
    "AssertionError": 12, "TypeError": 13, "ValueError": 14, "PerfectVisibility": 15,
    "FullDirectionalVisibility": 16, "OutOfFuel": 17, "Exception": 18, "WriteFail": 19,
    "Abort": 20,
}


class WriteFail(Exception):
    """Injected failure of the backing store."""


class Abort(Exception):
    """Injected exception inside a batch."""


class AbortBase(BaseException):
    """Injected exception inside a batch that is NOT an `Exception` (like KeyboardInterrupt, SystemExit, GeneratorExit or
    asyncio.CancelledError): a block left by it has been left by an exception all the same."""


def in_ambient(ctx, f):
    """Run f() in the calling context `ctx`: "plain", or "handler" = while the caller is handling an exception (so that
    sys.exc_info() is not empty when the library code runs: a context manager that consults it to decide whether its block
    failed must not be misled by the caller's exception)."""
    if ctx == "handler":
        try:
            raise LookupError("ambient exception being handled by the caller")
        except LookupError:
            return f()
    return f()


class FailingDict(dict):
    """dict whose (n+1)-th __setitem__ raises WriteFail (budget=None: never)."""

    def __init__(self, *a, **kw):
        super().__init__(*a, **kw)
        self.budget = None
        self.writes = 0
        self.reads = 0
        self.log = None          # when a list: the keys written, in order

    def __setitem__(self, k, v):
        if self.budget is not None:
            if self.budget == 0:
                raise WriteFail()
            self.budget -= 1
        self.writes += 1
        if self.log is not None:
            self.log.append(bytes(k))
        super().__setitem__(k, v)

    def __getitem__(self, k):
        self.reads += 1
        return super().__getitem__(k)


# ---------------------------------------------------------------------------
# observation trees (mirror of Base/Bytes.v `obs`); Python side representation:
#   bytes -> OB, int/bool -> OZ, None -> ONone, list/tuple -> OL, Exc(tag,args) -> OE

class Exc:
    __slots__ = ("tag", "args")

    def __init__(self, tag, args=()):
        self.tag = tag
        self.args = list(args)

    def __eq__(self, o):
        return isinstance(o, Exc) and o.tag == self.tag and o.args == self.args

    def __repr__(self):
        return f"Exc({self.tag},{self.args!r})"


LIBRARY_EXCEPTIONS = {"ValidationError", "InvalidNode", "InvalidNibbles", "BadTrieProof", "NodeOverrideError", "InvalidKeyError",
                      "MissingTrieNode", "MissingTraversalNode", "TraversedPartialPath", "PerfectVisibility", "FullDirectionalVisibility"}


def exc_obs(e, with_attrs=True, fog=False):
    """Canonical observation of an exception raised by the implementation."""
    name = type(e).__name__
    if name == "AbortBase":
        name = "Abort"          # the model has one way of leaving a block by an exception
    # The library's exceptions are the classes of trie.exceptions: a class of the same NAME from elsewhere (eth_utils has a
    # ValidationError too) is not caught by `except trie.exceptions.ValidationError` and is a different observation.
    # (trie/fog.py raises eth_utils.ValidationError, and always has: `fog=True` accepts that one there.)
    mod = getattr(type(e), "__module__", "")
    if name in LIBRARY_EXCEPTIONS and mod != "trie.exceptions":
        if not (fog and name == "ValidationError" and mod.startswith("eth_utils")):
            return Exc(99, [(mod + "." + name).encode()])
    tag = EXC_TAGS.get(name)
    # Part of what a caller observes is WHICH handlers catch the exception. The library's exception classes are
    # pairwise unrelated (each derives from Exception directly); one that has become a subclass of another would be
    # caught by the other's handler, so it is reported as a different observation.
    also = [c.__name__ for c in type(e).__mro__[1:] if getattr(c, "__module__", "") == "trie.exceptions"]
    if also and getattr(type(e), "__module__", "") == "trie.exceptions":
        return Exc(99, [(name + "<:" + ",".join(also)).encode()])
    if tag is None:
        # unknown class: bare Exception -> 18; anything else keeps its name visible
        tag = 18 if type(e) is Exception else 99
        if tag == 99:
            return Exc(99, [name.encode()])
    if name == "KeyError" and with_attrs:
        a = e.args[0] if e.args else b""
        return Exc(tag, [bytes(a)] if isinstance(a, (bytes, bytearray)) else [])
    if name == "MissingTrieNode" and with_attrs:
        p = e.prefix
        return Exc(tag, [bytes(e.missing_node_hash), bytes(e.root_hash), bytes(e.requested_key),
                         None if p is None else [int(x) for x in p]])
    if name == "MissingTraversalNode" and with_attrs:
        return Exc(tag, [bytes(e.missing_node_hash), [int(x) for x in e.nibbles_traversed]])
    return Exc(tag, [])


def to_json(o):
    if isinstance(o, (bytes, bytearray)):
        return {"b": bytes(o).hex()}
    if isinstance(o, bool):
        return int(o)
    if isinstance(o, int) or o is None or isinstance(o, str):
        return o
    if isinstance(o, Exc):
        inv = {v: k for k, v in EXC_TAGS.items()}
        return {"exc": inv.get(o.tag, str(o.tag)), "args": to_json(o.args)}
    if isinstance(o, (list, tuple)):
        return [to_json(x) for x in o]
    if isinstance(o, dict):
        return {(k.hex() if isinstance(k, bytes) else str(k)): to_json(v) for k, v in o.items()}
    return repr(o)


def from_json(o):
    if isinstance(o, dict):
        if "b" in o and len(o) == 1:
            return bytes.fromhex(o["b"])
        if "exc" in o:
            return Exc(EXC_TAGS.get(o["exc"], 99), from_json(o["args"]))
        return {k: from_json(v) for k, v in o.items()}
    if isinstance(o, list):
        return [from_json(x) for x in o]
    return o


# ---------------------------------------------------------------------------
# Gallina literal printer

def cb(b):
    b = bytes(b)
    if not b:
        return "[]"
    return f"(B {len(b)} 0x{b.hex()})"


def cN(n):
    return str(int(n))


def cnat(n):
    return f"{int(n)}%nat"


def cZ(n):
    n = int(n)
    return f"({n})%Z"


def cbool(b):
    return "true" if b else "false"


def clist(items):
    return "[" + "; ".join(items) + "]"


def cnibs(ns):
    return clist([cN(x) for x in ns])


def copt(x, f):
    return "None" if x is None else f"(Some {f(x)})"


def cobs(o):
    if isinstance(o, (bytes, bytearray)):
        return f"(OB {cb(o)})"
    if isinstance(o, bool):
        return f"(OZ {1 if o else 0})"
    if isinstance(o, int):
        return f"(OZ {cZ(o)})"
    if o is None:
        return "ONone"
    if isinstance(o, Exc):
        return f"(OE {o.tag} {clist([cobs(a) for a in o.args])})"
    if isinstance(o, (list, tuple)):
        return f"(OL {clist([cobs(a) for a in o])})"
    raise TypeError(f"no obs for {o!r}")


# ---------------------------------------------------------------------------
# building and the proof gate

FORBIDDEN = re.compile(
    r"\b(Admitted|admit|Axiom|Axioms|Parameter|Parameters|Conjecture|Conjectures|Hypothesis|Hypotheses|Variable|Variables|"
    r"Unset\s+Guard|bypass_check|Admit\s+Obligations|native_compute)\b|-type-in-type|-impredicative-set"
)
ALLOWED_AXIOMS = set()  # the development uses none; extend here only together with DESIGN.md section 6


def _strip_comments(src):
    out, depth, i = [], 0, 0
    while i < len(src):
        if src.startswith("(*", i):
            depth += 1
            i += 2
        elif src.startswith("*)", i) and depth:
            depth -= 1
            i += 2
        else:
            if not depth:
                out.append(src[i])
            i += 1
    return "".join(out)


def scan_sources():
    """Reject forbidden vernacular anywhere in coq/theories (Variable/Hypothesis are
    allowed inside a Section only; checked by tracking Section nesting)."""
    problems = []
    for root, _, files in os.walk(os.path.join(COQ, "theories")):
        for f in files:
            if not f.endswith(".v"):
                continue
            p = os.path.join(root, f)
            src = _strip_comments(open(p).read())
            src = re.sub(r'"[^"]*"', '""', src)
            depth = 0
            for sentence in src.split("."):
                s = sentence.strip()
                if re.match(r"^(Section|Module\s+Type)\b", s):
                    depth += 1 if s.startswith("Section") else 0
                elif re.match(r"^End\b", s) and depth:
                    depth -= 1
                for m in FORBIDDEN.finditer(s):
                    w = m.group(0)
                    if re.match(r"(Variable|Variables|Hypothesis|Hypotheses|Context)", w) and depth > 0:
                        continue
                    problems.append(f"{os.path.relpath(p, VERIF)}: {w}")
    return problems


def _big_stack():
    # coqc overflows the default 8 MB stack on large case literals
    import resource
    try:
        soft, hard = resource.getrlimit(resource.RLIMIT_STACK)
        resource.setrlimit(resource.RLIMIT_STACK, (hard, hard))
    except Exception:
        pass


def run(cmd, timeout, cwd=None, env=None):
    try:
        p = subprocess.run(cmd, cwd=cwd, env=env, stdout=subprocess.PIPE, stderr=subprocess.STDOUT,
                           timeout=timeout, text=True, preexec_fn=_big_stack)
        return p.returncode, p.stdout
    except subprocess.TimeoutExpired as e:
        out = e.stdout if isinstance(e.stdout, str) else (e.stdout or b"").decode(errors="replace")
        return 124, out + "\n[timeout]"


def build_coq(timeout=3000):
    """make the development (no-op when up to date). Serialised by a lock file."""
    os.makedirs(BUILD, exist_ok=True)
    with open(os.path.join(BUILD, ".lock"), "w") as lk:
        fcntl.flock(lk, fcntl.LOCK_EX)
        if not os.path.exists(os.path.join(COQ, "Makefile")):
            rc, out = run(["coq_makefile", "-f", "_CoqProject", "-o", "Makefile"], 120, cwd=COQ)
            if rc:
                return False, out
        rc, out = run(["make", f"-j{NCPU}"], timeout, cwd=COQ)
        return rc == 0, out


COQ_ARGS = ["-noglob", "-Q", os.path.join(COQ, "theories"), "PyTrie", "-w",
            "-notation-overridden,-deprecated-hint-without-locality,-ambiguous-paths"]


def proof_gate(prop):
    """Re-check Properties/<prop>.v from scratch and parse Print Assumptions.
    Returns dict(ok, theorems=[{name, assumptions}], log)."""
    res = {"ok": False, "theorems": [], "log": "", "file": f"coq/theories/Properties/{prop}.v"}
    if os.environ.get("VERIF_DEV_SKIP_GATE"):   # development only; never set by a registered command
        build_coq()
        res.update(ok=True, log="gate skipped (development)")
        return res
    bad = scan_sources()
    if bad:
        res["log"] = "forbidden vernacular: " + "; ".join(bad)
        return res
    ok, out = build_coq()
    if not ok:
        res["log"] = "make failed:\n" + out[-4000:]
        return res
    src_path = os.path.join(COQ, "theories", "Properties", f"{prop}.v")
    if not os.path.exists(src_path):
        res["log"] = "no property file"
        return res
    tmp = os.path.join(BUILD, prop, "gate")
    shutil.rmtree(tmp, ignore_errors=True)
    os.makedirs(tmp)
    dst = os.path.join(tmp, f"{prop}_gate.v")
    shutil.copy(src_path, dst)
    rc, out = run(["coqc"] + COQ_ARGS + [dst], 1200, cwd=tmp)
    res["log"] = out[-6000:]
    if rc:
        return res
    src = _strip_comments(open(src_path).read())
    names = re.findall(r"Print\s+Assumptions\s+([A-Za-z0-9_'.]+)\s*\.", src)
    # outputs come in order; split on the two possible headers
    chunks = re.split(r"(?m)^(?=Closed under the global context|Axioms:)", out)
    chunks = [c for c in chunks if c.startswith("Closed under") or c.startswith("Axioms:")]
    if len(chunks) != len(names) or not names:
        res["log"] += f"\n[gate] {len(names)} Print Assumptions in source, {len(chunks)} outputs"
        return res
    ok = True
    for n, c in zip(names, chunks):
        c = c.strip()
        closed = c.startswith("Closed under the global context")
        if not closed:
            ax = re.findall(r"(?m)^([A-Za-z0-9_'.]+)\s*:", c)
            if not ax or any(a not in ALLOWED_AXIOMS for a in ax):
                ok = False
        res["theorems"].append({"name": n, "assumptions": c.split("\n")[0] if closed else c})
    res["ok"] = ok
    return res


# ---------------------------------------------------------------------------
# evaluating case files

def _parse_nums(out):
    """Parse the `= [..] : list N` answers of the Eval commands in a shard, in order."""
    flat = " ".join(out.split())
    res = []
    for m in re.finditer(r"= (\[.*?\](?:%N)?|nil) : list N", flat):
        res.append([int(x) for x in re.findall(r"\d+", re.sub(r"%N", "", m.group(1)))])
    return res


_LIT = re.compile(r"\(B (\d+) 0x([0-9a-f]+)\)")


def intern_literals(text):
    """Name every distinct byte-string literal of >= 6 bytes once per file: parsing the
    hexadecimal numerals is what dominates coqc's time on case files."""
    table = {}

    def sub(m):
        if int(m.group(1)) < 6:
            return m.group(0)
        key = m.group(0)
        if key not in table:
            table[key] = f"lit{len(table)}"
        return table[key]

    body = _LIT.sub(sub, text)
    defs = "".join(f"Definition {name} : bytes := {lit}.\n" for lit, name in table.items())
    return defs, body


class _CountingList(list):
    """Reporter.spec_violations: counts concrete violations so that eval_cases can stop early (see there)."""
    def append(self, x):
        global SPEC_VIOLATIONS_SO_FAR
        SPEC_VIOLATIONS_SO_FAR += 1
        list.append(self, x)


SPEC_VIOLATIONS_SO_FAR = 0
MAX_TERM_BYTES = 4_000_000     # largest single case term on the unchanged tree is < 0.1 MB


def enough_violations():
    """True once the run already holds several concrete failing inputs: the verdict (VIOLATION with a replay) is settled
    and further generation / model evaluation would only cost time (a defect that makes outputs grow without bound
    otherwise turns a 30 s check into an hour)."""
    return SPEC_VIOLATIONS_SO_FAR >= 3


def eval_cases(prop, name, imports, run_fn, case_type, cases, shard=200, timeout=1500, extra_defs=""):
    """cases: list of Gallina terms of type (case_type * obs). Evaluates
    `mismatches run_fn cases` shard by shard under vm_compute.
    Returns (mismatch_indices, errors[list of str], n_shards)."""
    if os.environ.get("VERIF_DEV_ORACLE_ONLY"):      # development only (mutation sweeps): skip the model evaluation
        return [], [], 0
    if enough_violations():
        return [], [], 0
    big = [i for i, c in enumerate(cases) if len(c) > MAX_TERM_BYTES]
    if big:
        # observations far larger than anything the model produces: a correspondence failure, reported without
        # asking Coq to parse hundreds of megabytes
        return big, [f"{name}: {len(big)} case term(s) larger than {MAX_TERM_BYTES} bytes were not evaluated"], 1
    d = os.path.join(BUILD, prop, name)
    shutil.rmtree(d, ignore_errors=True)
    os.makedirs(d)
    files = []
    for si in range(0, len(cases), shard):
        chunk = cases[si:si + shard]
        fn = os.path.join(d, f"{name}_{si // shard}.v")
        with open(fn, "w") as f:
            defs, body = intern_literals(";\n".join(chunk))
            f.write(imports + "\nImport ListNotations.\nOpen Scope N_scope.\n" + extra_defs + "\n" + defs)
            f.write(f"Definition cases : list (({case_type}) * obs) := [\n")
            f.write(body)
            f.write("\n].\n")
            f.write(f"Eval vm_compute in (mismatches ({run_fn}) cases).\n")
        files.append((si, fn))

    def one(arg):
        si, fn = arg
        rc, out = run(["coqc"] + COQ_ARGS + [fn], timeout, cwd=d)
        return si, fn, rc, out

    mism, errors = [], []
    with ThreadPoolExecutor(max_workers=NCPU) as ex:
        for si, fn, rc, out in ex.map(one, files):
            if rc:
                errors.append(f"{os.path.basename(fn)}: coqc rc={rc}: {out[-1500:]}")
                continue
            nums = _parse_nums(out)
            if len(nums) != 1:
                errors.append(f"{os.path.basename(fn)}: unparsable output: {out[-800:]}")
                continue
            mism.extend(si + i for i in nums[0])
    return sorted(mism), errors, len(files)


def eval_show(prop, name, imports, run_fn, case_type, case_term, timeout=600, extra_defs=""):
    """Evaluate the model on one case and return Coq's printed observation (for replays)."""
    d = os.path.join(BUILD, prop, name + "_show")
    shutil.rmtree(d, ignore_errors=True)
    os.makedirs(d)
    fn = os.path.join(d, "show.v")
    with open(fn, "w") as f:
        f.write(imports + "\nImport ListNotations.\nOpen Scope N_scope.\n" + extra_defs + "\n")
        f.write(f"Definition c : ({case_type}) * obs := {case_term}.\n")
        f.write(f"Eval vm_compute in (({run_fn}) (fst c)).\n")
    rc, out = run(["coqc"] + COQ_ARGS + [fn], timeout, cwd=d)
    return out[-6000:]


def eval_diff(prop, name, imports, run_fn, case_type, case_term, timeout=600):
    """positions (in the top-level observation list) where model and implementation differ, for one case"""
    d = os.path.join(BUILD, prop, name + "_diff")
    shutil.rmtree(d, ignore_errors=True)
    os.makedirs(d)
    fn = os.path.join(d, "diff.v")
    defs, body = intern_literals(case_term)
    with open(fn, "w") as f:
        f.write(imports + "\nImport ListNotations.\nOpen Scope N_scope.\n" + defs)
        f.write(f"Definition c : ({case_type}) * obs := {body}.\n")
        f.write(f"Eval vm_compute in (obs_diff (({run_fn}) (fst c)) (snd c)).\n")
    rc, out = run(["coqc"] + COQ_ARGS + [fn], timeout, cwd=d)
    nums = _parse_nums(out)
    return nums[0] if nums else None


# ---------------------------------------------------------------------------
# shrinking

def shrink_list(items, still_fails, max_steps=400):
    """ddmin-style: drop chunks, then single elements, while `still_fails(list)`."""
    items = list(items)
    steps = 0
    n = 2
    while len(items) >= 2 and steps < max_steps:
        size = max(1, len(items) // n)
        reduced = False
        for i in range(0, len(items), size):
            cand = items[:i] + items[i + size:]
            steps += 1
            if cand and still_fails(cand):
                items = cand
                n = max(n - 1, 2)
                reduced = True
                break
        if not reduced:
            if size == 1:
                break
            n = min(n * 2, len(items))
    return items


# ---------------------------------------------------------------------------
# findings, replays, evidence

def load_findings():
    p = os.path.join(VERIF, "KNOWN_FINDINGS.json")
    if not os.path.exists(p):
        return []
    return json.load(open(p)).get("findings", [])


def write_replay(prop, kind, payload):
    os.makedirs(os.path.join(OUT, "replays"), exist_ok=True)
    blob = json.dumps(to_json(payload), sort_keys=True)
    h = hashlib.sha1(blob.encode()).hexdigest()[:10]
    path = os.path.join(OUT, "replays", f"{prop}_{kind}_{h}.json")
    with open(path, "w") as f:
        json.dump({"property": prop, "kind": kind, "payload": to_json(payload)}, f, indent=1, sort_keys=True)
    return path


def write_evidence(prop, tier, seed, coverage, wall_s, violations, assumptions):
    os.makedirs(os.path.join(OUT, "evidence"), exist_ok=True)
    ev = {
        "property_id": prop, "tier": tier, "seed": seed, "level": "proof",
        "coverage": coverage, "assumptions": assumptions, "wall_s": round(wall_s, 2),
        "violations": violations,
    }
    with open(os.path.join(OUT, "evidence", f"{prop}.json"), "w") as f:
        json.dump(ev, f, indent=1, sort_keys=True)


class Reporter:
    """Collects what one check run found and applies the outcome matrix of DESIGN 4.2."""

    def __init__(self, prop, tier, seed):
        self.prop, self.tier, self.seed = prop, tier, seed
        self.t0 = time.time()
        self.spec_violations = _CountingList()      # (what, case) concrete failing inputs
        self.corr_mismatches = []      # (what, case, extra)
        self.gate = None
        self.coq_errors = []
        self.evaluations = 0
        self.nontrivial = set()
        self.samples = []
        self.dist = {}
        self.shards = 0
        self.shards_ok = 0
        self.notes = []
        self.known_printed = []

    def count(self, key, n=1):
        self.dist[key] = self.dist.get(key, 0) + n

    def finish(self, rule, partial_note="", search=None, extra_cov=None):
        """Decide, print VIOLATION / KNOWN-FINDING lines, write evidence, return exit code."""
        prop = self.prop
        findings = [f for f in load_findings() if f.get("property") == prop and f.get("status") == "open"]
        lines = []
        nviol = 0

        def known(what, case):
            for f in findings:
                m = f.get("match", "")
                if m and m in what:
                    return f
            return None

        for what, case in self.spec_violations:
            kf = known(what, case)
            if kf:
                tag = f"KNOWN-FINDING: property={prop} {kf.get('what', what)}"
                if tag not in self.known_printed:
                    self.known_printed.append(tag)
                    print(tag)
                continue
            path = write_replay(prop, "spec-violation", {"what": what, "case": case})
            lines.append(f"VIOLATION property={prop} replay={path}")
            nviol += 1
            if nviol >= 5:
                break

        gate_ok = bool(self.gate and self.gate["ok"])
        broken = (not gate_ok) or self.corr_mismatches or self.coq_errors
        if broken and nviol == 0 and not self.known_printed:
            found = None
            if search is not None:
                try:
                    found = search()
                except Exception as e:  # the search must never mask the report
                    self.notes.append(f"search raised {e!r}")
            if found:
                what, case = found
                path = write_replay(prop, "spec-violation", {"what": what, "case": case,
                                                             "found_by": "search after broken obligation"})
                lines.append(f"VIOLATION property={prop} replay={path}")
                nviol += 1
            else:
                if not gate_ok:
                    payload = {"theorem_file": (self.gate or {}).get("file"), "log": (self.gate or {}).get("log", "")[-3000:],
                               "theorems": (self.gate or {}).get("theorems")}
                    kind = "proof"
                elif self.corr_mismatches:
                    what, case, extra = self.corr_mismatches[0]
                    payload = {"correspondence": what, "case": case, "extra": extra,
                               "others": len(self.corr_mismatches) - 1}
                    kind = "correspondence"
                else:
                    payload = {"coq_errors": self.coq_errors[:3]}
                    kind = "correspondence"
                path = write_replay(prop, kind, payload)
                lines.append(f"VIOLATION property={prop} replay={path} no-failing-input-found")
                nviol += 1
        for ln in lines:
            print(ln)

        thms = (self.gate or {}).get("theorems", [])
        obligations = len(thms) + self.shards
        discharged = (len(thms) if gate_ok else 0) + self.shards_ok
        cov = {
            "obligations": max(obligations, 1),
            "discharged": discharged,
            "checker_cmd": f"make -C coq && coqc Properties/{prop}.v (Print Assumptions parsed) && coqc build/{prop}/*/*.v (vm_compute, mismatches = [])",
            "trusted_base": TRUSTED_BASE,
            "theorems": thms,
            "partial": partial_note,
            "correspondence_shards": self.shards,
            "correspondence_shards_ok": self.shards_ok,
            "evaluations": self.evaluations,
            "distinct_nontrivial": len(self.nontrivial),
            "rule": rule,
            "samples": self.samples[:4],
            "distribution": self.dist,
            "notes": self.notes,
        }
        if extra_cov:
            cov.update(extra_cov)
        cov["source_fingerprint"] = {
            "changed_functions": ESCALATION["changed"],
            "meaning": "functions of the modelled source whose text differs from the one the Gallina model was written against "
                       "(harness/source_fingerprint.json); when non-empty the check re-runs its generators with further seeds "
                       "before concluding",
            "previous_runs_of_this_invocation": list(ESCALATION["previous_runs"]),
        }
        ESCALATION["previous_runs"].append({"seed": self.seed, "evaluations": self.evaluations,
                                            "distinct_nontrivial": len(self.nontrivial), "violations": nviol,
                                            "wall_s": round(time.time() - self.t0, 1)})
        write_evidence(prop, self.tier, self.seed, cov, time.time() - self.t0, nviol,
                       ["see coverage.trusted_base", partial_note] if partial_note else ["see coverage.trusted_base"])
        status = "ok" if nviol == 0 else "FAIL"
        print(f"[{prop}] {status}: tier={self.tier} seed={self.seed} theorems={len(thms)} gate={'ok' if gate_ok else 'BROKEN'} "
              f"cases={self.evaluations} nontrivial={len(self.nontrivial)} shards={self.shards_ok}/{self.shards} "
              f"wall={time.time() - self.t0:.1f}s")
        return 0 if nviol == 0 else 1


def case_key(obj):
    return hashlib.sha1(json.dumps(to_json(obj), sort_keys=True).encode()).hexdigest()


class SubBytes(bytes):
    """a proper subclass of bytes (like hexbytes.HexBytes): a legal key / value wherever bytes are"""


def subify(o):
    """the same structure with every plain bytes object replaced by an instance of a bytes subclass"""
    if type(o) is bytes:
        return SubBytes(o)
    if isinstance(o, tuple):
        return tuple(subify(x) for x in o)
    if isinstance(o, list):
        return [subify(x) for x in o]
    if isinstance(o, dict):
        return {k: subify(v) for k, v in o.items()}
    return o
