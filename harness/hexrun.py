"""Runs histories of the operation language of coq/theories/Hexary/Run.v on the real
HexaryTrie and prints them as Gallina terms."""
from . import common as C
from .common import Exc, cb, clist, cnat, cnibs, cobs, copt

IMPORTS = ("From Coq Require Import List NArith ZArith.\n"
           "From PyTrie.Base Require Import Bytes Result AMap Nibbles Rlp.\n"
           "From PyTrie.Hexary Require Import Raw D Run.")

P61 = (1 << 61) - 1


def ph(b):
    acc = 0
    for x in b:
        acc = (acc * 257 + x + 1) % P61
    return acc


def db_digest(d):
    return sum(ph(bytes(k) + b"\xff" + bytes(v)) for k, v in d.items()) % P61


def rc_digest(rc):
    return sum(ph(bytes(k)) * (c % P61) for k, c in rc.items() if c != 0) % P61


def raw_obs(n):
    if isinstance(n, (bytes, bytearray)):
        return bytes(n)
    return [raw_obs(x) for x in n]


def hnode_obs(h):
    return [[[int(x) for x in s] for s in h.sub_segments], bytes(h.value), [int(x) for x in h.suffix],
            raw_obs(h.raw), int(h.node_type)]


def exc_obs(e):
    if type(e).__name__ == "TraversedPartialPath":
        return Exc(10, [[int(x) for x in e.nibbles_traversed], hnode_obs(e.node),
                        [int(x) for x in e.untraversed_tail], hnode_obs(e.simulated_node)])
    if type(e).__name__ == "DecodingError" or type(e).__name__ == "DeserializationError":
        return Exc(21, [])
    if type(e).__name__ == "StopIteration":
        return Exc(22, [])
    return C.exc_obs(e)


def visible(db):
    """contents of a dict or of a ScratchDB as a plain dict"""
    if hasattr(db, "wrapped_db"):
        return dict(db.copy())
    return dict(db)


def state_obs(t):
    d = visible(t.db)
    out = [bytes(t.root_hash), db_digest(d), len(d)]
    if t.is_pruning:
        nz = {k: c for k, c in t._ref_count.items() if c != 0}
        out.append([rc_digest(nz), len(nz)])
    else:
        out.append(None)
    return out


def dump_obs(t):
    d = visible(t.db)
    rc = {} if t._ref_count is None else {k: c for k, c in t._ref_count.items() if c != 0}
    return [bytes(t.root_hash), sorted([bytes(k), bytes(v)] for k, v in d.items()),
            sorted([bytes(k), c] for k, c in rc.items())]


def guard(f):
    try:
        return f()
    except Exception as e:  # noqa: every exception is an observation
        return exc_obs(e)


def step(t, op, backing):
    """Run one op on trie handle t (backing = the dict at the bottom). Returns the observation."""
    from trie import HexaryTrie
    kind = op[0]
    syn = op[-1] if isinstance(op[-1], str) and op[-1] in ("item", "meth") else "meth"
    if kind == "set":
        def f():
            if syn == "item":
                t[op[1]] = op[2]
            else:
                t.set(op[1], op[2])
        return guard(f)
    if kind == "del":
        def f():
            if syn == "item":
                del t[op[1]]
            else:
                t.delete(op[1])
        return guard(f)
    if kind == "get":
        return guard(lambda: bytes(t[op[1]] if syn == "item" else t.get(op[1])))
    if kind == "exists":
        return guard(lambda: bool((op[1] in t) if syn == "item" else t.exists(op[1])))
    if kind == "batch":
        ops, ab = op[1], op[2]
        outs = []
        # the block is left by an ordinary exception, or (for odd abort positions) by one that is not an `Exception`
        # subclass, or by GeneratorExit when the block lives in a generator that is closed early
        how = None if ab is None else ("exception", "base", "exception", "genexit")[min(ab, len(ops)) % 4]

        def block():
            with t.squash_changes() as b:
                for i, o in enumerate(ops):
                    if ab is not None and i == ab:
                        if how == "genexit":
                            yield
                        raise C.AbortBase() if how == "base" else C.Abort()
                    outs.append(step(b, o, backing))
                if ab is not None:
                    if how == "genexit":
                        yield
                    raise C.AbortBase() if how == "base" else C.Abort()
            yield "done"
        try:
            g = block()
            if next(g) != "done":
                g.close()          # GeneratorExit is thrown into the with-block
                return [outs, exc_obs(C.Abort())]
        except (C.Abort, C.AbortBase) as e:
            return [outs, exc_obs(e)]
        except Exception as e:  # failure during commit
            return [outs, exc_obs(e)]
        return [outs, None]
    if kind == "state":
        return state_obs(t)
    if kind == "dump":
        return dump_obs(t)
    if kind == "regen":
        def f():
            rc = t.regenerate_ref_count()
            nz = {k: c for k, c in rc.items() if c != 0}
            return [rc_digest(nz), len(nz)]
        return guard(f)
    if kind == "proof":
        def f():
            proof = t.get_proof(op[1])
            out = [raw_obs(n) for n in proof]
            scribble(proof)
            return out
        return guard(f)
    if kind == "fromproof":
        return guard(lambda: bytes(HexaryTrie.get_from_proof(op[1], op[2], [unfreeze(n) for n in op[3]])))
    if kind == "traverse":
        def f():
            node = t.traverse(tuple(op[1]))
            out = hnode_obs(node)
            scribble(node.raw)
            return out
        return guard(f)
    if kind == "traverse_from":
        try:
            parent = t.traverse(tuple(op[1]))
        except Exception as e:
            return [exc_obs(e)]

        def f():
            node = t.traverse_from(parent, tuple(op[2]))
            out = hnode_obs(node)
            scribble(node.raw)
            scribble(parent.raw)
            return out
        return guard(f)
    if kind == "tf_reads":
        try:
            parent = t.traverse(tuple(op[1]))
        except Exception:
            return None
        return count_reads(t, lambda: t.traverse_from(parent, tuple(op[2])))
    if kind == "root_node":
        def f():
            node = t.root_node
            out = hnode_obs(node)
            scribble(node.raw)
            return out
        return guard(f)
    if kind == "drop":
        dict.pop(backing, op[1], None)
        return None
    if kind == "put":
        dict.__setitem__(backing, op[1], op[2])
        return None
    if kind == "budget":
        backing.budget = op[1]
        return None
    if kind == "at_root":
        try:
            with t.at_root(op[1]) as snap:
                return [step(snap, o, backing) for o in op[2]]
        except Exception as e:
            return exc_obs(e)
    raise ValueError(op)


def scribble(x):
    """A caller may do what it likes with the objects a call RETURNED (decoded nodes are plain mutable lists): overwrite them
    in place after they have been observed. Later calls must be unaffected - a result that aliases a cache or the trie's own
    state would be corrupted by this."""
    if isinstance(x, list):
        for i, y in enumerate(x):
            if isinstance(y, (list, tuple)):
                scribble(y)
            else:
                x[i] = b"\xde\xad scribbled by the caller"
    elif isinstance(x, tuple):
        for y in x:
            scribble(y)


class CountingProxy:
    """Stands in for a trie's `db` for the duration of one call and counts the entries READ through it
    (`db[k]`, `db.get(k)`); membership tests are not reads of an entry."""

    def __init__(self, inner):
        self._inner = inner
        self.reads = 0

    def __getitem__(self, k):
        self.reads += 1
        return self._inner[k]

    def get(self, k, default=None):
        self.reads += 1
        return self._inner.get(k, default)

    def __setitem__(self, k, v):
        self._inner[k] = v

    def __delitem__(self, k):
        del self._inner[k]

    def __contains__(self, k):
        return k in self._inner

    def __iter__(self):
        return iter(self._inner)

    def __len__(self):
        return len(self._inner)

    def __getattr__(self, name):
        return getattr(self._inner, name)


def count_reads(t, f):
    """number of database entries read through t.db while f() runs (its result or exception is ignored)"""
    proxy = CountingProxy(t.db)
    old = t.db
    t.db = proxy
    try:
        try:
            f()
        except Exception:
            pass
    finally:
        t.db = old
    return proxy.reads


def unfreeze(n):
    if isinstance(n, (bytes, bytearray)):
        return bytes(n)
    return [unfreeze(x) for x in n]


def run_history(prune, ops):
    from trie import HexaryTrie
    backing = C.FailingDict()
    t = HexaryTrie(backing, prune=prune)
    return [step(t, op, backing) for op in ops], t, backing


def run_multi(nh, ops):
    from trie import HexaryTrie
    backing = C.FailingDict()
    hs = [HexaryTrie(backing) for _ in range(nh)]
    return [step(hs[i], op, backing) for i, op in ops], hs, backing


# ---------------------------------------------------------------------------
# Gallina printers

def citem(n):
    if isinstance(n, (bytes, bytearray)):
        return f"(RStr {cb(n)})"
    return f"(RList {clist([citem(x) for x in n])})"


def cop(op):
    k = op[0]
    if k == "set":
        return f"OSet {cb(op[1])} {cb(op[2])}"
    if k == "del":
        return f"ODelete {cb(op[1])}"
    if k == "get":
        return f"OGet {cb(op[1])}"
    if k == "exists":
        return f"OExists {cb(op[1])}"
    if k == "batch":
        return f"OBatch {cops(op[1])} {copt(op[2], cnat)}"
    if k == "state":
        return "OState"
    if k == "dump":
        return "ODump"
    if k == "regen":
        return "ORegen"
    if k == "proof":
        return f"OProof {cb(op[1])}"
    if k == "fromproof":
        return f"OFromProof {cb(op[1])} {cb(op[2])} {clist([citem(n) for n in op[3]])}"
    if k == "traverse":
        return f"OTraverse {cnibs(op[1])}"
    if k == "traverse_from":
        return f"OTraverseFrom {cnibs(op[1])} {cnibs(op[2])}"
    if k == "tf_reads":
        return f"OTraverseFromReads {cnibs(op[1])} {cnibs(op[2])}"
    if k == "root_node":
        return "ORootNode"
    if k == "drop":
        return f"ODrop {cb(op[1])}"
    if k == "put":
        return f"OPut {cb(op[1])} {cb(op[2])}"
    if k == "budget":
        return f"OBudget {copt(op[1], cnat)}"
    if k == "at_root":
        return f"OAtRoot {cb(op[1])} {cops(op[2])}"
    raise ValueError(op)


def cops(ops):
    return clist([cop(o) for o in ops])


def coq_case(prune, ops, outs):
    return f"(({C.cbool(prune)}, {cops(ops)}), {cobs(outs)})"


def coq_multi_case(nh, ops, outs):
    body = clist([f"({cnat(i)}, {cop(o)})" for i, o in ops])
    return f"(({cnat(nh)}, {body}), {cobs(outs)})"


# ---------------------------------------------------------------------------
# generators shared by the hexary properties (DESIGN 4.4)

ALPHA = [0x00, 0x01, 0x10, 0x11, 0x12]
# alternative 5-symbol alphabets: high nibbles (branch slots 14 / 15, the last child) and the middle of the range
ALPHABETS = [ALPHA, ALPHA, [0x00, 0x0f, 0xf0, 0xff, 0xfe], [0x7f, 0x80, 0x8f, 0xf8, 0x08]]
CUR_ALPHA = ALPHA


def pick_alphabet(rng):
    """choose the byte alphabet of the short keys for the case being generated"""
    global CUR_ALPHA, TINY
    CUR_ALPHA = rng.choice(ALPHABETS)
    TINY = rng.random() < 0.15
    return CUR_ALPHA

VALBYTES = [0x61, 0x62, 0x00]
VLENS = [1, 1, 5, 20, 25, 26, 27, 28, 29, 30, 31, 32, 33, 34, 35, 40, 55, 56, 57, 64]


def gen_key(rng, long_pool=None):
    if long_pool and rng.random() < 0.5:
        return rng.choice(long_pool)
    n = rng.choice([0, 1, 1, 2, 2, 2, 3, 3, 4])
    return bytes(rng.choice(CUR_ALPHA) for _ in range(n))


TINY = False      # set per case by pick_alphabet: all values 1..3 bytes, so that whole sub-tries are embedded in their parents


def gen_value(rng):
    if TINY:
        return bytes([rng.choice(VALBYTES)]) * rng.randint(1, 3)
    n = rng.choice(VLENS)
    return bytes([rng.choice(VALBYTES)]) * n


def make_long_pool(rng, size=8):
    # keys are arbitrary byte strings: 20 and 32 bytes (addresses, hashes) but also LONGER than 32 bytes, with nodes deeper
    # than 64 nibbles (two keys that fork only in their last byte or last nibble)
    width = rng.choice([20, 32, 32, 33, 40])
    base = bytes(rng.randrange(256) for _ in range(width))
    pool = [base]
    for _ in range(size - 1):
        cut = rng.randrange(0, width)
        pool.append(base[:cut] + bytes(rng.randrange(256) for _ in range(width - cut)))
    if width > 32:
        pool[1] = base[:-1] + bytes([base[-1] ^ 0x01])        # forks at the last nibble
        pool[2] = base[:-1] + bytes([base[-1] ^ 0x10])        # forks at the last-but-one nibble
    return pool


def related_keys(keys):
    """stored keys, their proper prefixes, one-byte extensions and the empty key"""
    out = {b""}
    for k in keys:
        out.add(k)
        for i in range(len(k)):
            out.add(k[:i])
        out.add(k + b"\x00")
        out.add(k + b"\x11")
    return sorted(out)


def gen_write(rng, keys, long_pool=None):
    r = rng.random()
    syn = rng.choice(["meth", "item"])
    if r < 0.52 or not keys:
        return ("set", gen_key(rng, long_pool), gen_value(rng), syn)
    if r < 0.6:
        # overwrite a stored key with a DIFFERENT value of the SAME length (the node keeps its size and shape; only an
        # implementation that really rewrites it - and every ancestor - gets this right)
        k = rng.choice(sorted(keys))
        old = getattr(keys, "mapping", {}).get(k, b"")
        if old:
            nb = rng.choice([x for x in VALBYTES + [0x63] if x != old[0]])
            return ("set", k, bytes([nb]) * len(old), syn)
        return ("set", k, gen_value(rng), syn)
    if r < 0.7:
        return ("set", rng.choice(sorted(keys)), b"", syn)        # set-to-empty
    if r < 0.8:
        return ("del", gen_key(rng, long_pool), syn)               # mostly absent
    return ("del", rng.choice(sorted(keys)), syn)


def flatten_writes(ops):
    """the set / del operations that take effect, in order: a committed (nested) batch contributes its own effective
    writes, an aborted one nothing"""
    out = []
    for o in ops:
        if o[0] in ("set", "del"):
            out.append(o)
        elif o[0] == "batch" and o[2] is None:
            out.extend(flatten_writes(o[1]))
    return out


def nest_some(rng, inner, p=0.3):
    """with probability p, wrap a slice of a batch body into a nested squash_changes block (committed, or aborted at a random
    position); returns the new body"""
    ws = [i for i, o in enumerate(inner) if o[0] in ("set", "del")]
    if len(ws) < 1 or rng.random() >= p:
        return inner
    a = rng.choice(ws)
    b = rng.randint(a + 1, len(inner))
    body = list(inner[a:b])
    ab = None if rng.random() < 0.65 else rng.randint(0, len(body))
    return list(inner[:a]) + [("batch", body, ab)] + list(inner[b:])


def gen_there_and_back(rng):
    """(prior writes, block body): the enclosing block dereferences a node that exists in the database (overwrites or deletes a
    key), then an INNER block puts exactly that node back (sets the old value again) and commits; optionally the enclosing
    block goes on. The node is marked DELETED in the enclosing buffer while the inner block re-creates it byte for byte."""
    k = bytes(rng.choice(CUR_ALPHA) for _ in range(rng.choice([1, 2, 2, 3])))
    v = bytes([rng.choice(VALBYTES)]) * rng.choice([33, 40, 64])
    prior = [("set", k, v, "meth")]
    for _ in range(rng.randint(0, 2)):
        prior.append(("set", k[:-1] + bytes([rng.choice(CUR_ALPHA)]) + bytes(rng.choice(CUR_ALPHA) for _ in range(rng.randint(0, 1))),
                      gen_value(rng), "meth"))
    rng.shuffle(prior)
    first = ("set", k, bytes([0x7a]) * len(v), "item") if rng.random() < 0.6 else ("del", k, "meth")
    inner = [("set", k, v, "meth")]
    if rng.random() < 0.4:
        inner.append(("get", k, "meth"))
    body = [first, ("batch", inner, None)]
    if rng.random() < 0.5:
        body.append(("get", k, "item"))
    if rng.random() < 0.3:
        body.append(("set", gen_key(rng), gen_value(rng), "meth"))
    return prior, body


def apply_model(m, op):
    """the dict oracle"""
    if op[0] == "batch":
        if op[2] is None:
            for o in op[1]:
                apply_model(m, o)
        return
    if op[0] == "set":
        if op[2] == b"":
            m.pop(op[1], None)
        else:
            m[op[1]] = op[2]
    elif op[0] == "del":
        m.pop(op[1], None)


def classify_trie(backing, root):
    """node kinds present below root (for the evidence distribution)"""
    import rlp
    kinds = {"branch": 0, "ext": 0, "leaf": 0, "hashed_child": 0, "embedded_child": 0}
    from trie.utils.nodes import get_node_type
    from trie.constants import BLANK_NODE_HASH

    def walk(ref):
        if ref == b"" or ref == BLANK_NODE_HASH:
            return
        if isinstance(ref, list):
            node = ref
            kinds["embedded_child"] += 1
        else:
            if ref not in backing:
                return
            node = rlp.decode(dict.__getitem__(backing, ref))
            kinds["hashed_child"] += 1
        t = get_node_type(node)
        if t == 3:
            kinds["branch"] += 1
            for c in node[:16]:
                walk(c)
        elif t == 2:
            kinds["ext"] += 1
            walk(node[1])
        elif t == 1:
            kinds["leaf"] += 1
    walk(root)
    return kinds


def reachable(backing, root):
    """hashes of the stored nodes reachable from root (through the raw dict)"""
    import rlp
    from trie.constants import BLANK_NODE_HASH
    from trie.utils.nodes import get_node_type
    seen = set()

    def walk(ref):
        if ref == b"" or ref == BLANK_NODE_HASH:
            return
        if isinstance(ref, list):
            node = ref
        else:
            if ref in seen:
                return
            if not dict.__contains__(backing, ref):
                return
            seen.add(ref)
            node = rlp.decode(dict.__getitem__(backing, ref))
        if node == b"":
            return
        t = get_node_type(node)
        if t == 3:
            for c in node[:16]:
                walk(c)
        elif t == 2:
            walk(node[1])
    walk(root)
    return seen


def gen_shared_family(rng, third=0.8):
    """Writes that create two byte-identical HASHED leaves under different branch slots (same remaining path,
    same >= 32-byte value), a third key keeping the parent branch alive, then removal of one of the pair."""
    suffix = bytes(rng.choice(ALPHA) for _ in range(rng.randint(0, 2)))
    firsts = rng.sample([0x00, 0x10, 0x20, 0x01, 0x11], 3)
    v = bytes([rng.choice(VALBYTES)]) * rng.choice([32, 33, 37, 40, 64])
    a, b = bytes([firsts[0]]) + suffix, bytes([firsts[1]]) + suffix
    c = bytes([firsts[2]]) + bytes(rng.choice(ALPHA) for _ in range(rng.randint(0, 2)))
    ops = [("set", a, v, "meth"), ("set", b, v, "item")]
    if rng.random() < third:
        ops.append(("set", c, gen_value(rng), "meth"))
    rng.shuffle(ops)
    victim = rng.choice([a, b])
    ops.append(rng.choice([("del", victim, "meth"), ("del", victim, "item"), ("set", victim, b"", "meth")]))
    return ops


def gen_fan(rng, tiny=False):
    """fan family: a branch with ALL 16 children (and sometimes a value of its own), then most of them deleted again, so that
    every slot index - the last one included - is met as a child, as the survivor of a collapse, and as a sibling"""
    ops = []
    p = bytes(rng.choice(CUR_ALPHA) for _ in range(rng.choice([0, 1, 1, 2])))
    low = rng.randrange(16)
    fan = [p + bytes([(x << 4) | low]) for x in range(16)]
    rng.shuffle(fan)
    for k in fan:
        ops.append(("set", k, bytes([rng.choice(VALBYTES)]) * (rng.randint(1, 3) if tiny else rng.choice(VLENS)), rng.choice(["meth", "item"])))
    if p and rng.random() < 0.5:
        ops.append(("set", p, gen_value(rng) if not tiny else b"a", "meth"))
    keep = set(rng.sample(fan, rng.choice([1, 1, 2, 3, 15])))
    if rng.random() < 0.5:
        keep.add(p + bytes([0xF0 | low]))
    for k in fan:
        if k not in keep:
            ops.append(("del", k, rng.choice(["meth", "item"])))
    return ops


def gen_writes(rng, n, long_pool=None, tiny=False, fan=True):
    """n writes and the resulting mapping (tiny: 1..3-byte values only, so that nodes are embedded)"""
    m, ops = {}, []
    shadow = None
    pick_alphabet(rng)
    if fan and rng.random() < 0.1:
        ops = gen_fan(rng, tiny)
        for w in ops:
            apply_model(m, w)
        n = max(1, n // 2)
    if not tiny and rng.random() < 0.15:
        # this history also stores VALUES that are hashes of nodes present in the same database (the current root, or any
        # stored node): a value is data and must never be followed as a reference
        from trie import HexaryTrie
        shadow = HexaryTrie({})
    for _ in range(n):
        w = gen_write(rng, m.keys(), long_pool)
        if tiny and w[0] == "set" and w[2] != b"":
            w = (w[0], w[1], bytes([rng.choice(VALBYTES)]) * rng.randint(1, 3), w[3])
        if shadow is not None and w[0] == "set" and w[2] != b"" and shadow.db and rng.random() < 0.4:
            hs = sorted(k for k in shadow.db if len(k) == 32)
            if hs:
                w = (w[0], w[1], bytes(shadow.root_hash) if rng.random() < 0.4 else bytes(rng.choice(hs)), w[3])
        apply_model(m, w)
        ops.append(w)
        if shadow is not None:
            try:
                step(shadow, w, shadow.db)
            except Exception:
                shadow = None
    return ops, m


def tuplify(o):
    o = list(o)
    if o[0] == "batch":
        return ("batch", [tuplify(x) for x in o[1]], o[2])
    if o[0] == "at_root":
        return ("at_root", o[1], [tuplify(x) for x in o[2]])
    if o[0] == "fromproof":
        return ("fromproof", o[1], o[2], o[3])
    return tuple(o)


def eval_hexary(prop, name, cases, outs_list, shard):
    """cases: list of (prune, ops); evaluates the D-level model on them. Returns (mismatch idx, errors, nshards, terms)"""
    terms = [coq_case(p, ops, outs) for (p, ops), outs in zip(cases, outs_list)]
    mism, errs, nsh = C.eval_cases(prop, name, IMPORTS, "hexary_run", "bool * list hop", terms, shard=shard)
    return mism, errs, nsh, terms
