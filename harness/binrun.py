"""Runs histories of coq/theories/Binary/BinRun.v's operation language on the real BinaryTrie / branches helpers."""
from . import common as C
from .common import Exc, cb, clist, cobs, copt
from .hexrun import db_digest

IMPORTS = ("From Coq Require Import List NArith ZArith.\nFrom PyTrie.Base Require Import Bytes Result AMap.\n"
           "From PyTrie.Binary Require Import BinEnc BinD BinRun.")
CASE_T = "list bop"


def guard(f):
    try:
        return f()
    except Exception as e:
        return C.exc_obs(e)


def step(t, op):
    from trie.binary import BinaryTrie
    from trie import branches as BR
    k = op[0]
    if k == "set":
        return guard(lambda: t.set(op[1], op[2]))
    if k == "delete":
        return guard(lambda: t.delete(op[1]))
    if k == "delete_subtrie":
        return guard(lambda: t.delete_subtrie(op[1]))
    if k == "get":
        return guard(lambda: t.get(op[1]))
    if k == "exists":
        return guard(lambda: bool(t.exists(op[1])))
    if k == "state":
        return [bytes(t.root_hash), db_digest(t.db), len(t.db)]
    if k == "at_root":
        return guard(lambda: BinaryTrie(t.db, op[1]).get(op[2]))
    if k == "branch_exist":
        return guard(lambda: bool(BR.check_if_branch_exist(t.db, t.root_hash, op[1])))
    if k == "get_branch":
        return guard(lambda: [bytes(x) for x in BR.get_branch(t.db, t.root_hash, op[1])])
    if k == "branch_valid":
        return guard(lambda: bool(BR.if_branch_valid(op[1], op[2], op[3], op[4])))
    if k == "trie_nodes":
        return guard(lambda: [bytes(x) for x in BR.get_trie_nodes(t.db, t.root_hash)])
    if k == "witness":
        return guard(lambda: [bytes(x) for x in BR.get_witness_for_key_prefix(t.db, t.root_hash, op[1])])
    if k == "root_node":
        return guard(lambda: bytes(t.root_node))
    if k == "set_root_node":
        def f():
            t.root_node = op[1]
        return guard(f)
    raise ValueError(op)


def run_history(ops):
    from trie.binary import BinaryTrie
    db = {}
    t = BinaryTrie(db=db)
    outs = [step(t, op) for op in ops]
    t.caller_db = db          # the object the caller handed in: every root must be readable from IT, whatever t.db has become
    return outs, t


def cop(op):
    k = op[0]
    if k == "set":
        return f"BSet {cb(op[1])} {cb(op[2])}"
    one = {"delete": "BDelete", "delete_subtrie": "BDeleteSubtrie", "get": "BGet", "exists": "BExists",
           "branch_exist": "BBranchExist", "get_branch": "BGetBranch", "witness": "BWitness"}
    if k in one:
        return f"{one[k]} {cb(op[1])}"
    if k == "state":
        return "BState"
    if k == "trie_nodes":
        return "BTrieNodes"
    if k == "root_node":
        return "BRootNode"
    if k == "set_root_node":
        return f"BSetRootNode {cb(op[1])}"
    if k == "at_root":
        return f"BAtRoot {cb(op[1])} {cb(op[2])}"
    if k == "branch_valid":
        return f"BBranchValid {clist([cb(x) for x in op[1]])} {cb(op[2])} {cb(op[3])} {copt(op[4], cb)}"
    raise ValueError(op)


def coq_case(ops, outs):
    return f"({clist([cop(o) for o in ops])}, {cobs(outs)})"


ALPHA = [0x00, 0x01, 0x80, 0x81, 0xff]


def gen_key(rng, fixed=None):
    n = fixed if fixed is not None else rng.choice([1, 1, 2, 2, 2, 3, 3, 4])
    return bytes(rng.choice(ALPHA) for _ in range(n))


def gen_value(rng):
    return bytes([rng.choice([0x61, 0x62])]) * rng.choice([1, 2, 32, 40])


def related(keys):
    out = set()
    for k in keys:
        out.add(k)
        for i in range(1, len(k)):
            out.add(k[:i])
        out.add(k + b"\x00")
        out.add(k + b"\x81")
    return sorted(out)


def prefix_related(k, m):
    return any(s != k and (s.startswith(k) or k.startswith(s)) for s in m)
