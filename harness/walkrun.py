"""Runs the walk / iterator operation language of coq/theories/Fog/Walk.v on the implementation."""
from . import common as C
from . import hexrun as HX
from .common import Exc, cb, cbool, clist, cnibs, cobs, copt

IMPORTS = ("From Coq Require Import List NArith ZArith.\nFrom PyTrie.Base Require Import Bytes Result AMap Nibbles Rlp.\n"
           "From PyTrie.Hexary Require Import Raw D Run.\nFrom PyTrie.Fog Require Import Fog Walk.")
CASE_T = "bool * bool * list wop"


class Walker:
    def __init__(self, prune, use_cache, root_via_from=False):
        # root_via_from: descents "from the root" are made as traverse_from(trie.root_node, prefix) instead of traverse(prefix)
        # (both are ways a walker reaches a prefix from the root; the model's step is the same)
        self.root_via_from = root_via_from
        from trie import HexaryTrie
        from trie.fog import HexaryTrieFog, TrieFrontierCache
        self.backing = C.FailingDict()
        self.trie = HexaryTrie(self.backing, prune=prune)
        self.fog = HexaryTrieFog()
        self.cache = TrieFrontierCache()
        self.use_cache = use_cache
        self.met = []          # (key nibbles, value) seen by walk steps
        self.steps = 0
        self.says_done = False

    def fog_list(self):
        return [[int(x) for x in p] for p in self.fog._unexplored_prefixes]

    def step(self, op):
        from trie.exceptions import MissingTraversalNode, TraversedPartialPath
        from trie.fog import TrieFrontierCache
        from trie.iter import NodeIterator
        k = op[0]
        if k == "step":
            self.steps += 1
            self.says_done = False
            try:
                prefix = self.fog.nearest_unknown(tuple(op[2])) if op[1] else self.fog.nearest_right(tuple(op[2]))
            except Exception as e:
                from trie.exceptions import PerfectVisibility
                # what a walker written as `except PerfectVisibility: finished` would conclude
                self.says_done = isinstance(e, PerfectVisibility)
                return C.exc_obs(e, with_attrs=False, fog=True)
            cached = None
            if self.use_cache:
                try:
                    cached = self.cache.get(prefix)
                except KeyError:
                    cached = None
            partial = False
            try:
                if cached is None and self.root_via_from:
                    node = self.trie.traverse_from(self.trie.root_node, prefix)
                elif cached is None:
                    node = self.trie.traverse(prefix)
                else:
                    node = self.trie.traverse_from(cached[0], cached[1])
            except TraversedPartialPath as e:
                node = e.simulated_node
                partial = True
            except MissingTraversalNode as e:
                if cached is not None:
                    self.cache.delete(prefix)
                return [[int(x) for x in prefix], HX.exc_obs(e)]
            except Exception as e:
                return [[int(x) for x in prefix], HX.exc_obs(e)]
            try:
                self.fog = self.fog.explore(prefix, node.sub_segments)
            except Exception as e:
                return [[int(x) for x in prefix], HX.hnode_obs(node), C.exc_obs(e, with_attrs=False, fog=True)]
            if self.use_cache:
                if node.sub_segments:
                    self.cache.add(prefix, node, node.sub_segments)
                else:
                    self.cache.delete(prefix)
            met = None
            if node.value:
                met = [[int(x) for x in prefix] + [int(x) for x in node.suffix], bytes(node.value)]
                self.met.append((tuple(met[0]), met[1]))
            return [[int(x) for x in prefix], HX.hnode_obs(node), partial, self.fog_list(), met]
        if k == "trie":
            return HX.step(self.trie, op[1], self.backing)
        if k == "reset_cache":
            self.cache = TrieFrontierCache()
            return None
        it = NodeIterator(self.trie)
        if k == "iter_next":
            return HX.guard(lambda: it.next(op[1]))
        if k == "iter_items":
            return HX.guard(lambda: [[bytes(a), bytes(b)] for a, b in it.items()])
        if k == "iter_nodes":
            return HX.guard(lambda: [[[int(x) for x in p], HX.hnode_obs(n)] for p, n in it.nodes()])
        raise ValueError(op)


def cwop(op):
    k = op[0]
    if k == "step":
        return f"WStep {cbool(op[1])} {cnibs(op[2])}"
    if k == "trie":
        return f"WTrie ({HX.cop(op[1])})"
    if k == "reset_cache":
        return "WResetCache"
    if k == "iter_next":
        return f"WIterNext {copt(op[1], cb)}"
    if k == "iter_items":
        return "WIterItems"
    if k == "iter_nodes":
        return "WIterNodes"
    raise ValueError(op)


def coq_case(prune, use_cache, ops, outs):
    return f"(({cbool(prune)}, {cbool(use_cache)}, {clist([cwop(o) for o in ops])}), {cobs(outs)})"
