"""Regenerates /verif/MANIFEST.json from the table below (run: /venv/bin/python -m harness.mkmanifest)."""
import json
import os

VERIF = os.path.dirname(os.path.dirname(os.path.abspath(__file__)))

NOTE = ("Trusted: Coq 8.16.1 kernel + vm_compute (no native_compute, no axioms: Print Assumptions parsed on every run); "
        "the hand-written Gallina model; the correspondence harness (generators, canonicalisation, literal printer, Python oracles). "
        "The theorems are about the model; this run's correspondence cases are what ties the model to /repo.")

# id -> (level text, technique, design ref, extra note)
CLAIMED = {
    "C01": ("Theorems (closed, all histories, ALL nibble paths incl. empty key / prefixes / extensions / mid-path divergence): the tree-level "
            "algorithms implement the map (C01_map, C01_exists, one-step laws). The database-level machine (Hexary/D.v: db, refcounts, "
            "batches) is tied to /repo and to the tree level by differential runs evaluated in Coq; the D->T write refinement is not yet "
            "proved, so the full statement C01_D is partial (stated in Properties/C01.v).",
            "Coq proof (nested induction on the trie; fold over histories) + vm_compute correspondence of the D-level state machine", "5/C01", ""),
    "C02": ("Theorems (closed, every history, every hash function): canonical-shape invariant, canonical tree unique for its contents, "
            "history independence of the root, blank root for the empty mapping, and trun ops = Yellow-Paper construction yp_tree of the "
            "contents, hence root = yp_root. External anchors: ethereum/tests vectors evaluated with the Gallina Keccak-256. Database-level "
            "link by correspondence: impl root = troot keccak256 (T run) = yp_root keccak256 (mapping) at checkpoints, evaluated in Coq.",
            "Coq proof (invariant + uniqueness + specification equality) + in-Coq evaluation of the Yellow-Paper root for the oracle", "5/C02", ""),
    "C11": ("Theorems (closed): sorted prefix-free invariant of every reachable fog, explore = set replacement, exact rejection conditions, "
            "commutation of independent explorations, mark_all_complete = repeated explore, is_complete, serialize round trip, full "
            "specifications of nearest_unknown / nearest_right incl. when each exception is raised. Model = pure functions; receiver "
            "immutability observed on the implementation.",
            "Coq proof over the sorted-list model + vm_compute correspondence + independent set-based oracle", "5/C11", ""),
    "C14": ("Theorems for the real Keccak-256 model under an explicit, executable no-collision premise on the bodies a history writes: "
            "root = Merkle root of the full depth-8*key_size tree of last-written values for every history, key size 1..32 and default; "
            "history independence; cleared = initial; get/exists/branch/calc_root/from_db; returned path hashes; merkle_sparse = merkle.",
            "Coq proof (representation invariant reprS, induction over histories) + vm_compute correspondence + in-Coq merkle_sparse oracle", "5/C14", ""),
    "C15": ("Theorems (same premises as C14): a proof created from the tree and fed every update (own key, other keys differing at any bit, "
            "deletes, truncated lists longer than the first differing bit) stays equal to the tree's value/branch/root; shorter lists are "
            "rejected with ValidationError.",
            "Coq proof (in_sync invariant over update streams) + vm_compute correspondence", "5/C15", ""),
    "C16": ("Theorems (closed, unbounded): encode_nibbles = Yellow-Paper HP, decode inverse, injectivity, re-encoding of well-formed HP "
            "strings, bytes<->nibbles and bytes<->bits inverses, key-path packing round trip for every bit string, binary node "
            "encode/parse round trips, exact InvalidNode conditions, hexary node classification and key extraction. Correspondence is "
            "exhaustive up to a bound and random beyond, incl. a malformed stream; also Keccak-256 and RLP against eth_hash / rlp.",
            "Coq proof + exhaustive/random vm_compute correspondence", "5/C16", ""),
    "C17": ("Machine-checked theorems over the ScratchDB state-machine model for all wrapped stores, all operation lists, all keys, "
            "both do_deletes values and abort at any position (C17_no_write_during, C17_read, C17_contains, C17_commit, C17_abort); "
            "model tied to trie/utils/db.py by differential runs with an independent last-action oracle.",
            "Coq proof by induction over the operation list + vm_compute correspondence against /repo",
            "5/C17", ""),
}

NOT_YET = {
}


def main():
    props = [json.loads(l) for l in open(os.path.join(VERIF, "properties.jsonl"))]
    checks, na = [], []
    for p in props:
        i = p["id"]
        if i in CLAIMED:
            text, tech, ref, extra = CLAIMED[i]
            checks.append({
                "property_id": i,
                "quick_cmd": f"./check {i} --tier quick",
                "thorough_cmd": f"./check {i} --tier thorough",
                "evidence_file": f"/verif/evidence/{i}.json",
                "replay_cmd_template": f"./check {i} --replay {{path}}",
                "engine": "coq-model+correspondence",
                "level_claimed": {"category": "proof", "text": text, "design_ref": f"DESIGN.md section {ref}"},
                "level_note": NOTE + (" " + extra if extra else ""),
                "technique": tech,
            })
        else:
            na.append({"property_id": i, "reason": NOT_YET.get(i, "check not built yet in this round (model and correspondence pending); see DESIGN.md section 8 for the staging")})
    m = {
        "version": 1,
        "setup_cmd": "cd /verif/coq && coq_makefile -f _CoqProject -o Makefile && make -j16",
        "hooks": {
            "guard": "PY_TRIE_VERIF",
            "enable": "no source hooks are needed: the harness observes the implementation through its public API and dict subclasses passed as db",
            "baseline_off_cmd": "cd /repo && /venv/bin/python -m pytest -ra -q -p no:cacheprovider --timeout=900 --continue-on-collection-errors",
            "source_commits": [],
            "add_only": True,
        },
        "engines": [{
            "name": "coq-model+correspondence",
            "path": "/verif/check",
            "serves_properties": [c["property_id"] for c in checks],
            "kind_free_text": "Gallina models + Coq theorems (coq/theories), proof gate (coqc + Print Assumptions), differential correspondence against /repo evaluated with vm_compute, Python spec oracles",
        }],
        "checks": checks,
        "not_applicable": na,
        "notes": "See DESIGN.md. KNOWN_FINDINGS.json lists fixed/open findings.",
    }
    with open(os.path.join(VERIF, "MANIFEST.json"), "w") as f:
        json.dump(m, f, indent=1)
    print(f"{len(checks)} checks, {len(na)} not_applicable")


if __name__ == "__main__":
    main()
