"""Regenerates /verif/MANIFEST.json from the table below (run: /venv/bin/python -m harness.mkmanifest)."""
import json
import os

VERIF = os.path.dirname(os.path.dirname(os.path.abspath(__file__)))

NOTE = ("Trusted: Coq 8.16.1 kernel + vm_compute (no native_compute, no axioms: Print Assumptions parsed on every run); "
        "the hand-written Gallina model; the correspondence harness (generators, canonicalisation, literal printer, Python oracles). "
        "The theorems are about the model; this run's correspondence cases are what ties the model to /repo.")

# id -> (level text, technique, design ref, extra note)
CLAIMED = {
    "C01": ("Theorems (closed, all histories, ALL nibble paths incl. empty key / prefixes / extensions / mid-path divergence): the tree-level "
            "algorithms implement the map (C01_map, C01_exists, one-step laws); read and WRITE refinement of the database-level machine "
            "(Hexary/D.v) to the tree level: for every history of direct set/delete/set-to-empty from the empty database, pruning off or "
            "on, every call succeeds and get(k) = spec(k) for every byte-string key (C01_D_nonpruning, C01_D_pruning; premises: no "
            "collision among / size bound on the bodies the history writes); the same for histories that mix direct writes with squash_changes "
            "blocks, committed or aborted (C01_D_*_batched, by a simulation between the ScratchDB-backed batch trie and an exact plain trie). "
            "Blocks opened on a batch trie (nested squash_changes; defect D4, repaired) are modelled and generated: database-level theorems C05_abort_nested / C05_commit_nested / C17_nested_*; that the enclosing batch trie is again the trie of the effective writes, and blocks with a failing write, are tied by correspondence (implementation = D model = T model, evaluated in Coq) and the dict oracle.",
            "Coq proof (nested induction on the trie; fold over histories) + vm_compute correspondence of the D-level state machine", "5/C01", ""),
    "C02": ("Theorems (closed, every history, every hash function): canonical-shape invariant, canonical tree unique for its contents, "
            "history independence of the root, blank root for the empty mapping, and trun ops = Yellow-Paper construction yp_tree of the "
            "contents, hence root = yp_root; database level (C02_D): the root_hash attribute after any history of direct writes, pruning or "
            "not, is yp_root of the contents. Also after histories with committed / aborted squash_changes blocks (C02_D_batched). External anchors: ethereum/tests vectors "
            "evaluated with the Gallina Keccak-256. Run-time oracle: impl root = troot keccak256 (T run) = yp_root keccak256 (mapping), evaluated in Coq.",
            "Coq proof (invariant + uniqueness + specification equality) + in-Coq evaluation of the Yellow-Paper root for the oracle", "5/C02", ""),
    "C03": ("Theorems over the database-level model, any hash function, explicit finite no-collision premise: get_from_proof against ANY list "
            "of well-formed nodes and any root returns the true value or BadTrieProof (C03_sound); a withheld hashed node on the path gives "
            "BadTrieProof; get_proof verifies to exactly get(key) (C03_complete, with machine-checked counterexamples showing each premise "
            "is needed); proof nodes lie on the key's path; reads over content-addressed stores are deterministic.",
            "Coq proof (pure mirrors of the read path + determinism over content-addressed stores) + vm_compute correspondence with fault sequences", "5/C03", ""),
    "C04": ("Theorems over the database-level model: every set/delete/batch on a non-pruning trie, whatever its outcome incl. a failing write "
            "at any index, only adds entries keyed by the hash of their value, removes nothing, and moves the root only on success; reads of "
            "any root succeed identically on every super-store (old roots stay readable); end to end (C04_old_roots_after_history / _after_batch): "
            "under the finite no-collision premise over the bodies of the old and the new store, whatever could be read from ANY root before a "
            "history of calls or a whole squash_changes block - failing writes and a failing commit included - reads identically afterwards. "
            "Snapshots held open across writes of their parent, and two blocks open at once on one trie object, are run with Python-side oracles.",
            "Coq proof (effect discipline by induction on fuel; read monotonicity) + vm_compute correspondence over shared stores with write failures", "5/C04", ""),
    "C05": ("Theorems: leaving the block by an exception at any point restores root, database and reference counts exactly (C05_abort); a "
            "failing commit on a non-pruning trie keeps the root and every earlier entry; after a normal exit the outer trie is exactly the trie "
            "of the block's writes applied in order: pruning outer trie — counts and database stay exact (C05_commit_pruning); non-pruning — "
            "the new store represents the new tree, contains the old store, and every key it adds is a node of the FINAL tree, so no "
            "intermediate-only node is added (C05_commit_nonpruning). A block opened on a batch trie: leaving it by an exception leaves the enclosing "
            "batch trie exactly as it was (C05_abort_nested); its normal exit cannot fail, replays its buffer into the enclosing buffer and adopts "
            "root and counts (C05_commit_nested, per-key effect C17_nested_commit); exactness afterwards: correspondence + reachable-set oracle. "
            "Blocks are left by Exception subclasses, by a BaseException and by GeneratorExit, in plain contexts and while the caller handles an exception.",
            "Coq proof (ScratchDB wrapped-store invariance through every D-level function) + vm_compute correspondence with every abort point / failing commit write", "5/C05", ""),
    "C07": ("Theorems: on a sub-store every read gives the same result as on the complete store or a Missing* error naming a hash absent here "
            "and present there; reports are truthful (hash absent, correct root/key, prefix = exact nibble path to the reference); a failed "
            "set/delete leaves the whole state untouched (for the real hash; counterexample for a degenerate H machine-checked); the retry "
            "loop for get/traverse converges to the complete-store result asking only for missing path nodes, each once (C07_retry_get); "
            "set/delete over a sub-store give the same result and root as over the complete store or an atomic MissingTrieNode for a node "
            "absent here and present there (C07_same_or_missing_set/delete) and their retry loop converges, each node asked once, on "
            "non-pruning tries (C07_retry_set/delete). Pruning tries: after any history from the empty pruning trie and for every sub-store "
            "of its exact database, a write is the complete-store outcome or the atomic report (never ValidationError) and the retry loop "
            "converges (C07_prune_history); over arbitrary store pairs only the three-outcome theorem C07_write_outcomes_* holds.",
            "Coq proof + vm_compute correspondence over every single-node and random-subset removal", "5/C07", ""),
    "C08": ("Theorems (tree level, every canonical trie, every path): blank iff no key below; the node at a path is the canonical sub-trie; what "
            "a caller sees (incl. simulated nodes) is the annotation of THE canonical node for the keys below; partial-path fields; "
            "traverse_from composes; root_node. Database level: traverse and traverse_from refine the tree level (C08_traverse_refines, "
            "C08_traverse_from_refines); read accounting: the keys traverse_from looks up are at most one per child hop (C08_reads_one_per_hop) and are "
            "everything it reads - on any database agreeing at those keys it returns the same result (C08_reads_only); the model's read list is "
            "compared with reads counted through a proxy db. Run-time oracle: the Yellow-Paper description evaluated in Coq.",
            "Coq proof (structural induction, canonical uniqueness) + vm_compute correspondence + in-Coq specification oracle", "5/C08", ""),
    "C10": ("Theorems (tree level): items = contents, strictly ascending, each once; next(k) / next() are the strict successor / minimum by "
            "the mirrored _get_key_after / _get_next_key; nodes() preorder = ascending prefixes, each node exactly once and equal to "
            "traverse(prefix). Database level (Fog/Walk_proofs.v): the fog loop of nodes() with its frontier cache returns exactly tnodes "
            "(C10_D_nodes), items() the stored pairs in ascending byte order (C10_D_items*), next(k)/next() the least stored byte key above k "
            "/ the least key (C10_D_next_*), on every store representing a canonical tree with even-length keys (which the byte API guarantees).",
            "Coq proof + vm_compute correspondence + in-Coq specification oracle", "5/C10", ""),
    "C12": ("Theorems (tree-level mirror of _set/_set_kv_node/_set_branch_node, every history over non-empty keys, every H): get = map model "
            "with the refusal rule; delete/delete_subtrie semantics incl. when they may be refused; a refused call changes nothing; the tree "
            "is the canonical construction of its contents, hence root = bin_root, history independent, blank when empty. Database level "
            "(Binary/BinD_write.v, C12_D_history / C12_D_raise / C12_D_append_only): for every history the stored root, every read, every "
            "earlier root and every raising call of the byte-store machine agree with the tree level; the store is append-only. The "
            "root_node getter/setter is in the model and tied by correspondence.",
            "Coq proof + vm_compute correspondence + in-Coq canonical-root oracle", "5/C12", ""),
    "C18": ("Theorems: in the API-layer model every call with an ill-typed / ill-sized argument returns the same state and the stated exception "
            "class (immediate from the definitions, as DESIGN says). The assurance for the code is the exhaustive correspondence: every "
            "public entry point x argument position x ill-typed kind x prior history, with the public API re-derived from the classes.",
            "Coq proof (by computation) + exhaustive vm_compute correspondence", "5/C18", ""),
    "C06": ("Theorem C06_exact (write refinement for pruning tries): after every history of direct set/delete/set-to-empty from the empty "
            "database, reference counts = occurrence counts of the tree-level result, the database holds exactly its nodes, every key is "
            "readable and the root is yp_root — under an explicit executable no-collision premise. Plus the bookkeeping layer "
            "(C06_accounting, _complete_pruning spec, regenerate only counts what it read). C06_exact_batched: the same exactness after "
            "histories that also contain committed / aborted squash_changes blocks. Run-time oracle: == regenerate_ref_count and == db key set after every call.",
            "Coq proof (multiset/count arithmetic through the monadic model) + vm_compute correspondence + regenerate oracle after every call", "5/C06", ""),
    "C09": ("Theorems (tree-level LTS, every schedule = every exploration order, every interleaving with set/delete, reads of current or stale "
            "versions, simulated nodes): stable keys are met or still covered by the fog; complete fog => all stable keys met; no ghosts; "
            "static trie => met == contents, each once; a step is always enabled; at most 17^(L+1) steps; the walk can always be finished. "
            "The database-level walk (db reads, the concrete TrieFrontierCache incl. simulated parents, pruning and the MissingTraversalNode "
            "stutter) is proved to refine that system (Fog/DWalk_proofs.v: C09_D_refines), so all of the above holds of every run of the "
            "database-level model (C09_D, C09_D_step_bound, C09_D_can_finish); the model is tied to the code by correspondence.",
            "Coq proof (invariant over arbitrary schedules + potential function) + vm_compute correspondence of the D-level walk", "5/C09", ""),
    "C13": ("Theorems (database-level model vs the tree it represents, any H with 32-byte outputs): get_branch refuses only absent "
            "prefix-related keys and otherwise yields trie nodes validating the trie's own answer; ANY offered branch validates only the true "
            "answer (explicit finite no-collision premise); check_if_branch_exist <=> some key starts with p; get_trie_nodes = all nodes; "
            "witness = trie nodes sufficient for every key below the prefix, refused only past a leaf.",
            "Coq proof (representation relation + determinism over content-addressed stores) + vm_compute correspondence with forged branches", "5/C13", ""),
    "C11": ("Theorems (closed): sorted prefix-free invariant of every reachable fog, explore = set replacement, exact rejection conditions, "
            "commutation of independent explorations, mark_all_complete = repeated explore, is_complete, serialize round trip, full "
            "specifications of nearest_unknown / nearest_right incl. when each exception is raised. Model = pure functions; receiver "
            "immutability observed on the implementation.",
            "Coq proof over the sorted-list model + vm_compute correspondence + independent set-based oracle", "5/C11", ""),
    "C14": ("Theorems for the real Keccak-256 model under an explicit, executable no-collision premise on the bodies a history writes: "
            "root = Merkle root of the full depth-8*key_size tree of last-written values for every history, key size 1..32 and default; "
            "history independence; cleared = initial; get/exists/branch/calc_root/from_db; returned path hashes; merkle_sparse = merkle.",
            "Coq proof (representation invariant reprS, induction over histories) + vm_compute correspondence + in-Coq merkle_sparse oracle", "5/C14", ""),
    "C15": ("Theorems (same premises as C14): a proof created from the tree and fed every update (own key, other keys differing at any bit, "
            "deletes, truncated lists longer than the first differing bit) stays equal to the tree's value/branch/root; shorter lists are "
            "rejected with ValidationError.",
            "Coq proof (in_sync invariant over update streams) + vm_compute correspondence", "5/C15", ""),
    "C16": ("Theorems (closed, unbounded): encode_nibbles = Yellow-Paper HP, decode inverse, injectivity, re-encoding of well-formed HP "
            "strings, bytes<->nibbles and bytes<->bits inverses, key-path packing round trip for every bit string, binary node "
            "encode/parse round trips, exact InvalidNode conditions, hexary node classification and key extraction. Correspondence is "
            "exhaustive up to a bound and random beyond, incl. a malformed stream; also Keccak-256 and RLP against eth_hash / rlp.",
            "Coq proof + exhaustive/random vm_compute correspondence", "5/C16", ""),
    "C17": ("Machine-checked theorems over the ScratchDB state-machine model for all wrapped stores, all operation lists, all keys, "
            "both do_deletes values and abort at any position (C17_no_write_during, C17_read, C17_contains, C17_copy, C17_commit, C17_abort); also for a "
            "ScratchDB whose wrapped database is itself a ScratchDB (C17_nested_read, C17_nested_commit); "
            "model tied to trie/utils/db.py by differential runs with an independent last-action oracle.",
            "Coq proof by induction over the operation list + vm_compute correspondence against /repo",
            "5/C17", ""),
}

NOT_YET = {
}


def main():
    props = [json.loads(l) for l in open(os.path.join(VERIF, "properties.jsonl"))]
    checks, na = [], []
    for p in props:
        i = p["id"]
        if i in CLAIMED:
            text, tech, ref, extra = CLAIMED[i]
            checks.append({
                "property_id": i,
                "quick_cmd": f"./check {i} --tier quick",
                "thorough_cmd": f"./check {i} --tier thorough",
                "evidence_file": f"/verif/evidence/{i}.json",
                "replay_cmd_template": f"./check {i} --replay {{path}}",
                "engine": "coq-model+correspondence",
                "level_claimed": {"category": "proof", "text": text, "design_ref": f"DESIGN.md section {ref}"},
                "level_note": NOTE + (" " + extra if extra else ""),
                "technique": tech,
            })
        else:
            na.append({"property_id": i, "reason": NOT_YET.get(i, "check not built yet in this round (model and correspondence pending); see DESIGN.md section 8 for the staging")})
    m = {
        "version": 1,
        "setup_cmd": "cd /verif/coq && coq_makefile -f _CoqProject -o Makefile && make -j16",
        "hooks": {
            "guard": "PY_TRIE_VERIF",
            "enable": "no source hooks are needed: the harness observes the implementation through its public API and dict subclasses passed as db",
            "baseline_off_cmd": "cd /repo && /venv/bin/python -m pytest -ra -q -p no:cacheprovider --timeout=900 --continue-on-collection-errors",
            "source_commits": [],
            "add_only": True,
        },
        "engines": [{
            "name": "coq-model+correspondence",
            "path": "/verif/check",
            "serves_properties": [c["property_id"] for c in checks],
            "kind_free_text": "Gallina models + Coq theorems (coq/theories), proof gate (coqc + Print Assumptions), differential correspondence against /repo evaluated with vm_compute, Python spec oracles",
        }],
        "checks": checks,
        "not_applicable": na,
        "notes": "See DESIGN.md. KNOWN_FINDINGS.json lists fixed/open findings.",
    }
    with open(os.path.join(VERIF, "MANIFEST.json"), "w") as f:
        json.dump(m, f, indent=1)
    print(f"{len(checks)} checks, {len(na)} not_applicable")


if __name__ == "__main__":
    main()
