"""Regenerates /verif/MANIFEST.json from the table below (run: /venv/bin/python -m harness.mkmanifest)."""
import json
import os

VERIF = os.path.dirname(os.path.dirname(os.path.abspath(__file__)))

NOTE = ("Trusted: Coq 8.16.1 kernel + vm_compute (no native_compute, no axioms: Print Assumptions parsed on every run); "
        "the hand-written Gallina model; the correspondence harness (generators, canonicalisation, literal printer, Python oracles). "
        "The theorems are about the model; this run's correspondence cases are what ties the model to /repo.")

# id -> (level text, technique, design ref, extra note)
CLAIMED = {
    "C17": ("Machine-checked theorems over the ScratchDB state-machine model for all wrapped stores, all operation lists, all keys, "
            "both do_deletes values and abort at any position (C17_no_write_during, C17_read, C17_contains, C17_commit, C17_abort); "
            "model tied to trie/utils/db.py by differential runs with an independent last-action oracle.",
            "Coq proof by induction over the operation list + vm_compute correspondence against /repo",
            "5/C17", ""),
}

NOT_YET = {
}


def main():
    props = [json.loads(l) for l in open(os.path.join(VERIF, "properties.jsonl"))]
    checks, na = [], []
    for p in props:
        i = p["id"]
        if i in CLAIMED:
            text, tech, ref, extra = CLAIMED[i]
            checks.append({
                "property_id": i,
                "quick_cmd": f"./check {i} --tier quick",
                "thorough_cmd": f"./check {i} --tier thorough",
                "evidence_file": f"/verif/evidence/{i}.json",
                "replay_cmd_template": f"./check {i} --replay {{path}}",
                "engine": "coq-model+correspondence",
                "level_claimed": {"category": "proof", "text": text, "design_ref": f"DESIGN.md section {ref}"},
                "level_note": NOTE + (" " + extra if extra else ""),
                "technique": tech,
            })
        else:
            na.append({"property_id": i, "reason": NOT_YET.get(i, "check not built yet in this round (model and correspondence pending); see DESIGN.md section 8 for the staging")})
    m = {
        "version": 1,
        "setup_cmd": "cd /verif/coq && coq_makefile -f _CoqProject -o Makefile && make -j16",
        "hooks": {
            "guard": "PY_TRIE_VERIF",
            "enable": "no source hooks are needed: the harness observes the implementation through its public API and dict subclasses passed as db",
            "baseline_off_cmd": "cd /repo && /venv/bin/python -m pytest -ra -q -p no:cacheprovider --timeout=900 --continue-on-collection-errors",
            "source_commits": [],
            "add_only": True,
        },
        "engines": [{
            "name": "coq-model+correspondence",
            "path": "/verif/check",
            "serves_properties": [c["property_id"] for c in checks],
            "kind_free_text": "Gallina models + Coq theorems (coq/theories), proof gate (coqc + Print Assumptions), differential correspondence against /repo evaluated with vm_compute, Python spec oracles",
        }],
        "checks": checks,
        "not_applicable": na,
        "notes": "See DESIGN.md. KNOWN_FINDINGS.json lists fixed/open findings.",
    }
    with open(os.path.join(VERIF, "MANIFEST.json"), "w") as f:
        json.dump(m, f, indent=1)
    print(f"{len(checks)} checks, {len(na)} not_applicable")


if __name__ == "__main__":
    main()
