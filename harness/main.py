"""./check entry point: dispatch to harness/props/<id>.py"""
import argparse
import importlib
import json
import os
import sys
import traceback

from . import common


def main():
    ap = argparse.ArgumentParser()
    ap.add_argument("prop")
    ap.add_argument("--tier", default=os.environ.get("VERIF_TIER") or "quick", choices=["quick", "thorough"])
    ap.add_argument("--seed", type=int, default=None)
    ap.add_argument("--replay", default=None)
    a = ap.parse_args()
    seed = a.seed
    if seed is None:
        try:
            seed = int(os.environ.get("VERIF_SEED", "") or 20261001)
        except ValueError:
            seed = 20261001
    prop = a.prop.upper()
    common.import_trie()
    mod = importlib.import_module(f"harness.props.{prop.lower()}")
    if a.replay:
        payload = json.load(open(a.replay))
        rc = mod.replay(common.from_json(payload["payload"]))
        sys.exit(rc)
    try:
        rc = mod.check(a.tier, seed)
    except Exception:
        # a crash of the machinery is not a verdict on the code; say so loudly and fail
        traceback.print_exc()
        print(f"[{prop}] harness error (no verdict)")
        rc = 2
    sys.exit(rc)


if __name__ == "__main__":
    main()
