"""./check entry point: dispatch to harness/props/<id>.py"""
import argparse
import importlib
import json
import os
import sys
import traceback

from . import common


def main():
    ap = argparse.ArgumentParser()
    ap.add_argument("prop")
    ap.add_argument("--tier", default=os.environ.get("VERIF_TIER") or "quick", choices=["quick", "thorough"])
    ap.add_argument("--seed", type=int, default=None)
    ap.add_argument("--replay", default=None)
    a = ap.parse_args()
    seed = a.seed
    if seed is None:
        try:
            seed = int(os.environ.get("VERIF_SEED", "") or 20261001)
        except ValueError:
            seed = 20261001
    prop = a.prop.upper()
    common.import_trie()
    mod = importlib.import_module(f"harness.props.{prop.lower()}")
    if a.replay:
        payload = json.load(open(a.replay))
        rc = mod.replay(common.from_json(payload["payload"]))
        sys.exit(rc)
    try:
        import time
        t0 = time.time()
        changed = common.source_changed(prop)
        common.ESCALATION["changed"] = changed
        if changed:
            print(f"[{prop}] modelled source differs from the fingerprint the model was written against: "
                  + "; ".join(f"{f}: {', '.join(n[:6])}" for f, n in changed.items()))
        rc = mod.check(a.tier, seed)
        # The model was written against a particular source text. When that text has changed, agreement on the usual
        # sample says less than it did: re-run the generators with further seeds (bounded in time) before concluding.
        extra = 0
        while rc == 0 and changed and a.tier == "quick" and extra < 5 and time.time() - t0 < float(os.environ.get("VERIF_ESCALATE_S", "200")):
            extra += 1
            print(f"[{prop}] source changed: extra run {extra} (seed {seed + 7919 * extra})")
            common.SPEC_VIOLATIONS_SO_FAR = 0
            rc = mod.check(a.tier, seed + 7919 * extra)
    except Exception:
        # The harness never crashes on the unchanged tree. If it does now, the code under test no
        # longer behaves as the harness (and hence the model) expects: the correspondence is broken
        # and no concrete failing input was produced.
        tb = traceback.format_exc()
        sys.stderr.write(tb)
        path = common.write_replay(prop, "correspondence", {"correspondence": "harness could not drive the implementation",
                                                           "traceback": tb[-4000:]})
        print(f"VIOLATION property={prop} replay={path} no-failing-input-found")
        print(f"[{prop}] FAIL: harness could not drive the implementation (see replay)")
        rc = 1
    sys.exit(rc)


if __name__ == "__main__":
    main()
