"""C01 — HexaryTrie behaves as a byte-string map under every history."""
import random

from .. import common as C
from .. import hexrun as HX

RULE = ("random histories of set / delete / set-to-empty (method and dict syntax), direct, batched and mixed, prune on/off, keys over "
        "a 5-symbol byte alphabet of length 0..4 (prefix-related keys common) or a 20/32-byte pool with shared prefixes, values "
        "spanning the 32-byte embedding threshold; after every write: get/exists of every stored key, every proper prefix, two "
        "one-byte extensions, the empty key; root/db/refcount digests. non-trivial = the trie reached a branch, an extension and "
        "a hashed child, and an absent prefix key was looked up")


def gen_history(rng, tier, force=None):
    prune = rng.random() < 0.5
    mode = rng.choice(["direct", "batched", "mixed"])
    if force:
        prune, mode = force
    long_pool = HX.make_long_pool(rng) if rng.random() < 0.25 else None
    nw = rng.randint(3, 10) if tier == "quick" else rng.randint(5, 30)
    model = {}
    ops = []
    HX.pick_alphabet(rng)
    fan = HX.gen_fan(rng) if rng.random() < 0.08 else None

    def probes(inside):
        ks = HX.related_keys(model.keys())
        if len(ks) > 14:
            ks = rng.sample(ks, 14)
        out = []
        for k in ks:
            out.append((rng.choice(["get", "get", "exists"]), k, rng.choice(["meth", "item"])))
        out.append(("get", HX.gen_key(rng, long_pool), "meth"))
        if not inside:
            out.append(("state",))
        return out

    if fan:
        # a full 16-child branch, thinned out again (direct, or the thinning inside a batch)
        cut = 16 + (1 if len(fan) > 16 and fan[16][0] == "set" else 0) if mode != "direct" else len(fan)
        for w in fan[:cut]:
            HX.apply_model(model, w)
            ops.append(w)
        if fan[cut:]:
            for w in fan[cut:]:
                HX.apply_model(model, w)
            ops.append(("batch", fan[cut:], None))
        ops.extend(probes(False))
        nw = max(2, nw // 2)
    elif rng.random() < 0.15:
        # two identical hashed leaves, then removal of one (direct, or inside a batch)
        fam = HX.gen_shared_family(rng)
        if mode != "direct" and rng.random() < 0.5:
            for w in fam:
                HX.apply_model(model, w)
            ops.append(("batch", fam, None))
            ops.extend(probes(False))
        else:
            split = rng.randint(1, len(fam) - 1)
            for w in fam[:split]:
                HX.apply_model(model, w)
                ops.append(w)
            rest = fam[split:]
            if mode != "direct" and rng.random() < 0.5:
                for w in rest:
                    HX.apply_model(model, w)
                ops.append(("batch", rest, None))
            else:
                for w in rest:
                    HX.apply_model(model, w)
                    ops.append(w)
            ops.extend(probes(False))
    if mode != "direct" and rng.random() < 0.1:
        prior, body = HX.gen_there_and_back(rng)
        for w in prior:
            HX.apply_model(model, w)
            ops.append(w)
        op = ("batch", body, None)
        HX.apply_model(model, op)
        ops.append(op)
        ops.extend(probes(False))
    i = 0
    while i < nw:
        batched = mode == "batched" or (mode == "mixed" and rng.random() < 0.4)
        if batched:
            n = rng.randint(1, 4)
            inner = []
            saved_before = dict(model)
            for _ in range(n):
                w = HX.gen_write(rng, model.keys(), long_pool)
                HX.apply_model(model, w)
                inner.append(w)
                inner.extend(probes(True)[:4])
                i += 1
            # sometimes part of the block is itself a squash_changes block on the batch trie (committed or aborted)
            inner = HX.nest_some(rng, inner, 0.3)
            model.clear()
            model.update(saved_before)
            for w in inner:
                HX.apply_model(model, w)
            ops.append(("batch", inner, None))
        else:
            w = HX.gen_write(rng, model.keys(), long_pool)
            HX.apply_model(model, w)
            ops.append(w)
            i += 1
        ops.extend(probes(False))
    if rng.random() < 0.35:
        # there and back WITHOUT lookups in between: reads at some root R, then writes that change the trie and writes that
        # restore exactly the earlier mapping (so the root is R again), then reads. Anything remembered from the first reads
        # (a decoded node, a memoised result) is stale by then unless it is content-addressed AND immutable.
        quiet = []
        if model and rng.random() < 0.5:
            k = rng.choice(sorted(model))
            old = model[k]
            quiet = [("del", k, rng.choice(["meth", "item"])), ("set", k, old, rng.choice(["meth", "item"]))]
        else:
            k = HX.gen_key(rng, long_pool)
            if k not in model:
                quiet = [("set", k, HX.gen_value(rng), "meth"), ("del", k, "item")]
        if quiet:
            if mode != "direct" and rng.random() < 0.3:
                ops.append(("batch", quiet + [("get", k, "meth")], None))
            else:
                ops.extend(quiet)
            ops.append(("get", k, "meth"))
            ops.append(("exists", k, "item"))
            ops.extend(probes(False))
    return {"prune": prune, "ops": ops, "mode": mode}


def oracle(ops, outs, model=None):
    """S(I): every get/exists answer equals the dict's; no lookup or write raises."""
    model = {} if model is None else model
    for op, out in zip(ops, outs):
        k = op[0]
        if k in ("set", "del"):
            if out is not None:
                return f"{k} raised {out!r} on a complete database"
            HX.apply_model(model, op)
        elif k == "get":
            exp = model.get(op[1], b"")
            if out != exp:
                return f"get({op[1].hex()}) returned {out!r}, map holds {exp!r}"
        elif k == "exists":
            exp = op[1] in model
            if out != exp:
                return f"exists({op[1].hex()}) returned {out!r}, map says {exp!r}"
        elif k == "batch":
            inner_outs, res = out
            if op[2] is None:
                bad = oracle(op[1], inner_outs, model)
                if bad:
                    return "inside batch: " + bad
                if res is not None:
                    return f"batch commit raised {res!r}"
            else:
                m2 = dict(model)
                bad = oracle(op[1][: op[2]], inner_outs, m2)
                if bad:
                    return "inside aborted batch: " + bad
    return None


def corpus():
    d1 = [("set", b"\x12\x34\x56", b"a" * 40), ("set", b"\x12\x34\x57", b"b" * 40), ("get", b"\x12"), ("exists", b"\x12\x34"),
          ("get", b"\x12\x34\x56"), ("get", b""), ("state",)]
    c = [{"prune": p, "ops": d1, "mode": "direct"} for p in (False, True)]
    c.append({"prune": True, "mode": "batched", "ops": [("batch", d1[:-1], None), ("get", b"\x12"), ("state",)]})
    c.append({"prune": False, "mode": "direct", "ops": [
        ("set", b"", b"v"), ("set", b"\x01", b"w" * 33), ("set", b"\x01\x00", b"x"), ("get", b""), ("get", b"\x01"),
        ("del", b"\x01"), ("get", b"\x01"), ("get", b"\x01\x00"), ("set", b"", b""), ("get", b""), ("state",)]})
    # a key whose value sits in a hashed branch behind an extension, overwritten with another value of the same length
    ow = [("set", b"\x12\x34\x10", b"b" * 40), ("set", b"\x12\x34\x20", b"c" * 40), ("set", b"\x12\x34", b"1" * 32),
          ("set", b"\x12\x34", b"2" * 32), ("get", b"\x12\x34"), ("set", b"\x12\x34\x10", b"d" * 40), ("get", b"\x12\x34\x10"),
          ("get", b"\x12\x34\x20"), ("state",)]
    c += [{"prune": p, "ops": ow, "mode": "direct"} for p in (False, True)]
    c.append({"prune": False, "mode": "batched", "ops": [("batch", ow[:3], None), ("batch", ow[3:-1], None), ("get", b"\x12\x34"), ("state",)]})
    # a squash_changes block opened on the batch trie (D4)
    c.append({"prune": True, "mode": "batched", "ops": [
        ("set", b"\x01\x01", b"a" * 40), ("set", b"\x01\x02", b"b" * 40),
        ("batch", [("set", b"\x02", b"c" * 40), ("batch", [("set", b"\x03", b"d" * 40), ("del", b"\x01\x01")], None),
                   ("get", b"\x03"), ("get", b"\x01\x01"), ("batch", [("set", b"\x04", b"e")], 1), ("get", b"\x04")], None),
        ("get", b"\x03"), ("get", b"\x01\x01"), ("get", b"\x02"), ("get", b"\x04"), ("state",)]})
    return c


def nontrivial(case, backing, root, outs):
    kinds = HX.classify_trie(backing, root)
    return kinds["branch"] > 0 and kinds["ext"] > 0 and kinds["hashed_child"] > 1


def run_case(case):
    outs, t, backing = HX.run_history(case["prune"], case["ops"])
    return outs, t, backing


class SubBytes(bytes):
    """a proper subclass of bytes (like hexbytes.HexBytes): a legal key / value wherever bytes are"""


def subify(o):
    if type(o) is bytes:
        return SubBytes(o)
    if isinstance(o, tuple):
        return tuple(subify(x) for x in o)
    if isinstance(o, list):
        return [subify(x) for x in o]
    return o


def subclass_check(prune, ops, outs):
    """the same history with every key and value an instance of a bytes subclass gives the same results, roots and stores"""
    alt = HX.run_history(prune, subify(ops))[0]
    if alt != outs:
        i = next((j for j, (a, b) in enumerate(zip(alt, outs)) if a != b), None)
        return f"history behaves differently when keys / values are instances of a bytes subclass (first difference at step {i}: {alt[i]!r} vs {outs[i]!r})"
    return None


def check(tier, seed):
    R = C.Reporter("C01", tier, seed)
    R.gate = C.proof_gate("C01")
    rng = random.Random(seed)
    n = 160 if tier == "quick" else 2500
    cases = corpus() + [gen_history(rng, tier) for _ in range(n)]
    terms = []
    for case in cases:
        outs, t, backing = run_case(case)
        R.evaluations += 1
        R.count(f"mode_{case['mode']}_prune_{int(case['prune'])}")
        bad = oracle(case["ops"], outs)
        if bad:
            small = C.shrink_list(case["ops"], lambda ops: oracle(ops, HX.run_history(case["prune"], ops)[0]) is not None)
            R.spec_violations.append((oracle(small, HX.run_history(case["prune"], small)[0]) or bad,
                                      {"prune": case["prune"], "ops": small}))
        if not bad and (tier == "quick" or R.evaluations % 4 == 0):
            bad = subclass_check(case["prune"], case["ops"], outs)
            if bad:
                R.spec_violations.append((bad, {"prune": case["prune"], "ops": case["ops"], "subclass": True}))
        if nontrivial(case, backing, t.root_hash, outs):
            R.nontrivial.add(C.case_key(case["ops"]))
            if len(R.samples) < 2:
                R.samples.append(C.to_json({"prune": case["prune"], "ops": case["ops"][:12]}))
        for kk, vv in HX.classify_trie(backing, t.root_hash).items():
            R.count("final_" + kk, vv)
        terms.append(HX.coq_case(case["prune"], case["ops"], outs))
    shard = 8 if tier == "quick" else 20
    mism, errs, nsh = C.eval_cases("C01", "cases", HX.IMPORTS, "hexary_run", "bool * list hop", terms, shard=shard)
    R.shards, R.coq_errors = nsh, errs
    R.shards_ok = nsh - len(errs) - len({m // shard for m in mism})
    for m in mism[:3]:
        R.corr_mismatches.append(("impl≠model at HexaryTrie history (results / root / db digest / refcount digest)",
                                  {"prune": cases[m]["prune"], "ops": cases[m]["ops"]},
                                  {"impl": run_case(cases[m])[0],
                                   "model": C.eval_show("C01", "cases", HX.IMPORTS, "hexary_run", "bool * list hop", terms[m])}))

    def search():
        r2 = random.Random(seed + 7)
        for _ in range(3000):
            c = gen_history(r2, "thorough")
            bad = oracle(c["ops"], run_case(c)[0])
            if bad:
                return bad, {"prune": c["prune"], "ops": c["ops"]}
        return None

    return R.finish(RULE, search=search,
                    partial_note="C01_D_nonpruning / C01_D_pruning / C01_D_*_batched (database-level machine = map for every history of direct writes and "
                                 "committed / aborted blocks) are proved; nested blocks, blocks with a failing write, method vs dict syntax and the "
                                 "calling context rest on this run's correspondence and the dict oracle")


def replay(payload):
    case = payload["case"]
    ops = [tuplify(o) for o in case["ops"]]
    outs, _, _ = HX.run_history(case["prune"], ops)
    bad = oracle(ops, outs)
    if not bad and case.get("subclass"):
        bad = subclass_check(case["prune"], ops, outs)
    print("replay:", "VIOLATES: " + bad if bad else "holds")
    return 1 if bad else 0


def tuplify(o):
    o = list(o)
    if o[0] in ("batch",):
        return ("batch", [tuplify(x) for x in o[1]], o[2])
    if o[0] == "at_root":
        return ("at_root", o[1], [tuplify(x) for x in o[2]])
    return tuple(o)
